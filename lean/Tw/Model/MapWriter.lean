import Tw.Model.Map

/-
An independent *writer* model for maps (the item kinds `map/src/reader.rs` exposes): version,
info, images, envelopes (opaque), groups, layers (tile layers of every kind, quad layers, sound
layers), sounds (opaque), and the data blocks.  Every item is written in the newest layout the
reader knows (group v3, tile layer v3 + the five race/ddrace data words, quads v2, sounds v2,
image v1, info v1 + settings word).  Index fields are relative to the first item of the kind they
refer to, as in the file format.
-/
namespace Tw.Map
open Tw.Datafile Tw.Gen.MapItems

def optIdx : Option Nat → Int
  | none => -1
  | some n => (n : Int)

inductive WTileKind where
  | normal | game
  | teleport (d : Nat) | speedup (d : Nat) | front (d : Nat) | switch (d : Nat) | tune (d : Nat)
  deriving Repr, DecidableEq

def WTileKind.flags : WTileKind → Nat
  | .normal => 0
  | .game => TILELAYERFLAG_GAME
  | .teleport _ => TILELAYERFLAG_TELEPORT
  | .speedup _ => TILELAYERFLAG_SPEEDUP
  | .front _ => TILELAYERFLAG_FRONT
  | .switch _ => TILELAYERFLAG_SWITCH
  | .tune _ => TILELAYERFLAG_TUNE

/-- the five extra data words after a version-3 tile layer -/
def WTileKind.extra : WTileKind → List Int
  | .teleport d => [(d : Int), -1, -1, -1, -1]
  | .speedup d => [-1, (d : Int), -1, -1, -1]
  | .front d => [-1, -1, (d : Int), -1, -1]
  | .switch d => [-1, -1, -1, (d : Int), -1]
  | .tune d => [-1, -1, -1, -1, (d : Int)]
  | _ => [-1, -1, -1, -1, -1]

structure WTilemap where
  width : Nat
  height : Nat
  kind : WTileKind
  color : Nat × Nat × Nat × Nat
  colorEnv : Option (Nat × Int)
  image : Option Nat
  data : Nat
  name : Int × Int × Int
  deriving Repr

structure WQuads where
  numQuads : Nat
  data : Nat
  image : Option Nat
  name : Int × Int × Int
  deriving Repr

structure WSounds where
  numSources : Nat
  data : Nat
  sound : Option Nat
  name : Int × Int × Int
  deriving Repr

inductive WLayerKind where
  | tilemap (t : WTilemap)
  | quads (q : WQuads)
  | sounds (s : WSounds)
  deriving Repr

structure WLayer where
  detail : Bool
  kind : WLayerKind
  deriving Repr

structure WGroup where
  offsetX : Int
  offsetY : Int
  parallaxX : Int
  parallaxY : Int
  clipping : Option (Int × Int × Int × Int)
  name : Int × Int × Int
  numLayers : Nat
  deriving Repr

structure WImage where
  width : Nat
  height : Nat
  name : Nat
  /-- `none`: external image -/
  data : Option Nat
  deriving Repr

structure WInfo where
  author : Option Nat
  version : Option Nat
  credits : Option Nat
  license : Option Nat
  settings : Option Nat
  deriving Repr

structure WMap where
  info : WInfo
  images : List WImage
  numEnvelopes : Nat
  /-- groups in order; group `i` owns the next `numLayers` layers of `layers` -/
  groups : List WGroup
  layers : List WLayer
  numSounds : Nat
  datas : List (List UInt8)
  deriving Repr

def nameW (n : Int × Int × Int) : List Int := [n.1, n.2.1, n.2.2]

def versionItem : Item := { typeId := MAP_ITEMTYPE_VERSION, id := 0, data := [1] }

def infoItem (i : WInfo) : Item :=
  { typeId := MAP_ITEMTYPE_INFO, id := 0,
    data := [1, optIdx i.author, optIdx i.version, optIdx i.credits, optIdx i.license, optIdx i.settings] }

def imageItem (k : Nat) (im : WImage) : Item :=
  { typeId := MAP_ITEMTYPE_IMAGE, id := k,
    data := [1, (im.width : Int), (im.height : Int), (if im.data.isNone then 1 else 0), (im.name : Int),
             optIdx im.data] }

def envelopeItem (k : Nat) : Item :=
  { typeId := MAP_ITEMTYPE_ENVELOPE, id := k, data := [1, 4, 0, 0, 0, 0, 0, 0, 0, 0, 0, 0] }

def soundItem (k : Nat) : Item :=
  { typeId := MAP_ITEMTYPE_DDRACE_SOUND, id := k, data := [1, 1, 0, -1, 0] }

def groupItem (k : Nat) (g : WGroup) (startLayer : Nat) : Item :=
  { typeId := MAP_ITEMTYPE_GROUP, id := k,
    data := [3, g.offsetX, g.offsetY, g.parallaxX, g.parallaxY, (startLayer : Int), (g.numLayers : Int)]
      ++ (match g.clipping with
          | some (x, y, w, h) => [1, x, y, w, h]
          | none => [0, 0, 0, 0, 0])
      ++ nameW g.name }

def layerType : WLayerKind → Int
  | .tilemap _ => (MAP_ITEMTYPE_LAYER_V1_TILEMAP : Int)
  | .quads _ => (MAP_ITEMTYPE_LAYER_V1_QUADS : Int)
  | .sounds _ => (MAP_ITEMTYPE_LAYER_V1_DDRACE_SOUNDS : Int)

/-- the words after `[layer version, type, flags]` -/
def layerRest : WLayerKind → List Int
  | .tilemap t =>
    [3, (t.width : Int), (t.height : Int), (t.kind.flags : Int),
     (t.color.1 : Int), (t.color.2.1 : Int), (t.color.2.2.1 : Int), (t.color.2.2.2 : Int),
     (match t.colorEnv with | some (e, _) => (e : Int) | none => -1),
     (match t.colorEnv with | some (_, o) => o | none => 0),
     optIdx t.image, (t.data : Int)] ++ nameW t.name ++ t.kind.extra
  | .quads q => [2, (q.numQuads : Int), (q.data : Int), optIdx q.image] ++ nameW q.name
  | .sounds s => [2, (s.numSources : Int), (s.data : Int), optIdx s.sound] ++ nameW s.name

/-- a layer item: `[layer version, type, flags, …]` -/
def layerItem (k : Nat) (l : WLayer) : Item :=
  { typeId := MAP_ITEMTYPE_LAYER, id := k,
    data := [0, layerType l.kind, (if l.detail then 1 else 0)] ++ layerRest l.kind }

/-- running start layer of each group -/
def groupStarts : Nat → List WGroup → List Nat
  | _, [] => []
  | s, g :: gs => s :: groupStarts (s + g.numLayers) gs

def enumFrom {α : Type} : Nat → List α → List (Nat × α)
  | _, [] => []
  | k, x :: xs => (k, x) :: enumFrom (k + 1) xs

/-- all items of the map, in type order -/
def mapItems (m : WMap) : List Item :=
  [versionItem, infoItem m.info]
    ++ (enumFrom 0 m.images).map (fun p => imageItem p.1 p.2)
    ++ (List.range m.numEnvelopes).map envelopeItem
    ++ (enumFrom 0 (m.groups.zip (groupStarts 0 m.groups))).map (fun p => groupItem p.1 p.2.1 p.2.2)
    ++ (enumFrom 0 m.layers).map (fun p => layerItem p.1 p.2)
    ++ (List.range m.numSounds).map soundItem

/-- the map file: a version-4 datafile -/
def writeMap (deflate : List UInt8 → List UInt8) (m : WMap) : List UInt8 :=
  writeDf 4 deflate (mapItems m) m.datas

def zname : Int × Int × Int := (-2139062144, -2139062144, -2139062144)
def aname : Int × Int × Int := (-1044266559, -2139062144, -2139062144)

def sampleTile (kind : WTileKind) (color : Nat × Nat × Nat × Nat) (env : Option (Nat × Int))
    (image : Option Nat) (name : Int × Int × Int) (detail : Bool) : WLayer :=
  WLayer.mk detail (WLayerKind.tilemap (WTilemap.mk 2 2 kind color env image 5 name))

/-- sample maps (used for the non-vacuity examples and, written out by the driver, as corpus
files that the real reader is run on) -/
def sampleMap (k : Nat) : WMap :=
  WMap.mk
    (WInfo.mk (some 0) none (if k % 2 = 0 then some 1 else none) none (some 2))
    [WImage.mk 2 1 3 (some 4), WImage.mk 1 1 3 none]
    (k % 3)
    [WGroup.mk (-1) 2 100 100 none zname 2,
     WGroup.mk 0 0 50 50 (some (1, 2, 3, 4)) aname (if k % 2 = 0 then 3 else 2)]
    ([sampleTile WTileKind.game (255, 255, 255, 255) none none zname false,
      sampleTile WTileKind.normal (1, 2, 3, 4) (if k % 3 = 0 then none else some (0, 7)) (some 1) aname true,
      WLayer.mk false (WLayerKind.quads (WQuads.mk 1 4 (some 0) zname)),
      sampleTile (WTileKind.teleport 6) (0, 0, 0, 0) none none zname false]
      ++ (if k % 2 = 0 then
            [WLayer.mk false (WLayerKind.sounds (WSounds.mk 1 4 (if k % 4 = 0 then some 0 else none) zname))]
          else []))
    (if k % 4 = 0 then 1 else 0)
    [[97, 0], [98, 99, 0], [120, 0, 121, 122, 0], [105, 109, 103, 0], [1, 2, 3, 4, 5, 6, 7, 8],
     [0, 0, 0, 0, 1, 0, 0, 0, 2, 0, 0, 0, 3, 0, 0, 0], [1, 10, 2, 11, 3, 12, 4, 13]]

end Tw.Map
