/-
The snapshot exchange of `Model/SnapMgr.lean` with the concrete snapshot layer of `Model/Snap.lean`
plugged in: `Delta::create`, `Delta::write` into the 64 KiB buffer of the server glue, `Delta::read`,
`Snap::read_with_delta`, `Snap::crc`, and the builder (`recycle`, `add_item`, `finish`).
Executable; used by the `snapmgrc` driver and by the C13 theorems about the concrete model.
-/
import Tw.Model.SnapMgr
import Tw.Model.Snap

namespace Tw.SnapMgr
open Tw.Snap Tw.SnapXfer

/-- the capacity `send_snapshots` reserves for the packed delta (`reserve(64 * 1024)` on an empty
`Vec`) -/
def writeCapacity : Nat := Tw.Gen.SnapMgr.glue_reserve

/-- one `add_item` call of the application -/
abbrev Item := TypeId × Nat × List Int

def resName {α : Type} : Res α → Except String α
  | .ok a => .ok a
  | .err e => .error e.name
  | .panic p => .error s!"PANIC:{p}"

/-- the snapshot layer as the protocol layer sees it -/
def execOps (objSize : Nat → Option Nat) (refGlue : Bool := false) : Ops Tw.Snap.Snap Tw.Snap.Delta where
  empty := Tw.Snap.Snap.empty
  create a b := createDelta a.raw b.raw
  write d :=
    match d.writeInts objSize with
    | none => none
    | some xs => if (packInts xs).length > writeCapacity then none else some (packInts xs)
  clear := Tw.Snap.Delta.empty
  read bs := (resName (readDelta objSize (.bytes bs))).map (·.1)
  apply a d := (resName (a.readWithDelta d)).map (·.1)
  crc s := s.crc
  same a b := decide (a = b)
  emptyWhenSame := refGlue

/-- the application's calls on the builder -/
def addItems : Builder → List Item → Outcome (Except String Tw.Snap.Snap)
  | b, [] => .ok (.ok b.snap)
  | b, (tid, id, data) :: r =>
    match b.addItem tid id data with
    | none => .panic "Builder::add_item"
    | some (b', none) => addItems b' r
    | some (_, some e) => .ok (.error e.name)

def execBuild : BuildOps Tw.Snap.Snap (List Item) where
  default := Tw.Snap.Snap.empty
  build seed items :=
    match seed.recycle with
    | none => .panic "Snap::recycle"
    | some b => addItems b items

end Tw.SnapMgr
