import Tw.Model.Huffman

/-
Model of `Huffman::from_frequencies` (`huffman/src/lib.rs`): 256 byte frequencies plus EOF with
frequency 1; repeatedly: stable sort descending, pop the two rarest, push their parent with the
saturated sum; then a depth-first traversal that writes `(bits, num_bits)` into every leaf, using an
explicit stack of capacity 24.  The 25th push is the `ArrayVec` capacity panic (defect D16: the
node encoding limits code lengths to 24 bits); it is an explicit `panic` outcome here.
-/
namespace Tw.Huffman

structure Freq where
  frequency : Nat
  nodeIdx : Nat
  deriving Repr, DecidableEq

/-- insert behind every element whose frequency is at least as large (stable, descending) -/
def insertDesc (x : Freq) : List Freq → List Freq
  | [] => [x]
  | y :: ys => if y.frequency ≥ x.frequency then y :: insertDesc x ys else x :: y :: ys

/-- `frequencies.sort_by(|a, b| b.frequency.cmp(&a.frequency))` (a stable sort) -/
def sortDesc (l : List Freq) : List Freq := l.foldl (fun acc x => insertDesc x acc) []

def U32_MAX : Nat := 4294967295

/-- the `while frequencies.len() > 1` loop; one element disappears per iteration, `fuel` is the
initial length -/
def buildTree : Nat → List Freq → Table → Table
  | 0, _, nodes => nodes
  | fuel + 1, fs, nodes =>
    if fs.length ≤ 1 then nodes
    else
      match (sortDesc fs).reverse with
      | f1 :: f2 :: restRev =>
        let sum := f1.frequency + f2.frequency
        let parent : Freq := ⟨if sum > U32_MAX then U32_MAX else sum, nodes.size⟩
        buildTree fuel (restRev.reverse ++ [parent]) (nodes.push (f1.nodeIdx, f2.nodeIdx))
      | _ => nodes

inductive FreqResult where
  | ok (t : Table)
  | panic (site : String)
  | diverge                  -- fuel exhausted (never observed; not a Rust outcome)
  deriving Repr

inductive Descend where
  | ok (stack : List Nat) (top : Nat)
  | panic (site : String)
  | diverge

/-- `while top >= NUM_SYMBOLS { stack.push(top); top = nodes[top].children[0]; }`
(`stack` has its top at the head) -/
def descend (nodes : Table) : Nat → List Nat → Nat → Descend
  | 0, _, _ => .diverge
  | fuel + 1, stack, top =>
    if top ≥ NUM_SYMBOLS then
      if stack.length ≥ 24 then .panic "stack.push: ArrayVec capacity (code longer than 24 bits)"
      else if top ≥ nodes.size then .panic "nodes[top]: index out of bounds"
      else descend nodes fuel (top :: stack) (node nodes top).1
    else .ok stack top

/-- the traversal loop of `from_frequencies_array` -/
def dfs (nodes : Table) : Nat → List Nat → Nat → Bool → FreqResult
  | 0, _, _, _ => .diverge
  | fuel + 1, stack, bits, first =>
    let assign (stack : List Nat) (top : Nat) (bits : Nat) : FreqResult :=
      match descend nodes 32 stack top with
      | .panic s => .panic s
      | .diverge => .diverge
      | .ok stack top =>
        if bits ≥ 2 ^ 24 then .panic "to_node: bits >> 24 == 0"
        else if top ≥ nodes.size then .panic "nodes[top]: index out of bounds"
        else dfs (nodes.set! top (stack.length * 256 + bits / 65536, bits % 65536)) fuel stack bits false
    if first then assign stack ROOT_IDX bits
    else
      match stack with
      | [] => .ok nodes
      | t :: stack' =>
        let b := 2 ^ stack'.length
        if (bits / b) % 2 = 1 then dfs nodes fuel stack' (bits - b) false
        else if t ≥ nodes.size then .panic "nodes[top]: index out of bounds"
        else assign (t :: stack') (node nodes t).2 (bits + b)

/-- `Huffman::from_frequencies` -/
def fromFrequencies (f : List Nat) : FreqResult :=
  if f.length ≠ 256 then .panic "frequencies.len() == 256"
  else
    let fs : List Freq := (f.zipIdx.map fun (x, i) => ⟨x, i⟩) ++ [⟨1, EOF⟩]
    let nodes := buildTree fs.length fs (Array.replicate NUM_SYMBOLS (65535, 65535))
    match dfs nodes 4096 [] 0 true with
    | .ok t => if t.size = NUM_NODES then .ok t else .panic "set_from == NUM_NODES"
    | r => r

end Tw.Huffman
