import Tw.Model.Packer
import Tw.Model.Huffman
import Tw.Gen.Huffman
import Tw.Gen.Demo

/-!
Model of the demo crate, low level: `demo/src/format.rs` (chunk header codec, `TickMarker::new`,
file header layout as documented in `doc/demo.md` and declared through `binrw`), `demo/src/writer.rs`
(`Writer`), `demo/src/reader.rs` (`Reader`).

Conventions: a file is a `List UInt8` (the harness uses an in-memory `Cursor`, so the only I/O error
is "unexpected end of file"); an `i32` is an `Int` satisfying `Packer.inI32`; every reachable Rust
`assert!`/`expect`/`panic!` is an explicit `panic` outcome.  After an error the reader is not used
again (`readAll` stops), so the position of the cursor after a failed read is not modelled.

The masks and flags are the regenerated constants of `Tw.Gen.Demo`; literal numbers that are not
constants in the source (30, 255, 4, the header field sizes) are tied in `Tw/Props/C15.lean`.
-/
namespace Tw.Demo
open Tw.Packer (toI32 inI32 readInt writeInt)
open Tw.Gen.Demo

abbrev Bytes := List UInt8

/-! ### fixed-width integers -/

/-- the `u32` bit pattern of an `i32` -/
def toU32 (v : Int) : Nat := (v % 4294967296).toNat

/-- big-endian bytes of a `u32` -/
def be32 (n : Nat) : Bytes :=
  [UInt8.ofNat (n / 16777216), UInt8.ofNat (n / 65536), UInt8.ofNat (n / 256), UInt8.ofNat n]

/-- little-endian bytes of a `u32` -/
def le32 (n : Nat) : Bytes :=
  [UInt8.ofNat n, UInt8.ofNat (n / 256), UInt8.ofNat (n / 65536), UInt8.ofNat (n / 16777216)]

/-- value of a big-endian byte string -/
def beVal (bs : Bytes) : Nat := bs.foldl (fun acc b => acc * 256 + b.toNat) 0

/-- `u32::from_le_bytes([a, b, c, d])` -/
def leVal4 (a b c d : UInt8) : Nat := a.toNat + 256 * b.toNat + 65536 * c.toNat + 16777216 * d.toNat

/-- `read_exact` of `n` bytes: `none` = unexpected end of file -/
def takeN (n : Nat) (bs : Bytes) : Option (Bytes × Bytes) :=
  if bs.length < n then none else some (bs.take n, bs.drop n)

/-! ### warnings, versions, chunks -/

inductive Warning where
  | nonAbsoluteTickmarkerTick
  | nonZeroTickmarkerPadding
  | overlongChunkSizeEncoding
  | unknownChunkType
  | weirdMapName
  | weirdNetVersion
  | weirdTimelineMarkerPadding
  | weirdTimestamp
  | message (w : Tw.Packer.Warning)
  deriving DecidableEq, Repr

def Warning.name : Warning → String
  | .nonAbsoluteTickmarkerTick => "NonAbsoluteTickmarkerTick"
  | .nonZeroTickmarkerPadding => "NonZeroTickmarkerPadding"
  | .overlongChunkSizeEncoding => "OverlongChunkSizeEncoding"
  | .unknownChunkType => "UnknownChunkType"
  | .weirdMapName => "WeirdMapName"
  | .weirdNetVersion => "WeirdNetVersion"
  | .weirdTimelineMarkerPadding => "WeirdTimelineMarkerPadding"
  | .weirdTimestamp => "WeirdTimestamp"
  | .message w => "Message(" ++ w.name ++ ")"

inductive Version where
  | v3 | v4 | v5 | v6
  deriving DecidableEq, Repr

def Version.num : Version → Nat
  | .v3 => 3 | .v4 => 4 | .v5 => 5 | .v6 => 6

def Version.ofByte (n : Nat) : Option Version :=
  if n = 3 then some .v3 else if n = 4 then some .v4 else if n = 5 then some .v5
  else if n = 6 then some .v6 else none

/-- `Version::max_tick_delta` -/
def Version.maxTickDelta : Version → Nat
  | .v3 | .v4 => CHUNKTICKMASK_TICK_V3
  | .v5 | .v6 => CHUNKTICKMASK_TICK_V5

/-- `const WRITER_VERSION` -/
def writerVersion : Version := .v5
/-- `const WRITER_VERSION_DDNET` -/
def writerVersionDdnet : Version := .v6

inductive DataKind where
  | snapshot | message | delta | unknown
  deriving DecidableEq, Repr

inductive TickMarker where
  | delta (d : Nat)
  | absolute (t : Int)
  deriving DecidableEq, Repr

inductive ChunkHeader where
  | tick (m : TickMarker) (keyframe : Bool)
  | data (kind : DataKind) (size : Nat)
  deriving DecidableEq, Repr

/-- `RawChunk` -/
inductive Chunk where
  | tick (tick : Int) (keyframe : Bool)
  | snapshot (d : Bytes)
  | delta (d : Bytes)
  | message (d : Bytes)
  | unknown
  deriving DecidableEq, Repr

/-! ### chunk header codec (`format.rs`) -/

/-- `TickMarker::new`; `none` = `assert!(tick > p)` fails -/
def TickMarker.new (tick : Int) (prev : Option Int) (keyframe : Bool) (v : Version) : Option TickMarker :=
  match prev with
  | none => some (.absolute tick)
  | some p =>
    if ¬ tick > p then none
    else
      -- `tick.checked_sub(p)`
      let d := tick - p
      if inI32 d ∧ keyframe = false ∧ d ≤ (v.maxTickDelta : Int) then some (.delta d.toNat)
      else some (.absolute tick)

def DataKind.flag : DataKind → Nat
  | .snapshot => CHUNKTYPE_SNAPSHOT
  | .message => CHUNKTYPE_MESSAGE
  | .delta => CHUNKTYPE_SNAPSHOTDELTA
  | .unknown => CHUNKTYPE_UNKNOWN

/-- `ChunkHeader::write` (always called with `WRITER_VERSION`); `none` = assertion panic.
`size` is a `u16`. -/
def ChunkHeader.write : ChunkHeader → Option Bytes
  | .tick (.delta dt) keyframe =>
    if dt ≤ writerVersion.maxTickDelta ∧ keyframe = false then
      some [UInt8.ofNat (CHUNKTYPEFLAG_TICKMARKER ||| CHUNKTICKFLAG_INLINETICK ||| dt)]
    else none
  | .tick (.absolute t) keyframe =>
    some (UInt8.ofNat (CHUNKTYPEFLAG_TICKMARKER ||| (if keyframe then CHUNKTICKFLAG_KEYFRAME else 0))
      :: be32 (toU32 t))
  | .data kind size =>
    if size < CHUNKSIZE_ONEBYTEFOLLOWS then some [UInt8.ofNat (kind.flag ||| size)]
    else if size ≤ 255 then some [UInt8.ofNat (kind.flag ||| CHUNKSIZE_ONEBYTEFOLLOWS), UInt8.ofNat size]
    else some [UInt8.ofNat (kind.flag ||| CHUNKSIZE_TWOBYTESFOLLOW), UInt8.ofNat size, UInt8.ofNat (size / 256)]

inductive HdrResult where
  | eof
  /-- `Err(UnexpectedEof)` inside the header; warnings raised before it -/
  | truncated (ws : List Warning)
  | ok (h : ChunkHeader) (rest : Bytes) (ws : List Warning)
  deriving Repr, DecidableEq

def tickResult (m : TickMarker) (keyframe : Bool) (rest : Bytes) (ws : List Warning) : HdrResult :=
  .ok (.tick m keyframe) rest
    (match m with
     | .delta _ => if keyframe then ws ++ [Warning.nonAbsoluteTickmarkerTick] else ws
     | .absolute _ => ws)

def readAbsolute (keyframe : Bool) (rest : Bytes) (ws : List Warning) : HdrResult :=
  match takeN 4 rest with
  | none => .truncated ws
  | some (b, rest') => tickResult (.absolute (toI32 (beVal b))) keyframe rest' ws

/-- the `match flags & CHUNKMASK_TYPE` of `ChunkHeader::read` -/
def kindOfBits (t : Nat) : DataKind :=
  if t = CHUNKTYPE_SNAPSHOT then .snapshot
  else if t = CHUNKTYPE_MESSAGE then .message
  else if t = CHUNKTYPE_SNAPSHOTDELTA then .delta
  else .unknown

/-- `ChunkHeader::read` -/
def readChunkHeader (v : Version) : Bytes → HdrResult
  | [] => .eof
  | f :: rest =>
    let flags := f.toNat
    if flags &&& CHUNKTYPEFLAG_TICKMARKER ≠ 0 then
      let keyframe : Bool := flags &&& CHUNKTICKFLAG_KEYFRAME ≠ 0
      if v.num ≥ 5 then
        if flags &&& CHUNKTICKFLAG_INLINETICK ≠ 0 then
          tickResult (.delta (flags &&& CHUNKTICKMASK_TICK_V5)) keyframe rest []
        else
          readAbsolute keyframe rest
            (if flags &&& CHUNKTICKMASK_TICK_V5 ≠ 0 then [Warning.nonZeroTickmarkerPadding] else [])
      else
        let legacy := flags &&& CHUNKTICKMASK_TICK_V3
        if legacy = 0 then readAbsolute keyframe rest []
        else tickResult (.delta legacy) keyframe rest []
    else
      let kind : DataKind := kindOfBits (flags &&& CHUNKMASK_TYPE)
      let ws : List Warning := if kind = .unknown then [Warning.unknownChunkType] else []
      let s := flags &&& CHUNKMASK_SIZE
      if s = CHUNKSIZE_ONEBYTEFOLLOWS then
        match rest with
        | [] => .truncated ws
        | b :: rest' =>
          .ok (.data kind b.toNat) rest'
            (if b.toNat < 30 then ws ++ [Warning.overlongChunkSizeEncoding] else ws)
      else if s = CHUNKSIZE_TWOBYTESFOLLOW then
        match rest with
        | lo :: hi :: rest' =>
          let size := lo.toNat + 256 * hi.toNat
          .ok (.data kind size) rest'
            (if size < 255 then ws ++ [Warning.overlongChunkSizeEncoding] else ws)
        | _ => .truncated ws
      else .ok (.data kind s) rest ws

/-! ### payload pipeline -/

def table := Tw.Gen.Huffman.table

/-! `Huffman.decompress` with the number of bytes produced carried along: the shared model
recomputes `out.length` at every output byte, which is quadratic when a damaged payload decodes up
to the 64 KiB capacity.  `Tw.Demo.decompressC_eq` (Proofs/Demo.lean) shows the two agree. -/

/-- `Huffman.decStep` with `n = out.length` -/
def decStepC (t : Tw.Huffman.Table) (cap nd n : Nat) (out : Bytes) (bit : Bool) : Tw.Huffman.StepResult × Nat :=
  let idx := if bit then (Tw.Huffman.node t nd).2 else (Tw.Huffman.node t nd).1
  if idx ≥ Tw.Huffman.NUM_SYMBOLS then (.cont idx out, n)
  else if idx = Tw.Huffman.EOF then (.done out, n)
  else if n ≥ cap then (.capacity, n)
  else (.cont Tw.Huffman.ROOT_IDX (UInt8.ofNat idx :: out), n + 1)

inductive BitsResultC where
  | more (node n : Nat) (out : Bytes)
  | fin (r : Tw.Huffman.DecResult)

def decBitsC (t : Tw.Huffman.Table) (cap : Nat) : Nat → Nat → Bytes → List Bool → BitsResultC
  | nd, n, out, [] => .more nd n out
  | nd, n, out, b :: bs =>
    match decStepC t cap nd n out b with
    | (.cont nd' out', n') => decBitsC t cap nd' n' out' bs
    | (.done out', _) => .fin (.ok out'.reverse)
    | (.capacity, _) => .fin .capacity

def decZerosC (t : Tw.Huffman.Table) (cap : Nat) : Nat → Nat → Nat → Bytes → Tw.Huffman.DecResult
  | 0, _, _, _ => .diverge
  | fuel + 1, nd, n, out =>
    match decStepC t cap nd n out false with
    | (.cont nd' out', n') => decZerosC t cap fuel nd' n' out'
    | (.done out', _) => .ok out'.reverse
    | (.capacity, _) => .capacity

/-- `Huffman::decompress` into a buffer of capacity `cap` -/
def decompressC (t : Tw.Huffman.Table) (input : Bytes) (cap : Nat) : Tw.Huffman.DecResult :=
  match decBitsC t cap Tw.Huffman.ROOT_IDX 0 [] (input.flatMap Tw.Huffman.byteBits) with
  | .fin r => r
  | .more nd n out => decZerosC t cap (Tw.Huffman.zeroFuel cap) nd n out

/-- `i32::from_le_bytes` -/
def leWord (a b c d : UInt8) : Int := toI32 (leVal4 a b c d)

/-- the integers `write_message` packs: 4-byte little-endian groups, the last one zero-filled -/
def msgInts : Bytes → List Int
  | [] => []
  | [a] => [leWord a 0 0 0]
  | [a, b] => [leWord a b 0 0]
  | [a, b, c] => [leWord a b c 0]
  | a :: b :: c :: d :: rest => leWord a b c d :: msgInts rest

/-- zero padding to a multiple of four bytes -/
def pad4 : Bytes → Bytes
  | [] => []
  | [a] => [a, 0, 0, 0]
  | [a, b] => [a, b, 0, 0]
  | [a, b, c] => [a, b, c, 0]
  | a :: b :: c :: d :: rest => a :: b :: c :: d :: pad4 rest

def packInts (vs : List Int) : Bytes := vs.flatMap writeInt

inductive ReadError where
  | unexpectedEof
  | huffmanCapacity
  | messageVarIntUnexpectedEnd
  | messageVarIntTooLong
  | notIncreasingTick
  | startingDeltaSnapshot
  | tickOverflow
  /-- a loop of the model ran out of fuel; shown impossible -/
  | diverge
  deriving DecidableEq, Repr

def ReadError.name : ReadError → String
  | .unexpectedEof => "UnexpectedEof"
  | .huffmanCapacity => "HuffmanCapacity"
  | .messageVarIntUnexpectedEnd => "MessageVarIntUnexpectedEnd"
  | .messageVarIntTooLong => "MessageVarIntTooLong"
  | .notIncreasingTick => "NotIncreasingTick"
  | .startingDeltaSnapshot => "StartingDeltaSnapshot"
  | .tickOverflow => "TickOverflow"
  | .diverge => "diverge"

/-- The `while !unpacker.is_empty()` loop of the `Message` branch of `read_chunk`: `slots` = free
4-byte groups of the 64 KiB buffer; `fuel` ≥ length of the input suffices (each integer uses at
least one byte).  Returns the bytes produced (or the error) and the warnings raised. -/
def unpackMsg : (fuel : Nat) → (slots : Nat) → Bytes → Except ReadError Bytes × List Warning
  | _, _, [] => (.ok [], [])
  | 0, _, _ :: _ => (.error .diverge, [])
  | fuel + 1, slots, b :: bs =>
    match readInt (b :: bs) with
    | none => (.error .messageVarIntUnexpectedEnd, [])
    | some (n, rest, ws) =>
      let ws' := ws.map Warning.message
      match slots with
      | 0 => (.error .messageVarIntTooLong, ws')
      | slots' + 1 =>
        match unpackMsg fuel slots' rest with
        | (.ok out, ws2) => (.ok (le32 (toU32 n) ++ out), ws' ++ ws2)
        | (.error e, ws2) => (.error e, ws' ++ ws2)

/-! ### file header -/

inductive Kind where
  | client | server
  deriving DecidableEq, Repr

def Kind.magic : Kind → Bytes
  | .client => KIND_CLIENT.map UInt8.ofNat
  | .server => KIND_SERVER.map UInt8.ofNat

def magic : Bytes := MAGIC.map UInt8.ofNat
def shaExtension : Bytes := SHA_256_EXTENSION.map UInt8.ofNat

/-- the arguments of `Writer::new` -/
structure HeaderArgs where
  netVersion : Bytes
  mapName : Bytes
  /-- `Option<Sha256>`: 32 bytes -/
  sha : Option Bytes
  crc : Nat
  kind : Kind
  length : Int
  timestamp : Bytes
  map : Bytes
  deriving DecidableEq, Repr

/-- `CappedString::<N>::from_raw` (requires `raw.len() < N`): NUL padding to `N` bytes -/
def capped (n : Nat) (raw : Bytes) : Bytes := raw ++ List.replicate (n - raw.length) 0

/-- `CappedString::raw`: up to the first NUL -/
def cstr (bs : Bytes) : Bytes := bs.takeWhile (· ≠ 0)

/-- `CappedString::check_padding_warn`: a non-zero byte after the first NUL -/
def weirdPadding (bs : Bytes) : Bool := (bs.dropWhile (· ≠ 0)).any (· ≠ 0)

/-- `markers: [0; 64]` as written -/
def zeroMarkerBytes : Bytes := List.replicate 256 0
/-- `TimelineMarkers::default().markers` -/
def noMarkers : List Int := List.replicate 64 0

/-- the bytes `Writer::new` writes; `none` = panic (`from_raw` capacity assertions, `assert_i32`, negative length) -/
def encodeHeader (a : HeaderArgs) : Option Bytes :=
  if ¬ (a.netVersion.length < 64 ∧ a.mapName.length < 64 ∧ a.timestamp.length < 20
        ∧ a.map.length < 2147483648 ∧ a.length ≥ 0) then none
  else
    some (magic ++ [UInt8.ofNat (if a.sha.isSome then writerVersionDdnet.num else writerVersion.num)]
      ++ capped 64 a.netVersion ++ capped 64 a.mapName
      ++ be32 a.map.length ++ be32 a.crc ++ a.kind.magic ++ be32 (toU32 a.length)
      ++ capped 20 a.timestamp
      ++ be32 0 ++ zeroMarkerBytes
      ++ (match a.sha with | none => [] | some s => shaExtension ++ s)
      ++ a.map)

/-- what the header accessors of `Reader` return -/
structure HeaderInfo where
  version : Version
  netVersion : Bytes
  mapName : Bytes
  mapSize : Nat
  crc : Nat
  kind : Kind
  length : Int
  timestamp : Bytes
  markers : List Int
  sha : Option Bytes
  map : Bytes
  deriving DecidableEq, Repr

/-- `n` big-endian `i32`s -/
def readI32s : Nat → Bytes → List Int
  | 0, _ => []
  | n + 1, bs => toI32 (beVal (bs.take 4)) :: readI32s n (bs.drop 4)

def nonIncreasing : List Int → Bool
  | a :: b :: rest => decide (a ≥ b) || nonIncreasing (b :: rest)
  | _ => false

/-- the `Version` and `Header` parts of `HeaderStart::read` (magic, version byte, 168 bytes) -/
structure FixedHeader where
  version : Version
  netVersion : Bytes
  mapName : Bytes
  mapSize : Nat
  crc : Nat
  kind : Kind
  length : Int
  timestamp : Bytes
  deriving DecidableEq, Repr

def readKind (k : Bytes) : Option Kind :=
  if k = Kind.client.magic then some Kind.client
  else if k = Kind.server.magic then some Kind.server else none

def readFixed (file : Bytes) : Option (FixedHeader × Bytes) :=
  match takeN 7 file with
  | none => none
  | some (m, r) =>
  if m ≠ magic then none else
  match takeN 1 r with
  | none => none
  | some (vb, r) =>
  match Version.ofByte (beVal vb) with
  | none => none
  | some version =>
  match takeN 64 r with
  | none => none
  | some (netVersion, r) =>
  match takeN 64 r with
  | none => none
  | some (mapName, r) =>
  match takeN 4 r with
  | none => none
  | some (ms, r) =>
  if toI32 (beVal ms) < 0 then none else
  match takeN 4 r with
  | none => none
  | some (crc, r) =>
  match takeN 8 r with
  | none => none
  | some (k, r) =>
  match readKind k with
  | none => none
  | some kind =>
  match takeN 4 r with
  | none => none
  | some (len, r) =>
  if toI32 (beVal len) < 0 then none else
  match takeN 20 r with
  | none => none
  | some (timestamp, r) =>
    some ({ version, netVersion, mapName, mapSize := (toI32 (beVal ms)).toNat, crc := beVal crc, kind,
            length := toI32 (beVal len), timestamp }, r)

/-- the `TimelineMarkers` part (`#[br(if(version >= Version::V4))]`, else the default): the amount
and all 64 markers -/
def readMarkers (version : Version) (r : Bytes) : Option (Nat × List Int × Bytes) :=
  if version.num ≥ 4 then
    match takeN 4 r with
    | none => none
    | some (am, r) =>
    if toI32 (beVal am) < 0 ∨ toI32 (beVal am) > 64 then none else
    match takeN 256 r with
    | none => none
    | some (mk, r) => some ((toI32 (beVal am)).toNat, readI32s 64 mk, r)
  else some (0, noMarkers, r)

/-- the `MapSha256` part (`#[br(if(version == Version::V6Ddnet))]`) -/
def readSha (version : Version) (r : Bytes) : Option (Option Bytes × Bytes) :=
  if version = .v6 then
    match takeN 16 r with
    | none => none
    | some (u, r) =>
    if u ≠ shaExtension then none else
    match takeN 32 r with
    | none => none
    | some (s, r) => some (some s, r)
  else some (none, r)

/-- the warnings of `Header::check` -/
def headerWarnings (netVersion mapName timestamp : Bytes) : List Warning :=
  (if weirdPadding netVersion then [Warning.weirdNetVersion] else [])
    ++ (if weirdPadding mapName then [Warning.weirdMapName] else [])
    ++ (if weirdPadding timestamp then [Warning.weirdTimestamp] else [])

/-- the warnings of `TimelineMarkers::check` -/
def markerWarnings (amount : Nat) (all : List Int) : List Warning :=
  (if (all.drop amount).any (· ≠ 0) then [Warning.weirdTimelineMarkerPadding] else [])
    ++ (if nonIncreasing (all.take amount) then [Warning.nonAbsoluteTickmarkerTick] else [])

/-- `HeaderStart::read` followed by the two `check` calls of `Reader::new`; `none` = error.
Returns the header, the rest of the file (the chunk data) and the warnings. -/
def readHeader (file : Bytes) : Option (HeaderInfo × Bytes × List Warning) :=
  match readFixed file with
  | none => none
  | some (f, r) =>
  match readMarkers f.version r with
  | none => none
  | some (amount, all, r) =>
  match readSha f.version r with
  | none => none
  | some (sha, r) =>
  match takeN f.mapSize r with
  | none => none
  | some (map, r) =>
    some ({ version := f.version, netVersion := cstr f.netVersion, mapName := cstr f.mapName,
            mapSize := f.mapSize, crc := f.crc, kind := f.kind, length := f.length,
            timestamp := cstr f.timestamp, markers := all.take amount, sha, map },
          r, headerWarnings f.netVersion f.mapName f.timestamp ++ markerWarnings amount all)

/-! ### low-level writer (`writer.rs`) -/

structure Writer where
  file : Bytes
  prevTick : Option Int
  deriving DecidableEq, Repr

inductive WResult where
  | ok
  | panic (site : String)
  deriving DecidableEq, Repr

/-- `Writer::new` into an empty file -/
def Writer.new (a : HeaderArgs) : Option Writer :=
  match encodeHeader a with
  | none => none
  | some bs => some { file := bs, prevTick := none }

/-- `Writer::write_tick` -/
def Writer.writeTick (w : Writer) (keyframe : Bool) (tick : Int) : Writer × WResult :=
  match TickMarker.new tick w.prevTick keyframe writerVersion with
  | none => (w, .panic "TickMarker::new: tick > p")
  | some tm =>
    match (ChunkHeader.tick tm keyframe).write with
    | none => (w, .panic "ChunkHeader::write")
    | some hdr => ({ file := w.file ++ hdr, prevTick := some tick }, .ok)

/-- `Writer::write_chunk_impl` on the (already packed) payload -/
def Writer.writeData (w : Writer) (kind : DataKind) (data : Bytes) : Writer × WResult :=
  if data.length > MAX_SNAPSHOT_SIZE then (w, .panic "too long chunk") else
  match Tw.Huffman.compressInto table false data MAX_SNAPSHOT_SIZE with
  | none => (w, .panic "too long compression")
  | some c =>
    if c.length > 65535 then (w, .panic "assert_u16")
    else
      match (ChunkHeader.data kind c.length).write with
      | none => (w, .panic "ChunkHeader::write")
      | some hdr => ({ w with file := w.file ++ hdr ++ c }, .ok)

/-- `Writer::write_message` -/
def Writer.writeMessage (w : Writer) (msg : Bytes) : Writer × WResult :=
  if msg.length > MAX_SNAPSHOT_SIZE then (w, .panic "overlong message") else
  let packed := packInts (msgInts msg)
  if packed.length > MAX_SNAPSHOT_SIZE then (w, .panic "overlong message")
  else w.writeData .message packed

/-- `Writer::write_chunk` -/
def Writer.writeChunk (w : Writer) : Chunk → Writer × WResult
  | .tick t kf => w.writeTick kf t
  | .snapshot d => w.writeData .snapshot d
  | .delta d => w.writeData .delta d
  | .message d => w.writeMessage d
  | .unknown => (w, .panic "RawChunk::Unknown")

/-- write a chunk sequence, stopping at the first refusal -/
def Writer.writeAll (w : Writer) : List Chunk → Writer × WResult
  | [] => (w, .ok)
  | c :: cs =>
    match w.writeChunk c with
    | (w', .ok) => w'.writeAll cs
    | r => r

/-! ### low-level reader (`reader.rs`) -/

structure Reader where
  data : Bytes
  version : Version
  currentTick : Option Int
  deriving DecidableEq, Repr

inductive ReadResult where
  | eof
  | chunk (c : Chunk)
  | error (e : ReadError)
  deriving DecidableEq, Repr

/-- `Reader::new` -/
def Reader.new (file : Bytes) : Option (Reader × HeaderInfo × List Warning) :=
  match readHeader file with
  | none => none
  | some (h, rest, ws) => some ({ data := rest, version := h.version, currentTick := none }, h, ws)

/-- `Reader::read_chunk` -/
def Reader.readChunk (r : Reader) : Reader × ReadResult × List Warning :=
  match readChunkHeader r.version r.data with
  | .eof => (r, .eof, [])
  | .truncated ws => (r, .error .unexpectedEof, ws)
  | .ok (.tick (.absolute t) keyframe) rest ws =>
    match r.currentTick with
    | some prev =>
      if prev ≥ t then (r, .error .notIncreasingTick, ws)
      else ({ r with data := rest, currentTick := some t }, .chunk (.tick t keyframe), ws)
    | none => ({ r with data := rest, currentTick := some t }, .chunk (.tick t keyframe), ws)
  | .ok (.tick (.delta d) keyframe) rest ws =>
    match r.currentTick with
    | none => (r, .error .startingDeltaSnapshot, ws)
    | some t =>
      let t' := t + d
      if ¬ inI32 t' then (r, .error .tickOverflow, ws)
      else ({ r with data := rest, currentTick := some t' }, .chunk (.tick t' keyframe), ws)
  | .ok (.data .unknown _) rest ws => ({ r with data := rest }, .chunk .unknown, ws)
  | .ok (.data kind size) rest ws =>
    match takeN size rest with
    | none => (r, .error .unexpectedEof, ws)
    | some (raw, rest') =>
      match decompressC table raw MAX_SNAPSHOT_SIZE with
      | .capacity => (r, .error .huffmanCapacity, ws)
      | .diverge => (r, .error .diverge, ws)
      | .ok out =>
        let r' := { r with data := rest' }
        match kind with
        | .snapshot => (r', .chunk (.snapshot out), ws)
        | .delta => (r', .chunk (.delta out), ws)
        | .unknown => (r', .chunk .unknown, ws)
        | .message =>
          match unpackMsg out.length (MAX_SNAPSHOT_SIZE / 4) out with
          | (.ok m, ws2) => (r', .chunk (.message m), ws ++ ws2)
          | (.error e, ws2) => (r, .error e, ws ++ ws2)

/-- call `read_chunk` until the end of the file or the first error -/
def Reader.readAllGo : (fuel : Nat) → Reader → List Chunk × List Warning × Option ReadError
  | 0, _ => ([], [], some .diverge)
  | fuel + 1, r =>
    match r.readChunk with
    | (_, .eof, ws) => ([], ws, none)
    | (_, .error e, ws) => ([], ws, some e)
    | (r', .chunk c, ws) =>
      let (cs, ws2, e) := Reader.readAllGo fuel r'
      (c :: cs, ws ++ ws2, e)

def Reader.readAll (r : Reader) : List Chunk × List Warning × Option ReadError :=
  Reader.readAllGo (r.data.length + 1) r

/-- the whole reading side: header, chunks, all warnings, terminating error -/
def readFile (file : Bytes) : Option (HeaderInfo × List Chunk × List Warning × Option ReadError) :=
  match Reader.new file with
  | none => none
  | some (r, h, ws) =>
    let (cs, ws2, e) := r.readAll
    some (h, cs, ws ++ ws2, e)

/-- what a chunk looks like after the round trip: messages zero-padded to a multiple of four -/
def Chunk.padded : Chunk → Chunk
  | .message d => .message (pad4 d)
  | c => c

end Tw.Demo
