/-
Specification side of property C17, written from `doc/teehistorian.md` and independent of the
reader model: the tick numbers the documentation's pseudo-code assigns to messages, the
well-formedness of a reported tick structure, and positions/inputs as exact running sums.
-/
import Tw.Model.Teehistorian

namespace Tw.Teehistorian.Spec
open Tw.Teehistorian

/-! ### doc/teehistorian.md, "(Implicit) Ticks"

```py
tick = 0
implicit_cid = None
for message in messages:
  if message.kind == TICK_SKIP:
    tick += message.dt + 1
    implicit_cid = None
  if message.kind is in [PLAYER_DIFF, PLAYER_NEW, PLAYER_OLD]:
    if implicit_cid is not None and message.cid <= implicit_cid:
      tick += 1
    implicit_cid = message.cid
```
-/

/-- What the pseudo-code looks at. -/
inductive MsgKind where
  | tickSkip (dt : Int)
  | player (cid : Int)
  | finish
  | other
  deriving DecidableEq, Repr

def msgKind : FItem → MsgKind
  | .tickSkip dt => .tickSkip dt
  | .playerDiff c _ _ => .player c
  | .playerNew c _ _ => .player c
  | .playerOld c => .player c
  | .finish => .finish
  | _ => .other

/-- The tick in which each message that is reported as an item lies (`TICK_SKIP` itself is not
reported; `FINISH` "records the end of the teehistorian file").  `tick`, `implicit` are the
variables of the pseudo-code. -/
def docItemTicks : (tick : Int) → (implicit : Option Int) → List MsgKind → List Int
  | _, _, [] => []
  | _, _, .finish :: _ => []
  | tick, _, .tickSkip dt :: ms => docItemTicks (tick + (dt + 1)) none ms
  | tick, implicit, .player cid :: ms =>
    let tick' := match implicit with
      | some ic => if cid ≤ ic then tick + 1 else tick
      | none => tick
    tick' :: docItemTicks tick' (some cid) ms
  | tick, implicit, .other :: ms => tick :: docItemTicks tick implicit ms

/-! ### Tick structure of an item sequence -/

/-- State of the nesting check: the open tick, and the number of the last tick started. -/
structure TS where
  cur : Option Int
  last : Int
  deriving DecidableEq, Repr

def isTick : Item → Bool
  | .tickStart _ => true
  | .tickEnd _ => true
  | _ => false

/-- `TickStart` only outside a tick and with a larger number than every earlier one; `TickEnd`
only for the open tick; every other item only inside a tick. -/
def tickStep (st : TS) : Item → Option TS
  | .tickStart t => if st.cur = none ∧ st.last < t then some ⟨some t, t⟩ else none
  | .tickEnd t => if st.cur = some t then some ⟨none, st.last⟩ else none
  | _ => if st.cur.isSome then some st else none

def tickRun (st : TS) : List Item → Option TS
  | [] => some st
  | it :: r =>
    match tickStep st it with
    | none => none
    | some st' => tickRun st' r

/-- The tick each reported (non-tick) item lies in. -/
def itemTicks : Option Int → List Item → List (Option Int)
  | _, [] => []
  | _, .tickStart t :: r => itemTicks (some t) r
  | _, .tickEnd _ :: r => itemTicks none r
  | o, _ :: r => o :: itemTicks o r

/-- The items other than tick marks. -/
def reported (its : List Item) : List Item := its.filter (fun it => !isTick it)

/-- The messages of a stream (the bytes after the header), up to and including `FINISH` or up to
the first record that is incomplete or malformed. -/
def messages (hasEx : Bool) (s : List UInt8) : List FItem :=
  (parseAll hasEx (s.length + 1) s).1.map Rec.item

/-! ### Positions and inputs as running sums (exact integers, reduced only when reported) -/

structure Sums where
  pos : Nat → Option (Int × Int)
  inp : Nat → Option (List Int)

def Sums.empty : Sums := ⟨fun _ => none, fun _ => none⟩

def setAt {β : Type} (f : Nat → Option β) (k : Nat) (v : Option β) : Nat → Option β :=
  fun k' => if k' = k then v else f k'

def addLists : List Int → List Int → List Int
  | a :: as, b :: bs => (a + b) :: addLists as bs
  | _, _ => []

/-- Effect of one message on the exact sums. -/
def Sums.step (s : Sums) : FItem → Sums
  | .playerNew c x y => { s with pos := setAt s.pos c.toNat (some (x, y)) }
  | .playerDiff c dx dy =>
    match s.pos c.toNat with
    | some (x, y) => { s with pos := setAt s.pos c.toNat (some (x + dx, y + dy)) }
    | none => s
  | .playerOld c => { s with pos := setAt s.pos c.toNat none }
  | .inputNew c v => { s with inp := setAt s.inp c.toNat (some v) }
  | .inputDiff c d =>
    match s.inp c.toNat with
    | some v => { s with inp := setAt s.inp c.toNat (some (addLists v d)) }
    | none => s
  | _ => s

/-- What the reader has to report for message `m` when the exact sums so far are `s`
(`none`: nothing is reported for this message, or the message is an error in this state). -/
def expectedItem (s : Sums) : FItem → Option Item
  | .playerNew c x y => some (.playerNew c x y)
  | .playerDiff c dx dy =>
    match s.pos c.toNat with
    | some (x, y) => some (.playerChange c (wrap32 (x + dx)) (wrap32 (y + dy)) (wrap32 x) (wrap32 y))
    | none => none
  | .playerOld c =>
    match s.pos c.toNat with
    | some (x, y) => some (.playerOld c (wrap32 x) (wrap32 y))
    | none => none
  | .inputNew c v => some (.input c v)
  | .inputDiff c d =>
    match s.inp c.toNat with
    | some v => some (.input c ((addLists v d).map wrap32))
    | none => none
  | .other o => some (.other o)
  | _ => none

/-- The items (other than tick marks) expected for a message list. -/
def expectedItems : Sums → List FItem → List (Option Item)
  | _, [] => []
  | _, .finish :: _ => []
  | s, .tickSkip _ :: ms => expectedItems s ms
  | s, m :: ms => expectedItem s m :: expectedItems (s.step m) ms

/-- The exact sums after a message list (up to its `FINISH`). -/
def sumsAfter : Sums → List FItem → Sums
  | s, [] => s
  | s, .finish :: _ => s
  | s, m :: ms => sumsAfter (s.step m) ms

end Tw.Teehistorian.Spec
