import Tw.Model.Net

/-!
# The single-address reference for `Net` (specification side of C20)

What "an independent single connection fed only that address's datagrams and API calls" means in
the model.  The state of one address is a `Slot`: nothing, or one peer (its id, its `Conn6`
connection, the token flag).  `refStep` executes a *local* operation `LOp` on a slot using nothing
but the slot and the `Conn6` functions; `projOp` says which local operation (if any) an endpoint
operation is for address `a`; `runFor` is the endpoint's trace restricted to `a`, `refRun` the
trace of the reference on the projected history.  The theorems of `Props/C20` state that the two
coincide.

The only thing a slot gets from the rest of the endpoint is the id of a fresh peer (`fresh`): peer
ids are handed out by one counter for all addresses.
-/
namespace Tw.Net
open Tw.Conn Tw.Conn6 Tw.Time

/-- the state of one address: no peer, or `(pid, peer)` -/
abbrev Slot := Option (Nat × Peer)

/-- the peer at address `a` the way `pid_from_addr` finds it: first entry with this address -/
def slot : Peers → Nat → Slot
  | [], _ => none
  | e :: es, a => if e.2.addr = a then some e else slot es a

/-- the keys of the peer map -/
def pids (ps : Peers) : List Nat := ps.map (·.1)

/-- the addresses of the peers -/
def addrs (ps : Peers) : List Nat := ps.map (·.2.addr)

/-- the invariant of the peer table: live peer ids are pairwise distinct (`LinearMap` keys) and no
address has two peers -/
structure PInv (ps : Peers) : Prop where
  pid : (pids ps).Nodup
  addr : (addrs ps).Nodup

/-- an endpoint operation as one address sees it -/
inductive LOp where
  /-- a datagram from this address (`fresh`: the id a new peer would get) -/
  | dgram (read : Option Bool → Option Packet) (fresh : Option Nat)
  /-- `Net::connect` to this address -/
  | connect (fresh : Option Nat)
  /-- API calls on this address's peer id -/
  | accept
  | reject (reason : Bytes)
  | disconnect (reason : Bytes)
  | ignore
  | send (data : Bytes) (vital : Bool)
  | flush
  /-- `Net::send_connless` to this address -/
  | sendConnless (data : Bytes)
  | tick

abbrev RRes := Except Fail (Slot × Ret × Out)

/-- a slot's peer leaves when its connection reports `Disconnect` (a second report in one packet
would be a panic, as in `ReceivePacket::connected`) -/
def slotOnDisconnect (s : Slot) : List Event → Except Fail Slot
  | [] => .ok s
  | .disconnect _ :: rest =>
    match s with
    | none => .error (.panic "invalid pid")
    | some _ => slotOnDisconnect none rest
  | _ :: rest => slotOnDisconnect s rest

/-- a datagram for an address without a peer, or with a peer pending acceptance -/
def refStateless (accepting : Bool) (a : Nat) (s : Slot) (pending : Bool)
    (read : Option Bool → Option Packet) (fresh : Option Nat) : RRes :=
  match read none with
  | none => .ok (s, .unit, { warns := [(a, .connless a .read)] })
  | some (.connless d) => .ok (s, .unit, { events := [(a, .connless a none d)] })
  | some (.control _ token .connect) =>
    if pending then .ok (s, .unit, {})
    else if accepting then
      match fresh with
      | none => .error .hang
      | some pid => .ok (some (pid, Peer.new a token.isSome), .unit, { events := [(a, .connect pid)] })
    else .ok (s, .unit, { warns := [(a, .connless a .unexpected)] })
  | some _ => .ok (s, .unit, { warns := [(a, .connless a .unexpected)] })

/-- a call on the slot's connection, the peer stays -/
def slotModify (a : Nat) (s : Slot) (f : Peer → Except Fail (Conn × Ret × Conn6.Out)) : RRes :=
  match s with
  | none => .error (.panic "invalid pid")
  | some (pid, p) =>
    match f p with
    | .error e => .error e
    | .ok (c, r, o) => .ok (some (pid, { p with conn := c }), r, liftOut a pid o)

/-- a last call on the slot's connection, the peer leaves -/
def slotRemove (a : Nat) (s : Slot) (f : Peer → Except Fail Conn6.Out) : RRes :=
  match s with
  | none => .error (.panic "invalid pid")
  | some (pid, p) =>
    match f p with
    | .error e => .error e
    | .ok o => .ok (none, .unit, liftOut a pid o)

/-- one local operation on the slot of address `a` -/
def refStep (accepting : Bool) (a : Nat) (env : Env) (s : Slot) : LOp → RRes
  | .dgram read fresh =>
    match s with
    | none => refStateless accepting a s false read fresh
    | some (pid, p) =>
      if p.conn.state = .unconnected then refStateless accepting a s true read fresh
      else
        match Conn6.feed env p.conn read with
        | .error e => .error e
        | .ok (c, o) =>
          match slotOnDisconnect (some (pid, { p with conn := c })) o.events with
          | .error e => .error e
          | .ok s1 => .ok (s1, .unit, liftOut a pid o)
  | .connect fresh =>
    match s with
    | some _ => .error (.panic "outside the hypothesis: a second peer for this address")
    | none =>
      match fresh with
      | none => .error .hang
      | some pid =>
        match Conn6.connect env Conn.new with
        | .error e => .error e
        | .ok (c, o) => .ok (some (pid, ⟨c, a, false⟩), .pid pid, liftOut a pid o)
  | .accept => slotModify a s (peerAccept env)
  | .reject reason => slotRemove a s (peerClose true env reason)
  | .disconnect reason => slotRemove a s (peerClose false env reason)
  | .ignore => slotRemove a s (fun _ => .ok {})
  | .send data vital => slotModify a s (peerSend env data vital)
  | .flush => slotModify a s (peerFlush env)
  | .sendConnless data =>
    if data.length > Tw.Gen.Conn.P6.connlessMax then .ok (s, .send .tooLongData, {})
    else
      match emit [.connless data] with
      | .error e => .error e
      | .ok ps => .ok (s, .send .ok, { sent := ps.map (a, ·) })
  | .tick =>
    match s with
    | none => .ok (none, .unit, {})
    | some (pid, p) =>
      match Conn6.tick env p.conn with
      | .error e => .error e
      | .ok (c, o) => .ok (some (pid, { p with conn := c }), .unit, { sent := o.sent.map (a, ·) })

/-- the address a peer id belongs to -/
def addrOf (net : Net) (pid : Nat) : Option Nat := (lookup net.peers pid).map (·.addr)

/-- the projection of an endpoint operation to address `a`: datagrams from `a`, `connect` /
`send_connless` to `a`, API calls on the id of `a`'s peer, ticks; `none` = does not concern `a` -/
def projOp (net : Net) (a : Nat) : Op → Option LOp
  | .feed addr rd => if addr = a then some (.dgram rd (freshPid net)) else none
  | .connect addr => if addr = a then some (.connect (freshPid net)) else none
  | .accept pid => if addrOf net pid = some a then some .accept else none
  | .reject pid r => if addrOf net pid = some a then some (.reject r) else none
  | .disconnect pid r => if addrOf net pid = some a then some (.disconnect r) else none
  | .ignore pid => if addrOf net pid = some a then some .ignore else none
  | .send pid d v => if addrOf net pid = some a then some (.send d v) else none
  | .flush pid => if addrOf net pid = some a then some .flush else none
  | .sendConnless addr d => if addr = a then some (.sendConnless d) else none
  | .tick => some .tick

/-- misuse of the API that no single address can be blamed for: the call names a peer id that is
not live (`self.peers[pid]` panics with "invalid pid") -/
def invalidPid (net : Net) : Op → Bool
  | .accept pid | .reject pid _ | .disconnect pid _ | .ignore pid | .send pid _ _ | .flush pid =>
    (lookup net.peers pid).isNone
  | _ => false

/-- the call is neither an API call on peer `pid` nor a `send_connless` to address `a`: nothing by
which the application itself addresses that peer / that address -/
def quietFor (a pid : Nat) : Op → Bool
  | .accept p | .reject p _ | .disconnect p _ | .ignore p | .send p _ _ | .flush p => p != pid
  | .sendConnless addr _ => addr != a
  | _ => true

/-- the hypothesis of C20 for one operation: `Net::connect` is not called for an address that has
a live peer (nothing else can give an address a second peer) -/
def opOk (net : Net) : Op → Bool
  | .connect a => (slot net.peers a).isNone
  | _ => true

/-- "no address has two live peers at once" along a history -/
def histOk : Net → History → Bool
  | _, [] => true
  | net, (env, op) :: h =>
    opOk net op &&
      match step env net op with
      | .ok (net1, _, _) => histOk net1 h
      | .error _ => true

/-- the endpoint's trace as address `a` sees it: per call, the return value (if the call concerns
`a`) and the part of the output tagged `a` -/
def runFor (a : Nat) : Net → History → Except Fail (Net × List (Ret × Out))
  | net, [] => .ok (net, [])
  | net, (env, op) :: h =>
    match step env net op with
    | .error f => .error f
    | .ok (net1, r, o) =>
      match runFor a net1 h with
      | .error f => .error f
      | .ok (net2, outs) => .ok (net2, ((if (projOp net a op).isSome then r else .unit), o.for a) :: outs)

/-- the history projected to address `a` (peer ids resolved in the state each call meets) -/
def projHist (a : Nat) : Net → History → List (Env × Option LOp)
  | _, [] => []
  | net, (env, op) :: h =>
    (env, projOp net a op) ::
      match step env net op with
      | .ok (net1, _, _) => projHist a net1 h
      | .error _ => []

/-- the reference's run on a projected history; calls that do not concern the address are skipped -/
def refRun (accepting : Bool) (a : Nat) : Slot → List (Env × Option LOp) → Except Fail (Slot × List (Ret × Out))
  | s, [] => .ok (s, [])
  | s, (_, none) :: h =>
    match refRun accepting a s h with
    | .error f => .error f
    | .ok (s2, outs) => .ok (s2, (.unit, {}) :: outs)
  | s, (env, some lop) :: h =>
    match refStep accepting a env s lop with
    | .error f => .error f
    | .ok (s1, r, o) =>
      match refRun accepting a s1 h with
      | .error f => .error f
      | .ok (s2, outs) => .ok (s2, (r, o) :: outs)

end Tw.Net

/-! ## Lazily consumed results

`Net::feed` returns a `ReceivePacket` iterator and `Net::tick` a `Tick` iterator.  Everything `feed`
does to the endpoint (the connection's eager scan that advances `ack`, the removal of the peer on a
`Disconnect`, the datagrams it sends, the warnings) happens before the iterator is handed out; the
iterator only *replays* the events.  `Tick` is the opposite: nothing happens until it is polled, and
— `Callback::send` being infallible — the first `next()` ticks every peer.  Both borrow the endpoint
mutably, so no other call can come in between; the application can only drop them early. -/
namespace Tw.Net
open Tw.Conn Tw.Conn6

/-- a call whose result the application consumes only partly: `pull = some k` = it takes `k` items of
the returned iterator (`next()` `k` times) and drops it; `none` = it drains it -/
def stepLazy (env : Env) (net : Net) (op : Op) (pull : Option Nat) : Res :=
  match op, pull with
  | .tick, some 0 => .ok (net, .unit, {})
  | .feed a rd, some k =>
    match step env net (.feed a rd) with
    | .error f => .error f
    | .ok (net1, r, o) => .ok (net1, r, { o with events := o.events.take k })
  | op, _ => step env net op

/-- a history with the amount consumed of each result -/
abbrev LHistory := List (Env × Op × Option Nat)

def runLazy : Net → LHistory → Except Fail (Net × List (Ret × Out))
  | net, [] => .ok (net, [])
  | net, (env, op, pull) :: h =>
    match stepLazy env net op pull with
    | .error f => .error f
    | .ok (net1, r, o) =>
      match runLazy net1 h with
      | .error f => .error f
      | .ok (net2, outs) => .ok (net2, (r, o) :: outs)

/-- the same history with every result drained; a `Tick` that is never polled is no call at all -/
def drainedHist : LHistory → History
  | [] => []
  | (_, .tick, some 0) :: h => drainedHist h
  | (env, op, _) :: h => (env, op) :: drainedHist h

/-- all datagrams / events / warnings of a trace, in order -/
def allSent (outs : List (Ret × Out)) : List (Nat × Packet) := outs.flatMap (·.2.sent)
def allEvents (outs : List (Ret × Out)) : List (Nat × NEvent) := outs.flatMap (·.2.events)
def allWarns (outs : List (Ret × Out)) : List (Nat × NWarn) := outs.flatMap (·.2.warns)

end Tw.Net
