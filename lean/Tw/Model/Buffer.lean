/-
Model of the `buffer` crate (`buffer/src/lib.rs`, `traits.rs`, `impls/{vec,arrayvec,slice,
slice_ref,buffer_ref,cap_at}.rs`): write-only views onto the spare capacity of a container.

What is modelled
* a *view* (`BufferRef`) is the spare-capacity slice `mem` (its length is the capacity of the view;
  its content is whatever the memory held before — it is *not* assumed to be zero) and the separate
  counter `init` (`*initialized_`);
* the backing stores: `Vec<u8>` / `ArrayVec<[u8; N]>` as `{buf, len}` (`buf.length` = capacity, the
  contents are `buf.take len`), `&mut [u8]` and `&mut &mut [u8]` as `{buf}` (`len` stays 0);
* `extend`/`write` byte by byte (partial commit on `Err(CapacityError)`), `advance` (assert → panic),
  `remaining`, `initialized`, `uninitialized_mut` (as `poke`: the caller's stores through it),
  `cap_at`, the nested view `&mut BufferRef` (a copy of the parent's spare part that is written back
  on release — equivalent to the aliasing of the Rust code because the borrow checker freezes the
  parent while the child lives), the `Drop` impls (`release`, `writeBack`), unwinding after a panic
  (all live views are dropped innermost first), `ReadBuffer::read_buffer` with readers.
* Readers (`std::io::Read` for `&[u8]`, `Repeat`, `Empty`, `Take`, `Chain`, plus two readers of the
  harness: one that claims more than it was given room for, one that fails) are modelled by their
  documented contract; that part is *assumed*, and checked by the correspondence only.

Every reachable Rust panic site is an explicit `Res.panic`; sites that are unreachable by the
invariant `init ≤ mem.length` (slice indexing in `extend`, `initialized`, `remaining`'s subtraction)
are *also* explicit, and `Tw/Proofs/Buffer.lean` proves they are never taken.
No Mathlib import: this file is linked into the compiled driver.
-/
namespace Tw.Buffer

/-- outcome of an operation that can fail with `CapacityError` or panic -/
inductive Res where
  | ok
  | cap      -- `Err(CapacityError)`
  | panic
  deriving DecidableEq, Repr, Inhabited

/-- `BufferRef { buffer, initialized_ }` -/
structure View where
  mem : List UInt8
  init : Nat
  deriving DecidableEq, Repr, Inhabited

/-- `mem[i .. i + bs.length] := bs` -/
def splice (mem : List UInt8) (i : Nat) (bs : List UInt8) : List UInt8 :=
  mem.take i ++ bs ++ mem.drop (i + bs.length)

namespace View

/-- `BufferRef::remaining`: `self.buffer.len() - *self.initialized_` (`none` = subtraction overflow) -/
def remaining (v : View) : Option Nat :=
  if v.init ≤ v.mem.length then some (v.mem.length - v.init) else none

/-- `BufferRef::initialized`: `&self.buffer[..*self.initialized_]` (`none` = index panic) -/
def initialized (v : View) : Option (List UInt8) :=
  if v.init ≤ v.mem.length then some (v.mem.take v.init) else none

/-- the `for b in bytes` loop of `BufferRef::extend`: the iterator is pulled first, then the next
free slot is taken; the counter is incremented after each store. -/
def extendLoop (mem : List UInt8) (init : Nat) : List UInt8 → List UInt8 × Nat × Bool
  | [] => (mem, init, true)
  | b :: bs =>
    if init < mem.length then extendLoop (mem.set init b) (init + 1) bs
    else (mem, init, false)

/-- `BufferRef::extend` / `BufferRef::write` (`write` is `extend(bytes.iter().cloned())`) -/
def extend (v : View) (bs : List UInt8) : View × Res :=
  if v.init ≤ v.mem.length then            -- `&mut self.buffer[*self.initialized_..]`
    match extendLoop v.mem v.init bs with
    | (m, i, true) => ({ mem := m, init := i }, .ok)
    | (m, i, false) => ({ mem := m, init := i }, .cap)
  else (v, .panic)

/-- `BufferRef::advance`: `assert!(*self.initialized_ + num_bytes <= self.buffer.len())`
(an overflowing sum panics as well in the dev profile) -/
def advance (v : View) (n : Nat) : View × Res :=
  if v.init + n ≤ v.mem.length then ({ v with init := v.init + n }, .ok) else (v, .panic)

/-- stores of the caller through `uninitialized_mut()`: `bs` (clamped by the caller to the free
space) is written right after the initialised part; the counter does not move -/
def poke (v : View) (bs : List UInt8) : View :=
  { v with mem := splice v.mem v.init (bs.take (v.mem.length - v.init)) }

/-- `BufferRef::cap_at` (private; reached through `Buffer::cap_at` + `with_buffer`):
`assert!(*self.initialized_ == 0); let index = min(index, self.buffer.len()); &mut self.buffer[..index]`
(the code after the repair of defect D14). -/
def capAt (v : View) (n : Nat) : Option View :=
  if v.init = 0 then some { mem := v.mem.take (min n v.mem.length), init := v.init }
  else none

/-- `cap_at` before the repair of D14: `&mut self.buffer[..index]` panics for `index > len`
(kept for the witness theorem in `Props/C19.lean`; not used by the model) -/
def capAtUnfixed (v : View) (n : Nat) : Option View :=
  if v.init = 0 then
    if n ≤ v.mem.length then some { mem := v.mem.take n, init := v.init } else none
  else none

/-- `CapAtBuffer::buffer` for `b.cap_at(c1).cap_at(c2)…`: the caps are applied inside out -/
def capAll (v : View) : List Nat → Option View
  | [] => some v
  | c :: cs => match capAt v c with
    | none => none
    | some v' => capAll v' cs

/-- `BufferRefBuffer::buffer`: the child sees `parent.buffer[parent.initialized..]`, counter 0 -/
def child (p : View) : Option View :=
  if p.init ≤ p.mem.length then some { mem := p.mem.drop p.init, init := 0 } else none

/-- `Drop for BufferRefBuffer`: `*parent.initialized_ += child.initialized`; the child's memory *is*
the parent's memory right after the parent's initialised part -/
def writeBack (p c : View) : View :=
  { mem := splice p.mem p.init c.mem, init := p.init + c.init }

end View

inductive Kind where
  | vec      -- `&mut Vec<u8>`
  | arr      -- `&mut ArrayVec<[u8; N]>`
  | slice    -- `&mut [u8]`
  | sref     -- `&mut &mut [u8]`
  | raw      -- `BufferRef::new(&mut [u8], &mut counter)`: slice and counter owned by the caller
  deriving DecidableEq, Repr, Inhabited

/-- a backing container: `buf` is the whole allocation (`buf.length` = capacity), `len` the
container's length (0 for the slice kinds, whose "contents" are the whole slice; the caller's
counter for `raw`, whose contents are the counted prefix of the caller's slice) -/
structure Store where
  kind : Kind
  buf : List UInt8
  len : Nat
  deriving DecidableEq, Repr, Inhabited

namespace Store

def contents (s : Store) : List UInt8 :=
  match s.kind with
  | .vec | .arr | .raw => s.buf.take s.len
  | .slice | .sref => s.buf

/-- `VecBuffer::buffer` etc.: the spare capacity `[len, capacity)` with counter 0
(`none` = `capacity() - len` overflow).  `BufferRef::new` on a caller-owned counter that is not 0:
`debug_assert!(*initialized == 0)` panics (dev profile). -/
def top (s : Store) : Option View :=
  if s.kind = .raw ∧ s.len ≠ 0 then none
  else if s.len ≤ s.buf.length then some { mem := s.buf.drop s.len, init := 0 } else none

/-- the `Drop` impl of the intermediate object: `set_len(len + initialized)` for the vectors,
nothing for a slice, narrowing to `[..initialized]` for a slice reference -/
def release (s : Store) (v : View) : Store :=
  let buf := splice s.buf s.len v.mem
  match s.kind with
  -- (`raw`: nothing is dropped; the caller's counter simply holds what the view counted)
  | .vec | .arr | .raw => { s with buf := buf, len := s.len + v.init }
  | .slice => { s with buf := buf }
  | .sref => { s with buf := buf.take v.init }

end Store

/-! ### readers -/

inductive Rdr where
  | slice (bs : List UInt8)                 -- `&[u8]`
  | rep (b : UInt8)                         -- `io::Repeat`
  | empty                                   -- `io::Empty`
  | take (limit : Nat) (r : Rdr)            -- `io::Take`
  | chain (a b : Rdr) (doneFirst : Bool)    -- `io::Chain`
  | liar (claim : Nat) (fill : UInt8)       -- harness: fills the whole buffer, returns `claim`
  | fail (fill : UInt8)                     -- harness: fills the whole buffer, returns `Err`
  | bufr (cap : Nat) (buffered : List UInt8) (r : Rdr)   -- `io::BufReader::with_capacity(cap, r)`
  | file (bs : List UInt8)                  -- `fs::File` (a regular file holding `bs`, read from its start)
  deriving Repr, Inhabited

inductive RdRet where
  | ok (n : Nat)
  | err
  | panic
  deriving DecidableEq, Repr, Inhabited

/-- result of one `Read::read(&mut buf)`: the bytes stored at the start of `buf`, the return value,
the reader afterwards -/
structure ReadRes where
  wrote : List UInt8
  ret : RdRet
  next : Rdr
  deriving Repr, Inhabited

/-- later stores win: `b` over `a`, both at offset 0 -/
def overlay (a b : List UInt8) : List UInt8 := b ++ a.drop b.length

def Rdr.read : Rdr → Nat → ReadRes
  | .slice bs, n => ⟨bs.take n, .ok (min n bs.length), .slice (bs.drop n)⟩
  -- a regular file delivers as much as is asked for and left (assumed; checked by correspondence)
  | .file bs, n => ⟨bs.take n, .ok (min n bs.length), .file (bs.drop n)⟩
  | .rep b, n => ⟨List.replicate n b, .ok n, .rep b⟩
  | .empty, _ => ⟨[], .ok 0, .empty⟩
  | .liar c f, n => ⟨List.replicate n f, .ok c, .liar c f⟩
  | .fail f, n => ⟨List.replicate n f, .err, .fail f⟩
  | .take limit r, n =>
    if limit = 0 then ⟨[], .ok 0, .take 0 r⟩
    else
      let x := r.read (min n limit)
      match x.ret with
      | .ok k =>
        -- `assert!(n as u64 <= self.limit, "number of read bytes exceeds limit")`
        if k ≤ limit then ⟨x.wrote, .ok k, .take (limit - k) x.next⟩
        else ⟨x.wrote, .panic, .take limit x.next⟩
      | .err => ⟨x.wrote, .err, .take limit x.next⟩
      | .panic => ⟨x.wrote, .panic, .take limit x.next⟩
  | .bufr cap buffered r, n =>
    if buffered.isEmpty ∧ cap ≤ n then
      -- empty internal buffer and a large destination: the internal buffer is bypassed
      let x := r.read n
      ⟨x.wrote, x.ret, .bufr cap [] x.next⟩
    else if buffered.isEmpty then
      -- `fill_buf`: one read of the inner reader into the internal buffer, then deliver from it
      let x := r.read cap
      match x.ret with
      | .ok k =>
        if k ≤ cap then
          let filled := x.wrote.take k
          let m := min n filled.length
          ⟨filled.take m, .ok m, .bufr cap (filled.drop m) x.next⟩
        else ⟨[], .panic, .bufr cap [] x.next⟩   -- the cursor refuses an over-claimed count
      | .err => ⟨[], .err, .bufr cap [] x.next⟩
      | .panic => ⟨[], .panic, .bufr cap [] x.next⟩
    else
      let m := min n buffered.length
      ⟨buffered.take m, .ok m, .bufr cap (buffered.drop m) r⟩
  | .chain a b done, n =>
    if done then
      let y := b.read n
      ⟨y.wrote, y.ret, .chain a y.next true⟩
    else
      let x := a.read n
      match x.ret with
      | .ok 0 =>
        if n ≠ 0 then
          let y := b.read n
          ⟨overlay x.wrote y.wrote, y.ret, .chain x.next y.next true⟩
        else ⟨x.wrote, .ok 0, .chain x.next b false⟩
      | r => ⟨x.wrote, r, .chain x.next b false⟩

/-! ### sessions: a container, the stack of live views (innermost first), the current reader -/

structure Sess where
  store : Store
  stack : List View
  rdr : Rdr
  deriving Repr, Inhabited

inductive Op where
  | write (bs : List UInt8)               -- `b.write(bs)`
  | extendRep (b : UInt8) (n : Nat)       -- `b.extend(iter::repeat(b).take(n))`
  | extendPanic (bs : List UInt8)         -- `b.extend(it)`, `it` yields `bs` and then panics
  | advance (n : Nat) (fill : UInt8)      -- fill `min n remaining` bytes, then `b.advance(n)`
  | remaining                             -- `b.remaining()`
  | openV (caps : List Nat)               -- `with_buffer(x.cap_at(c1)…, |b| …)` on the store / the top view
  | init                                  -- the closure returns `b.initialized()`
  | drop                                  -- the closure returns without looking at the view
  | setr (r : Rdr)                        -- replace the session's reader
  | read (caps : List Nat)                -- `reader.read_buffer(x.cap_at(c1)…)`
  deriving Repr, Inhabited

inductive Resp where
  | wrote (ok : Bool)
  | num (n : Nat)
  | opened
  | closed (bytes : Option (List UInt8))
  | readOk (bytes : List UInt8)
  | readErr
  | done
  | panic
  | badOp
  deriving DecidableEq, Repr, Inhabited

/-- drop `c`, then every view of `rest` (each one is the parent of the one before it) -/
def unwindFrom (st : Store) (c : View) : List View → Store
  | [] => st.release c
  | p :: rest => unwindFrom st (View.writeBack p c) rest

/-- drops of all live views, innermost first (normal return of the closures or unwinding) -/
def unwindStack (st : Store) : List View → Store
  | [] => st
  | c :: rest => unwindFrom st c rest

namespace Sess

def unwind (s : Sess) : Sess := { s with store := unwindStack s.store s.stack, stack := [] }

/-- drop of the innermost view -/
def pop (s : Sess) : Sess :=
  match s.stack with
  | [] => s
  | [v] => { s with store := s.store.release v, stack := [] }
  | c :: p :: rest => { s with stack := View.writeBack p c :: rest }

/-- the uncapped view a new `with_buffer` on the store (depth 0) or on the innermost view gets -/
def base (s : Sess) : Option View :=
  match s.stack with
  | [] => s.store.top
  | p :: _ => p.child

/-- apply `f` to the innermost view -/
def onTop (s : Sess) (f : View → View × Res) (okR capR : Resp) : Sess × Resp :=
  match s.stack with
  | [] => (s, .badOp)
  | v :: rest =>
    match f v with
    | (v', .ok) => ({ s with stack := v' :: rest }, okR)
    | (v', .cap) => ({ s with stack := v' :: rest }, capR)
    | (v', .panic) => (unwind { s with stack := v' :: rest }, .panic)

/-- `with_buffer(x.cap_at(..).., …)`: `none` when a `cap_at` inside `to_buffer_ref` panicked; the
uncapped intermediate object exists already and is dropped by the unwinding -/
def openView (s : Sess) (caps : List Nat) : Sess × Bool :=
  match s.base with
  | none => (unwind s, false)
  | some b =>
    match b.capAll caps with
    | some v => ({ s with stack := v :: s.stack }, true)
    | none => (unwind { s with stack := b :: s.stack }, false)

/-- a caller-owned `BufferRef` is not a `Buffer`: it cannot be capped (only views *of* it can) -/
def rawCapped (s : Sess) (caps : List Nat) : Bool :=
  s.stack.isEmpty && (s.store.kind == .raw) && !caps.isEmpty

/-- `read_buffer_ref` on the innermost (fresh) view, after which the closure of `read_buffer`
returns: `reader.read(buf.uninitialized_mut())?; buf.advance(read); buf.initialized()` -/
def readTop (s : Sess) : Sess × Resp :=
  match s.stack with
  | [] => (s, .badOp)   -- not reached from `step`
  | v :: rest =>
    let x := s.rdr.read (v.mem.length - v.init)
    let v1 := v.poke x.wrote
    let s1 : Sess := { s with stack := v1 :: rest, rdr := x.next }
    match x.ret with
    | .panic => (unwind s1, .panic)
    | .err => (s1.pop, .readErr)
    | .ok k =>
      match v1.advance k with
      | (v2, .ok) =>
        let s2 : Sess := { s1 with stack := v2 :: rest }
        match v2.initialized with
        | some bs => (s2.pop, .readOk bs)
        | none => (unwind s2, .panic)
      | (v2, _) => (unwind { s1 with stack := v2 :: rest }, .panic)

def step (s : Sess) : Op → Sess × Resp
  | .write bs => s.onTop (·.extend bs) (.wrote true) (.wrote false)
  | .extendRep b n =>
    -- an iterator that is longer than the free space is cut after the first byte that does not fit
    s.onTop (fun v => v.extend (List.replicate (min n (v.mem.length - v.init + 1)) b))
      (.wrote true) (.wrote false)
  | .extendPanic bs =>
    s.onTop (fun v => match v.extend bs with
      | (v', .ok) => (v', .panic)        -- the iterator panics when it is pulled once more
      | r => r) (.wrote true) (.wrote false)
  | .advance n fill =>
    s.onTop (fun v => (v.poke (List.replicate (min n (v.mem.length - v.init)) fill)).advance n) .done .done
  | .remaining =>
    match s.stack with
    | [] => (s, .badOp)
    | v :: _ =>
      match v.remaining with
      | some n => (s, .num n)
      | none => (unwind s, .panic)
  | .openV caps =>
    if s.rawCapped caps then (s, .badOp)
    else
      match s.openView caps with
      | (s', true) => (s', .opened)
      | (s', false) => (s', .panic)
  | .init =>
    match s.stack with
    | [] => (s, .badOp)
    | v :: _ =>
      match v.initialized with
      | some bs => (s.pop, .closed (some bs))
      | none => (unwind s, .panic)
  | .drop =>
    match s.stack with
    | [] => (s, .badOp)
    | _ :: _ => (s.pop, .closed none)
  | .setr r => ({ s with rdr := r }, .done)
  | .read caps =>
    if s.rawCapped caps then (s, .badOp)
    else
      match s.openView caps with
      | (s', false) => (s', .panic)
      | (s', true) => s'.readTop

def run (s : Sess) : List Op → Sess × List Resp
  | [] => (s, [])
  | op :: ops =>
    let (s1, r) := s.step op
    let (s2, rs) := run s1 ops
    (s2, r :: rs)

end Sess

/-- a fresh container: `Vec::with_capacity(cap)` holding `old`; a slice with contents `old` -/
def Store.fresh (k : Kind) (cap : Nat) (old : List UInt8) (junk : UInt8) : Store :=
  match k with
  | .vec | .arr => { kind := k, buf := old ++ List.replicate (cap - old.length) junk, len := old.length }
  | .slice | .sref | .raw => { kind := k, buf := old, len := 0 }

def Sess.fresh (st : Store) : Sess := { store := st, stack := [], rdr := .empty }

end Tw.Buffer
