import Tw.Gen.Packet6
import Tw.Model.PacketCommon
import Tw.Model.Huffman

/-
Model of `net/src/protocol.rs` (Teeworlds 0.6 / DDNet packets).

* header codecs `PacketHeader`, `ChunkHeader`, `ChunkHeaderVital`: `pack` / `unpackWarn` written
  with the masks and shifts extracted from the Rust functions (`Tw.Gen.Packet6.<Type>_<fn>_<k>`);
* `write` (`Packet::write`, `ConnectedPacket::write_impl`, `ControlPacket::write`,
  `write_connless_packet`), `writeChunk` (`write_chunk`);
* `read` (`Packet::read` / `read_panic_on_decompression`), `hasTokenHeuristic`, `decompress`,
  `decompressIfNeeded`, `isInitial`, `needsDecompression`; `readChunkHeader` + the shared iterator.

Numbers are `Nat`s with explicit truncation where the Rust truncates (`as u8`, `<<` on `u8`); every
`assert!`/`unwrap`/`expect` that can fail is an explicit `panic` outcome.
-/
namespace Tw.Packet6
open Tw.Packet
open Tw.Gen.Packet6

/-! ### header codecs -/

structure PacketHeader where
  flags : Nat       -- u8 (4 bits used)
  ack : Nat         -- u16 (10 bits used)
  numChunks : Nat   -- u8
  deriving Repr, DecidableEq, BEq

/-- `PacketHeaderPacked::unpack_warn` on the bytes `flags_padding_ack, ack, num_chunks` -/
def PacketHeader.unpackWarn (b0 b1 b2 : Nat) : PacketHeader × List Warning :=
  ({ flags := (b0 &&& PacketHeaderPacked_unpack_warn_4) >>> PacketHeaderPacked_unpack_warn_5,
     ack := ((b0 &&& PacketHeaderPacked_unpack_warn_6) <<< PacketHeaderPacked_unpack_warn_7) ||| b1,
     numChunks := b2 },
   if b0 &&& PacketHeaderPacked_unpack_warn_0 = 0 ∧ b0 &&& PacketHeaderPacked_unpack_warn_2 ≠ 0
   then [.packetHeaderPadding] else [])

/-- `PacketHeader::pack`; `none` = one of the two `assert!`s fails -/
def PacketHeader.pack (h : PacketHeader) : Option (Nat × Nat × Nat) :=
  if h.flags >>> PACKET_FLAGS_BITS ≠ 0 ∨ h.ack >>> SEQUENCE_BITS ≠ 0 then none
  else some (((h.flags <<< PacketHeader_pack_2) % 256) ||| ((h.ack >>> PacketHeader_pack_3) % 256),
             h.ack % 256, h.numChunks)

/-- `ChunkHeaderPacked::unpack_warn` on `flags_size, padding_size` -/
def chunkHeaderUnpackWarn (b0 b1 : Nat) : ChunkHeader × List Warning :=
  ({ flags := (b0 &&& ChunkHeaderPacked_unpack_warn_2) >>> ChunkHeaderPacked_unpack_warn_3,
     size := ((b0 &&& ChunkHeaderPacked_unpack_warn_4) <<< ChunkHeaderPacked_unpack_warn_5)
             ||| (b1 &&& ChunkHeaderPacked_unpack_warn_6) },
   if b1 &&& ChunkHeaderPacked_unpack_warn_0 ≠ 0 then [.chunkHeaderPadding] else [])

/-- `ChunkHeader::pack` -/
def chunkHeaderPack (h : ChunkHeader) : Option (Nat × Nat) :=
  if h.flags >>> CHUNK_FLAGS_BITS ≠ 0 ∨ h.size >>> CHUNK_SIZE_BITS ≠ 0 then none
  else some ((((h.flags &&& ChunkHeader_pack_2) <<< ChunkHeader_pack_3) % 256)
               ||| (((h.size &&& ChunkHeader_pack_4) >>> ChunkHeader_pack_5) % 256),
             (h.size &&& ChunkHeader_pack_6) % 256)

/-- `ChunkHeaderVitalPacked::unpack_warn` on `flags_size, sequence_size, sequence`; the sequence
warning is emitted before the warnings of the embedded `ChunkHeaderPacked::unpack_warn` -/
def chunkHeaderVitalUnpackWarn (b0 b1 b2 : Nat) : ChunkHeaderVital × List Warning :=
  let w1 : List Warning :=
    if (b1 &&& ChunkHeaderVitalPacked_unpack_warn_0) >>> ChunkHeaderVitalPacked_unpack_warn_1
        ≠ (b2 &&& ChunkHeaderVitalPacked_unpack_warn_2) >>> ChunkHeaderVitalPacked_unpack_warn_3
    then [.chunkHeaderSequence] else []
  let (h, w2) := chunkHeaderUnpackWarn b0 (b1 &&& ChunkHeaderVitalPacked_unpack_warn_4)
  ({ h := h,
     sequence := ((b1 &&& ChunkHeaderVitalPacked_unpack_warn_5) <<< ChunkHeaderVitalPacked_unpack_warn_6)
                 ||| (b2 &&& ChunkHeaderVitalPacked_unpack_warn_7) },
   w1 ++ w2)

/-- `ChunkHeaderVital::pack` (the sequence assertion comes first, then those of `h.pack()`) -/
def chunkHeaderVitalPack (v : ChunkHeaderVital) : Option (Nat × Nat × Nat) :=
  if v.sequence >>> SEQUENCE_BITS ≠ 0 then none
  else match chunkHeaderPack v.h with
    | none => none
    | some (fs, ps) =>
      some (fs,
            (ps &&& ChunkHeaderVital_pack_1)
              ||| (((v.sequence &&& ChunkHeaderVital_pack_2) >>> ChunkHeaderVital_pack_3) % 256),
            (v.sequence &&& ChunkHeaderVital_pack_4) % 256)

/-- `read_chunk_header` -/
def readChunkHeader (data : List UInt8) : Option (ChunkHeader × Option Nat × List Warning) :=
  match data with
  | b0 :: b1 :: rest =>
    let (h, ws) := chunkHeaderUnpackWarn b0.toNat b1.toNat
    if h.flags &&& CHUNKFLAG_VITAL ≠ 0 then
      match rest with
      | b2 :: _ =>
        let (hv, wv) := chunkHeaderVitalUnpackWarn b0.toNat b1.toNat b2.toNat
        some (hv.h, some hv.sequence, wv)
      | [] => none
    else some (h, none, ws)
  | _ => none

def codec : ChunkCodec :=
  { readHeader := readChunkHeader, headerSize := CHUNK_HEADER_SIZE,
    headerSizeVital := CHUNK_HEADER_SIZE_VITAL, resendFlag := CHUNKFLAG_RESEND }

/-! ### packets -/

inductive Control where
  | keepAlive
  | connect
  | connectAccept
  | accept
  | close (reason : List UInt8)
  deriving Repr, DecidableEq, BEq

inductive Body where
  | chunks (requestResend : Bool) (numChunks : Nat) (payload : List UInt8)
  | control (c : Control)
  deriving Repr, DecidableEq, BEq

inductive Packet where
  | connless (payload : List UInt8)
  | connected (ack : Nat) (token : Option Token) (body : Body)
  deriving Repr, DecidableEq, BEq

inductive WriteResult where
  | ok (bytes : List UInt8)
  /-- `Ok(bytes)` was returned although payload and token did not fit into the 2048-byte `ArrayVec` of
  `write_impl`: `bytes` encode a *truncated* payload / token, no error is reported -/
  | okTruncated (bytes : List UInt8)
  | capacity                 -- `Error::Capacity`
  | tooLongData              -- `Error::TooLongData`
  | panic (site : String)
  deriving Repr, DecidableEq

/-- capacity of the two `ArrayVec<[u8; 2048]>` in `write_impl` -/
def TOKEN_BUFFER_CAP : Nat := WRITE_TOKEN_BUFFER_SIZE
def COMPRESSION_BUFFER_CAP : Nat := WRITE_COMPRESSION_BUFFER_SIZE

def ofNat3 (x : Nat × Nat × Nat) : List UInt8 := [UInt8.ofNat x.1, UInt8.ofNat x.2.1, UInt8.ofNat x.2.2]
def ofNat2 (x : Nat × Nat) : List UInt8 := [UInt8.ofNat x.1, UInt8.ofNat x.2]

def Control.magic : Control → Nat
  | .keepAlive => CTRLMSG_KEEPALIVE
  | .connect => CTRLMSG_CONNECT
  | .connectAccept => CTRLMSG_CONNECTACCEPT
  | .accept => CTRLMSG_ACCEPT
  | .close _ => CTRLMSG_CLOSE

/-- `ControlPacket::write` -/
def writeControl (c : Control) (token : Option Token) (ack : Nat) (cap : Nat) : WriteResult :=
  match PacketHeader.pack { flags := PACKETFLAG_CONTROL, ack := ack, numChunks := 0 } with
  | none => .panic "PacketHeader::pack"
  | some hdr =>
  match bufWrite cap [] (ofNat3 hdr) with
  | none => .capacity
  | some b1 =>
  match bufWrite cap b1 [UInt8.ofNat c.magic] with
  | none => .capacity
  | some b2 =>
  match (if (c = .connect ∨ c = .connectAccept) ∧ token.isSome
         then bufWrite cap b2 CTRLMSG_TOKEN_MAGIC else some b2) with
  | none => .capacity
  | some b3 =>
  let afterReason : WriteResult :=
    match c with
    | .close m =>
      if m.any (· = 0) then .panic "ControlPacket::write: reason contains NUL"
      else match bufWrite cap b3 m with
        | none => .capacity
        | some b4 =>
          match bufWrite cap b4 [0] with
          | none => .capacity
          | some b5 => .ok b5
    | _ => .ok b3
  match afterReason with
  | .ok b5 =>
    (match (match token with | some t => bufWrite cap b5 t.toList | none => some b5) with
     | none => .capacity
     | some b6 =>
       if b6.length ≤ MAX_PACKETSIZE then .ok b6
       else .panic "ControlPacket::write: result.len() <= MAX_PACKETSIZE")
  | r => r

/-- `token_buffer`: payload and token copied through `io::Write for ArrayVec<[u8; 2048]>`, which
truncates silently at the capacity -/
def tokenExtend (payload : List UInt8) (token : Option Token) : List UInt8 :=
  match token with
  | some tk => (payload ++ tk.toList).take TOKEN_BUFFER_CAP
  | none => payload

/-- the compression decision of `write_impl`: `some s` = the compressed form `s` is sent (it fitted
into the 2048-byte buffer and is strictly shorter than `p`), `none` = `p` is sent as it is -/
def chooseCompression (t : Huffman.Table) (p : List UInt8) : Option (List UInt8) :=
  match Huffman.compressInto t false p COMPRESSION_BUFFER_CAP with
  | some s => if s.length < p.length then some s else none
  | none => none

/-- the `Chunks` arm of `ConnectedPacket::write_impl` after the token was appended -/
def writeChunksCore (t : Huffman.Table) (ack : Nat) (requestResend : Bool) (numChunks : Nat)
    (p : List UInt8) (cap : Nat) : WriteResult :=
  let comp := chooseCompression t p
  let flags := (if requestResend then PACKETFLAG_REQUEST_RESEND else 0)
               ||| (if comp.isSome then PACKETFLAG_COMPRESSION else 0)
  match PacketHeader.pack { flags := flags, ack := ack, numChunks := numChunks } with
  | none => .panic "PacketHeader::pack"
  | some hdr =>
  match bufWrite cap [] (ofNat3 hdr) with
  | none => .capacity
  | some b1 =>
  match bufWrite cap b1 (comp.getD p) with
  | none => .capacity
  | some b2 => .ok b2

/-- the `Chunks` arm of `ConnectedPacket::write_impl` -/
def writeChunks (t : Huffman.Table) (ack : Nat) (token : Option Token) (requestResend : Bool)
    (numChunks : Nat) (payload : List UInt8) (cap : Nat) : WriteResult :=
  match writeChunksCore t ack requestResend numChunks (tokenExtend payload token) cap with
  | .ok bs =>
    -- `io::Write for ArrayVec` copied only what fitted: silent truncation
    if token.isSome ∧ payload.length + TOKEN_SIZE > TOKEN_BUFFER_CAP then .okTruncated bs else .ok bs
  | r => r

/-- `write_connless_packet` -/
def writeConnless (payload : List UInt8) (cap : Nat) : WriteResult :=
  if payload.length > CONNLESS_WRITE_LIMIT then .tooLongData
  else match bufWrite cap [] (List.replicate (HEADER_SIZE + PADDING_SIZE_CONNLESS)
                                (UInt8.ofNat CONNLESS_PADDING_BYTE)) with
    | none => .capacity
    | some b1 =>
      match bufWrite cap b1 payload with
      | none => .capacity
      | some b2 => .ok b2

/-- `Packet::write` into a buffer of capacity `cap` -/
def write (t : Huffman.Table) (p : Packet) (cap : Nat) : WriteResult :=
  match p with
  | .connless payload => writeConnless payload cap
  | .connected ack token (.chunks rr nc payload) => writeChunks t ack token rr nc payload cap
  | .connected ack token (.control c) => writeControl c token ack cap

inductive ChunkWriteResult where
  | ok (bytes : List UInt8)
  | capacity
  | panic (site : String)
  deriving Repr, DecidableEq

/-- `write_chunk` appended to a buffer holding `acc` (the callers pass the same buffer repeatedly) -/
def writeChunk (bytes : List UInt8) (vital : Option (Nat × Bool)) (cap : Nat) (acc : List UInt8) :
    ChunkWriteResult :=
  if bytes.length >>> CHUNK_SIZE_BITS ≠ 0 then .panic "write_chunk: bytes.len() >> CHUNK_SIZE_BITS == 0"
  else
    let (sequence, resend) := vital.getD (0, false)
    let flags := (if vital.isSome then CHUNKFLAG_VITAL else 0) ||| (if resend then CHUNKFLAG_RESEND else 0)
    let hn : ChunkHeader := { flags := flags, size := bytes.length }
    let hdr : Option (List UInt8) :=
      if vital.isSome then (chunkHeaderVitalPack { h := hn, sequence := sequence }).map ofNat3
      else (chunkHeaderPack hn).map ofNat2
    match hdr with
    | none => .panic "ChunkHeader(Vital)::pack"
    | some hb =>
      match bufWrite cap acc hb with
      | none => .capacity
      | some b1 =>
        match bufWrite cap b1 bytes with
        | none => .capacity
        | some b2 => .ok b2

/-- `write_chunk` for each chunk of a list in turn, into one buffer (how the connection builds a
packet payload) -/
def writeChunkList (cs : List (List UInt8 × Option (Nat × Bool))) (cap : Nat) (acc : List UInt8) :
    ChunkWriteResult :=
  match cs with
  | [] => .ok acc
  | (d, v) :: rest =>
    match writeChunk d v cap acc with
    | .ok acc' => writeChunkList rest cap acc'
    | r => r

/-! ### reading -/

inductive ReadError where
  | compression | controlMissing | shortConnless | tokenMissing | tooLong | tooShort | unknownControl
  deriving Repr, DecidableEq, BEq

def ReadError.name : ReadError → String
  | .compression => "Compression"
  | .controlMissing => "ControlMissing"
  | .shortConnless => "ShortConnless"
  | .tokenMissing => "TokenMissing"
  | .tooLong => "TooLong"
  | .tooShort => "TooShort"
  | .unknownControl => "UnknownControl"

structure ReadOk where
  pkt : Packet
  warns : List Warning
  /-- location of the packet's byte-slice field (connless payload, chunk payload, close reason);
  `none` for the control packets without one -/
  loc : Option Loc
  /-- contents of the scratch buffer after the call (`[]` if it was not written) -/
  scratch : List UInt8
  deriving Repr, DecidableEq

inductive ReadResult where
  | ok (r : ReadOk)
  | err (e : ReadError) (warns : List Warning)   -- warnings emitted before the error
  | panic (site : String)
  | diverge                   -- only if the Huffman decoder runs out of fuel (excluded by C07)
  deriving Repr, DecidableEq

/-- `has_token_heuristic` -/
def hasTokenHeuristic (control : Bool) (numChunks : Nat) (payload : List UInt8) : Bool :=
  let e : Sum Bool Nat :=
    if control then
      match payload with
      | [] => .inl false
      | c :: pl =>
        if c.toNat = CTRLMSG_CONNECT ∨ c.toNat = CTRLMSG_CONNECTACCEPT then
          if pl.length < 4 ∨ pl.take 4 ≠ CTRLMSG_TOKEN_MAGIC then .inl false else .inr (1 + 4)
        else if c.toNat = CTRLMSG_CLOSE then
          let nul := nulPos pl
          if pl.length = 4 ∧ (nul ≠ 3 ∨ ¬ validUtf8 (pl.take 3)) then .inl true
          else .inr (1 + nul + 1)
        else .inr 1
    else
      match Iter.skip codec numChunks (Iter.new payload numChunks) with
      | none => .inl false
      | some it => .inr it.pos
  match e with
  | .inl b => b
  | .inr n => decide (n + TOKEN_SIZE ≤ payload.length)

/-- `Packet::needs_decompression` -/
def needsDecompression (packet : List UInt8) : Bool :=
  if packet.length > MAX_PACKETSIZE then false
  else match packet with
    | b0 :: b1 :: b2 :: _ =>
      let h := (PacketHeader.unpackWarn b0.toNat b1.toNat b2.toNat).1
      h.flags &&& PACKETFLAG_CONNLESS = 0 ∧ h.flags &&& PACKETFLAG_COMPRESSION ≠ 0
    | _ => false

/-- `Packet::is_initial` -/
def isInitial (packet : List UInt8) : Bool :=
  if packet.length > MAX_PACKETSIZE then false
  else match packet with
    | b0 :: b1 :: b2 :: payload =>
      let h := (PacketHeader.unpackWarn b0.toNat b1.toNat b2.toNat).1
      if h.flags &&& PACKETFLAG_CONNLESS ≠ 0 then true
      else
        -- `!PACKETFLAG_REQUEST_RESEND` on `u8`
        h.flags &&& (255 - PACKETFLAG_REQUEST_RESEND) = PACKETFLAG_CONTROL
          ∧ (payload.head?.map (·.toNat) = some CTRLMSG_CONNECT
             ∨ payload.head?.map (·.toNat) = some CTRLMSG_ACCEPT)
    | _ => false

inductive DecompressResult where
  | ok (scratch : List UInt8)   -- `buffer.initialized()`: fake header followed by the payload
  | capacity                    -- `DecompressionError::Capacity`
  | panic (site : String)
  | diverge
  deriving Repr, DecidableEq

/-- `Packet::decompress_impl` into a buffer with `cap` free bytes -/
def decompress (t : Huffman.Table) (packet : List UInt8) (cap : Nat) : DecompressResult :=
  if cap < MAX_PACKETSIZE then .panic "decompress: buffer.remaining() >= MAX_PACKETSIZE"
  else if ¬ needsDecompression packet then .panic "decompress: needs_decompression(packet)"
  else match packet with
    | b0 :: b1 :: b2 :: payload =>
      let h := (PacketHeader.unpackWarn b0.toNat b1.toNat b2.toNat).1
      -- `header.flags & !PACKETFLAG_COMPRESSION` on `u8`
      match PacketHeader.pack { h with flags := h.flags &&& (255 - PACKETFLAG_COMPRESSION) } with
      | none => .panic "PacketHeader::pack"
      | some fake =>
        match bufWrite cap [] (ofNat3 fake) with
        | none => .panic "decompress: buffer.write(fake_header).unwrap()"
        | some b1 =>
          match Huffman.decompress t payload (cap - b1.length) with
          | .ok out => .ok (b1 ++ out)
          | .capacity => .capacity
          | .diverge => .diverge
    | _ => .panic "decompress: packet too short for header"

inductive DinResult where
  | ok (decompressed : Bool) (scratch : List UInt8)
  | err
  | panic (site : String)
  | diverge
  deriving Repr, DecidableEq

/-- `Packet::decompress_if_needed` -/
def decompressIfNeeded (t : Huffman.Table) (packet : List UInt8) (cap : Nat) : DinResult :=
  if cap < MAX_PACKETSIZE then .panic "decompress_if_needed: buffer.remaining() >= MAX_PACKETSIZE"
  else if ¬ needsDecompression packet then .ok false []
  else match decompress t packet cap with
    | .ok s => .ok true s
    | .capacity => .err
    | .panic s => .panic s
    | .diverge => .diverge

/-- the control arm of `read_impl` after the token was split off, value part: `payload` starts with the
control byte and lives at offset `off` of `src` -/
def controlValue (payload : List UInt8) (src : Src) (off : Nat) : Except ReadError (Control × Option Loc) :=
  match payload with
  | [] => .error .controlMissing
  | c :: pl =>
    let c := c.toNat
    if c = CTRLMSG_KEEPALIVE then .ok (.keepAlive, none)
    else if c = CTRLMSG_CONNECT then .ok (.connect, none)
    else if c = CTRLMSG_CONNECTACCEPT then .ok (.connectAccept, none)
    else if c = CTRLMSG_ACCEPT then .ok (.accept, none)
    else if c = CTRLMSG_CLOSE then
      .ok (.close (pl.take (min (nulPos pl) CTRLMSG_CLOSE_REASON_LENGTH)), some { src := src, off := off + 1 })
    else .error .unknownControl

/-- the warnings the control arm emits (in order; also those emitted before an error return) -/
def controlWarns (h : PacketHeader) (token : Option Token) (payload : List UInt8) : List Warning :=
  let w0 : List Warning := if h.numChunks ≠ 0 then [.controlNumChunks] else []
  let w1 : List Warning :=
    if h.flags &&& PACKETFLAG_COMPRESSION ≠ 0 ∨ h.flags &&& PACKETFLAG_REQUEST_RESEND ≠ 0
    then [.controlFlags] else []
  match payload with
  | [] => w0 ++ w1
  | c :: pl =>
    let c := c.toNat
    let w2 : List Warning :=
      if c = CTRLMSG_CONNECT ∨ c = CTRLMSG_CONNECTACCEPT then
        if token.isSome then
          if pl.take CTRLMSG_TOKEN_MAGIC.length ≠ CTRLMSG_TOKEN_MAGIC then
            [.controlConnectMissingTokenMagic] ++ (if pl ≠ [] then [.controlExcessData] else [])
          else if pl.length > CTRLMSG_TOKEN_MAGIC.length then [.controlExcessData] else []
        else if pl ≠ [] then [.controlExcessData] else []
      else if c = CTRLMSG_CLOSE then
        let nul := min (nulPos pl) CTRLMSG_CLOSE_REASON_LENGTH
        if pl.length ≠ 0 ∧ nul + 1 ≠ pl.length then
          if nul + 1 < pl.length then [.controlExcessData] else [.controlNulTermination]
        else []
      else if pl.length ≠ 0 then [.controlExcessData] else []
    w0 ++ w1 ++ w2

/-- the control arm of `read_impl`: warnings and value -/
def readControl (h : PacketHeader) (token : Option Token) (payload : List UInt8) (src : Src)
    (off : Nat) : List Warning × Except ReadError (Control × Option Loc) :=
  (controlWarns h token payload, controlValue payload src off)

/-- embedding of the panic-free part of the reader -/
def ReadResult.lift : Except (ReadError × List Warning) ReadOk → ReadResult
  | .ok r => .ok r
  | .error (e, ws) => .err e ws

/-- `read_impl` for a connectionless header: `payload0` = the bytes after the 3-byte header -/
def readConnless (bytes payload0 : List UInt8) (wh : List Warning) :
    Except (ReadError × List Warning) ReadOk :=
  if payload0.length < PADDING_SIZE_CONNLESS then .error (.shortConnless, wh)
  else
    let padding := payload0.take PADDING_SIZE_CONNLESS
    let payload := payload0.drop PADDING_SIZE_CONNLESS
    let wp : List Warning :=
      if ¬ allEq 0xff padding ∨ ¬ allEq 0xff (bytes.take 3) then [.connlessPadding] else []
    .ok { pkt := .connless payload, warns := wh ++ wp,
          loc := some { src := .input, off := HEADER_SIZE + PADDING_SIZE_CONNLESS }, scratch := [] }

/-- `read_impl` once it is decided whether the payload ends with a token -/
def readBodyWith (h : PacketHeader) (wh : List Warning) (payload : List UInt8) (src : Src)
    (scratch : List UInt8) (hasToken : Bool) : Except (ReadError × List Warning) ReadOk :=
  if hasToken ∧ payload.length < TOKEN_SIZE then .error (.tokenMissing, wh)
  else
    let tb := payload.drop (payload.length - TOKEN_SIZE)
    let token : Option Token :=
      if hasToken then some ⟨tb.getD 0 0, tb.getD 1 0, tb.getD 2 0, tb.getD 3 0⟩ else none
    let payload := if hasToken then payload.take (payload.length - TOKEN_SIZE) else payload
    if h.flags &&& PACKETFLAG_CONTROL ≠ 0 then
      match controlValue payload src HEADER_SIZE with
      | .error e => .error (e, wh ++ controlWarns h token payload)
      | .ok (c, loc) =>
        .ok { pkt := .connected h.ack token (.control c), warns := wh ++ controlWarns h token payload,
              loc := loc, scratch := scratch }
    else
      let rr : Bool := h.flags &&& PACKETFLAG_REQUEST_RESEND ≠ 0
      let wn : List Warning := if h.numChunks = 0 ∧ ¬ rr then [.chunksNoChunks] else []
      .ok { pkt := .connected h.ack token (.chunks rr h.numChunks payload), warns := wh ++ wn,
            loc := some { src := src, off := HEADER_SIZE }, scratch := scratch }

/-- `read_impl` after the (possibly decompressed) payload of a connected packet has been located:
`payload` lives at offset `HEADER_SIZE` of `src`. No panic site is left in this part. -/
def readBody (h : PacketHeader) (wh : List Warning) (payload : List UInt8) (src : Src)
    (scratch : List UInt8) (tokenHint : Option Bool) : Except (ReadError × List Warning) ReadOk :=
  if payload.length > READ_PAYLOAD_LIMIT then .error (.compression, wh)
  else
    readBodyWith h wh payload src scratch
      (match tokenHint with
       | some b => b
       | none => hasTokenHeuristic (h.flags &&& PACKETFLAG_CONTROL ≠ 0) h.numChunks payload)

/-- `Packet::read_impl`. `buffer = some cap`: `Packet::read` with a scratch buffer of `cap` free
bytes; `buffer = none`: `read_panic_on_decompression`. -/
def read (t : Huffman.Table) (bytes : List UInt8) (tokenHint : Option Bool) (buffer : Option Nat) :
    ReadResult :=
  if (match buffer with | some cap => decide (cap < MAX_PACKETSIZE) | none => false) then
    .panic "read_impl: buffer.remaining() >= MAX_PACKETSIZE"
  else if bytes.length > MAX_PACKETSIZE then .err .tooLong []
  else match bytes with
  | b0 :: b1 :: b2 :: payload0 =>
    let hw := PacketHeader.unpackWarn b0.toNat b1.toNat b2.toNat
    if hw.1.flags &&& PACKETFLAG_CONNLESS ≠ 0 then .lift (readConnless bytes payload0 hw.2)
    else if hw.1.flags &&& PACKETFLAG_COMPRESSION ≠ 0 then
      match buffer with
      | none => .panic "read_panic_on_decompression called on compressed packet"
      | some cap =>
        match decompress t bytes cap with
        | .ok s =>
          if s.length < HEADER_SIZE then .panic "ref_and_rest_from(decompressed).unwrap()"
          else .lift (readBody hw.1 hw.2 (s.drop HEADER_SIZE) .scratch s tokenHint)
        | .capacity => .err .compression hw.2
        | .panic site => .panic site
        | .diverge => .diverge
    else .lift (readBody hw.1 hw.2 payload0 .input [] tokenHint)
  | _ => .err .tooShort []

/-! ### the same functions with the Huffman decoder as a parameter

`decompress t = decompressWith (Huffman.decompress t)` etc. are theorems (`Tw/Proofs/Packet6Read.lean`); the
drivers evaluate `readWith (Huffman.decompressFast t)`, which is equal by `Tw.Huffman.decompressFast_eq`. -/

/-- `Packet::decompress_impl` with the Huffman decoder as a parameter (the drivers pass the proven-equal
`Huffman.decompressFast`, see `readWith_decompress`); into a buffer with `cap` free bytes -/
def decompressWith (dec : List UInt8 → Nat → Huffman.DecResult) (packet : List UInt8) (cap : Nat) : DecompressResult :=
  if cap < MAX_PACKETSIZE then .panic "decompress: buffer.remaining() >= MAX_PACKETSIZE"
  else if ¬ needsDecompression packet then .panic "decompress: needs_decompression(packet)"
  else match packet with
    | b0 :: b1 :: b2 :: payload =>
      let h := (PacketHeader.unpackWarn b0.toNat b1.toNat b2.toNat).1
      -- `header.flags & !PACKETFLAG_COMPRESSION` on `u8`
      match PacketHeader.pack { h with flags := h.flags &&& (255 - PACKETFLAG_COMPRESSION) } with
      | none => .panic "PacketHeader::pack"
      | some fake =>
        match bufWrite cap [] (ofNat3 fake) with
        | none => .panic "decompress: buffer.write(fake_header).unwrap()"
        | some b1 =>
          match dec payload (cap - b1.length) with
          | .ok out => .ok (b1 ++ out)
          | .capacity => .capacity
          | .diverge => .diverge
    | _ => .panic "decompress: packet too short for header"


/-- `Packet::decompress_if_needed` with the Huffman decoder as a parameter (the drivers pass the proven-equal
`Huffman.decompressFast`, see `readWith_decompress`); -/
def decompressIfNeededWith (dec : List UInt8 → Nat → Huffman.DecResult) (packet : List UInt8) (cap : Nat) : DinResult :=
  if cap < MAX_PACKETSIZE then .panic "decompress_if_needed: buffer.remaining() >= MAX_PACKETSIZE"
  else if ¬ needsDecompression packet then .ok false []
  else match decompressWith dec packet cap with
    | .ok s => .ok true s
    | .capacity => .err
    | .panic s => .panic s
    | .diverge => .diverge


/-- `Packet::read_impl` with the Huffman decoder as a parameter (the drivers pass the proven-equal
`Huffman.decompressFast`, see `readWith_decompress`);. `buffer = some cap`: `Packet::read` with a scratch buffer of `cap` free
bytes; `buffer = none`: `read_panic_on_decompression`. -/
def readWith (dec : List UInt8 → Nat → Huffman.DecResult) (bytes : List UInt8) (tokenHint : Option Bool) (buffer : Option Nat) :
    ReadResult :=
  if (match buffer with | some cap => decide (cap < MAX_PACKETSIZE) | none => false) then
    .panic "read_impl: buffer.remaining() >= MAX_PACKETSIZE"
  else if bytes.length > MAX_PACKETSIZE then .err .tooLong []
  else match bytes with
  | b0 :: b1 :: b2 :: payload0 =>
    let hw := PacketHeader.unpackWarn b0.toNat b1.toNat b2.toNat
    if hw.1.flags &&& PACKETFLAG_CONNLESS ≠ 0 then .lift (readConnless bytes payload0 hw.2)
    else if hw.1.flags &&& PACKETFLAG_COMPRESSION ≠ 0 then
      match buffer with
      | none => .panic "read_panic_on_decompression called on compressed packet"
      | some cap =>
        match decompressWith dec bytes cap with
        | .ok s =>
          if s.length < HEADER_SIZE then .panic "ref_and_rest_from(decompressed).unwrap()"
          else .lift (readBody hw.1 hw.2 (s.drop HEADER_SIZE) .scratch s tokenHint)
        | .capacity => .err .compression hw.2
        | .panic site => .panic site
        | .diverge => .diverge
    else .lift (readBody hw.1 hw.2 payload0 .input [] tokenHint)
  | _ => .err .tooShort []


/-- the byte-slice field of a packet -/
def Packet.slice : Packet → Option (List UInt8)
  | .connless p => some p
  | .connected _ _ (.chunks _ _ p) => some p
  | .connected _ _ (.control (.close r)) => some r
  | .connected _ _ (.control _) => none

end Tw.Packet6
