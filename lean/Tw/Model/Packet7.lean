import Tw.Gen.Packet7
import Tw.Model.PacketCommon
import Tw.Model.Huffman

/-
Model of `net/src/protocol7.rs` (Teeworlds 0.7 packets).  Same conventions as `Tw.Packet6`
(`Tw/Model/Packet6.lean`); differences of the format: the packet header carries a 4-byte token
(7 bytes), connectionless packets have their own 9-byte header with two tokens, chunk sizes have 12
bits, there is no token hint, and the control messages are KeepAlive / Connect(token) / Accept /
Close(reason) / Token(token).
-/
namespace Tw.Packet7
open Tw.Packet
open Tw.Gen.Packet7

/-! ### header codecs -/

structure PacketHeader where
  flags : Nat       -- u8 (4 bits used)
  ack : Nat         -- u16 (10 bits used)
  numChunks : Nat   -- u8
  token : Token
  deriving Repr, DecidableEq, BEq

/-- `PacketHeaderPacked::unpack_warn` on `padding_flags_ack, ack, num_chunks, token` -/
def PacketHeader.unpackWarn (b0 b1 b2 : Nat) (token : Token) : PacketHeader × List Warning :=
  ({ flags := (b0 &&& PacketHeaderPacked_unpack_warn_2) >>> PacketHeaderPacked_unpack_warn_3,
     ack := ((b0 &&& PacketHeaderPacked_unpack_warn_4) <<< PacketHeaderPacked_unpack_warn_5) ||| b1,
     numChunks := b2,
     token := token },
   if b0 &&& PacketHeaderPacked_unpack_warn_0 ≠ 0 then [.packetHeaderPadding] else [])

/-- `PacketHeader::pack`: the three non-token bytes (the token bytes are copied); `none` = assertion -/
def PacketHeader.pack (h : PacketHeader) : Option (Nat × Nat × Nat) :=
  if h.flags >>> PACKET_FLAGS_BITS ≠ 0 ∨ h.ack >>> SEQUENCE_BITS ≠ 0 then none
  else some (((h.flags <<< PacketHeader_pack_2) % 256) ||| ((h.ack >>> PacketHeader_pack_3) % 256),
             h.ack % 256, h.numChunks)

structure PacketHeaderConnless where
  flags : Nat     -- u8 (4 bits)
  version : Nat   -- u8 (2 bits)
  token : Token
  responseToken : Token
  deriving Repr, DecidableEq, BEq

/-- `PacketHeaderConnlessPacked::unpack_warn` on `padding_flags_version, token, response_token` -/
def PacketHeaderConnless.unpackWarn (b0 : Nat) (token responseToken : Token) :
    PacketHeaderConnless × List Warning :=
  ({ flags := (b0 &&& PacketHeaderConnlessPacked_unpack_warn_2) >>> PacketHeaderConnlessPacked_unpack_warn_3,
     version := b0 &&& PacketHeaderConnlessPacked_unpack_warn_4,
     token := token, responseToken := responseToken },
   if b0 &&& PacketHeaderConnlessPacked_unpack_warn_0 ≠ 0 then [.packetHeaderPadding] else [])

/-- `PacketHeaderConnless::pack`: the first byte -/
def PacketHeaderConnless.pack (h : PacketHeaderConnless) : Option Nat :=
  if h.flags >>> PACKET_FLAGS_BITS ≠ 0 ∨ h.version >>> VERSION_BITS ≠ 0 then none
  else some (((h.flags <<< PacketHeaderConnless_pack_2) % 256) ||| h.version)

/-- `ChunkHeaderPacked::unpack_warn` on `flags_size, padding_size` -/
def chunkHeaderUnpackWarn (b0 b1 : Nat) : ChunkHeader × List Warning :=
  ({ flags := (b0 &&& ChunkHeaderPacked_unpack_warn_2) >>> ChunkHeaderPacked_unpack_warn_3,
     size := ((b0 &&& ChunkHeaderPacked_unpack_warn_4) <<< ChunkHeaderPacked_unpack_warn_5)
             ||| (b1 &&& ChunkHeaderPacked_unpack_warn_6) },
   if b1 &&& ChunkHeaderPacked_unpack_warn_0 ≠ 0 then [.chunkHeaderPadding] else [])

/-- `ChunkHeader::pack` -/
def chunkHeaderPack (h : ChunkHeader) : Option (Nat × Nat) :=
  if h.flags >>> CHUNK_FLAGS_BITS ≠ 0 ∨ h.size >>> CHUNK_SIZE_BITS ≠ 0 then none
  else some ((((h.flags &&& ChunkHeader_pack_2) <<< ChunkHeader_pack_3) % 256)
               ||| (((h.size &&& ChunkHeader_pack_4) >>> ChunkHeader_pack_5) % 256),
             (h.size &&& ChunkHeader_pack_6) % 256)

/-- `ChunkHeaderVitalPacked::unpack_warn` on `flags_size, sequence_size, sequence` -/
def chunkHeaderVitalUnpackWarn (b0 b1 b2 : Nat) : ChunkHeaderVital × List Warning :=
  let (h, w) := chunkHeaderUnpackWarn b0 (b1 &&& ChunkHeaderVitalPacked_unpack_warn_0)
  ({ h := h,
     sequence := ((b1 &&& ChunkHeaderVitalPacked_unpack_warn_1) <<< ChunkHeaderVitalPacked_unpack_warn_2)
                 ||| (b2 &&& ChunkHeaderVitalPacked_unpack_warn_3) },
   w)

/-- `ChunkHeaderVital::pack` -/
def chunkHeaderVitalPack (v : ChunkHeaderVital) : Option (Nat × Nat × Nat) :=
  if v.sequence >>> SEQUENCE_BITS ≠ 0 then none
  else match chunkHeaderPack v.h with
    | none => none
    | some (fs, ps) =>
      some (fs,
            (ps &&& ChunkHeaderVital_pack_1)
              ||| (((v.sequence &&& ChunkHeaderVital_pack_2) >>> ChunkHeaderVital_pack_3) % 256),
            (v.sequence &&& ChunkHeaderVital_pack_4) % 256)

/-- `read_chunk_header` -/
def readChunkHeader (data : List UInt8) : Option (ChunkHeader × Option Nat × List Warning) :=
  match data with
  | b0 :: b1 :: rest =>
    let (h, ws) := chunkHeaderUnpackWarn b0.toNat b1.toNat
    if h.flags &&& CHUNKFLAG_VITAL ≠ 0 then
      match rest with
      | b2 :: _ =>
        let (hv, wv) := chunkHeaderVitalUnpackWarn b0.toNat b1.toNat b2.toNat
        some (hv.h, some hv.sequence, wv)
      | [] => none
    else some (h, none, ws)
  | _ => none

def codec : ChunkCodec :=
  { readHeader := readChunkHeader, headerSize := CHUNK_HEADER_SIZE,
    headerSizeVital := CHUNK_HEADER_SIZE_VITAL, resendFlag := CHUNKFLAG_RESEND }

/-! ### packets -/

inductive Control where
  | keepAlive
  | connect (responseToken : Token)
  | accept
  | close (reason : List UInt8)
  | token (responseToken : Token)
  deriving Repr, DecidableEq, BEq

inductive Body where
  | chunks (requestResend : Bool) (numChunks : Nat) (payload : List UInt8)
  | control (c : Control)
  deriving Repr, DecidableEq, BEq

inductive Packet where
  | connless (payload : List UInt8) (token : Token) (responseToken : Token)
  | connected (ack : Nat) (token : Token) (body : Body)
  deriving Repr, DecidableEq, BEq

inductive WriteResult where
  | ok (bytes : List UInt8)
  | capacity
  | tooLongData
  | panic (site : String)
  deriving Repr, DecidableEq

def tokenNone : Token := ⟨TOKEN_NONE.getD 0 0, TOKEN_NONE.getD 1 0, TOKEN_NONE.getD 2 0, TOKEN_NONE.getD 3 0⟩

/-- capacity of the `ArrayVec<[u8; 2048]>` in `write_impl` -/
def COMPRESSION_BUFFER_CAP : Nat := WRITE_COMPRESSION_BUFFER_SIZE

/-- bytes of a packed `PacketHeader` -/
def hdrBytes (x : Nat × Nat × Nat) (token : Token) : List UInt8 :=
  [UInt8.ofNat x.1, UInt8.ofNat x.2.1, UInt8.ofNat x.2.2] ++ token.toList

def ofNat3 (x : Nat × Nat × Nat) : List UInt8 := [UInt8.ofNat x.1, UInt8.ofNat x.2.1, UInt8.ofNat x.2.2]
def ofNat2 (x : Nat × Nat) : List UInt8 := [UInt8.ofNat x.1, UInt8.ofNat x.2]

def Control.magic : Control → Nat
  | .keepAlive => CTRLMSG_KEEPALIVE
  | .connect _ => CTRLMSG_CONNECT
  | .accept => CTRLMSG_ACCEPT
  | .close _ => CTRLMSG_CLOSE
  | .token _ => CTRLMSG_TOKEN

/-- `TOKEN_REQUEST_PACKET_SIZE - size_of::<PacketHeaderPacked>() - 1 - size_of::<Token>()` -/
def TOKEN_REQUEST_PADDING : Nat := TOKEN_REQUEST_PACKET_SIZE - HEADER_SIZE - 1 - 4

/-- `ControlPacket::write` -/
def writeControl (c : Control) (token : Token) (ack : Nat) (cap : Nat) : WriteResult :=
  match PacketHeader.pack { flags := PACKETFLAG_CONTROL, ack := ack, numChunks := 0, token := token } with
  | none => .panic "PacketHeader::pack"
  | some hdr =>
  match bufWrite cap [] (hdrBytes hdr token) with
  | none => .capacity
  | some b1 =>
  match bufWrite cap b1 [UInt8.ofNat c.magic] with
  | none => .capacity
  | some b2 =>
  let body : WriteResult :=
    match c with
    | .keepAlive => .ok b2
    | .accept => .ok b2
    | .connect rt =>
      if rt = tokenNone then .panic "ControlPacket::write: response_token != TOKEN_NONE"
      else match bufWrite cap b2 rt.toList with
        | none => .capacity
        | some b3 => .ok b3
    | .close m =>
      if m.any (· = 0) then .panic "ControlPacket::write: reason contains NUL"
      else match bufWrite cap b2 m with
        | none => .capacity
        | some b3 =>
          match bufWrite cap b3 [0] with
          | none => .capacity
          | some b4 => .ok b4
    | .token rt =>
      if rt = tokenNone then .panic "ControlPacket::write: response_token != TOKEN_NONE"
      else match bufWrite cap b2 rt.toList with
        | none => .capacity
        | some b3 =>
          if token = tokenNone then
            match bufWrite cap b3 (List.replicate TOKEN_REQUEST_PADDING 0) with
            | none => .capacity
            | some b4 => .ok b4
          else .ok b3
  match body with
  | .ok b =>
    if b.length ≤ MAX_PACKETSIZE then .ok b
    else .panic "ControlPacket::write: result.len() <= MAX_PACKETSIZE"
  | r => r

/-- the compression decision of `write_impl`: `some s` = the compressed form `s` is sent (it fitted
into the 2048-byte buffer and is strictly shorter than `p`), `none` = `p` is sent as it is -/
def chooseCompression (t : Huffman.Table) (p : List UInt8) : Option (List UInt8) :=
  match Huffman.compressInto t false p COMPRESSION_BUFFER_CAP with
  | some s => if s.length < p.length then some s else none
  | none => none

/-- the `Chunks` arm of `ConnectedPacket::write_impl` -/
def writeChunks (t : Huffman.Table) (ack : Nat) (token : Token) (requestResend : Bool)
    (numChunks : Nat) (payload : List UInt8) (cap : Nat) : WriteResult :=
  let comp := chooseCompression t payload
  let flags := (if requestResend then PACKETFLAG_REQUEST_RESEND else 0)
               ||| (if comp.isSome then PACKETFLAG_COMPRESSION else 0)
  match PacketHeader.pack { flags := flags, ack := ack, numChunks := numChunks, token := token } with
  | none => .panic "PacketHeader::pack"
  | some hdr =>
  match bufWrite cap [] (hdrBytes hdr token) with
  | none => .capacity
  | some b1 =>
  match bufWrite cap b1 (comp.getD payload) with
  | none => .capacity
  | some b2 => .ok b2

/-- `write_connless_packet` -/
def writeConnless (payload : List UInt8) (token responseToken : Token) (cap : Nat) : WriteResult :=
  if payload.length > CONNLESS_WRITE_LIMIT then .tooLongData
  else match PacketHeaderConnless.pack { flags := PACKETFLAG_CONNLESS, version := CONNLESS_VERSION,
                                          token := token, responseToken := responseToken } with
    | none => .panic "PacketHeaderConnless::pack"
    | some b0 =>
      match bufWrite cap [] ([UInt8.ofNat b0] ++ token.toList ++ responseToken.toList) with
      | none => .capacity
      | some b1 =>
        match bufWrite cap b1 payload with
        | none => .capacity
        | some b2 => .ok b2

/-- `Packet::write` into a buffer of capacity `cap` -/
def write (t : Huffman.Table) (p : Packet) (cap : Nat) : WriteResult :=
  match p with
  | .connless payload token rt => writeConnless payload token rt cap
  | .connected ack token (.chunks rr nc payload) => writeChunks t ack token rr nc payload cap
  | .connected ack token (.control c) => writeControl c token ack cap

inductive ChunkWriteResult where
  | ok (bytes : List UInt8)
  | capacity
  | panic (site : String)
  deriving Repr, DecidableEq

/-- `write_chunk` appended to a buffer holding `acc` -/
def writeChunk (bytes : List UInt8) (vital : Option (Nat × Bool)) (cap : Nat) (acc : List UInt8) :
    ChunkWriteResult :=
  if bytes.length >>> CHUNK_SIZE_BITS ≠ 0 then .panic "write_chunk: bytes.len() >> CHUNK_SIZE_BITS == 0"
  else
    let (sequence, resend) := vital.getD (0, false)
    let flags := (if vital.isSome then CHUNKFLAG_VITAL else 0) ||| (if resend then CHUNKFLAG_RESEND else 0)
    let hn : ChunkHeader := { flags := flags, size := bytes.length }
    let hdr : Option (List UInt8) :=
      if vital.isSome then (chunkHeaderVitalPack { h := hn, sequence := sequence }).map ofNat3
      else (chunkHeaderPack hn).map ofNat2
    match hdr with
    | none => .panic "ChunkHeader(Vital)::pack"
    | some hb =>
      match bufWrite cap acc hb with
      | none => .capacity
      | some b1 =>
        match bufWrite cap b1 bytes with
        | none => .capacity
        | some b2 => .ok b2

/-- `write_chunk` for each chunk of a list in turn, into one buffer (how the connection builds a
packet payload) -/
def writeChunkList (cs : List (List UInt8 × Option (Nat × Bool))) (cap : Nat) (acc : List UInt8) :
    ChunkWriteResult :=
  match cs with
  | [] => .ok acc
  | (d, v) :: rest =>
    match writeChunk d v cap acc with
    | .ok acc' => writeChunkList rest cap acc'
    | r => r

/-! ### reading -/

inductive ReadError where
  | compression | controlMissing | controlResponseTokenMissing | controlTokenRequestTooShort
  | tooLong | tooShort | unknownConnlessVersion | unknownControl
  deriving Repr, DecidableEq, BEq

def ReadError.name : ReadError → String
  | .compression => "Compression"
  | .controlMissing => "ControlMissing"
  | .controlResponseTokenMissing => "ControlResponseTokenMissing"
  | .controlTokenRequestTooShort => "ControlTokenRequestTooShort"
  | .tooLong => "TooLong"
  | .tooShort => "TooShort"
  | .unknownConnlessVersion => "UnknownConnlessVersion"
  | .unknownControl => "UnknownControl"

structure ReadOk where
  pkt : Packet
  warns : List Warning
  loc : Option Loc
  scratch : List UInt8
  deriving Repr, DecidableEq

inductive ReadResult where
  | ok (r : ReadOk)
  | err (e : ReadError) (warns : List Warning)
  | panic (site : String)
  | diverge
  deriving Repr, DecidableEq

def tok4 (bs : List UInt8) : Token := ⟨bs.getD 0 0, bs.getD 1 0, bs.getD 2 0, bs.getD 3 0⟩

/-- `Packet::needs_decompression` -/
def needsDecompression (packet : List UInt8) : Bool :=
  if packet.length > MAX_PACKETSIZE then false
  else if packet.length < HEADER_SIZE then false
  else
    let h := (PacketHeader.unpackWarn (packet.getD 0 0).toNat (packet.getD 1 0).toNat
               (packet.getD 2 0).toNat (tok4 (packet.drop 3))).1
    h.flags &&& PACKETFLAG_CONNLESS = 0 ∧ h.flags &&& PACKETFLAG_COMPRESSION ≠ 0

inductive DecompressResult where
  | ok (scratch : List UInt8)
  | capacity
  | panic (site : String)
  | diverge
  deriving Repr, DecidableEq

/-- `Packet::decompress_impl` into a buffer with `cap` free bytes -/
def decompress (t : Huffman.Table) (packet : List UInt8) (cap : Nat) : DecompressResult :=
  if cap < MAX_PACKETSIZE then .panic "decompress: buffer.remaining() >= MAX_PACKETSIZE"
  else if ¬ needsDecompression packet then .panic "decompress: needs_decompression(packet)"
  else if packet.length < HEADER_SIZE then .panic "decompress: packet too short for header"
  else
    let token := tok4 (packet.drop 3)
    let h := (PacketHeader.unpackWarn (packet.getD 0 0).toNat (packet.getD 1 0).toNat
               (packet.getD 2 0).toNat token).1
    match PacketHeader.pack { h with flags := h.flags &&& (255 - PACKETFLAG_COMPRESSION) } with
    | none => .panic "PacketHeader::pack"
    | some fake =>
      match bufWrite cap [] (hdrBytes fake token) with
      | none => .panic "decompress: buffer.write(fake_header).unwrap()"
      | some b1 =>
        match Huffman.decompress t (packet.drop HEADER_SIZE) (cap - b1.length) with
        | .ok out => .ok (b1 ++ out)
        | .capacity => .capacity
        | .diverge => .diverge

inductive DinResult where
  | ok (decompressed : Bool) (scratch : List UInt8)
  | err
  | panic (site : String)
  | diverge
  deriving Repr, DecidableEq

/-- `Packet::decompress_if_needed` -/
def decompressIfNeeded (t : Huffman.Table) (packet : List UInt8) (cap : Nat) : DinResult :=
  if cap < MAX_PACKETSIZE then .panic "decompress_if_needed: buffer.remaining() >= MAX_PACKETSIZE"
  else if ¬ needsDecompression packet then .ok false []
  else match decompress t packet cap with
    | .ok s => .ok true s
    | .capacity => .err
    | .panic s => .panic s
    | .diverge => .diverge

/-- the `token` closure of `read_impl`: the response token in the first four bytes -/
def responseToken (pl : List UInt8) : Except ReadError Token :=
  if pl.length < 4 then .error .controlResponseTokenMissing
  else if tok4 pl = tokenNone then .error .controlResponseTokenMissing
  else .ok (tok4 pl)

/-- the control arm of `read_impl`, value part: `payload` starts with the control byte and lives at
offset `off` of `src`; `totalLen` is `bytes.len()` of the datagram -/
def controlValue (h : PacketHeader) (payload : List UInt8) (src : Src) (off : Nat) (totalLen : Nat) :
    Except ReadError (Control × Option Loc) :=
  match payload with
  | [] => .error .controlMissing
  | c :: pl =>
    let c := c.toNat
    if c = CTRLMSG_KEEPALIVE then .ok (.keepAlive, none)
    else if c = CTRLMSG_CONNECT then
      match responseToken pl with
      | .ok rt => .ok (.connect rt, none)
      | .error e => .error e
    else if c = CTRLMSG_ACCEPT then .ok (.accept, none)
    else if c = CTRLMSG_CLOSE then
      .ok (.close (pl.take (min (nulPos pl) CTRLMSG_CLOSE_REASON_LENGTH)), some { src := src, off := off + 1 })
    else if c = CTRLMSG_TOKEN then
      if h.token = tokenNone ∧ totalLen < TOKEN_REQUEST_PACKET_SIZE then .error .controlTokenRequestTooShort
      else
        match responseToken pl with
        | .ok rt => .ok (.token rt, none)
        | .error e => .error e
    else .error .unknownControl

/-- the warnings the control arm emits (in order; also those emitted before an error return) -/
def controlWarns (h : PacketHeader) (payload : List UInt8) (totalLen : Nat) : List Warning :=
  let w0 : List Warning := if h.numChunks ≠ 0 then [.controlNumChunks] else []
  let w1 : List Warning :=
    if h.flags &&& PACKETFLAG_COMPRESSION ≠ 0 ∨ h.flags &&& PACKETFLAG_REQUEST_RESEND ≠ 0
    then [.controlFlags] else []
  match payload with
  | [] => w0 ++ w1
  | c :: pl =>
    let c := c.toNat
    let wEmpty : List Warning := if pl ≠ [] then [.controlExcessData] else []
    -- the excess-data warning of the `token` closure (only after a token was found)
    let wTok (warnMore : Bool) : List Warning :=
      match responseToken pl with
      | .ok _ => if warnMore ∧ pl.drop 4 ≠ [] then [.controlExcessData] else []
      | .error _ => []
    let w2 : List Warning :=
      if c = CTRLMSG_KEEPALIVE then wEmpty
      else if c = CTRLMSG_CONNECT then wTok true
      else if c = CTRLMSG_ACCEPT then wEmpty
      else if c = CTRLMSG_CLOSE then
        let nul := min (nulPos pl) CTRLMSG_CLOSE_REASON_LENGTH
        if pl.length ≠ 0 ∧ nul + 1 ≠ pl.length then
          if nul + 1 < pl.length then [.controlExcessData] else [.controlNulTermination]
        else []
      else if c = CTRLMSG_TOKEN then
        if h.token = tokenNone ∧ totalLen < TOKEN_REQUEST_PACKET_SIZE then []
        else wTok (h.token ≠ tokenNone)
      else []
    w0 ++ w1 ++ w2

/-- the control arm of `read_impl`: warnings and value -/
def readControl (h : PacketHeader) (payload : List UInt8) (src : Src) (off : Nat) (totalLen : Nat) :
    List Warning × Except ReadError (Control × Option Loc) :=
  (controlWarns h payload totalLen, controlValue h payload src off totalLen)

/-- embedding of the panic-free part of the reader -/
def ReadResult.lift : Except (ReadError × List Warning) ReadOk → ReadResult
  | .ok r => .ok r
  | .error (e, ws) => .err e ws

/-- `read_impl` for a header with the connless flag -/
def readConnless (bytes : List UInt8) (wh : List Warning) : Except (ReadError × List Warning) ReadOk :=
  if bytes.length < HEADER_SIZE_CONNLESS then .error (.tooShort, wh)
  else
    let (hc, wc) := PacketHeaderConnless.unpackWarn (bytes.getD 0 0).toNat (tok4 (bytes.drop 1))
                      (tok4 (bytes.drop 5))
    if hc.version ≠ CONNLESS_VERSION then .error (.unknownConnlessVersion, wh ++ wc)
    else
      let wf : List Warning :=
        if hc.flags &&& PACKETFLAG_COMPRESSION ≠ 0 ∨ hc.flags &&& PACKETFLAG_REQUEST_RESEND ≠ 0
           ∨ hc.flags &&& PACKETFLAG_CONTROL ≠ 0 then [.connlessFlags] else []
      .ok { pkt := .connless (bytes.drop HEADER_SIZE_CONNLESS) hc.token hc.responseToken,
            warns := wh ++ wc ++ wf,
            loc := some { src := .input, off := HEADER_SIZE_CONNLESS }, scratch := [] }

/-- `read_impl` after the (possibly decompressed) payload of a connected packet has been located:
`payload` lives at offset `HEADER_SIZE` of `src`; `totalLen` = `bytes.len()`. No panic site is left
in this part. -/
def readBody (h : PacketHeader) (wh : List Warning) (payload : List UInt8) (src : Src)
    (scratch : List UInt8) (totalLen : Nat) : Except (ReadError × List Warning) ReadOk :=
  if payload.length > READ_PAYLOAD_LIMIT then .error (.compression, wh)
  else if h.flags &&& PACKETFLAG_CONTROL ≠ 0 then
    match readControl h payload src HEADER_SIZE totalLen with
    | (ws, .error e) => .error (e, wh ++ ws)
    | (ws, .ok (c, loc)) =>
      .ok { pkt := .connected h.ack h.token (.control c), warns := wh ++ ws, loc := loc,
            scratch := scratch }
  else
    let rr : Bool := h.flags &&& PACKETFLAG_REQUEST_RESEND ≠ 0
    let wn : List Warning := if h.numChunks = 0 ∧ ¬ rr then [.chunksNoChunks] else []
    .ok { pkt := .connected h.ack h.token (.chunks rr h.numChunks payload), warns := wh ++ wn,
          loc := some { src := src, off := HEADER_SIZE }, scratch := scratch }

/-- `Packet::read_impl`. `buffer = some cap`: `Packet::read`; `none`: `read_panic_on_decompression`. -/
def read (t : Huffman.Table) (bytes : List UInt8) (buffer : Option Nat) : ReadResult :=
  if (match buffer with | some cap => decide (cap < MAX_PACKETSIZE) | none => false) then
    .panic "read_impl: buffer.remaining() >= MAX_PACKETSIZE"
  else if bytes.length > MAX_PACKETSIZE then .err .tooLong []
  else if bytes.length < HEADER_SIZE then .err .tooShort []
  else
    let hw := PacketHeader.unpackWarn (bytes.getD 0 0).toNat (bytes.getD 1 0).toNat
                (bytes.getD 2 0).toNat (tok4 (bytes.drop 3))
    if hw.1.flags &&& PACKETFLAG_CONNLESS ≠ 0 then .lift (readConnless bytes hw.2)
    else if hw.1.flags &&& PACKETFLAG_COMPRESSION ≠ 0 then
      match buffer with
      | none => .panic "read_panic_on_decompression called on compressed packet"
      | some cap =>
        match decompress t bytes cap with
        | .ok s =>
          if s.length < HEADER_SIZE then .panic "ref_and_rest_from(decompressed).unwrap()"
          else .lift (readBody hw.1 hw.2 (s.drop HEADER_SIZE) .scratch s bytes.length)
        | .capacity => .err .compression hw.2
        | .panic site => .panic site
        | .diverge => .diverge
    else .lift (readBody hw.1 hw.2 (bytes.drop HEADER_SIZE) .input [] bytes.length)

/-! ### the same functions with the Huffman decoder as a parameter

`decompress t = decompressWith (Huffman.decompress t)` etc. are theorems (`Tw/Proofs/Packet7Read.lean`); the
drivers evaluate `readWith (Huffman.decompressFast t)`, which is equal by `Tw.Huffman.decompressFast_eq`. -/

/-- `Packet::decompress_impl` with the Huffman decoder as a parameter (the drivers pass the proven-equal
`Huffman.decompressFast`, see `readWith_decompress`); into a buffer with `cap` free bytes -/
def decompressWith (dec : List UInt8 → Nat → Huffman.DecResult) (packet : List UInt8) (cap : Nat) : DecompressResult :=
  if cap < MAX_PACKETSIZE then .panic "decompress: buffer.remaining() >= MAX_PACKETSIZE"
  else if ¬ needsDecompression packet then .panic "decompress: needs_decompression(packet)"
  else if packet.length < HEADER_SIZE then .panic "decompress: packet too short for header"
  else
    let token := tok4 (packet.drop 3)
    let h := (PacketHeader.unpackWarn (packet.getD 0 0).toNat (packet.getD 1 0).toNat
               (packet.getD 2 0).toNat token).1
    match PacketHeader.pack { h with flags := h.flags &&& (255 - PACKETFLAG_COMPRESSION) } with
    | none => .panic "PacketHeader::pack"
    | some fake =>
      match bufWrite cap [] (hdrBytes fake token) with
      | none => .panic "decompress: buffer.write(fake_header).unwrap()"
      | some b1 =>
        match dec (packet.drop HEADER_SIZE) (cap - b1.length) with
        | .ok out => .ok (b1 ++ out)
        | .capacity => .capacity
        | .diverge => .diverge


/-- `Packet::decompress_if_needed` with the Huffman decoder as a parameter (the drivers pass the proven-equal
`Huffman.decompressFast`, see `readWith_decompress`); -/
def decompressIfNeededWith (dec : List UInt8 → Nat → Huffman.DecResult) (packet : List UInt8) (cap : Nat) : DinResult :=
  if cap < MAX_PACKETSIZE then .panic "decompress_if_needed: buffer.remaining() >= MAX_PACKETSIZE"
  else if ¬ needsDecompression packet then .ok false []
  else match decompressWith dec packet cap with
    | .ok s => .ok true s
    | .capacity => .err
    | .panic s => .panic s
    | .diverge => .diverge


/-- `Packet::read_impl` with the Huffman decoder as a parameter (the drivers pass the proven-equal
`Huffman.decompressFast`, see `readWith_decompress`);. `buffer = some cap`: `Packet::read`; `none`: `read_panic_on_decompression`. -/
def readWith (dec : List UInt8 → Nat → Huffman.DecResult) (bytes : List UInt8) (buffer : Option Nat) : ReadResult :=
  if (match buffer with | some cap => decide (cap < MAX_PACKETSIZE) | none => false) then
    .panic "read_impl: buffer.remaining() >= MAX_PACKETSIZE"
  else if bytes.length > MAX_PACKETSIZE then .err .tooLong []
  else if bytes.length < HEADER_SIZE then .err .tooShort []
  else
    let hw := PacketHeader.unpackWarn (bytes.getD 0 0).toNat (bytes.getD 1 0).toNat
                (bytes.getD 2 0).toNat (tok4 (bytes.drop 3))
    if hw.1.flags &&& PACKETFLAG_CONNLESS ≠ 0 then .lift (readConnless bytes hw.2)
    else if hw.1.flags &&& PACKETFLAG_COMPRESSION ≠ 0 then
      match buffer with
      | none => .panic "read_panic_on_decompression called on compressed packet"
      | some cap =>
        match decompressWith dec bytes cap with
        | .ok s =>
          if s.length < HEADER_SIZE then .panic "ref_and_rest_from(decompressed).unwrap()"
          else .lift (readBody hw.1 hw.2 (s.drop HEADER_SIZE) .scratch s bytes.length)
        | .capacity => .err .compression hw.2
        | .panic site => .panic site
        | .diverge => .diverge
    else .lift (readBody hw.1 hw.2 (bytes.drop HEADER_SIZE) .input [] bytes.length)


/-- the byte-slice field of a packet -/
def Packet.slice : Packet → Option (List UInt8)
  | .connless p _ _ => some p
  | .connected _ _ (.chunks _ _ p) => some p
  | .connected _ _ (.control (.close r)) => some r
  | .connected _ _ (.control _) => none

end Tw.Packet7
