import Tw.Gen.Net
import Tw.Model.Conn6

/-!
# The multi-peer endpoint (`net/src/net.rs`, `collections/peer_map.rs`)

`Net<A>` keeps a `PeerMap<Peer<A>>` — a `linear_map::LinearMap<PeerId, Peer>`, i.e. a **vector of
`(pid, peer)` pairs**: lookup by key is "first match", insertion of a vacant key is `push`, removal
is `Vec::swap_remove` of the first match (the last element moves into the hole), iteration is vector
order.  `Peers::pid_from_addr` is "first match on the address".  A `Peer` is a 0.6 `Connection`
(model: `Tw.Conn6.Conn`), the remote address and the flag "the connect request carried a token".

Conventions as in the connection models: packets are structured (`Conn6.Packet`), the byte level is
the packet reader's business, so `feed` takes the result of `Packet::read` as a function of the token
hint; addresses are natural numbers; the callback's `send` is infallible (`CB::Error` uninhabited);
every reachable panic site is `Fail.panic`, a loop that never ends is `Fail.hang`.  Everything a call
hands to the outside is tagged with the address it concerns (`Out`), so "what the endpoint did for
address `a`" is a filter (`Out.for`).
-/
namespace Tw.Net
open Tw.Conn Tw.Conn6 Tw.Time

/-- `struct Peer<A>` -/
structure Peer where
  conn : Conn
  addr : Nat
  /-- the incoming connect request indicated token support -/
  token : Bool
deriving Repr, DecidableEq

/-- `Peer::new` -/
def Peer.new (addr : Nat) (token : Bool) : Peer := ⟨Conn.new, addr, token⟩

/-- the storage vector of the `LinearMap<PeerId, Peer>` -/
abbrev Peers := List (Nat × Peer)

/-! ## `LinearMap` / `PeerMap` -/

/-- `PeerMap::get`: first entry with this key -/
def lookup : Peers → Nat → Option Peer
  | [], _ => none
  | e :: es, pid => if e.1 = pid then some e.2 else lookup es pid

/-- `*PeerMap::get_mut(pid) = p`: overwrite the value of the first entry with this key -/
def update : Peers → Nat → Peer → Peers
  | [], _, _ => []
  | e :: es, pid, p => if e.1 = pid then (e.1, p) :: es else e :: update es pid p

/-- index of the first entry with this key (`storage.iter().position(..)`) -/
def indexOf : Peers → Nat → Option Nat
  | [], _ => none
  | e :: es, pid => if e.1 = pid then some 0 else (indexOf es pid).map (· + 1)

/-- `Vec::swap_remove(i)`: the last element takes the place of element `i` -/
def swapRemove {α : Type} (l : List α) (i : Nat) : List α :=
  match l.getLast? with
  | none => l
  | some last => (l.set i last).dropLast

/-- `PeerMap::remove`: `LinearMap::remove(..).unwrap_or_else(|| panic!("invalid pid"))` -/
def remove (ps : Peers) (pid : Nat) : Except Fail Peers :=
  match indexOf ps pid with
  | none => .error (.panic "invalid pid")
  | some i => .ok (swapRemove ps i)

/-- `Peers::pid_from_addr`: first entry with this address -/
def pidFromAddr : Peers → Nat → Option Nat
  | [], _ => none
  | e :: es, a => if e.2.addr = a then some e.1 else pidFromAddr es a

/-! ## `Net` -/

/-- number of peer ids (`PeerId(pub u32)`) -/
def idMod : Nat := 2 ^ Tw.Gen.Net.peerIdBits

/-- `PeerId::get_and_increment` (the new value of the counter) -/
def idNext (n : Nat) : Nat := (n + Tw.Gen.Net.peerIdStep) % idMod

structure Net where
  peers : Peers := []
  nextPeerId : Nat := Tw.Gen.Net.firstPeerId
  acceptConnections : Bool
deriving Repr, DecidableEq

/-- `Net::server()` / `Net::client()` -/
def Net.new (acceptConnections : Bool) : Net := { acceptConnections }

/-- `ChunkOrEvent` -/
inductive NEvent where
  | chunk (pid : Nat) (vital : Bool) (data : Bytes)
  | connless (addr : Nat) (pid : Option Nat) (data : Bytes)
  | connect (pid : Nat)
  | ready (pid : Nat)
  | disconnect (pid : Nat) (reason : Bytes)
deriving Repr, DecidableEq

/-- `connection::Warning` as far as the endpoint itself raises it -/
inductive CWarn where
  | read | unexpected
deriving Repr, DecidableEq

/-- `net::Warning` -/
inductive NWarn where
  | peer (addr pid : Nat) (w : Warn)
  | connless (addr : Nat) (w : CWarn)
deriving Repr, DecidableEq

/-- What a call hands to the outside, each item tagged with the address it concerns: datagrams
given to `Callback::send(addr, _)` (in order), the drained `ReceivePacket`, warnings. -/
structure Out where
  sent : List (Nat × Packet) := []
  events : List (Nat × NEvent) := []
  warns : List (Nat × NWarn) := []
deriving Repr, DecidableEq

/-- the part of an output that concerns address `a` -/
def Out.for (o : Out) (a : Nat) : Out :=
  ⟨o.sent.filter (·.1 = a), o.events.filter (·.1 = a), o.warns.filter (·.1 = a)⟩

/-- return value of a call -/
inductive Ret where
  | unit
  | pid (pid : Nat)
  | send (r : SendRes)
deriving Repr, DecidableEq

abbrev Res := Except Fail (Net × Ret × Out)

/-- the `ReceiveChunk → ChunkOrEvent` map of `ReceivePacket::next` -/
def mapEvent (addr pid : Nat) : Event → NEvent
  | .connless d => .connless addr (some pid) d
  | .chunk d v => .chunk pid v d
  | .ready => .ready pid
  | .disconnect r => .disconnect pid r

/-- a connection's output, seen through `ConnectionCallback { addr }` / `WarnPeerCallback` -/
def liftOut (addr pid : Nat) (o : Conn6.Out) : Out :=
  ⟨o.sent.map (addr, ·), o.events.map (fun e => (addr, mapEvent addr pid e)),
   o.warns.map (fun w => (addr, NWarn.peer addr pid w))⟩

/-- the loop of `Peers::new_peer`: skip ids that are in use.  `none` = fuel exhausted (with
`fuel = peers.len() + 1` that happens only when all `2^32` ids are live: the code loops forever). -/
def newPeerLoop : Nat → Peers → Nat → Option (Nat × Nat)
  | 0, _, _ => none
  | fuel + 1, ps, n =>
    match lookup ps n with
    | some _ => newPeerLoop fuel ps (idNext n)
    | none => some (n, idNext n)

/-- `Peers::new_peer` -/
def newPeer (net : Net) (addr : Nat) (token : Bool) : Except Fail (Net × Nat) :=
  match newPeerLoop (net.peers.length + 1) net.peers net.nextPeerId with
  | none => .error .hang
  | some (pid, nx) =>
    .ok ({ net with peers := net.peers ++ [(pid, Peer.new addr token)], nextPeerId := nx }, pid)

/-- the id `new_peer` would hand out now -/
def freshPid (net : Net) : Option Nat :=
  (newPeerLoop (net.peers.length + 1) net.peers net.nextPeerId).map (·.1)

/-- the loop of `ReceivePacket::connected`: `remove_peer(pid)` for every `Disconnect` in the packet
(a second one would panic with "invalid pid"; a connection never reports two) -/
def removeOnDisconnect (ps : Peers) (pid : Nat) : List Event → Except Fail Peers
  | [] => .ok ps
  | .disconnect _ :: rest =>
    match remove ps pid with
    | .error e => .error e
    | .ok ps1 => removeOnDisconnect ps1 pid rest
  | _ :: rest => removeOnDisconnect ps pid rest

/-- `Net::needs_tick`: minimum over the peers, inactive for none -/
def Net.needsTick (net : Net) : Timeout :=
  net.peers.foldr (fun e m => Timeout.min e.2.conn.needsTick m) .inactive

/-- the token of `CONNECT_PACKET` (its last four bytes) -/
def cannedToken : Nat := tokenOfBytes (Tw.Gen.Net.CONNECT_PACKET.drop 8)

/-- `CONNECT_PACKET` / `CONNECT_PACKET_NO_TOKEN` as the packet reader sees them -/
def connectPacket (token : Bool) : Packet :=
  .control 0 (if token then some cannedToken else none) .connect

/-- the part of `feed_impl` for an address that has a peer -/
def feedPeer (env : Env) (net : Net) (addr pid : Nat) (read : Option Bool → Option Packet) : Res :=
  match lookup net.peers pid with
  | none => .error (.panic "invalid pid")
  | some p =>
    match Conn6.feed env p.conn read with
    | .error e => .error e
    | .ok (c, o) =>
      match removeOnDisconnect (update net.peers pid { p with conn := c }) pid o.events with
      | .error e => .error e
      | .ok ps => .ok ({ net with peers := ps }, .unit, liftOut addr pid o)

/-- the part of `feed_impl` for an address without a peer, or whose peer the application has not
yet accepted (`pending`): stateless parse (token hint `None`).  A connect request creates a peer on
an accepting endpoint; a retransmitted one (`pending`) is dropped. -/
def feedUnknown (net : Net) (addr : Nat) (pending : Bool) (read : Option Bool → Option Packet) : Res :=
  match read none with
  | none => .ok (net, .unit, { warns := [(addr, .connless addr .read)] })
  | some (.connless d) => .ok (net, .unit, { events := [(addr, .connless addr none d)] })
  | some (.control _ token .connect) =>
    if pending then .ok (net, .unit, {})
    else if net.acceptConnections then
      match newPeer net addr token.isSome with
      | .error e => .error e
      | .ok (net1, pid) => .ok (net1, .unit, { events := [(addr, .connect pid)] })
    else .ok (net, .unit, { warns := [(addr, .connless addr .unexpected)] })
  | some _ => .ok (net, .unit, { warns := [(addr, .connless addr .unexpected)] })

/-- `Net::feed`: a datagram goes to the connection of the peer at its source address, unless that
peer is still waiting for the application's `accept` / `reject` (its connection is `Unconnected`) -/
def feed (env : Env) (net : Net) (addr : Nat) (read : Option Bool → Option Packet) : Res :=
  match pidFromAddr net.peers addr with
  | some pid =>
    match lookup net.peers pid with
    | none => .error (.panic "invalid pid")
    | some p =>
      if p.conn.state = .unconnected then feedUnknown net addr true read
      else feedPeer env net addr pid read
  | none => feedUnknown net addr false read

/-- `Net::feed` before the repair of D22 (every datagram of a known address went to its connection,
also while the peer was pending acceptance); kept for the witness theorem only -/
def feedLegacy (env : Env) (net : Net) (addr : Nat) (read : Option Bool → Option Packet) : Res :=
  match pidFromAddr net.peers addr with
  | some pid => feedPeer env net addr pid read
  | none => feedUnknown net addr false read

/-- `Net::connect` -/
def connect (env : Env) (net : Net) (addr : Nat) : Res :=
  match newPeer net addr false with
  | .error e => .error e
  | .ok (net1, pid) =>
    match Conn6.connect env Conn.new with
    | .error e => .error e
    | .ok (c, o) =>
      .ok ({ net1 with peers := update net1.peers pid ⟨c, addr, false⟩ }, .pid pid, liftOut addr pid o)

/-! ### calls that concern one peer

`let peer = &mut self.peers[pid]; … peer.conn.xyz(&mut cc(cb, peer.addr), …)`: look the peer up
(panic "invalid pid"), run something on its connection, store the connection back.  The
per-connection parts are separate functions so that the single-address reference (`refStep`) can
run literally the same code on its own connection. -/

/-- `self.peers[pid]`, a call on the peer's connection, the peer stays -/
def modifyPeer (net : Net) (pid : Nat) (f : Peer → Except Fail (Conn × Ret × Conn6.Out)) : Res :=
  match lookup net.peers pid with
  | none => .error (.panic "invalid pid")
  | some p =>
    match f p with
    | .error e => .error e
    | .ok (c, r, o) =>
      .ok ({ net with peers := update net.peers pid { p with conn := c } }, r, liftOut p.addr pid o)

/-- `self.peers[pid]`, a last call on the peer's connection, `remove_peer(pid)` -/
def removePeer (net : Net) (pid : Nat) (f : Peer → Except Fail Conn6.Out) : Res :=
  match lookup net.peers pid with
  | none => .error (.panic "invalid pid")
  | some p =>
    match f p with
    | .error e => .error e
    | .ok o =>
      match remove net.peers pid with
      | .error e => .error e
      | .ok ps => .ok ({ net with peers := ps }, .unit, liftOut p.addr pid o)

/-- the connection part of `Net::disconnect` (`wantUnconnected = false`) and `Net::reject`
(`true`): the same code with opposite assertions on `is_unconnected()` -/
def peerClose (wantUnconnected : Bool) (env : Env) (reason : Bytes) (p : Peer) : Except Fail Conn6.Out :=
  if decide (p.conn.state = .unconnected) != wantUnconnected then
    .error (.panic (if wantUnconnected then "reject: assert is_unconnected" else "disconnect: assert !is_unconnected"))
  else
    match Conn6.disconnect env p.conn reason with
    | .error e => .error e
    | .ok (_, o) => .ok o

/-- `Net::disconnect` -/
def disconnect (env : Env) (net : Net) (pid : Nat) (reason : Bytes) : Res :=
  removePeer net pid (peerClose false env reason)

/-- `Net::reject` -/
def reject (env : Env) (net : Net) (pid : Nat) (reason : Bytes) : Res :=
  removePeer net pid (peerClose true env reason)

/-- `Net::ignore`: `remove_peer(pid)` and nothing else -/
def ignore (net : Net) (pid : Nat) : Res :=
  removePeer net pid (fun _ => .ok {})

/-- the connection part of `Net::send` -/
def peerSend (env : Env) (data : Bytes) (vital : Bool) (p : Peer) : Except Fail (Conn × Ret × Conn6.Out) :=
  match Conn6.send env p.conn data vital with
  | .error e => .error e
  | .ok (c, r, o) => .ok (c, .send r, o)

/-- `Net::send` -/
def send (env : Env) (net : Net) (pid : Nat) (data : Bytes) (vital : Bool) : Res :=
  modifyPeer net pid (peerSend env data vital)

/-- the connection part of `Net::flush` -/
def peerFlush (env : Env) (p : Peer) : Except Fail (Conn × Ret × Conn6.Out) :=
  match Conn6.flush env p.conn with
  | .error e => .error e
  | .ok (c, o) => .ok (c, .unit, o)

/-- `Net::flush` -/
def flush (env : Env) (net : Net) (pid : Nat) : Res :=
  modifyPeer net pid (peerFlush env)

/-- the connection part of `Net::accept`: feed the canned connect packet to the pending peer's
connection; the warning sink is `Panic`, and the returned `ReceivePacket` is asserted to be empty -/
def peerAccept (env : Env) (p : Peer) : Except Fail (Conn × Ret × Conn6.Out) :=
  if p.conn.state ≠ .unconnected then .error (.panic "accept: assert is_unconnected")
  else
    match Conn6.feed env p.conn (fun _ => some (connectPacket p.token)) with
    | .error e => .error e
    | .ok (c, o) =>
      if !o.warns.isEmpty then .error (.panic "accept: warning on the canned connect packet")
      else if !o.events.isEmpty then .error (.panic "accept: assert none.next().is_none()")
      else .ok (c, .unit, o)

/-- `Net::accept` -/
def accept (env : Env) (net : Net) (pid : Nat) : Res :=
  modifyPeer net pid (peerAccept env)

/-- `Net::send_connless` (`ConnlessBuilder::send`) -/
def sendConnless (net : Net) (addr : Nat) (data : Bytes) : Res :=
  if data.length > Tw.Gen.Conn.P6.connlessMax then .ok (net, .send .tooLongData, {})
  else
    match emit [.connless data] with
    | .error e => .error e
    | .ok ps => .ok (net, .send .ok, { sent := ps.map (addr, ·) })

/-- the drained `Tick` iterator: every peer's connection ticks, in vector order -/
def tickPeers (env : Env) : Peers → Except Fail (Peers × List (Nat × Packet))
  | [] => .ok ([], [])
  | e :: es =>
    match Conn6.tick env e.2.conn with
    | .error f => .error f
    | .ok (c, o) =>
      match tickPeers env es with
      | .error f => .error f
      | .ok (es1, sent) => .ok ((e.1, { e.2 with conn := c }) :: es1, o.sent.map (e.2.addr, ·) ++ sent)

/-- `Net::tick`, drained -/
def tick (env : Env) (net : Net) : Res :=
  match tickPeers env net.peers with
  | .error f => .error f
  | .ok (ps, sent) => .ok ({ net with peers := ps }, .unit, { sent := sent })

/-! ## Histories -/

/-- one call of the endpoint's API -/
inductive Op where
  | feed (addr : Nat) (read : Option Bool → Option Packet)
  | connect (addr : Nat)
  | accept (pid : Nat)
  | reject (pid : Nat) (reason : Bytes)
  | disconnect (pid : Nat) (reason : Bytes)
  | ignore (pid : Nat)
  | send (pid : Nat) (data : Bytes) (vital : Bool)
  | flush (pid : Nat)
  | sendConnless (addr : Nat) (data : Bytes)
  | tick

def step (env : Env) (net : Net) : Op → Res
  | .feed a rd => feed env net a rd
  | .connect a => connect env net a
  | .accept pid => accept env net pid
  | .reject pid r => reject env net pid r
  | .disconnect pid r => disconnect env net pid r
  | .ignore pid => ignore net pid
  | .send pid d v => send env net pid d v
  | .flush pid => flush env net pid
  | .sendConnless a d => sendConnless net a d
  | .tick => tick env net

/-- a history: every call with the callback it sees (clock value, upcoming random draws) -/
abbrev History := List (Env × Op)

/-- run a history; the outputs of the calls in order -/
def run : Net → History → Except Fail (Net × List (Ret × Out))
  | net, [] => .ok (net, [])
  | net, (env, op) :: h =>
    match step env net op with
    | .error f => .error f
    | .ok (net1, r, o) =>
      match run net1 h with
      | .error f => .error f
      | .ok (net2, outs) => .ok (net2, (r, o) :: outs)

end Tw.Net
