/-
`encode` into a buffer of limited capacity: the generated `encode` as the sequence of steps it
performs — `encode_id` (asserts, write), the struct's asserts, then one write per member in order
(`write_string` asserts "no NUL" right before it writes; a nested snapshot object runs its own
asserts when its turn comes) — executed against `cap` free bytes.  The first step that fails
decides: an assert panics, a write that does not fit returns `CapacityError`.

`encStruct` / `encodeMsg` of `Tw/Model/Gamenet.lean` are the `cap = ∞` view; `Tw/Proofs/GamenetCap.lean`
proves that the two agree.
-/
import Tw.Model.GamenetTyping

namespace Tw.Gamenet
open Tw.Packer (writeInt inI32)

inductive Step where
  | write (bs : List UInt8)
  | panic (site : String)
  /-- `write_data` of more than `i32::MAX` bytes -/
  | capacity
  deriving Repr, DecidableEq

/-- assert phase of one member (`assert_expr`): does it pass? -/
def assertM : MT → Val → Bool
  | .int32 min max, .int v => checkRange min max v
  | .string strict, .bytes s => !(strict && hasControl s)
  | .optional t, .some v => assertM t v
  | .array _ t, .list vs => VL.all (assertM t) vs
  | _, _ => true

def assertMs : ML → VL → Bool
  | .cons t ms, .cons v vs => assertM t v && assertMs ms vs
  | _, _ => true

def stepsList (f : Val → List Step) : VL → List Step
  | .nil => []
  | .cons v vs => f v ++ stepsList f vs

mutual
/-- write phase of one member (`encode_expr`), for a value the Rust type can hold -/
def stepsM : MT → Val → List Step
  | .string _, .bytes s => if hasNul s then [.panic "write_string: NUL"] else [.write (s ++ [0])]
  | .data, .bytes d => if d.length < 2 ^ 31 then [.write (writeInt d.length ++ d)] else [.capacity]
  | .optional _, .none => []
  | .optional t, .some v => stepsM t v
  | .array _ t, .list vs => stepsList (stepsM t) vs
  | .object ms, .list vs =>
    (if assertMs ms vs && optGuard ms vs then [] else [.panic "assert (nested object)"]) ++ stepsMs ms vs
  | .int32 _ _, .int v => [.write (writeInt v)]
  | .boolean, .bool b => [.write (writeInt (if b then 1 else 0))]
  | .enum _ _ _, .int v => [.write (writeInt v)]
  | .flags _ _, .int v => [.write (writeInt v)]
  | .tick, .int v => [.write (writeInt v)]
  | .tuneParam, .int v => [.write (writeInt v)]
  | .int32String, .int v => [.write (stringFromInt v ++ [0])]
  | .rest, .bytes d => [.write d]
  | .raw _, .bytes d => [.write d]
  | .beUint16, .int v => [.write [UInt8.ofNat (v.toNat / 256), UInt8.ofNat (v.toNat % 256)]]
  | .uint8, .int v => [.write [UInt8.ofNat v.toNat]]
  | .packedAddresses, .bytes d => [.write d]
  | .serverinfoClient, .bytes d => [.write d]
  | .twString _, .list vs => stepsList (fun | .int v => [.write (writeInt v)] | _ => []) vs
  | _, _ => []
def stepsMs : ML → VL → List Step
  | .cons t ms, .cons v vs => stepsM t v ++ stepsMs ms vs
  | _, _ => []
end

/-- `T::encode(&self, _p)`: the asserts, then the writes -/
def structSteps (ms : ML) (vs : VL) : List Step :=
  (if assertMs ms vs && optGuard ms vs then [] else [.panic "assert"]) ++ stepsMs ms vs

/-- execute the steps with `cap` bytes of room, `acc` = what has been written -/
def runSteps (cap : Nat) : List Step → List UInt8 → Enc
  | [], acc => .ok acc
  | .write bs :: rest, acc => if acc.length + bs.length ≤ cap then runSteps cap rest (acc ++ bs) else .capacity
  | .panic s :: _, _ => .panic s
  | .capacity :: _, _ => .capacity

def idSteps (sys : Bool) (id : Ident) : List Step :=
  match encodeId sys id with
  | .ok bs => [.write bs]
  | .panic s => [.panic s]
  | _ => []

/-- `System::encode` / `Game::encode` into a buffer of `cap` bytes -/
def encodeMsgCap (cap : Nat) (sys : Bool) (s : Spec) (v : VL) : Enc :=
  if encodeMsg sys s v = .badValue then .badValue
  else runSteps cap (idSteps sys s.id ++ structSteps s.members v) []

/-- `Connless::encode` into a buffer of `cap` bytes -/
def encodeConnlessCap (cap : Nat) (s : ConnlessSpec) (v : VL) : Enc :=
  if encodeConnless s v = .badValue then .badValue
  else runSteps cap (.write s.id :: structSteps s.members v) []

/-- a struct alone -/
def encStructCap (cap : Nat) (ms : ML) (vs : VL) : Enc :=
  if encStruct ms vs = .badValue then .badValue else runSteps cap (structSteps ms vs) []

end Tw.Gamenet
