import Tw.Model.Demo
import Tw.Model.Snap

/-!
Model of the high-level demo writer and reader, `demo/src/ddnet/writer.rs` (`DemoWriter`) and
`demo/src/ddnet/reader.rs` (`DemoReader`), over the snapshot model `Tw.Model.Snap` and the low-level
demo model `Tw.Model.Demo`.

An object is `(type id, id, fields)`: the typed layer (`SnapObj::encode` / `decode_obj`, message
`encode` / `decode` of the protocol crate) is C14's subject and is not modelled here; a message is
the byte string `MessageExt::encode` produces.  The object-size table `P::obj_size` is a parameter
(`Tw.Gen.Demo.ddnet_obj_sizes` for the DDNet protocol crate).

The writer is modelled **as repaired** (D12: `tick <= last_tick` is refused; D21: the packing buffer
is cleared on entry, the snapshot is serialised before anything is written, and a refused call
restores the builder; D29: payloads that do not fit into a chunk are refused before anything is
written; D28: the next builder is recycled from the snapshot just written, so that a
UUID type keeps its number from one snapshot to the next).
-/
namespace Tw.DemoHl
open Tw.Demo Tw.Snap

structure Item where
  tid : TypeId
  id : Nat
  data : List Int
  deriving DecidableEq, Repr

inductive WriteError where
  | snapBuilder (e : BuilderError)
  | tooLowTickNumber
  | tooLargeSnap
  | tooLongNetMsg
  deriving DecidableEq, Repr

def WriteError.name : WriteError → String
  | .snapBuilder e => "SnapBuilder(" ++ e.name ++ ")"
  | .tooLowTickNumber => "TooLowTickNumber"
  | .tooLargeSnap => "TooLargeSnap"
  | .tooLongNetMsg => "TooLongNetMsg"

inductive HResult where
  | ok
  | err (e : WriteError)
  | panic (site : String)
  deriving DecidableEq, Repr

structure DemoWriter where
  inner : Writer
  lastTick : Int
  lastKeyframe : Option Int
  snap : Snap
  builder : Builder
  deriving Repr

/-- the key-frame interval of `write_snap` (`tick - last_keyframe > 250`) -/
def keyframeInterval : Int := Tw.Gen.Demo.keyframe_test.2

/-- `DemoWriter::new` -/
def DemoWriter.new (a : HeaderArgs) : Option DemoWriter :=
  match Writer.new a with
  | none => none
  | some w => some { inner := w, lastTick := Tw.Gen.Demo.initial_last_tick, lastKeyframe := none,
                     snap := Snap.empty, builder := Builder.new }

inductive AddResult where
  | ok (b : Builder)
  | err (e : BuilderError)
  | panic

/-- the `for (item, id) in items { builder.add_item(..)? }` loop -/
def addItems (b : Builder) : List Item → AddResult
  | [] => .ok b
  | it :: rest =>
    match b.addItem it.tid it.id it.data with
    | none => .panic
    | some (_, some e) => .err e
    | some (b', none) => addItems b' rest

/-- the builder for the next snapshot: `snap.clone().recycle()`; `none` = panic -/
def nextBuilder (s : Snap) : Option Builder := s.recycle

/-- the bytes `write_snap` hands to the low-level writer -/
inductive Payload where
  | ok (bs : Bytes)
  | tooLarge
  | panic (site : String)

def snapPayload (objSize : Nat → Option Nat) (keyframe : Bool) (old new : Snap) : Payload :=
  if keyframe then
    match new.raw.writeBytes Tw.Gen.Demo.MAX_SNAPSHOT_SIZE with
    | .ok bs => .ok bs
    | .capacity => .tooLarge
    | .panic => .panic "RawSnap::write"
  else
    match createDelta old.raw new.raw with
    | none => .panic "Delta::create"
    | some d =>
      match d.writeInts objSize with
      | none => .panic "Delta::write"
      | some xs =>
        let bs := Tw.Snap.packInts xs
        if bs.length > Tw.Gen.Demo.MAX_SNAPSHOT_SIZE then .tooLarge else .ok bs

/-- `Writer::fits_chunk`: a payload `write_snapshot`/`write_snapshot_delta` can store -/
def fitsChunk (data : Bytes) : Prop :=
  data.length ≤ Tw.Gen.Demo.MAX_SNAPSHOT_SIZE ∧ (Tw.Huffman.compress table false data).length ≤ 65535

instance (data : Bytes) : Decidable (fitsChunk data) := by unfold fitsChunk; infer_instance

/-- `Writer::fits_message`: a message `write_message` can store -/
def fitsMessage (msg : Bytes) : Prop :=
  msg.length ≤ Tw.Gen.Demo.MAX_SNAPSHOT_SIZE
    ∧ (Tw.Demo.packInts (msgInts msg)).length ≤ Tw.Gen.Demo.MAX_SNAPSHOT_SIZE
    ∧ fitsChunk (Tw.Demo.packInts (msgInts msg))

instance (msg : Bytes) : Decidable (fitsMessage msg) := by unfold fitsMessage; infer_instance

/-- the key-frame decision of `write_snap`: none written yet, or more than 250 ticks since the last -/
def DemoWriter.isKeyframe (w : DemoWriter) (tick : Int) : Bool :=
  match w.lastKeyframe with
  | none => true
  | some k => decide (tick - k > keyframeInterval)

/-- `DemoWriter::write_snap` -/
def DemoWriter.writeSnap (objSize : Nat → Option Nat) (w : DemoWriter) (tick : Int) (items : List Item) :
    DemoWriter × HResult :=
  if tick ≤ w.lastTick then (w, .err .tooLowTickNumber)
  else
    let keyframe : Bool := w.isKeyframe tick
    match addItems w.builder items with
    | .panic => (w, .panic "Builder::add_item")
    | .err e =>
      match nextBuilder w.snap with
      | none => (w, .panic "Snap::recycle")
      | some b => ({ w with builder := b }, .err (.snapBuilder e))
    | .ok b =>
      let new := b.snap
      match snapPayload objSize keyframe w.snap new with
      | .panic s => (w, .panic s)
      | .tooLarge =>
        match nextBuilder w.snap with
        | none => (w, .panic "Snap::recycle")
        | some b => ({ w with builder := b }, .err .tooLargeSnap)
      | .ok bs =>
        -- `Writer::fits_chunk` (repair of D29): the compressed payload must fit the 16-bit size field
        if ¬ fitsChunk bs then
          match nextBuilder w.snap with
          | none => (w, .panic "Snap::recycle")
          | some b => ({ w with builder := b }, .err .tooLargeSnap)
        else
        match w.inner.writeTick keyframe tick with
        | (_, .panic s) => (w, .panic s)
        | (inner1, .ok) =>
          match inner1.writeData (if keyframe then .snapshot else .delta) bs with
          | (_, .panic s) => ({ w with inner := inner1, builder := Builder.new }, .panic s)
          | (inner2, .ok) =>
            match nextBuilder new with
            | none => ({ w with inner := inner2 }, .panic "Snap::recycle")
            | some b' =>
              ({ inner := inner2, lastTick := tick,
                 lastKeyframe := if keyframe then some tick else w.lastKeyframe,
                 snap := new, builder := b' }, .ok)

/-- `DemoWriter::write_msg` on the encoded message -/
def DemoWriter.writeMsg (w : DemoWriter) (msg : Bytes) : DemoWriter × HResult :=
  if msg.length > Tw.Gen.Demo.MAX_SNAPSHOT_SIZE then (w, .err .tooLongNetMsg)
  else if ¬ fitsMessage msg then (w, .err .tooLongNetMsg)
  else
    match w.inner.writeMessage msg with
    | (_, .panic s) => (w, .panic s)
    | (inner', .ok) => ({ w with inner := inner' }, .ok)

/-! ### reader -/

inductive HChunk where
  | tick (t : Int)
  | snapshot (items : List Item)
  | message (d : Bytes)
  | invalid
  deriving DecidableEq, Repr

inductive HReadError where
  | inner (e : ReadError)
  | snap (e : Tw.Snap.Error)
  | panic
  deriving DecidableEq, Repr

inductive HWarning where
  | demo (w : Tw.Demo.Warning)
  | snapshot (w : Tw.Snap.Warning)
  deriving DecidableEq, Repr

structure DemoReader where
  raw : Reader
  snap : Snap
  deriving Repr

inductive HReadResult where
  | eof
  | chunk (c : HChunk)
  | error (e : HReadError)

def snapItems (s : Snap) : Option (List Item) :=
  match s.items with
  | none => none
  | some l => some (l.map fun (t, id, d) => ⟨t, id, d⟩)

/-- `DemoReader::next_chunk` -/
def DemoReader.nextChunk (objSize : Nat → Option Nat) (r : DemoReader) :
    DemoReader × HReadResult × List HWarning :=
  match r.raw.readChunk with
  | (_, .eof, ws) => (r, .eof, ws.map .demo)
  | (_, .error e, ws) => (r, .error (.inner e), ws.map .demo)
  | (raw', .chunk .unknown, ws) => ({ r with raw := raw' }, .chunk .invalid, ws.map .demo)
  | (raw', .chunk (.tick t _), ws) => ({ r with raw := raw' }, .chunk (.tick t), ws.map .demo)
  | (raw', .chunk (.message m), ws) => ({ r with raw := raw' }, .chunk (.message m), ws.map .demo)
  | (raw', .chunk (.snapshot bs), ws) =>
    match Snap.readBytes bs with
    | .err e => (r, .error (.snap e), ws.map .demo)
    | .panic _ => (r, .error .panic, ws.map .demo)
    | .ok (s, ws2) =>
      match snapItems s with
      | none => (r, .error .panic, ws.map .demo ++ ws2.map .snapshot)
      | some items => ({ raw := raw', snap := s }, .chunk (.snapshot items), ws.map .demo ++ ws2.map .snapshot)
  | (raw', .chunk (.delta bs), ws) =>
    match readDelta objSize (.bytes bs) with
    | .err e => (r, .error (.snap e), ws.map .demo)
    | .panic _ => (r, .error .panic, ws.map .demo)
    | .ok (d, ws2) =>
      match r.snap.readWithDelta d with
      | .err e => (r, .error (.snap e), ws.map .demo ++ ws2.map .snapshot)
      | .panic _ => (r, .error .panic, ws.map .demo ++ ws2.map .snapshot)
      | .ok (s, ws3) =>
        match snapItems s with
        | none => (r, .error .panic, ws.map .demo ++ ws2.map .snapshot ++ ws3.map .snapshot)
        | some items =>
          ({ raw := raw', snap := s }, .chunk (.snapshot items),
            ws.map .demo ++ ws2.map .snapshot ++ ws3.map .snapshot)

def DemoReader.readAllGo (objSize : Nat → Option Nat) : (fuel : Nat) → DemoReader →
    List HChunk × List HWarning × Option HReadError
  | 0, _ => ([], [], some (.inner .diverge))
  | fuel + 1, r =>
    match r.nextChunk objSize with
    | (_, .eof, ws) => ([], ws, none)
    | (_, .error e, ws) => ([], ws, some e)
    | (r', .chunk c, ws) =>
      let (cs, ws2, e) := DemoReader.readAllGo objSize fuel r'
      (c :: cs, ws ++ ws2, e)

/-- `DemoReader::new`, then `next_chunk` until the end or the first error -/
def readFileHl (objSize : Nat → Option Nat) (file : Bytes) :
    Option (HeaderInfo × List HChunk × List HWarning × Option HReadError) :=
  match Reader.new file with
  | none => none
  | some (r, h, ws) =>
    let (cs, ws2, e) := DemoReader.readAllGo objSize (r.data.length + 1) { raw := r, snap := Snap.empty }
    some (h, cs, ws.map .demo ++ ws2, e)

/-- `P::obj_size` of the DDNet protocol crate -/
def ddnetObjSize (t : Nat) : Option Nat := Tw.Gen.Demo.ddnet_obj_sizes.lookup t

end Tw.DemoHl
