/-
Reference *encoder* for server infos (what a well-behaved server puts on the wire) and executable
representability checkers.  Specification-level: the library has no writer for these packets.
Used by the round-trip theorems (`Proofs/ServerBrowseEncode.lean`) and by the `e` requests of the
`browse` driver.  No Mathlib.
-/
import Tw.Model.ServerBrowse

namespace Tw.ServerBrowse
open Tw.Gen.Browse
open Tw.Packer (writeInt)

/-- the `received` mask of a legacy part: slots `off .. off + len - 1` -/
def rangeMask (off len : Nat) : Nat := (2 ^ len - 1) <<< off

def putStr (s rest : List UInt8) : List UInt8 := s ++ 0 :: rest


def digit (n : Nat) : UInt8 := UInt8.ofNat (48 + n % 10)


/-- decimal digits of `n` (fuel `> n` suffices) -/
def natDigits : Nat → Nat → List UInt8
  | 0, _ => []
  | f + 1, n => if n < 10 then [digit n] else natDigits f (n / 10) ++ [digit n]


/-- decimal text of an `i32` as a server prints it (`%d`) -/
def decimal (v : Int) : List UInt8 :=
  if v < 0 then 45 :: natDigits (v.natAbs + 1) v.natAbs else natDigits (v.toNat + 1) v.toNat


/-- integer field of kind `k`: varint for 0.7, decimal text + NUL otherwise -/
def putInt (k : InfoKind) (v : Int) (rest : List UInt8) : List UInt8 :=
  match k with
  | .info7 => writeInt v ++ rest
  | _ => putStr (decimal v) rest


def encClient (k : InfoKind) (c : ClientInfo) (rest : List UInt8) : List UInt8 :=
  let ver := k.received.version
  putStr c.name
    ((if ver.hasExtendedPlayerInfo then fun r => putStr c.clan (putInt k c.country r) else id)
      (putInt k c.score
        ((if ver.hasExtendedPlayerInfo then
            (if ver.hasFullClientFlags then putInt k c.flags else putInt k (if c.flags = 1 then 0 else 1))
          else id)
          ((if ver.hasExtraInfo then putStr [] else id) rest))))


def encClients (k : InfoKind) : List ClientInfo → List UInt8 → List UInt8
  | [], rest => rest
  | c :: cs, rest => encClient k c (encClients k cs rest)


/-- `i32` value a server sends for a `u32` crc -/
def crcWire (c : Nat) : Int := if c < 2 ^ 31 then (c : Int) else (c : Int) - 2 ^ 32


/-- the fields between the token and the clients of a normal info, in wire order -/
def encHead (k : InfoKind) (i : ServerInfo) (offset : Nat) (rest : List UInt8) : List UInt8 :=
  let ver := k.received.version
  putStr i.version <| putStr i.name <|
  (if ver.hasHostname then putStr (i.hostname.getD []) else id) <|
  putStr i.map <|
  (if ver.hasExtendedMapInfo then
      fun r => putInt k (crcWire (i.mapCrc.getD 0)) (putInt k ((i.mapSize.getD 0 : Nat) : Int) r) else id) <|
  putStr i.gameType <| putInt k i.flags <|
  (if ver.hasProgression then putInt k (i.progression.getD 0) else id) <|
  (if ver.hasSkillLevel then putInt k (i.skillLevel.getD 0) else id) <|
  putInt k i.numPlayers <| putInt k i.maxPlayers <|
  (if ver.hasExtendedPlayerInfo then fun r => putInt k i.numClients (putInt k i.maxClients r) else id) <|
  (if ver.hasOffset then putInt k (offset : Int) else id) rest


/-- the `received` mask the parser gives a packet of kind `k` with `n` clients from slot `offset` -/
def maskFor (k : InfoKind) (offset n : Nat) : Nat :=
  match k with
  | .info6Ex => 1
  | .info664 => rangeMask offset n
  | _ => 0

/-- payload of a normal (non-`iex+`) info packet of kind `k` -/
def encInfo (k : InfoKind) (i : ServerInfo) (offset : Nat) : List UInt8 :=
  putInt k i.token
    (encHead k i offset ((if k.received.version.hasExtraInfo then putStr [] else id) (encClients k i.clients [])))

/-- payload of an `iex+` packet -/
def encMore (token : Int) (no : Nat) (cs : List ClientInfo) : List UInt8 :=
  putInt .info6ExMore token (putInt .info6ExMore (no : Int) (putStr [] (encClients .info6ExMore cs [])))


end Tw.ServerBrowse
