/-
Reference *encoder* for server infos (what a well-behaved server puts on the wire) and executable
representability checkers.  Specification-level: the library has no writer for these packets.
Used by the round-trip theorems (`Proofs/ServerBrowseEncode.lean`) and by the `e` requests of the
`browse` driver.  No Mathlib.
-/
import Tw.Model.ServerBrowse

namespace Tw.ServerBrowse
open Tw.Gen.Browse
open Tw.Packer (writeInt)

/-- the `received` mask of a legacy part: slots `off .. off + len - 1` -/
def rangeMask (off len : Nat) : Nat := (2 ^ len - 1) <<< off

def putStr (s rest : List UInt8) : List UInt8 := s ++ 0 :: rest


def digit (n : Nat) : UInt8 := UInt8.ofNat (48 + n % 10)


/-- decimal digits of `n` (fuel `> n` suffices) -/
def natDigits : Nat → Nat → List UInt8
  | 0, _ => []
  | f + 1, n => if n < 10 then [digit n] else natDigits f (n / 10) ++ [digit n]


/-- decimal text of an `i32` as a server prints it (`%d`) -/
def decimal (v : Int) : List UInt8 :=
  if v < 0 then 45 :: natDigits (v.natAbs + 1) v.natAbs else natDigits (v.toNat + 1) v.toNat


/-- integer field of kind `k`: varint for 0.7, decimal text + NUL otherwise -/
def putInt (k : InfoKind) (v : Int) (rest : List UInt8) : List UInt8 :=
  match k with
  | .info7 => writeInt v ++ rest
  | _ => putStr (decimal v) rest


def encClient (k : InfoKind) (c : ClientInfo) (rest : List UInt8) : List UInt8 :=
  let ver := k.received.version
  putStr c.name
    ((if ver.hasExtendedPlayerInfo then fun r => putStr c.clan (putInt k c.country r) else id)
      (putInt k c.score
        ((if ver.hasExtendedPlayerInfo then
            (if ver.hasFullClientFlags then putInt k c.flags else putInt k (if c.flags = 1 then 0 else 1))
          else id)
          ((if ver.hasExtraInfo then putStr [] else id) rest))))


def encClients (k : InfoKind) : List ClientInfo → List UInt8 → List UInt8
  | [], rest => rest
  | c :: cs, rest => encClient k c (encClients k cs rest)


/-- `i32` value a server sends for a `u32` crc -/
def crcWire (c : Nat) : Int := if c < 2 ^ 31 then (c : Int) else (c : Int) - 2 ^ 32


/-- the fields between the token and the clients of a normal info, in wire order -/
def encHead (k : InfoKind) (i : ServerInfo) (offset : Nat) (rest : List UInt8) : List UInt8 :=
  let ver := k.received.version
  putStr i.version <| putStr i.name <|
  (if ver.hasHostname then putStr (i.hostname.getD []) else id) <|
  putStr i.map <|
  (if ver.hasExtendedMapInfo then
      fun r => putInt k (crcWire (i.mapCrc.getD 0)) (putInt k ((i.mapSize.getD 0 : Nat) : Int) r) else id) <|
  putStr i.gameType <| putInt k i.flags <|
  (if ver.hasProgression then putInt k (i.progression.getD 0) else id) <|
  (if ver.hasSkillLevel then putInt k (i.skillLevel.getD 0) else id) <|
  putInt k i.numPlayers <| putInt k i.maxPlayers <|
  (if ver.hasExtendedPlayerInfo then fun r => putInt k i.numClients (putInt k i.maxClients r) else id) <|
  (if ver.hasOffset then putInt k (offset : Int) else id) rest


/-- the `received` mask the parser gives a packet of kind `k` with `n` clients from slot `offset` -/
def maskFor (k : InfoKind) (offset n : Nat) : Nat :=
  match k with
  | .info6Ex => 1
  | .info664 => rangeMask offset n
  | _ => 0

/-- payload of a normal (non-`iex+`) info packet of kind `k` -/
def encInfo (k : InfoKind) (i : ServerInfo) (offset : Nat) : List UInt8 :=
  putInt k i.token
    (encHead k i offset ((if k.received.version.hasExtraInfo then putStr [] else id) (encClients k i.clients [])))

/-- payload of an `iex+` packet -/
def encMore (token : Int) (no : Nat) (cs : List ClientInfo) : List UInt8 :=
  putInt .info6ExMore token (putInt .info6ExMore (no : Int) (putStr [] (encClients .info6ExMore cs [])))


/-! ### executable representability checkers (sound w.r.t. `GoodStr` / `ClientOk` / `HeadOk`, see
`Proofs/ServerBrowseEncode.lean`) -/

def goodStrB (cap : Nat) (s : List UInt8) : Bool :=
  s.all (fun b => b != 0) && utf8Valid s && decide (s.length ≤ cap)

def inI32B (v : Int) : Bool := decide (-(2 : Int) ^ 31 ≤ v) && decide (v < (2 : Int) ^ 31)

def clientOkB (k : InfoKind) (c : ClientInfo) : Bool :=
  let ver := k.received.version
  goodStrB CAP_CLIENT_NAME c.name && inI32B c.score &&
  (if ver.hasExtendedPlayerInfo then
      goodStrB CAP_CLIENT_CLAN c.clan && inI32B c.country &&
        (if ver.hasFullClientFlags then inI32B c.flags else (c.flags == 0 || c.flags == 1))
    else c.clan == [] && c.country == -1 && c.flags == 0)

def countsSaneB (i : ServerInfo) : Bool :=
  decide (0 ≤ i.numPlayers) && decide (i.numPlayers ≤ i.numClients) && decide (i.numClients ≤ i.maxClients) &&
  decide (0 ≤ i.maxPlayers) && decide (i.maxPlayers ≤ i.maxClients) &&
  (match i.infoVersion.maxClients with
   | some m => decide (i.maxClients ≤ (m : Int))
   | none => true)

def headOkB (k : InfoKind) (i : ServerInfo) (offset : Nat) : Bool :=
  let ver := k.received.version
  (i.infoVersion == ver) && inI32B i.token &&
  goodStrB CAP_VERSION i.version && goodStrB CAP_NAME i.name && goodStrB CAP_MAP i.map &&
  goodStrB CAP_GAME_TYPE i.gameType && inI32B i.flags &&
  (if ver.hasHostname then (match i.hostname with | some h => goodStrB CAP_HOSTNAME h | none => false)
   else i.hostname.isNone) &&
  (if ver.hasExtendedMapInfo then
      (match i.mapCrc, i.mapSize with
       | some c, some sz => decide (c < 2 ^ 32) && decide (sz < 2 ^ 31)
       | _, _ => false)
   else i.mapCrc.isNone && i.mapSize.isNone) &&
  (if ver.hasProgression then (match i.progression with | some p => inI32B p | none => false)
   else i.progression.isNone) &&
  (if ver.hasSkillLevel then (match i.skillLevel with | some p => inI32B p | none => false)
   else i.skillLevel.isNone) &&
  countsSaneB i && inI32B i.maxClients &&
  (if ver.hasExtendedPlayerInfo then true
   else decide (i.numClients = i.numPlayers) && decide (i.maxClients = i.maxPlayers)) &&
  (if ver.hasOffset then decide (offset < 2 ^ 31) else decide (offset = 0))

/-- everything `roundtrip_normal` asks for, as one executable test -/
def representableB (k : InfoKind) (i : ServerInfo) (offset : Nat) : Bool :=
  k != .info6ExMore && headOkB k i offset && i.clients.all (clientOkB k) &&
  (if k == .info664 then decide (offset + i.clients.length ≤ RECEIVED_BITS) else true)

/-- … and what `roundtrip_more` asks for -/
def representableMoreB (token : Int) (no : Nat) (cs : List ClientInfo) : Bool :=
  inI32B token && decide (1 ≤ no) && decide (no < 64) && cs.all (clientOkB .info6ExMore)

end Tw.ServerBrowse
