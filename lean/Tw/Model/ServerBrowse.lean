/-
Model of `serverbrowse/src/protocol.rs`: `parse_response` (13 response kinds), `parse_server_info`
with its two integer readers (decimal string exactly as `str::parse::<i32>`, and varint), UTF-8
validation (`str::from_utf8`), `truncated_arraystring`, the count sanity check, the `received`
masks, and `PartialServerInfo::merge / get_info / take_info`.

Conventions: bytes are `UInt8`; an `i32` is an `Int`; `received: u64` is a `Nat < 2^64`.
The two `1 << n` statements on `u64` are explicit panic branches (`n ≥ RECEIVED_BITS`: "attempt to
shift left with overflow" in the dev profile).  The bounds of the sanity checks that guard them
(`PACKET_NO_REJECT_FROM`, `SLOT_SKIP_FROM`) are regenerated from the source, so the no-panic
theorem only checks when those guards really exclude 64.

Not modelled (see notes/browse.md): `clients.len().assert_i32()` in `get_info` (needs 2^31
clients in memory), wrap-around of the `u32` loop counter `j` (needs ≥ 2^31 clients in one
datagram), `debug!`/`warn!` logging.
-/
import Tw.Model.Packer
import Tw.Gen.Browse

namespace Tw.ServerBrowse
open Tw.Packer (readString readInt)
open Tw.Gen.Browse

/-- A computation that may hit a Rust panic site. -/
inductive Outcome (α : Type) where
  | ok (a : α)
  | panic (site : String)
  deriving Repr, DecidableEq

/-! ### Versions -/

inductive Version where
  | v5 | v6 | v6Ddper | v664 | v6Ex | v7
  deriving DecidableEq, Repr, Inhabited

/-- position in `enum ServerInfoVersion` (the derived `Ord`) -/
def Version.idx : Version → Nat
  | .v5 => 0 | .v6 => 1 | .v6Ddper => 2 | .v664 => 3 | .v6Ex => 4 | .v7 => 5

def Version.name : Version → String
  | .v5 => "V5" | .v6 => "V6" | .v6Ddper => "V6Ddper" | .v664 => "V664" | .v6Ex => "V6Ex" | .v7 => "V7"

def Version.flag (tbl : List Bool) (v : Version) : Bool := tbl.getD v.idx false

def Version.hasHostname := Version.flag has_hostname
def Version.hasProgression := Version.flag has_progression
def Version.hasSkillLevel := Version.flag has_skill_level
def Version.hasOffset := Version.flag has_offset
def Version.hasExtendedPlayerInfo := Version.flag has_extended_player_info
def Version.hasExtendedMapInfo := Version.flag has_extended_map_info
def Version.hasExtraInfo := Version.flag has_extra_info
def Version.hasFullClientFlags := Version.flag has_full_client_flags
def Version.maxClients (v : Version) : Option Nat := (max_clients.getD v.idx none)

/-- `version.max_clients().map(|m| max_clients > m.assert_i32()).unwrap_or(false)` -/
def Version.exceedsMax (v : Version) (maxClients : Int) : Bool :=
  match v.maxClients with
  | some m => decide (maxClients > (m : Int))
  | none => false

/-- `ReceivedServerInfoVersion` -/
inductive Received where
  | normal (v : Version)
  | v6ExMore
  deriving DecidableEq, Repr

def Received.version : Received → Version
  | .normal v => v
  | .v6ExMore => .v6Ex

def Received.isNormal : Received → Bool
  | .normal _ => true
  | .v6ExMore => false

/-! ### Data -/

structure ClientInfo where
  name : List UInt8 := []
  clan : List UInt8 := []
  country : Int := 0
  score : Int := 0
  flags : Int := 0
  deriving DecidableEq, Repr, Inhabited

structure ServerInfo where
  infoVersion : Version := .v5
  token : Int := 0
  version : List UInt8 := []
  name : List UInt8 := []
  hostname : Option (List UInt8) := none
  map : List UInt8 := []
  mapCrc : Option Nat := none
  mapSize : Option Nat := none
  gameType : List UInt8 := []
  flags : Int := 0
  progression : Option Int := none
  skillLevel : Option Int := none
  numPlayers : Int := 0
  maxPlayers : Int := 0
  numClients : Int := 0
  maxClients : Int := 0
  clients : List ClientInfo := []
  deriving DecidableEq, Repr, Inhabited

structure PartialInfo where
  info : ServerInfo := {}
  received : Nat := 0
  deriving DecidableEq, Repr, Inhabited

/-! ### The derived `Ord` of `ClientInfo` and `Vec::sort` -/

/-- `str`/`[u8]` comparison: lexicographic on bytes -/
def cmpBytes : List UInt8 → List UInt8 → Ordering
  | [], [] => .eq
  | [], _ :: _ => .lt
  | _ :: _, [] => .gt
  | a :: as, b :: bs =>
    if a.toNat < b.toNat then .lt else if b.toNat < a.toNat then .gt else cmpBytes as bs

def cmpInt (a b : Int) : Ordering :=
  if a < b then .lt else if b < a then .gt else .eq

/-- `#[derive(Ord)]` on `ClientInfo`: fields in declaration order -/
def ClientInfo.cmp (a b : ClientInfo) : Ordering :=
  (cmpBytes a.name b.name).then <| (cmpBytes a.clan b.clan).then <| (cmpInt a.country b.country).then <|
    (cmpInt a.score b.score).then (cmpInt a.flags b.flags)

def ClientInfo.le (a b : ClientInfo) : Bool := a.cmp b != .gt

def insertSorted (c : ClientInfo) : List ClientInfo → List ClientInfo
  | [] => [c]
  | d :: ds => if c.le d then c :: d :: ds else d :: insertSorted c ds

/-- `clients.sort()` (a stable sort; on a total order whose equivalence is equality the result is
the unique sorted arrangement, which insertion sort computes as well) -/
def sortClients : List ClientInfo → List ClientInfo
  | [] => []
  | c :: cs => insertSorted c (sortClients cs)

/-! ### `str::from_utf8` -/

def isCont (b : UInt8) : Bool := 0x80 ≤ b.toNat && b.toNat ≤ 0xBF

def inRange (lo hi : Nat) (b : UInt8) : Bool := lo ≤ b.toNat && b.toNat ≤ hi

/-- Validity of a byte string as UTF-8, as decided by `core::str::from_utf8` (Unicode table 3-7:
no overlong forms, no surrogates, nothing above U+10FFFF). -/
def utf8Valid : List UInt8 → Bool
  | [] => true
  | b0 :: t =>
    if b0.toNat < 0x80 then utf8Valid t
    else if inRange 0xC2 0xDF b0 then
      match t with
      | b1 :: t' => isCont b1 && utf8Valid t'
      | _ => false
    else if inRange 0xE0 0xEF b0 then
      match t with
      | b1 :: b2 :: t' =>
        (if b0.toNat = 0xE0 then inRange 0xA0 0xBF b1
         else if b0.toNat = 0xED then inRange 0x80 0x9F b1
         else isCont b1) && isCont b2 && utf8Valid t'
      | _ => false
    else if inRange 0xF0 0xF4 b0 then
      match t with
      | b1 :: b2 :: b3 :: t' =>
        (if b0.toNat = 0xF0 then inRange 0x90 0xBF b1
         else if b0.toNat = 0xF4 then inRange 0x80 0x8F b1
         else isCont b1) && isCont b2 && isCont b3 && utf8Valid t'
      | _ => false
    else false

/-! ### `truncated_arraystring` -/

/-- the `for n in (0..cap + 1).rev()` loop: the largest `n ≤ cap` that is a char boundary of `s`
(`s.length > cap` here, so `n < s.length` and the test is "byte `n` is not a continuation byte") -/
def truncBoundary (s : List UInt8) : Nat → Nat
  | 0 => 0
  | n + 1 =>
    match s[n + 1]? with
    | some b => if isCont b then truncBoundary s n else n + 1
    | none => n + 1

def truncated (cap : Nat) (s : List UInt8) : List UInt8 :=
  if s.length ≤ cap then s else s.take (truncBoundary s cap)

/-! ### `str::parse::<i32>` -/

def isDigit (b : UInt8) : Bool := 48 ≤ b.toNat && b.toNat ≤ 57

/-- value of a string of ASCII digits (`none` if some byte is not a digit) -/
def digitsVal : List UInt8 → Nat → Option Nat
  | [], acc => some acc
  | b :: bs, acc => if isDigit b then digitsVal bs (acc * 10 + (b.toNat - 48)) else none

/-- `<i32 as FromStr>::from_str` on the bytes of a `str`: optional sign, at least one digit,
nothing else, value in range. -/
def parseI32 (s : List UInt8) : Option Int :=
  match s with
  | [] => none
  | c :: t =>
    if c.toNat = 45 then        -- '-'
      if t.isEmpty then none
      else match digitsVal t 0 with
        | some v => if v ≤ 2 ^ 31 then some (-(v : Int)) else none
        | none => none
    else
      let d := if c.toNat = 43 then t else s      -- '+'
      if d.isEmpty then none
      else match digitsVal d 0 with
        | some v => if v < 2 ^ 31 then some (v : Int) else none
        | none => none

/-! ### The readers handed to `parse_server_info` -/

abbrev Reader (α : Type) := List UInt8 → Option (α × List UInt8)

/-- `info_read_str`: `read_string` then `from_utf8` -/
def readStr : Reader (List UInt8) := fun bs =>
  match readString bs with
  | none => none
  | some (s, rest) => if utf8Valid s then some (s, rest) else none

/-- `info_read_int_v5`: `read_string`, `from_utf8`, `parse` -/
def readIntV5 : Reader Int := fun bs =>
  match readString bs with
  | none => none
  | some (s, rest) =>
    if utf8Valid s then
      match parseI32 s with
      | some v => some (v, rest)
      | none => none
    else none

/-- `info_read_int_v7`: varint, warnings ignored -/
def readIntV7 : Reader Int := fun bs =>
  match readInt bs with
  | none => none
  | some (v, rest, _) => some (v, rest)

/-! ### `parse_server_info` -/

/-- `i32 as u32` -/
def asU32 (v : Int) : Nat := (v % 4294967296).toNat

/-- the fields of a normal (non-`iex+`) info in front of the clients, as read -/
structure RawHead where
  version : List UInt8
  name : List UInt8
  hostname : Option (List UInt8)
  map : List UInt8
  mapCrc : Option Nat
  mapSize : Option Nat
  gameType : List UInt8
  flags : Int
  progression : Option Int
  skillLevel : Option Int
  numPlayers : Int
  maxPlayers : Int
  numClients : Int
  maxClients : Int
  rawOffset : Int

/-- Reads everything before the client loop of a normal info. `none` = `fail(..)`. -/
def readHead (ri : Reader Int) (ver : Version) (bs : List UInt8) : Option (RawHead × List UInt8) := do
  let (version, bs) ← readStr bs
  let (name, bs) ← readStr bs
  let (hostname, bs) ←
    if ver.hasHostname then (do let (h, bs) ← readStr bs; pure (some (truncated CAP_HOSTNAME h), bs))
    else pure (none, bs)
  let (map, bs) ← readStr bs
  let (mapCrc, mapSize, bs) ←
    if ver.hasExtendedMapInfo then (do
      let (crc, bs) ← ri bs
      let (size, bs) ← ri bs
      if size < 0 then none else pure (some (asU32 crc), some size.toNat, bs))
    else pure (none, none, bs)
  let (gameType, bs) ← readStr bs
  let (flags, bs) ← ri bs
  let (progression, bs) ←
    if ver.hasProgression then (do let (p, bs) ← ri bs; pure (some p, bs)) else pure (none, bs)
  let (skillLevel, bs) ←
    if ver.hasSkillLevel then (do let (p, bs) ← ri bs; pure (some p, bs)) else pure (none, bs)
  let (numPlayers, bs) ← ri bs
  let (maxPlayers, bs) ← ri bs
  let (numClients, maxClients, bs) ←
    if ver.hasExtendedPlayerInfo then (do
      let (nc, bs) ← ri bs
      let (mc, bs) ← ri bs
      pure (nc, mc, bs))
    else pure (numPlayers, maxPlayers, bs)
  let (rawOffset, bs) ← if ver.hasOffset then ri bs else pure (0, bs)
  pure ({ version := truncated CAP_VERSION version, name := truncated CAP_NAME name, hostname := hostname,
          map := truncated CAP_MAP map, mapCrc := mapCrc, mapSize := mapSize,
          gameType := truncated CAP_GAME_TYPE gameType, flags := flags, progression := progression,
          skillLevel := skillLevel, numPlayers := numPlayers, maxPlayers := maxPlayers,
          numClients := numClients, maxClients := maxClients, rawOffset := rawOffset }, bs)

/-- the count sanity check and the offset sanity check (`try_u32`); on success the info (without
clients) and the offset -/
def checkHead (ver : Version) (token : Int) (h : RawHead) : Option (ServerInfo × Nat) :=
  if h.numClients < 0 ∨ h.numClients > h.maxClients ∨ h.maxClients < 0
      ∨ ver.exceedsMax h.maxClients
      ∨ h.numPlayers < 0 ∨ h.numPlayers > h.numClients ∨ h.maxPlayers < 0 ∨ h.maxPlayers > h.maxClients then none
  else if h.rawOffset < 0 then none
  else
    some ({ infoVersion := ver, token := token, version := h.version, name := h.name, hostname := h.hostname,
            map := h.map, mapCrc := h.mapCrc, mapSize := h.mapSize, gameType := h.gameType, flags := h.flags,
            progression := h.progression, skillLevel := h.skillLevel,
            numPlayers := h.numPlayers, maxPlayers := h.maxPlayers,
            numClients := h.numClients, maxClients := h.maxClients, clients := [] },
          h.rawOffset.toNat)

/-- Everything before the client loop of a normal (non-`iex+`) info. `none` = `fail(..)`. -/
def parseHeadNormal (ri : Reader Int) (ver : Version) (token : Int) (bs : List UInt8) :
    Option (ServerInfo × Nat × List UInt8) :=
  match readHead ri ver bs with
  | none => none
  | some (h, bs) =>
    match checkHead ver token h with
    | none => none
    | some (info, offset) => some (info, offset, bs)

/-- The head of an `iex+` packet: token already read; returns the packet number. -/
def parseHeadMore (ri : Reader Int) (token : Int) (bs : List UInt8) :
    Option (ServerInfo × Nat × List UInt8) := do
  let (packetNo, bs) ← ri bs
  if packetNo < (PACKET_NO_MIN : Int) ∨ packetNo ≥ (PACKET_NO_REJECT_FROM : Int) then none
  else pure ({ infoVersion := .v6Ex, token := token }, packetNo.toNat, bs)

/-- one pass through the body of the client loop -/
inductive ClientRead where
  | stop                                           -- the name could not be read: `break`
  | fail                                           -- `return fail(..)`
  | client (c : ClientInfo) (rest : List UInt8)
  deriving Repr, DecidableEq

/-- sequencing of readers -/
def Reader.andThen {α β : Type} (r : Reader α) (f : α → Reader β) : Reader β := fun bs =>
  match r bs with
  | none => none
  | some (a, rest) => f a rest

def Reader.ret {α : Type} (a : α) : Reader α := fun bs => some (a, bs)

/-- the fields of one client after its name -/
def readClientTail (ri : Reader Int) (ver : Version) (name : List UInt8) : Reader ClientInfo :=
  (if ver.hasExtendedPlayerInfo then
      readStr.andThen fun clan => ri.andThen fun country => Reader.ret (truncated CAP_CLIENT_CLAN clan, country)
    else Reader.ret ([], -1)).andThen fun (clan, country) =>
  ri.andThen fun score =>
  (if ver.hasExtendedPlayerInfo then
      if ver.hasFullClientFlags then ri
      else ri.andThen fun isPlayer => Reader.ret (if isPlayer = 0 then (CLIENTINFO_FLAG_SPECTATOR : Int) else 0)
    else Reader.ret 0).andThen fun flags =>
  (if ver.hasExtraInfo then readStr.andThen fun _ => Reader.ret () else Reader.ret ()).andThen fun _ =>
  Reader.ret { name := truncated CAP_CLIENT_NAME name, clan := clan, country := country, score := score, flags := flags }

def readClient (ri : Reader Int) (ver : Version) (bs : List UInt8) : ClientRead :=
  match readStr bs with
  | none => .stop
  | some (name, bs) =>
    match readClientTail ri ver name bs with
    | none => .fail
    | some (c, bs) => .client c bs

/-- `1 << n` on `u64`: panics in the dev profile when `n ≥ 64` -/
def shl1 (site : String) (n : Nat) : Outcome Nat :=
  if n ≥ RECEIVED_BITS then .panic site else .ok (1 <<< n)

/-- The `for j in offset..` loop. `fuel` bounds the number of iterations (every iteration
consumes at least one byte; `parseServerInfo` supplies `bs.length + 1`). Returns the clients in
push order and the `received` mask, or `none` for `fail(..)`. -/
def parseClients (ri : Reader Int) (ver : Version) :
    (fuel : Nat) → (j : Nat) → List UInt8 → List ClientInfo → Nat → Outcome (Option (List ClientInfo × Nat))
  | 0, _, _, acc, recv => .ok (some (acc, recv))
  | fuel + 1, j, bs, acc, recv =>
    match readClient ri ver bs with
    | .stop => .ok (some (acc, recv))
    | .fail => .ok none
    | .client c rest =>
      if ver = .v664 then
        if j ≥ SLOT_SKIP_FROM then parseClients ri ver fuel (j + 1) rest acc recv      -- `continue`
        else
          match shl1 "1 << j" j with
          | .panic s => .panic s
          | .ok bit => parseClients ri ver fuel (j + 1) rest (acc ++ [c]) (recv ||| bit)
      else parseClients ri ver fuel (j + 1) rest (acc ++ [c]) recv

/-- `if version.has_extra_info() { let _ = str!("extra_info"); }` -/
def skipExtra (ver : Version) (bs : List UInt8) : Option (List UInt8) :=
  if ver.hasExtraInfo then (match readStr bs with | some (_, bs) => some bs | none => none) else some bs

/-- `parse_server_info` after the head: the extra-info string, the `received` bit of an extended
info, the client loop. -/
def parseBody (ri : Reader Int) (ver : Version) (info : ServerInfo) (packetNo offset : Nat) (bs : List UInt8) :
    Outcome (Option PartialInfo) :=
  match skipExtra ver bs with
  | none => .ok none
  | some bs =>
    match (if ver = .v6Ex then shl1 "1 << packet_no" packetNo else .ok 0) with
    | .panic s => .panic s
    | .ok recv0 =>
      match parseClients ri ver (bs.length + 1) offset bs [] recv0 with
      | .panic s => .panic s
      | .ok none => .ok none
      | .ok (some (clients, recv)) => .ok (some { info := { info with clients := clients }, received := recv })

def parseServerInfo (ri : Reader Int) (rv : Received) (bs : List UInt8) : Outcome (Option PartialInfo) :=
  match ri bs with
  | none => .ok none
  | some (token, bs) =>
    match rv with
    | .normal ver =>
      match parseHeadNormal ri ver token bs with
      | none => .ok none
      | some (info, offset, bs) => parseBody ri ver info 0 offset bs
    | .v6ExMore =>
      match parseHeadMore ri token bs with
      | none => .ok none
      | some (info, packetNo, bs) => parseBody ri .v6Ex info packetNo 0 bs

/-! ### The seven `Info*Response::parse` functions -/

inductive InfoKind where
  | info5 | info6 | info6Ddper | info664 | info6Ex | info6ExMore | info7
  deriving DecidableEq, Repr

def InfoKind.received : InfoKind → Received
  | .info5 => .normal .v5
  | .info6 => .normal .v6
  | .info6Ddper => .normal .v6Ddper
  | .info664 => .normal .v664
  | .info6Ex => .normal .v6Ex
  | .info6ExMore => .v6ExMore
  | .info7 => .normal .v7

def InfoKind.reader : InfoKind → Reader Int
  | .info7 => readIntV7
  | _ => readIntV5

/-- the kinds whose `parse` returns a `PartialServerInfo` -/
def InfoKind.isPartial : InfoKind → Bool
  | .info664 | .info6Ex | .info6ExMore => true
  | _ => false

/-- `Info664Response::parse`, `Info6ExResponse::parse`, `Info6ExMoreResponse::parse` (and the
common first half of the other four) -/
def parsePartial (k : InfoKind) (payload : List UInt8) : Outcome (Option PartialInfo) :=
  parseServerInfo k.reader k.received payload

/-- `Info5Response::parse` etc.: the partial result with its clients sorted -/
def parseFull (k : InfoKind) (payload : List UInt8) : Outcome (Option ServerInfo) :=
  match parsePartial k payload with
  | .panic s => .panic s
  | .ok none => .ok none
  | .ok (some p) => .ok (some { p.info with clients := sortClients p.info.clients })

/-! ### `PartialServerInfo::merge / get_info / take_info` -/

inductive MergeError where
  | differingTokens | differingVersions | notMultipartVersion | overlappingInfos
  deriving DecidableEq, Repr

/-- `self.merge(other)`: the new `self` and the result -/
def merge (self other : PartialInfo) : PartialInfo × Option MergeError :=
  if self.info.token ≠ other.info.token then (self, some .differingTokens)
  else if self.info.infoVersion ≠ other.info.infoVersion then (self, some .differingVersions)
  else if self.info.infoVersion ≠ .v664 ∧ self.info.infoVersion ≠ .v6Ex then (self, some .notMultipartVersion)
  else if self.received &&& other.received = other.received then (self, none)
  else if self.received &&& other.received ≠ 0 then (self, some .overlappingInfos)
  else
    -- `mem::swap(self, &mut other)` when `self` is not the main packet of an extended info
    let (a, b) := if self.info.infoVersion = .v6Ex ∧ self.received &&& 1 = 0 then (other, self) else (self, other)
    -- note: `a.received` is left as it is (the defect D10)
    ({ a with info := { a.info with clients := a.info.clients ++ b.info.clients } }, none)

/-- `get_info`: sorts the clients in place when the count matches (the test for the main packet
of an extended info was added by the second `fix:` commit; whether the source has it is regenerated) -/
def getInfo (self : PartialInfo) : PartialInfo × Option ServerInfo :=
  if GET_INFO_REQUIRES_MAIN ∧ self.info.infoVersion = .v6Ex ∧ self.received &&& 1 = 0 then (self, none)
  else if (self.info.clients.length : Int) ≠ self.info.numClients then (self, none)
  else
    let info := { self.info with clients := sortClients self.info.clients }
    ({ self with info := info }, some info)

def takeInfo (self : PartialInfo) : PartialInfo × Option ServerInfo :=
  match getInfo self with
  | (s, none) => (s, none)
  | (_, some info) => ({ info := {}, received := 2 ^ RECEIVED_BITS - 1 }, some info)

/-! ### `parse_response` -/

structure Addr where
  v4 : Bool
  ip : List UInt8
  port : Nat
  deriving DecidableEq, Repr

inductive Response where
  | list5 (as : List Addr)
  | list6 (as : List Addr)
  | list7 (own their : List UInt8) (as : List Addr)
  | count (n : Nat)
  | count7 (own their : List UInt8) (n : Nat)
  | info (k : InfoKind) (payload : List UInt8)      -- Info5, Info6, Info6Ddper, Info664, Info6Ex, Info6ExMore
  | info7 (own their : List UInt8) (payload : List UInt8)
  | token7 (own their : List UInt8)
  deriving DecidableEq, Repr

def bytesOf (xs : List Nat) : List UInt8 := xs.map UInt8.ofNat

/-- `parse_list5` + `Addr5Packed::unpack`: 6-byte records, port little endian; a trailing
partial record is dropped -/
def parseList5 : (fuel : Nat) → List UInt8 → List Addr
  | fuel + 1, a :: b :: c :: d :: p0 :: p1 :: rest =>
    { v4 := true, ip := [a, b, c, d], port := p0.toNat + 256 * p1.toNat } :: parseList5 fuel rest
  | _, _ => []

/-- `Addr6Packed::unpack` -/
def unpackAddr6 (ip : List UInt8) (p0 p1 : UInt8) : Addr :=
  let port := 256 * p0.toNat + p1.toNat
  if ip.take 12 = bytesOf IPV4_MAPPING then { v4 := true, ip := ip.drop 12, port := port }
  else { v4 := false, ip := ip, port := port }

/-- `parse_list6` + `Addr6Packed::unpack`: 18-byte records, port big endian -/
def parseList6 : (fuel : Nat) → List UInt8 → List Addr
  | fuel + 1, bs =>
    if bs.length < 18 then []
    else
      match bs.drop 16 with
      | p0 :: p1 :: rest => unpackAddr6 (bs.take 16) p0 p1 :: parseList6 fuel rest
      | _ => []
  | 0, _ => []

def parseCount (bs : List UInt8) : Option Nat :=
  match bs with
  | a :: b :: _ => some (256 * a.toNat + b.toNat)
  | _ => none

def parseToken7 (bs : List UInt8) : Option (List UInt8) :=
  match bs with
  | a :: b :: c :: d :: _ => some [a, b, c, d]
  | _ => none

/-- overwrite positions `[lo, hi)` of a list by `v` -/
def fillRange (bs : List UInt8) (lo hi : Nat) (v : UInt8) : List UInt8 :=
  bs.mapIdx fun i b => if lo ≤ i ∧ i < hi then v else b

/-- `slice.split_at(n)` / `&slice[..n]` + `&slice[n..]`: panics when `n > len` -/
def splitAtChecked (site : String) (bs : List UInt8) (n : Nat) : Outcome (List UInt8 × List UInt8) :=
  if n ≤ bs.length then .ok (bs.take n, bs.drop n) else .panic site

/-- the `match &header { TOKEN_7 => .. }` of the `0x04` branch (`header` already masked) -/
def classifyToken7 (h own payload : List UInt8) : Option Response :=
  if h = bytesOf TOKEN_7 then
    match parseToken7 payload with
    | some their => some (.token7 own their)
    | none => none
  else none

/-- the `match &header { LIST_7 => .., INFO_7 => .., COUNT_7 => .. }` of the `0x21` branch -/
def classify7 (h own their payload : List UInt8) : Option Response :=
  if h = bytesOf LIST_7 then some (.list7 own their (parseList6 payload.length payload))
  else if h = bytesOf INFO_7 then some (.info7 own their payload)
  else if h = bytesOf COUNT_7 then
    match parseCount payload with
    | some n => some (.count7 own their n)
    | none => none
  else none

/-- the final `match &header { LIST_5 => .., .. }` (`h` = the masked 14-byte header) -/
def classify6 (h payload : List UInt8) : Option Response :=
  if h = bytesOf LIST_5 then some (.list5 (parseList5 payload.length payload))
  else if h = bytesOf LIST_6 then some (.list6 (parseList6 payload.length payload))
  else if h = bytesOf INFO_5 then some (.info .info5 payload)
  else if h = bytesOf INFO_6 then some (.info .info6 payload)
  else if h = bytesOf INFO_6_DDPER then some (.info .info6Ddper payload)
  else if h = bytesOf INFO_6_64 then some (.info .info664 payload)
  else if h = bytesOf INFO_6_EX then some (.info .info6Ex payload)
  else if h = bytesOf INFO_6_EX_MORE then some (.info .info6ExMore payload)
  else if h = bytesOf COUNT then
    match parseCount payload with
    | some n => some (.count n)
    | none => none
  else none

/-- masking of the first six header bytes: everything but a `dp` header with the `inf3` tail gets
`ff` there, a `dp` header keeps `dp` and has its four token bytes zeroed -/
def maskHeader6 (header : List UInt8) : List UInt8 :=
  if header.take DDPER_PREFIX_LEN ≠ bytesOf DDPER_PREFIX ∨ header.drop DDPER_SUFFIX_FROM ≠ bytesOf (INFO_6_DDPER.drop DDPER_SUFFIX_FROM') then
    fillRange header 0 6 0xff
  else fillRange header 2 6 0

/-- `parse_response`. The slice operations are explicit panic sites (`&data[8..]`, `&data[..8]`,
`&data[17..]`, `&data[..17]`, `split_at(HEADER_LEN)`), each behind the length check the source has. -/
def parseResponse (data : List UInt8) : Outcome (Option Response) :=
  match data with
  | [] => .ok none
  | first :: _ =>
    if first.toNat = 0x04 then
      if data.length < TOKEN_7.length then .ok none
      else
        match splitAtChecked "data[8..]" data 8 with
        | .panic s => .panic s
        | .ok (header, payload) =>
          .ok (classifyToken7 (fillRange header 3 7 0xff) ((header.drop 3).take 4) payload)
    else if first.toNat = 0x21 then
      if data.length < 17 then .ok none
      else
        match splitAtChecked "data[17..]" data 17 with
        | .panic s => .panic s
        | .ok (header, payload) =>
          .ok (classify7 (fillRange header 1 9 0xff) ((header.drop 1).take 4) ((header.drop 5).take 4) payload)
    else if data.length < HEADER_LEN then .ok none
    else if first.toNat &&& PACKETFLAG_CONNLESS = 0 then .ok none
    else
      match splitAtChecked "data.split_at(HEADER_LEN)" data HEADER_LEN with
      | .panic s => .panic s
      | .ok (header, payload) => .ok (classify6 (maskHeader6 header) payload)

end Tw.ServerBrowse
