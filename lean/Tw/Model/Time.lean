/-!
# Model of `net/src/time.rs`: `Timestamp` and `Timeout`

`Timestamp` is a number of microseconds (`u64` in the code; here `Nat` — the model assumes the clock
plus one second stays below `2^64 - 1`, the value the code uses as the "none" sentinel, otherwise the
`checked_add(..).unwrap()` of `Timestamp + Duration` panics).  `Timeout` is an optional instant whose
ordering puts **inactive after every instant** (`optional::OptOrd`: "Make the `None` value higher
than any other"), so `min` of two timeouts is the earlier active one.
-/
namespace Tw.Time

/-- `Timeout`: `Optioned<Timestamp>`. -/
inductive Timeout where
  | active (t : Nat)
  | inactive
deriving Repr, DecidableEq, Inhabited

namespace Timeout

def isActive : Timeout → Bool
  | active _ => true
  | inactive => false

/-- the derived `Ord` of `Timeout`: inactive is greater than every instant -/
def le : Timeout → Timeout → Bool
  | active a, active b => decide (a ≤ b)
  | active _, inactive => true
  | inactive, active _ => false
  | inactive, inactive => true

/-- `cmp::min(a, b)` (returns `a` when equal) -/
def min (a b : Timeout) : Timeout := if le a b then a else b

/-- `TimeoutExt::has_triggered_level`: active and `time <= now` -/
def triggered (t : Timeout) (now : Nat) : Bool :=
  match t with
  | active x => decide (x ≤ now)
  | inactive => false

/-- `TimeoutExt::set`: `Timeout::active(now + value)` -/
def after (now dur : Nat) : Timeout := active (now + dur)

end Timeout

def msToUs (ms : Nat) : Nat := ms * 1000

end Tw.Time
