/-
Model of the multi-part snapshot transfer (properties C12, C13):

* the sender's chunker `snapshot/src/snap.rs` `delta_chunks` / `DeltaChunks::next`
  (empty / single / multi-part message forms, parts of `MAX_SNAPSHOT_PACKSIZE` bytes);
* the three snapshot messages of `gamenet/snap/src/lib.rs` (`Snap`, `SnapEmpty`, `SnapSingle`);
* the receiver `snapshot/src/receiver.rs` `DeltaReceiver` (`can_receive`, `snap_empty`,
  `snap_single`, `snap`, `reset`) with its results and warnings.

Conventions: a Rust `i32` is an `Int` (callers keep it in range, `inI32`); `wrapping_sub` is
`wrapSub`.  `VecMap<Range<u32>>` + `receive_buf` is modelled as what it denotes: a vector of
optional byte strings indexed by part number (`vec_map::VecMap` *is* a `Vec<Option<V>>`;
`len()` counts the occupied slots, `values()` walks them in index order).  The two places where the
receiver converts a buffer length to `u32` (`assert_u32`) need more than 4 GiB of received data and
are not modelled; every other panic site is an explicit `Outcome.panic`.
-/
import Tw.Gen.SnapXfer

namespace Tw.SnapXfer

/-- the range of a Rust `i32` -/
def inI32 (v : Int) : Prop := -2147483648 ≤ v ∧ v ≤ 2147483647

instance (v : Int) : Decidable (inI32 v) := by unfold inI32; infer_instance

/-- two's complement reduction into the `i32` range -/
def wrap32 (v : Int) : Int := (v + 2147483648) % 4294967296 - 2147483648

/-- `i32::wrapping_sub` -/
def wrapSub (a b : Int) : Int := wrap32 (a - b)

/-- `MAX_SNAPSHOT_PACKSIZE` (regenerated from the source) -/
def partSize : Nat := Tw.Gen.SnapXfer.MAX_SNAPSHOT_PACKSIZE

/-- the receiver's bound on `num_parts` (literal of `DeltaReceiver::snap`, tied in `Props/C12`) -/
def maxParts : Nat := 32

/-- `libtw2_gamenet_snap::SnapMsg` -/
inductive Msg where
  | snap (tick deltaTick numParts part crc : Int) (data : List UInt8)
  | empty (tick deltaTick : Int)
  | single (tick deltaTick crc : Int) (data : List UInt8)
  deriving DecidableEq, Repr, Inhabited

def Msg.tick : Msg → Int
  | .snap t _ _ _ _ _ => t
  | .empty t _ => t
  | .single t _ _ _ => t

inductive Outcome (α : Type) where
  | ok (a : α)
  | panic (site : String)
  deriving DecidableEq, Repr

/-! ## Sender: `delta_chunks` -/

/-- `ceil(len / MAX_SNAPSHOT_PACKSIZE)` as computed by `delta_chunks` -/
def numParts (len : Nat) : Nat := (len + partSize - 1) / partSize

/-- `&data[900*i .. min(900*(i+1), len)]` -/
def chunk (data : List UInt8) (i : Nat) : List UInt8 := (data.drop (partSize * i)).take partSize

/-- The messages `delta_chunks(tick, delta_tick = base, data, crc)` yields, in iteration order.
The field called `delta_tick` in the messages is the *relative* value `tick - base`; it is computed
with `wrapping_sub` (fix of D8; the original code used a checked `-`). -/
def deltaChunks (tick base : Int) (data : List UInt8) (crc : Int) : Outcome (List Msg) :=
  let dt := wrapSub tick base
  let n := numParts data.length
  if ¬ n ≤ 2147483647 then .panic "delta_chunks:assert_i32"
  else if n = 0 then .ok [.empty tick dt]
  else if n = 1 then .ok [.single tick dt crc data]
  else .ok ((List.range n).map fun (i : Nat) => Msg.snap tick dt (n : Int) (i : Int) crc (chunk data i))

/-! ## Receiver: `DeltaReceiver` -/

inductive Warning where
  | duplicateSnap
  | differingAttributes
  deriving DecidableEq, Repr

def Warning.name : Warning → String
  | .duplicateSnap => "DuplicateSnap"
  | .differingAttributes => "DifferingAttributes"

inductive Error where
  | oldDelta
  | invalidNumParts
  | invalidPart
  | duplicatePart
  deriving DecidableEq, Repr

def Error.name : Error → String
  | .oldDelta => "OldDelta"
  | .invalidNumParts => "InvalidNumParts"
  | .invalidPart => "InvalidPart"
  | .duplicatePart => "DuplicatePart"

/-- `CurrentDelta`. `deltaTick` holds what the code stores there: the *absolute* base tick
`tick.wrapping_sub(wire delta_tick)`. -/
structure Current where
  tick : Int
  deltaTick : Int
  numParts : Int
  crc : Int
  deriving DecidableEq, Repr

/-- `ReceivedDelta` (with the borrowed result buffer copied out) -/
structure Received where
  deltaTick : Int
  tick : Int
  dataCrc : Option (List UInt8 × Int)
  deriving DecidableEq, Repr

abbrev Result := Except Error (Option Received)

/-- the part map: slot `k` is `some bytes` when part `k` has been received -/
abbrev Parts := List (Option (List UInt8))

def Parts.contains (ps : Parts) (k : Nat) : Bool := (ps.getD k none).isSome

/-- `VecMap::insert` into a free slot (grows the vector with empty slots as needed) -/
def Parts.insert (ps : Parts) (k : Nat) (d : List UInt8) : Parts :=
  if k < ps.length then ps.set k (some d)
  else ps ++ List.replicate (k - ps.length) none ++ [some d]

/-- `VecMap::len` -/
def Parts.count (ps : Parts) : Nat := ps.countP Option.isSome

/-- concatenation of `VecMap::values()` -/
def Parts.concat (ps : Parts) : List UInt8 := (ps.filterMap id).flatten

structure Receiver where
  previousTick : Option Int := none
  current : Option Current := none
  parts : Parts := []
  deriving DecidableEq, Repr

def Receiver.new : Receiver := {}

/-- `DeltaReceiver::reset` (does not touch the buffers) -/
def Receiver.reset (r : Receiver) : Receiver := { r with previousTick := none, current := none }

/-- `DeltaReceiver::can_receive` -/
def Receiver.canReceive (r : Receiver) (tick : Int) : Bool :=
  match r.current with
  | some c => decide (c.tick ≤ tick)
  | none =>
    match r.previousTick with
    | some t => decide (t < tick)
    | none => true

abbrev StepResult := Receiver × Result × List Warning

/-- the `DuplicateSnap` test shared by `snap_empty` and `snap_single` -/
def Receiver.dupWarn (r : Receiver) (tick : Int) : List Warning :=
  match r.current with
  | some c => if c.tick = tick then [Warning.duplicateSnap] else []
  | none => []

/-- `DeltaReceiver::snap_empty` -/
def Receiver.snapEmpty (r : Receiver) (tick dt : Int) : StepResult :=
  if ¬ r.canReceive tick then (r, .error .oldDelta, [])
  else
    ({ r with parts := [], current := none, previousTick := some tick },
     .ok (some { deltaTick := wrapSub tick dt, tick := tick, dataCrc := none }),
     r.dupWarn tick)

/-- `DeltaReceiver::snap_single` -/
def Receiver.snapSingle (r : Receiver) (tick dt crc : Int) (data : List UInt8) : StepResult :=
  if ¬ r.canReceive tick then (r, .error .oldDelta, [])
  else
    ({ r with parts := [], current := none, previousTick := some tick },
     .ok (some { deltaTick := wrapSub tick dt, tick := tick, dataCrc := some (data, crc) }),
     r.dupWarn tick)

/-- The first half of `DeltaReceiver::snap` after the argument checks: drop a transfer of another
tick, start a new one if none is in progress. Returns the new state and the `CurrentDelta`. -/
def Receiver.enter (r : Receiver) (tick dt numParts crc : Int) : Receiver × Current :=
  let c' : Current := { tick := tick, deltaTick := wrapSub tick dt, numParts := numParts, crc := crc }
  match r.current with
  | some c =>
    if c.tick = tick then (r, c) else ({ r with current := some c', parts := [] }, c')
  | none => ({ r with current := some c', parts := [] }, c')

/-- `DeltaReceiver::snap` -/
def Receiver.snap (r : Receiver) (tick dt numParts part crc : Int) (data : List UInt8) : StepResult :=
  if ¬ r.canReceive tick then (r, .error .oldDelta, [])
  else if ¬ (0 ≤ numParts ∧ numParts ≤ (maxParts : Int)) then (r, .error .invalidNumParts, [])
  else if ¬ (0 ≤ part ∧ part < numParts) then (r, .error .invalidPart, [])
  else
    let (r', cur) := r.enter tick dt numParts crc
    -- the attribute comparison (since the fix of D7 the wire's relative value is converted first)
    let ws : List Warning :=
      if wrapSub tick dt ≠ cur.deltaTick ∨ numParts ≠ cur.numParts ∨ crc ≠ cur.crc then
        [Warning.differingAttributes]
      else []
    let k := part.toNat
    if r'.parts.contains k then (r', .error .duplicatePart, ws)
    else
      let ps := r'.parts.insert k data
      if (ps.count : Int) ≠ cur.numParts then ({ r' with parts := ps }, .ok none, ws)
      else
        ({ r' with parts := ps, current := none, previousTick := some cur.tick },
         .ok (some { deltaTick := cur.deltaTick, tick := cur.tick,
                     dataCrc := some (ps.concat, cur.crc) }),
         ws)

/-- one message handed to the receiver (what `Manager` does with a `SnapMsg`) -/
def Receiver.step (r : Receiver) : Msg → StepResult
  | .snap t dt n p c d => r.snap t dt n p c d
  | .empty t dt => r.snapEmpty t dt
  | .single t dt c d => r.snapSingle t dt c d

/-- state after a message sequence -/
def Receiver.after (r : Receiver) : List Msg → Receiver
  | [] => r
  | m :: ms => Receiver.after (r.step m).1 ms

/-- results and warnings of a message sequence -/
def Receiver.run (r : Receiver) : List Msg → List (Result × List Warning)
  | [] => []
  | m :: ms => (r.step m).2 :: Receiver.run (r.step m).1 ms

/-- The newest tick the receiver knows of: the tick of the transfer in progress, else the last
completed tick. (`can_receive` consults exactly this value.) -/
def Receiver.newest (r : Receiver) : Option Int :=
  match r.current with
  | some c => some c.tick
  | none => r.previousTick

end Tw.SnapXfer
