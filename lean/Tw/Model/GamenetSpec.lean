/-
The *description language* of `gamenet/generate/spec/*.json` as Lean data types.  The four shipped
descriptions are regenerated into `Tw/Gen/Spec_*.lean` (values of `ProtoSpec`) by
`tools/extract.d/gamenet.py` on every check run.  The interpreter over this language is
`Tw/Model/Gamenet.lean`.
-/
namespace Tw.Gamenet

mutual
/-- Member types of the description language (`kind` of a member in the JSON files; the Python
class of `gamenet/generate/datatypes.py` that the kind deserialises to is given in brackets). -/
inductive MT where
  /-- `int32` with optional `min` / `max` [NetIntAny, NetIntPositive, NetIntMin, NetIntRange] -/
  | int32 (min max : Option Int)
  /-- `boolean` [NetBool] -/
  | boolean
  /-- `enum`: the referenced enumeration `ename` has the `n` values `lo, lo+1, …, lo+n-1` [NetEnum] -/
  | enum (ename : String) (lo : Int) (n : Nat)
  /-- `flags`: the referenced flag set `fname` defines the bits of `mask` [NetFlag] -/
  | flags (fname : String) (mask : Nat)
  /-- `tick` [NetTick] -/
  | tick
  /-- `tune_param` [NetTuneParam] -/
  | tuneParam
  /-- `string`, `disallow_cc` = strict [NetString / NetStringStrict] -/
  | string (strict : Bool)
  /-- `int32_string`: decimal integer in a NUL-terminated string [NetIntString] -/
  | int32String
  /-- `data` (length-prefixed) [NetData] -/
  | data
  /-- `rest` [NetDataRest] -/
  | rest
  /-- `sha256` (32 raw bytes), `uuid` (16 raw bytes) [NetSha256, NetUuid] -/
  | raw (len : Nat)
  /-- `be_uint16` [NetBigEndianU16] -/
  | beUint16
  /-- `uint8` [NetU8] -/
  | uint8
  /-- `packed_addresses`: the rest, cut to a multiple of 18 bytes [NetAddrs] -/
  | packedAddresses
  /-- `serverinfo_client`: the rest [NetClients] -/
  | serverinfoClient
  /-- `int32_twstring`: `count` integers (snapshot objects only) [NetTwIntString] -/
  | twString (count : Nat)
  /-- `optional` [NetOptional] -/
  | optional (inner : MT)
  /-- `array` [NetArray] -/
  | array (count : Nat) (inner : MT)
  /-- `snapshot_object`: a snapshot object in message encoding; `members` are the referenced
  object's own members [NetObjectMember] -/
  | object (members : ML)
  deriving Repr, DecidableEq

/-- Member lists. -/
inductive ML where
  | nil
  | cons (t : MT) (ms : ML)
  deriving Repr, DecidableEq
end

def ML.ofList : List MT → ML
  | [] => .nil
  | t :: ts => .cons t (ML.ofList ts)

def ML.toList : ML → List MT
  | .nil => []
  | .cons t ts => t :: ts.toList

/-- Message / object identifier: an ordinal or a UUID (16 bytes, big endian as on the wire). -/
inductive Ident where
  | ordinal (n : Int)
  | uuid (bytes : List UInt8)
  deriving Repr, DecidableEq

/-- A system or game message, or a snapshot object (members = inherited members first). -/
structure Spec where
  name : String
  id : Ident
  members : ML
  deriving Repr, DecidableEq

/-- A connectionless message (identified by its 8-byte header). -/
structure ConnlessSpec where
  name : String
  id : List UInt8
  members : ML
  deriving Repr, DecidableEq

structure EnumSpec where
  name : String
  values : List Int
  deriving Repr, DecidableEq

/-- One protocol description. -/
structure ProtoSpec where
  name : String
  enums : List EnumSpec
  flags : List EnumSpec
  system : List Spec
  game : List Spec
  connless : List ConnlessSpec
  objects : List Spec
  /-- the `(type id, size)` arms of the generated `obj_size` (extracted from `snap_obj.rs`) -/
  objSizes : List (Nat × Nat)
  deriving Repr

end Tw.Gamenet
