import Tw.Model.SnapMgrC
import Tw.Drv.Util

/-!
Line protocol for domain `snapmgrc` (implementation side: `harness/src/d_snapmgrc.rs`, the runner of
`snapmgr`).  Same requests as `snapmgr`, but here the whole model is concrete: the snapshot layer is
`Model/Snap.lean` (builder with `recycle`, `Delta::create`, wire form, `read_with_delta`, crc), the
sender has its free list, the glue its 64 KiB buffer.  Hints after `|` are ignored.
-/
namespace Tw.Drv.Snapmgrc
open Tw.SnapXfer Tw.SnapMgr Tw.Drv

def objSize06 (t : Nat) : Option Nat := (Tw.Gen.Snap.objSize_tw06.find? (·.1 == t)).map (·.2)

/-- `uuid_of` of the harness -/
def uuidOf (n : Nat) : Int :=
  let m := 340282366920938463463374607431768211456
  (((n * 0x9e3779b97f4a7c15f39cc0605cedc835) % m) ^^^ ((n * 79228162514264337593543950336) % m) : Nat)

def parseItem (s : String) : Option Item :=
  match s.splitOn ":" with
  | [head, data] =>
    match head.splitOn "." with
    | [ty, id] => do
      let id ← parseNat id
      let tid ← match ty.toList with
        | 'o' :: r => (parseNat (String.ofList r)).map Tw.Snap.TypeId.ordinal
        | 'u' :: r => (parseNat (String.ofList r)).map fun n => Tw.Snap.TypeId.uuid (uuidOf n)
        | _ => none
      let vals ← if data == "" then some [] else (data.splitOn ".").mapM parseInt
      pure (tid, id, vals)
    | _ => none
  | _ => none

def parseItems (s : String) : Option (List Item) :=
  if s == "-" then some [] else (s.splitOn ",").mapM parseItem

structure St where
  y : SysB Tw.Snap.Snap := {}
  /-- session flag `refglue` -/
  ref : Bool := false

def opsOf (s : St) := execOps objSize06 s.ref

def le32 (v : Int) : List UInt8 :=
  let n := (v % 4294967296).toNat
  [UInt8.ofNat n, UInt8.ofNat (n / 256), UInt8.ofNat (n / 65536), UInt8.ofNat (n / 16777216)]

/-- FNV-1a over the little-endian bytes of the snapshot's integer form (`write_to_ints`) -/
def snapHash (s : Tw.Snap.Snap) : String :=
  match s.raw.writeInts with
  | some xs => toString (xs.foldl (fun h x => fnvBytes h (le32 x)) fnvOffset)
  | none => "?"

def optStr : Option Int → String
  | none => "none"
  | some t => toString t

def wStr (ws : List MgrWarning) : String := listStr (ws.map MgrWarning.name)

def deliverMsg (s : St) (m : Msg) : St × String :=
  let (c', res, ws) := s.y.sys.client.step (opsOf s) m
  let line := match res with
    | .error e => s!"err {e.name}"
    | .ok none => "ok none"
    | .ok (some sn) =>
      let n := match sn.items with | some l => toString l.length | none => "?"
      s!"ok snap tick={m.tick} crc={sn.crc} items={n} sh={snapHash sn}"
  ({ s with y := { s.y with sys := { s.y.sys with client := c' } } },
    s!"{line} ack={optStr c'.ackTick} w={wStr ws}")

/-- run one model event; a panic resets the session (as the harness does) -/
def runEv (s : St) (e : EvB Tw.Snap.Snap (List Item)) : Option (St × ObsB Tw.Snap.Snap) :=
  match s.y.step (opsOf s) execBuild e with
  | .panic _ => none
  | .ok (y', o) => some ({ s with y := y' }, o)

def doAck (s : St) (e : Ev Tw.Snap.Snap) (v : Int) : St × String :=
  let (st', r, w) := s.y.sys.sender.setDeltaTick v
  let rs := match r with | .ok => "ok" | .unknownSnap => "err UnknownSnap"
  let line := s!"{rs} dt={optStr st'.deltaTick} w={if w then "WeirdNegativeDeltaTick" else "-"}"
  match runEv s (.other e) with
  | none => ({ ref := s.ref }, "panic")
  | some (s', _) => (s', line)

def step (s : St) (toks : List String) : St × String :=
  let main := toks.takeWhile (· ≠ "|")
  match main with
  | "new" :: flags => ({ ref := flags.contains "refglue" }, "ok")
  | ["snap", t, items] =>
    match parseInt t, parseItems items with
    | some t, some items =>
      let first := s.y.sys.msgs.length
      match runEv s (.sendItems t items) with
      | none => ({ ref := s.ref }, "panic")
      | some (s', .builderError e) => (s', s!"builder-err {e}")
      | some (s', _) =>
        match s'.y.sys.xfers.head? with
        | some x =>
          (s', s!"sent {t} base={x.base} len={x.bytes.length} parts={s'.y.sys.msgs.length - first} crc={x.crc} first={first} h={fnvBytes fnvOffset x.bytes}")
        | none => (s', "?")
    | _, _ => (s, "bad-args")
  | ["d", i] =>
    match (parseNat i).bind (s.y.sys.msgs[·]?) with
    | none => (s, "bad-index")
    | some m => deliverMsg s m
  | ["dc", i, dl] =>
    match (parseNat i).bind (s.y.sys.msgs[·]?), parseInt dl with
    | some m, some dl =>
      let m' := match m with
        | Msg.single t dt c d => Msg.single t dt (wrap32 (c + dl)) d
        | Msg.snap t dt n p c d => Msg.snap t dt n p (wrap32 (c + dl)) d
        | Msg.empty t dt => Msg.empty t dt
      deliverMsg s m'
    | _, _ => (s, "bad-index")
  | ["ack"] =>
    let v := s.y.sys.client.ackTick.getD (-1)
    match runEv s (.other .ack) with
    | none => ({ ref := s.ref }, "panic")
    | some (s', _) => (s', s!"ackmsg {s.y.sys.acks.length} {v}")
  | ["da", j] =>
    match (parseNat j).bind fun j => (s.y.sys.acks[j]?).map fun v => (j, v) with
    | none => (s, "bad-index")
    | some (j, v) => doAck s (.deliverAck j) v
  | ["ra", v] =>
    match parseInt v with
    | some v => doAck s (.forgedAck v) v
    | none => (s, "bad-args")
  | ["creset"] =>
    match runEv s (.other .clientReset) with
    | none => ({ ref := s.ref }, "panic")
    | some (s', _) => (s', "ok")
  | _ => (s, "bad-op")

def main : IO Unit := runLoop step {}

end Tw.Drv.Snapmgrc
