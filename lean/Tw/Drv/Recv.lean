import Tw.Model.SnapXfer
import Tw.Drv.Util

/-!
Line protocol for domain `recv` (implementation side: `harness/src/d_recv.rs`).

A session starts with `new <tick> <base> <crc> <data>`: a fresh `DeltaReceiver`, and the message
list `delta_chunks(tick, base, data, crc)` is remembered.  Afterwards

* `p <i>`                                  feed message `i` of the remembered list
* `e <tick> <dt>`                          feed a `SnapEmpty`
* `s <tick> <dt> <crc> <data>`             feed a `SnapSingle`
* `m <tick> <dt> <num_parts> <part> <crc> <data>`   feed a `Snap`
* `pg <i> <dcrc> <ddt>`                     feed a copy of message `i` with altered crc / delta_tick
* `c <i>`                                  print message `i` of the remembered list
* `reset`                                  `DeltaReceiver::reset`

`<data>` is hex (`-` = empty) or `g<len>:<seed>` (byte `i` = `seed + 7i + 13(i/900) + i/256 mod 256`).
Printed data longer than 32 bytes is abbreviated to `#<len>:<fnv1a>`.
-/
namespace Tw.Drv.Recv
open Tw.SnapXfer Tw.Drv

def genData (len seed : Nat) : List UInt8 :=
  (List.range len).map fun i => UInt8.ofNat (seed + 7 * i + 13 * (i / 900) + i / 256)

def parseData (s : String) : Option (List UInt8) :=
  match s.toList with
  | 'g' :: rest =>
    match (String.ofList rest).splitOn ":" with
    | [l, sd] => do
      let l ← parseNat l
      let sd ← parseNat sd
      pure (genData l sd)
    | _ => none
  | _ => parseHex s

def dataTok (d : List UInt8) : String :=
  if d.length ≤ 32 then toHex d else s!"#{d.length}:{fnvBytes fnvOffset d}"

def msgStr : Msg → String
  | .empty t dt => s!"e {t} {dt}"
  | .single t dt c d => s!"s {t} {dt} {c} {dataTok d}"
  | .snap t dt n p c d => s!"m {t} {dt} {n} {p} {c} {dataTok d}"

def formStr : List Msg → String
  | [.empty _ _] => "empty"
  | [.single _ _ _ _] => "single"
  | _ => "multi"

def wsStr (ws : List Warning) : String := listStr (ws.map Warning.name)

def resultStr : Result × List Warning → String
  | (.error e, ws) => s!"err {e.name} {wsStr ws}"
  | (.ok none, ws) => s!"ok none {wsStr ws}"
  | (.ok (some d), ws) =>
    match d.dataCrc with
    | none => s!"ok {d.tick} {d.deltaTick} - {wsStr ws}"
    | some (bs, crc) => s!"ok {d.tick} {d.deltaTick} {crc} {dataTok bs} {wsStr ws}"

structure Session where
  r : Receiver := {}
  chunks : Option (List Msg) := none

def feed (s : Session) (m : Msg) : Session × String :=
  let (r', res, ws) := s.r.step m
  ({ s with r := r' }, resultStr (res, ws))

def step (s : Session) (toks : List String) : Session × String :=
  match toks with
  | ["new", t, b, c, d] =>
    match parseInt t, parseInt b, parseInt c, parseData d with
    | some t, some b, some c, some d =>
      match deltaChunks t b d c with
      | .panic _ => ({ r := {}, chunks := none }, "panic")
      | .ok ms =>
        let h := ms.foldl (fun h m => fnvByte (fnvString h (msgStr m)) 10) fnvOffset
        ({ r := {}, chunks := some ms }, s!"chunks {ms.length} {formStr ms} {h}")
    | _, _, _, _ => ({}, "bad-args")
  | ["p", i] =>
    match parseNat i, s.chunks with
    | some i, some ms =>
      match ms[i]? with
      | some m => feed s m
      | none => (s, "bad-index")
    | _, _ => (s, "bad-index")
  | ["pg", i, dcrc, ddt] =>
    match parseNat i, parseInt dcrc, parseInt ddt, s.chunks with
    | some i, some dcrc, some ddt, some ms =>
      match ms[i]? with
      | some (.empty t dt) => feed s (.empty t (wrap32 (dt + ddt)))
      | some (.single t dt c d) => feed s (.single t (wrap32 (dt + ddt)) (wrap32 (c + dcrc)) d)
      | some (.snap t dt n p c d) => feed s (.snap t (wrap32 (dt + ddt)) n p (wrap32 (c + dcrc)) d)
      | none => (s, "bad-index")
    | _, _, _, _ => (s, "bad-index")
  | ["c", i] =>
    match parseNat i, s.chunks with
    | some i, some ms =>
      match ms[i]? with
      | some m => (s, msgStr m)
      | none => (s, "bad-index")
    | _, _ => (s, "bad-index")
  | ["e", t, dt] =>
    match parseInt t, parseInt dt with
    | some t, some dt => feed s (.empty t dt)
    | _, _ => (s, "bad-args")
  | ["s", t, dt, c, d] =>
    match parseInt t, parseInt dt, parseInt c, parseData d with
    | some t, some dt, some c, some d => feed s (.single t dt c d)
    | _, _, _, _ => (s, "bad-args")
  | ["m", t, dt, n, p, c, d] =>
    match parseInt t, parseInt dt, parseInt n, parseInt p, parseInt c, parseData d with
    | some t, some dt, some n, some p, some c, some d => feed s (.snap t dt n p c d)
    | _, _, _, _, _, _ => (s, "bad-args")
  | ["reset"] => ({ s with r := s.r.reset }, "ok")
  | _ => (s, "bad-op")

def main : IO Unit := runLoop step {}

end Tw.Drv.Recv
