import Tw.Model.ServerBrowse
import Tw.Model.ServerBrowseEnc
import Tw.Drv.Util

/-! Line protocol for domain `browse` (implementation side: `harness/src/d_browse.rs`).

* `p <hex>`: `parse_response` on the datagram and, for the seven info kinds, the kind's `parse()`.
* `m|mf <n> <k:hex>×n <step>…`: parse `n` partial infos (`k` = `d` dtsf, `x` iext, `m` iex+), then run
  the steps: a number `i` merges part `i` into the accumulator (the first one becomes the
  accumulator), `t` calls `take_info`. Output: the per-step results and the final `get_info`.
  (`mf` marks a request whose parts are all the parts of one well-formed info: the Rust side then
  also evaluates the C18 merge oracle; the model treats both alike.)
* `hs <k> <prefix> <suffix> <alphabet> <maxlen>`: the `parse()` of kind `k` on `prefix ++ w ++ suffix`
  for every string `w` over the alphabet up to the length, results hashed.
* `e <k> <n> <info>`: the structured info (same text form as in the outputs) is encoded with the
  reference encoder (`n` = offset, or packet number for `m`), tested with the executable
  representability checker, parsed; output: bytes, checker verdict, parse result, and whether the
  result is what the round-trip theorem predicts.
* `hp <prefix> <suffix> <alphabet> <maxlen>`: whole datagrams `prefix ++ w ++ suffix` through
  `parse_response` (+ the kind's `parse()`), results hashed.
* `hc <k> <prefix> <suffix> <v1,v2,…>`: the count fields jointly swept over the values (every tuple).
* `mh|mfh <n> <k:hex>×n <maxlen>`: every step sequence over the part indices of length 1..maxlen, in
  lexicographic order per length, each output folded into FNV-1a. -/
namespace Tw.Drv.Browse
open Tw.ServerBrowse Tw.Drv

def optStr {α : Type} (f : α → String) : Option α → String
  | none => "~"
  | some a => f a

def clientStr (c : ClientInfo) : String :=
  s!"{toHex c.name}/{toHex c.clan}/{c.country}/{c.score}/{c.flags}"

def infoStr (i : ServerInfo) : String :=
  let cl := if i.clients.isEmpty then "-" else ";".intercalate (i.clients.map clientStr)
  "|".intercalate [i.infoVersion.name, toString i.token, toHex i.version, toHex i.name, optStr toHex i.hostname,
    toHex i.map, optStr toString i.mapCrc, optStr toString i.mapSize, toHex i.gameType, toString i.flags,
    optStr toString i.progression, optStr toString i.skillLevel, toString i.numPlayers, toString i.maxPlayers,
    toString i.numClients, toString i.maxClients, cl]

def giStr : Option ServerInfo → String
  | none => "none"
  | some i => s!"some {infoStr i}"

def addrStr (a : Addr) : String := s!"{if a.v4 then "4" else "6"}:{toHex a.ip}:{a.port}"

def addrsStr (as : List Addr) : String := listStr (as.map addrStr)

def kindName : InfoKind → String
  | .info5 => "info5" | .info6 => "info6" | .info6Ddper => "info6ddper" | .info664 => "info664"
  | .info6Ex => "info6ex" | .info6ExMore => "info6exmore" | .info7 => "info7"

/-- result of the kind's `parse()` as text -/
def infoResult (k : InfoKind) (payload : List UInt8) : Option String :=
  if k.isPartial then
    match parsePartial k payload with
    | .panic _ => none
    | .ok none => some "none"
    | .ok (some p) => some s!"part {p.info.token} {giStr (getInfo p).2}"
  else
    match parseFull k payload with
    | .panic _ => none
    | .ok none => some "none"
    | .ok (some i) => some s!"some {infoStr i}"

def parseLine (data : List UInt8) : String :=
  match parseResponse data with
  | .panic _ => "panic"
  | .ok none => "none"
  | .ok (some r) =>
    match r with
    | .list5 as => s!"list5 {addrsStr as}"
    | .list6 as => s!"list6 {addrsStr as}"
    | .list7 o t as => s!"list7 {toHex o} {toHex t} {addrsStr as}"
    | .count n => s!"count {n}"
    | .count7 o t n => s!"count7 {toHex o} {toHex t} {n}"
    | .token7 o t => s!"token7 {toHex o} {toHex t}"
    | .info k payload =>
      match infoResult k payload with
      | none => "panic"
      | some s => s!"{kindName k} {s}"
    | .info7 o t payload =>
      match infoResult .info7 payload with
      | none => "panic"
      | some s => s!"info7 {toHex o} {toHex t} {s}"

/-! merging -/

def parsePart (s : String) : Option (InfoKind × List UInt8) :=
  match s.splitOn ":" with
  | ["d", h] => (parseHex h).map (InfoKind.info664, ·)
  | ["x", h] => (parseHex h).map (InfoKind.info6Ex, ·)
  | ["m", h] => (parseHex h).map (InfoKind.info6ExMore, ·)
  | _ => none

inductive Step where
  | merge (i : Nat)
  | take

def parseStep (s : String) : Option Step :=
  if s == "t" then some .take else (parseNat s).map .merge

def errLetter : Option MergeError → String
  | none => "k"
  | some .differingTokens => "t"
  | some .differingVersions => "v"
  | some .notMultipartVersion => "n"
  | some .overlappingInfos => "o"

def flag (p : PartialInfo) : String := if (getInfo p).2.isSome then "1" else "0"

def runSteps (parts : Array (Option PartialInfo)) : List Step → Option PartialInfo → List String → Option PartialInfo × List String
  | [], st, out => (st, out.reverse)
  | .merge i :: rest, st, out =>
    match parts.getD i none with
    | none => runSteps parts rest st ("-" :: out)
    | some p =>
      match st with
      | none => runSteps parts rest (some p) (("s" ++ flag p) :: out)
      | some s =>
        let (s', e) := merge s p
        runSteps parts rest (some s') ((errLetter e ++ flag s') :: out)
  | .take :: rest, st, out =>
    match st with
    | none => runSteps parts rest st ("-" :: out)
    | some s =>
      match takeInfo s with
      | (s', none) => runSteps parts rest (some s') ("N" :: out)
      | (s', some i) => runSteps parts rest (some s') (s!"S{fnvString fnvOffset (infoStr i)}" :: out)

def mergeOut (parts : Array (Option PartialInfo)) (steps : List Step) : String :=
  match runSteps parts steps none [] with
  | (none, out) => s!"{listStr out} empty"
  | (some s, out) => s!"{listStr out} {giStr (getInfo s).2}"

/-- parts parsed up front; `none` = some part panics -/
def loadParts (ps : List (InfoKind × List UInt8)) : Option (Array (Option PartialInfo)) :=
  ps.foldlM (fun (acc : Array (Option PartialInfo)) (k, h) =>
    match parsePartial k h with
    | .panic _ => none
    | .ok r => some (acc.push r)) #[]

/-- all sequences of length `len` over `[0, n)`, lexicographic -/
def seqs (n : Nat) : Nat → List (List Nat)
  | 0 => [[]]
  | len + 1 => (List.range n).flatMap fun i => (seqs n len).map (i :: ·)

def mergeHash (parts : Array (Option PartialInfo)) (n maxLen : Nat) : UInt64 := Id.run do
  let mut h := fnvOffset
  for len in [1:maxLen + 1] do
    for s in seqs n len do
      h := fnvString h (mergeOut parts (s.map Step.merge))
      h := fnvByte h 10
  return h

def kindOfChar (s : String) : Option InfoKind :=
  match s with
  | "5" => some .info5 | "6" => some .info6 | "p" => some .info6Ddper | "d" => some .info664
  | "x" => some .info6Ex | "m" => some .info6ExMore | "7" => some .info7
  | _ => none

/-- `hs`: every string `w` over `alphabet` of length `0..maxLen` (by length, then by index in base
`|alphabet|`, most significant digit first), payload `pre ++ w ++ suf`, results hashed -/
def sweepHash (k : InfoKind) (pre suf alphabet : List UInt8) (maxLen : Nat) : Option UInt64 := Id.run do
  let mut h := fnvOffset
  let a := alphabet.toArray
  let n := a.size
  for len in [0:maxLen + 1] do
    for c in [0:n ^ len] do
      let w := (List.range len).map fun j => a.getD ((c / n ^ (len - 1 - j)) % n) 0
      match infoResult k (pre ++ w ++ suf) with
      | none => return none
      | some r =>
        h := fnvString h r
        h := fnvByte h 10
  return some h

/-- wire form of an integer field of kind `k`: varint (0.7) or decimal text + NUL -/
def encInt (k : InfoKind) (v : Int) : List UInt8 :=
  match k with
  | .info7 => Tw.Packer.writeInt v
  | _ => (toString v).toUTF8.toList ++ [0]

/-- all tuples of length `n` over `vals`, lexicographic -/
def tuples (vals : List Int) : Nat → List (List Int)
  | 0 => [[]]
  | n + 1 => vals.flatMap fun v => (tuples vals n).map (v :: ·)

/-- `hc`: the count fields (players, max players[, clients, max clients]) jointly swept over `vals` -/
def countHash (k : InfoKind) (pre suf : List UInt8) (vals : List Int) : Option UInt64 := Id.run do
  let mut h := fnvOffset
  let n := if k == .info5 then 2 else 4
  for t in tuples vals n do
    match infoResult k (pre ++ t.flatMap (encInt k) ++ suf) with
    | none => return none
    | some r =>
      h := fnvString h r
      h := fnvByte h 10
  return some h

/-! `e`: encode a structured info with the reference encoder, check representability, parse -/

def parseOpt {α : Type} (f : String → Option α) (s : String) : Option (Option α) :=
  if s == "~" then some none else (f s).map some

def versionOfName (s : String) : Option Version :=
  match s with
  | "V5" => some .v5 | "V6" => some .v6 | "V6Ddper" => some .v6Ddper | "V664" => some .v664
  | "V6Ex" => some .v6Ex | "V7" => some .v7 | _ => none

def parseClientStr (s : String) : Option ClientInfo :=
  match s.splitOn "/" with
  | [n, c, co, sc, fl] => do
    let n ← parseHex n
    let c ← parseHex c
    let co ← parseInt co
    let sc ← parseInt sc
    let fl ← parseInt fl
    pure { name := n, clan := c, country := co, score := sc, flags := fl }
  | _ => none

def parseInfoStr (s : String) : Option ServerInfo :=
  match s.splitOn "|" with
  | [ver, tok, version, name, host, map, crc, size, gt, flags, prog, skill, np, mp, nc, mc, cl] => do
    let ver ← versionOfName ver
    let tok ← parseInt tok
    let version ← parseHex version
    let name ← parseHex name
    let host ← parseOpt parseHex host
    let map ← parseHex map
    let crc ← parseOpt parseNat crc
    let size ← parseOpt parseNat size
    let gt ← parseHex gt
    let flags ← parseInt flags
    let prog ← parseOpt parseInt prog
    let skill ← parseOpt parseInt skill
    let np ← parseInt np
    let mp ← parseInt mp
    let nc ← parseInt nc
    let mc ← parseInt mc
    let cl ← if cl == "-" then some [] else (cl.splitOn ";").mapM parseClientStr
    pure { infoVersion := ver, token := tok, version := version, name := name, hostname := host, map := map,
           mapCrc := crc, mapSize := size, gameType := gt, flags := flags, progression := prog, skillLevel := skill,
           numPlayers := np, maxPlayers := mp, numClients := nc, maxClients := mc, clients := cl }
  | _ => none

def encodeLine (k : InfoKind) (n : Nat) (i : ServerInfo) : String :=
  if k == .info6ExMore then
    let bytes := encMore i.token n i.clients
    let rep := representableMoreB i.token n i.clients
    let res := (infoResult k bytes).getD "panic"
    let rt :=
      if rep then
        (if parsePartial k bytes = .ok (some { info := { infoVersion := .v6Ex, token := i.token, clients := i.clients }, received := 1 <<< n })
          then "ok" else "BAD")
      else "-"
    s!"{toHex bytes} {if rep then 1 else 0} {res} {rt}"
  else
    let bytes := encInfo k i n
    let rep := representableB k i n
    let res := (infoResult k bytes).getD "panic"
    let rt :=
      if rep then
        (if parsePartial k bytes = .ok (some { info := i, received := maskFor k n i.clients.length }) then "ok" else "BAD")
      else "-"
    s!"{toHex bytes} {if rep then 1 else 0} {res} {rt}"

/-- `hp`: like `hs`, but whole datagrams through `parse_response` (the text of a `p` request) -/
def sweepParse (pre suf alphabet : List UInt8) (maxLen : Nat) : UInt64 := Id.run do
  let mut h := fnvOffset
  let a := alphabet.toArray
  let n := a.size
  for len in [0:maxLen + 1] do
    for c in [0:n ^ len] do
      let w := (List.range len).map fun j => a.getD ((c / n ^ (len - 1 - j)) % n) 0
      h := fnvString h (parseLine (pre ++ w ++ suf))
      h := fnvByte h 10
  return h

def handle (toks : List String) : String :=
  match toks with
  | ["e", k, n, info] =>
    match kindOfChar k, parseNat n, parseInfoStr info with
    | some k, some n, some i => encodeLine k n i
    | _, _, _ => "bad-op"
  | ["hp", pre, suf, alpha, ml] =>
    match parseHex pre, parseHex suf, parseHex alpha, parseNat ml with
    | some pre, some suf, some alpha, some ml => s!"h {sweepParse pre suf alpha ml}"
    | _, _, _, _ => "bad-op"
  | ["hc", k, pre, suf, vals] =>
    match kindOfChar k, parseHex pre, parseHex suf, (vals.splitOn ",").mapM parseInt with
    | some k, some pre, some suf, some vals =>
      match countHash k pre suf vals with
      | some h => s!"h {h}"
      | none => "panic"
    | _, _, _, _ => "bad-op"
  | ["hs", k, pre, suf, alpha, ml] =>
    match kindOfChar k, parseHex pre, parseHex suf, parseHex alpha, parseNat ml with
    | some k, some pre, some suf, some alpha, some ml =>
      match sweepHash k pre suf alpha ml with
      | some h => s!"h {h}"
      | none => "panic"
    | _, _, _, _, _ => "bad-op"
  | ["p", h] =>
    match parseHex h with
    | some bs => parseLine bs
    | none => "bad-op"
  | op :: n :: rest =>
    if op == "m" || op == "mf" || op == "mh" || op == "mfh" then
      match parseNat n with
      | none => "bad-op"
      | some n =>
        match (rest.take n).mapM parsePart with
        | none => "bad-op"
        | some ps =>
          if ps.length ≠ n then "bad-op"
          else
            match loadParts ps with
            | none => "panic"
            | some parts =>
              if op == "m" || op == "mf" then
                match (rest.drop n).mapM parseStep with
                | none => "bad-op"
                | some steps => mergeOut parts steps
              else
                match (rest.drop n) with
                | [ml] =>
                  match parseNat ml with
                  | some ml => s!"h {mergeHash parts n ml}"
                  | none => "bad-op"
                | _ => "bad-op"
    else "bad-op"
  | _ => "bad-op"

def main : IO Unit := runStateless handle

end Tw.Drv.Browse
