import Tw.Model.Datafile
import Tw.Model.Inflate
import Tw.Drv.Util

/-! Line protocol for domain `datafile` (implementation side: `harness/src/d_datafile.rs`).

* `open <hex>` / `openx <hex> <items> <datas>`: `Reader::new` on the bytes, then everything the
  reader exposes.  `openx` carries what was stored for the Rust-side oracle; the model ignores it.
* `rt <3|4> <items> <datas>`: build the file with the writer model (stored-block deflate), print
  its hash, then as `open`.
* `sweep <hex>`: `item_type_indices` / `find_item` for all 65536 type ids, hash form.
* `inflate <destLen> <hex>`: the driver's zlib stand-in against the real `uncompress`.
-/
namespace Tw.Drv.Datafile
open Tw.Datafile Tw.Drv

def le32 (v : Nat) : List UInt8 :=
  [UInt8.ofNat v, UInt8.ofNat (v / 256), UInt8.ofNat (v / 65536), UInt8.ofNat (v / 16777216)]

def le16 (v : Nat) : List UInt8 := [UInt8.ofNat v, UInt8.ofNat (v / 256)]

def verStr : Version → String
  | .v3 => "v3"
  | .v4crude => "v4c"
  | .v4 => "v4"

def inflate := Tw.Inflate.inflate

/-- accessor results are collected in `Except Unit` (`error ()` = some accessor panicked) -/
abbrev Acc := Except Unit

def lift {α : Type} : Outcome α → Acc α
  | .ok a => .ok a
  | _ => .error ()

def rangeFrom (a n : Nat) : List Nat := (List.range n).map (· + a)

def hashView (h : UInt64) (v : ItemView) : UInt64 :=
  fnvBytes (fnvBytes (fnvBytes h (le16 v.typeId)) (le16 v.id)) (bytesOfWords v.data)

def hashFind (r : Reader) (h : UInt64) (t id : Nat) : Acc UInt64 := do
  match ← lift (r.findItem t id) with
  | none => pure (fnvByte h 0)
  | some v => pure (hashView (fnvBytes (fnvByte h 1) (le16 id)) v)

def probeType (r : Reader) (h : UInt64) (t : Nat) : Acc UInt64 := do
  let (a, b) ← lift (r.itemTypeIndices t)
  let mut h := fnvBytes (fnvBytes h (le32 a)) (le32 b)
  let mut ids : List Nat := [0, 1, 65535]
  for k in rangeFrom a (b - a) do
    let v ← lift (r.item k)
    h := hashView h v
    ids := ids ++ [v.id]
  for id in ids do
    h ← hashFind r h t id
  pure h

def probeList (r : Reader) : List Nat :=
  (r.itemTypes.flatMap fun t =>
    let u := (t.typeId % 65536).toNat
    [(u + 65535) % 65536, u, (u + 1) % 65536]) ++ [0, 1, 2, 3, 4, 5, 6, 7, 8, 32767, 32768, 65535]

def describe (r : Reader) : Acc String := do
  let nt ← lift r.numItemTypesU
  let ni ← lift r.numItemsU
  let nd ← lift r.numDataU
  let mut ts : List String := []
  for i in List.range nt do
    let t ← lift (r.itemType i)
    let (a, b) ← lift (r.itemTypeIndices t)
    ts := ts ++ [s!"{t}:{a}:{b}"]
  let mut is : List String := []
  for i in List.range ni do
    let v ← lift (r.item i)
    is := is ++ [s!"{v.typeId}.{v.id}.{toHex (bytesOfWords v.data)}"]
  let mut h := fnvOffset
  for t in probeList r do
    h ← probeType r h t
  let mut ds : List String := []
  for i in List.range nd do
    match r.readData inflate i with
    | .ok bs => ds := ds ++ [toHex bs]
    | .err e => ds := ds ++ [s!"e:{e.name}"]
    | .panic _ => throw ()
  pure s!"ok {verStr r.version} {nt},{ni},{nd} T={listStr ts} I={listStr is} P={h} D={listStr ds}"

def openLine (bs : List UInt8) : String :=
  match Reader.new bs with
  | .panic _ => "panic-new"
  | .err e => s!"err {e.name}"
  | .ok r =>
    match describe r with
    | .ok s => s
    | .error () => "panic-acc"

def sweepLine (bs : List UInt8) : String :=
  match Reader.new bs with
  | .panic _ => "panic-new"
  | .err e => s!"err {e.name}"
  | .ok r =>
    let res : Acc UInt64 := do
      let mut h := fnvOffset
      for t in List.range 65536 do
        let (a, b) ← lift (r.itemTypeIndices t)
        h := fnvBytes (fnvBytes h (le32 a)) (le32 b)
        h ← hashFind r h t 0
      pure h
    match res with
    | .ok h => s!"h {h}"
    | .error () => "panic-acc"

/-- header word `k` (0 = version … 7 = size_data) replaced by `v` -/
def setHeaderWord (bs : List UInt8) (k : Nat) (v : Int) : List UInt8 :=
  if bs.length < 36 then bs else bs.take (4 + 4 * k) ++ bytesOfI32 v ++ bs.drop (8 + 4 * k)

def headerWord (bs : List UInt8) (k : Nat) : Int := (wordsOfBytes (bs.drop 4)).getD k 0

/-- `size` and `swaplen` recomputed from the other header words (wrapping to 32 bits) -/
def fixSize (bs : List UInt8) : List UInt8 :=
  let w := headerWord bs
  let total : Int := 36 + 12 * w 3 + 4 * w 4 + 4 * w 5 + (if w 0 ≥ 4 then 4 * w 5 else 0) + w 6 + w 7
  setHeaderWord (setHeaderWord bs 1 (total - 16)) 2 (total - 16 - w 7)

/-- all pairs of values for the header words `k1`, `k2`: hash of the `open` lines -/
def hsweepLine (fix : Bool) (k1 k2 : Nat) (vals : List Int) (bs : List UInt8) : String := Id.run do
  let mut h := fnvOffset
  for v1 in vals do
    for v2 in vals do
      let m := setHeaderWord (setHeaderWord bs k1 v1) k2 v2
      let m := if fix then fixSize m else m
      h := fnvByte (fnvString h (openLine m)) 0xff
  return s!"h {h}"

def parseWords (bs : List UInt8) : List Int := wordsOfBytes bs

/-- `type.id.hex` -/
def parseItem (s : String) : Option Item :=
  match s.splitOn "." with
  | [t, i, h] =>
    match parseNat t, parseNat i, parseHex h with
    | some t, some i, some bs => some { typeId := t, id := i, data := parseWords bs }
    | _, _, _ => none
  | _ => none

def parseList {α : Type} (f : String → Option α) (s : String) : Option (List α) :=
  if s == "_" then some [] else (s.splitOn ",").mapM f

def handle (toks : List String) : String :=
  match toks with
  | ["open", h] =>
    match parseHex h with
    | some bs => openLine bs
    | none => "bad-op"
  | ["openx", h, _, _] =>
    match parseHex h with
    | some bs => openLine bs
    | none => "bad-op"
  | ["hsweep", fix, k1, k2, vals, h] =>
    match parseNat k1, parseNat k2, (vals.splitOn ",").mapM parseInt, parseHex h with
    | some k1, some k2, some vals, some bs => hsweepLine (fix == "1") k1 k2 vals bs
    | _, _, _, _ => "bad-op"
  | ["opencb", k, h] =>
    -- the k-th callback call of Reader::new fails
    match parseNat k, parseHex h with
    | some k, some bs =>
      match Reader.newCb bs (fun i => i == k) with
      | .panic _ => "panic-new"
      | .err e => s!"err {e.name}"
      | .ok r =>
        match describe r with
        | .ok s => s
        | .error () => "panic-acc"
    | _, _ => "bad-op"
  | ["sweep", h] =>
    match parseHex h with
    | some bs => sweepLine bs
    | none => "bad-op"
  | ["rt", v, items, datas] =>
    match parseNat v, parseList parseItem items, parseList parseHex datas with
    | some v, some items, some datas =>
      let file := writeDf v Tw.Inflate.deflateStored items datas
      s!"f={fnvBytes fnvOffset file} {openLine file}"
    | _, _, _ => "bad-op"
  | ["inflate", n, h] =>
    match parseNat n, parseHex h with
    | some n, some bs =>
      match inflate n bs with
      | some out => s!"ok {toHex out}"
      | none => "err"
    | _, _ => "bad-op"
  | _ => "bad-op"

def main : IO Unit := runStateless handle

end Tw.Drv.Datafile
