import Tw.Model.SnapMgr
import Tw.Drv.Util

/-!
Line protocol for domain `snapmgr` (implementation side: `harness/src/d_snapmgr.rs`).

The protocol layer (`Storage`, sender glue, `DeltaReceiver`, `Manager`) is the model under test; the
snapshot/delta layer is opaque here: a snapshot is a serial number (equal content ⇔ equal serial,
0 = empty snapshot) and the request line of every `snap` carries, after a `|` token, what the real
snapshot layer produced for it: `ok <serial> <crc> <items> <hash of the snapshot's integers> <base-serial> <delta bytes>`,
`panic`, or `builder-err <name>`.  `Delta::create(a, b)` is then "the recorded bytes for (a, b)" and
`read_with_delta(a, bytes)` is "the recorded target of (a, bytes)": if the model's `Storage` ever
picks another base than the implementation did, the lookup fails and the outputs differ.
-/
namespace Tw.Drv.Snapmgr
open Tw.SnapXfer Tw.SnapMgr Tw.Drv

structure Entry where
  base : Nat
  target : Nat
  bytes : List UInt8

structure Info where
  serial : Nat
  crc : Int
  items : Nat
  shash : Nat

def tableOps (es : List Entry) (is : List Info) (ref : Bool := false) : Ops Nat (List UInt8) where
  empty := 0
  create a b := (es.find? fun e => e.base == a && e.target == b).map (·.bytes)
  write d := some d
  clear := []
  read bs := .ok bs
  same a b := a == b
  emptyWhenSame := ref
  apply a d :=
    if d.isEmpty then .ok a else
    match es.find? fun e => e.base == a && e.bytes == d with
    | some e => .ok e.target
    | none => .error "NoSuchDelta"
  crc s := match is.find? fun i => i.serial == s with
    | some i => i.crc
    | none => 0

def itemsOf (is : List Info) (s : Nat) : Nat :=
  match is.find? fun i => i.serial == s with
  | some i => i.items
  | none => 0

def shashOf (is : List Info) (s : Nat) : Nat :=
  match is.find? fun i => i.serial == s with
  | some i => i.shash
  | none => 0

structure Sess where
  sender : Storage Nat := {}
  client : Manager Nat := {}
  msgs : List Msg := []
  acks : List Int := []
  entries : List Entry := []
  infos : List Info := []
  /-- session flag `refglue` -/
  ref : Bool := false

def optStr : Option Int → String
  | none => "none"
  | some t => toString t

def wStr (ws : List MgrWarning) : String := listStr (ws.map MgrWarning.name)

def doSend (s : Sess) (tick : Int) (serial : Nat) : Sess × String :=
  let ops := tableOps s.entries s.infos s.ref
  let base := s.sender.deltaTick.getD (-1)
  match sendSnap ops s.sender tick serial with
  | .panic _ => ({ ref := s.ref }, "panic")
  | .ok (st', x, ms) =>
    let len := (ms.map fun (m : Msg) => match m with
      | Msg.snap _ _ _ _ _ d => d.length
      | Msg.single _ _ _ d => d.length
      | Msg.empty _ _ => 0).sum
    ({ s with sender := st', msgs := s.msgs ++ ms },
      s!"sent {tick} base={base} len={len} parts={ms.length} crc={ops.crc serial} first={s.msgs.length} h={fnvBytes fnvOffset x.bytes}")

def doAck (s : Sess) (v : Int) : Sess × String :=
  let (st', r, w) := s.sender.setDeltaTick v
  let rs := match r with | .ok => "ok" | .unknownSnap => "err UnknownSnap"
  ({ s with sender := st' }, s!"{rs} dt={optStr st'.deltaTick} w={if w then "WeirdNegativeDeltaTick" else "-"}")

def deliver (s : Sess) (m : Msg) : Sess × String :=
  let ops := tableOps s.entries s.infos s.ref
  let (c', res, ws) := s.client.step ops m
  let line := match res with
    | .error e => s!"err {e.name}"
    | .ok none => "ok none"
    | .ok (some sn) => s!"ok snap tick={m.tick} crc={ops.crc sn} items={itemsOf s.infos sn} sh={shashOf s.infos sn}"
  ({ s with client := c' }, s!"{line} ack={optStr c'.ackTick} w={wStr ws}")

def step (s : Sess) (toks : List String) : Sess × String :=
  let main := toks.takeWhile (· ≠ "|")
  let hint := (toks.dropWhile (· ≠ "|")).drop 1
  match main with
  | "new" :: flags => ({ ref := flags.contains "refglue" }, "ok")
  | ["snap", t, _] =>
    match parseInt t, hint with
    | some t, ["ok", serial, crc, items, shash, base, hex] =>
      match parseNat serial, parseInt crc, parseNat items, parseNat shash, parseNat base, parseHex hex with
      | some serial, some crc, some items, some shash, some base, some bytes =>
        let s := { s with entries := { base := base, target := serial, bytes := bytes } :: s.entries,
                          infos := { serial := serial, crc := crc, items := items, shash := shash } :: s.infos }
        doSend s t serial
      | _, _, _, _, _, _ => (s, "bad-hint")
    | some t, ["panic"] => doSend s t 4000000000
    | some _, ["builder-err", name] => (s, s!"builder-err {name}")
    | _, _ => (s, "bad-args")
  | ["dc", i, dl] =>
    match (parseNat i).bind (s.msgs[·]?), parseInt dl with
    | some m, some dl =>
      let m' := match m with
        | Msg.single t dt c d => Msg.single t dt (wrap32 (c + dl)) d
        | Msg.snap t dt n p c d => Msg.snap t dt n p (wrap32 (c + dl)) d
        | Msg.empty t dt => Msg.empty t dt
      deliver s m'
    | _, _ => (s, "bad-index")
  | ["d", i] =>
    match (parseNat i).bind (s.msgs[·]?) with
    | none => (s, "bad-index")
    | some m => deliver s m
  | ["ack"] =>
    let v := s.client.ackTick.getD (-1)
    ({ s with acks := s.acks ++ [v] }, s!"ackmsg {s.acks.length} {v}")
  | ["da", j] =>
    match (parseNat j).bind (s.acks[·]?) with
    | none => (s, "bad-index")
    | some v => doAck s v
  | ["ra", v] =>
    match parseInt v with
    | some v => doAck s v
    | none => (s, "bad-args")
  | ["creset"] => ({ s with client := s.client.reset }, "ok")
  | _ => (s, "bad-op")

def main : IO Unit := runLoop step {}

end Tw.Drv.Snapmgr
