import Tw.Model.Packet6
import Tw.Gen.Huffman
import Tw.Drv.Util

/-! Line protocol for domain `packet6` (implementation side: `harness/src/d_packet6.rs`). -/
namespace Tw.Drv.Packet6
open Tw.Packet Tw.Packet6 Tw.Drv

def tbl : Tw.Huffman.Table := Tw.Gen.Huffman.table

/-- the Huffman decoder the reader is evaluated with: `decompressFast`, equal to the model's `decompress`
(`Tw.Huffman.decompressFast_eq`; `Tw.Packet6.readWith_fast` : `readWith fastDec = read tbl`) -/
def fastDec : List UInt8 → Nat → Tw.Huffman.DecResult := Tw.Huffman.decompressFast tbl

def wsStr (ws : List Warning) : String := listStr (ws.map Warning.name)

def tokStr : Option Token → String
  | none => "n"
  | some t => String.join (t.toList.map hexByte)

def parseTok (s : String) : Option (Option Token) :=
  if s == "n" then some none
  else match parseHex s with
    | some [a, b, c, d] => some (some ⟨a, b, c, d⟩)
    | _ => none

def b01 (b : Bool) : String := if b then "1" else "0"

def ctrlStr : Control → String
  | .keepAlive => "keepalive"
  | .connect => "connect"
  | .connectAccept => "connectaccept"
  | .accept => "accept"
  | .close r => s!"close {toHex r}"

def pktStr : Packet → String
  | .connless p => s!"connless {toHex p}"
  | .connected ack tok (.chunks rr nc p) => s!"chunks {ack} {tokStr tok} {b01 rr} {nc} {toHex p}"
  | .connected ack tok (.control c) => s!"ctrl {ack} {tokStr tok} {ctrlStr c}"

def parsePkt (toks : List String) : Option Packet :=
  match toks with
  | ["connless", h] => (parseHex h).map Packet.connless
  | ["chunks", ack, tok, rr, nc, h] => do
    let ack ← parseNat ack
    let tok ← parseTok tok
    let nc ← parseNat nc
    let p ← parseHex h
    pure (.connected ack tok (.chunks (rr == "1") nc p))
  | ["ctrl", ack, tok, "close", h] => do
    let ack ← parseNat ack
    let tok ← parseTok tok
    let r ← parseHex h
    pure (.connected ack tok (.control (.close r)))
  | ["ctrl", ack, tok, name] => do
    let ack ← parseNat ack
    let tok ← parseTok tok
    let c ← match name with
      | "keepalive" => some Control.keepAlive
      | "connect" => some .connect
      | "connectaccept" => some .connectAccept
      | "accept" => some .accept
      | _ => none
    pure (.connected ack tok (.control c))
  | _ => none

def parseHint (s : String) : Option (Option Bool) :=
  match s with
  | "n" => some none
  | "t" => some (some true)
  | "f" => some (some false)
  | _ => none

def vitalStr : Option (Nat × Bool) → String
  | none => "n"
  | some (s, r) => s!"{s}.{b01 r}"

def chunkStr (c : Chunk) : String := s!"{c.off}:{c.data.length}:{vitalStr c.vital}"

/-- drain an iterator the way the harness does: all `Some`s, then two more calls -/
def iterStr (codec : ChunkCodec) (payload : List UInt8) (nc : Nat) : String :=
  let (chs, ws, it, out) := (Iter.new payload nc).drain codec
  let (r1, w1, it1) := it.next codec
  let (r2, w2, it2) := it1.next codec
  let extra := if out ∨ r1.isSome ∨ r2.isSome then " unstable" else ""
  s!"chunks={listStr (chs.map chunkStr)} cw={wsStr (ws ++ w1 ++ w2)} pos={it2.pos}{extra}"

def readLine (r : ReadResult) : String :=
  match r with
  | .panic _ => "panic"
  | .diverge => "diverge"
  | .err e ws => s!"err {e.name} w={wsStr ws}"
  | .ok r =>
    let locS := match r.loc, r.pkt.slice with
      | some l, some sl => s!"{l.src.name}:{l.off}:{sl.length}"
      | _, _ => "-"
    let base := s!"ok {pktStr r.pkt} w={wsStr r.warns} loc={locS}"
    match r.pkt with
    | .connected _ _ (.chunks _ nc p) => s!"{base} {iterStr codec p nc}"
    | _ => base

def writeLine (r : WriteResult) : String :=
  match r with
  | .ok bs => s!"ok {toHex bs}"
  | .okTruncated bs => s!"truncated {toHex bs}"
  | .capacity => "capacity"
  | .tooLongData => "toolong"
  | .panic _ => "panic"

def optHex3 : Option (Nat × Nat × Nat) → String
  | none => "panic"
  | some x => toHex (ofNat3 x)

def optHex2 : Option (Nat × Nat) → String
  | none => "panic"
  | some x => toHex (ofNat2 x)

def phLine (b0 b1 b2 : UInt8) : String :=
  let (h, ws) := PacketHeader.unpackWarn b0.toNat b1.toNat b2.toNat
  s!"{h.flags} {h.ack} {h.numChunks} {wsStr ws} {optHex3 h.pack}"

def chLine (b0 b1 : UInt8) : String :=
  let (h, ws) := chunkHeaderUnpackWarn b0.toNat b1.toNat
  s!"{h.flags} {h.size} {wsStr ws} {optHex2 (chunkHeaderPack h)}"

def chvLine (b0 b1 b2 : UInt8) : String :=
  let (h, ws) := chunkHeaderVitalUnpackWarn b0.toNat b1.toNat b2.toNat
  s!"{h.h.flags} {h.h.size} {h.sequence} {wsStr ws} {optHex3 (chunkHeaderVitalPack h)}"

def hashLine (h : UInt64) (s : String) : UInt64 := fnvByte (fnvString h s) 10

def hashPh (lo hi step : Nat) : UInt64 := Id.run do
  let mut h := fnvOffset
  for a in [lo:hi] do
    for b in [0:256] do
      for c in [0:256] do
        if c % step == 0 then
          h := hashLine h (phLine (UInt8.ofNat a) (UInt8.ofNat b) (UInt8.ofNat c))
  return h

def hashCh : UInt64 := Id.run do
  let mut h := fnvOffset
  for a in [0:256] do
    for b in [0:256] do
      h := hashLine h (chLine (UInt8.ofNat a) (UInt8.ofNat b))
  return h

def hashChv (lo hi step : Nat) : UInt64 := Id.run do
  let mut h := fnvOffset
  for a in [lo:hi] do
    for b in [0:256] do
      for c in [0:256] do
        if c % step == 0 then
          h := hashLine h (chvLine (UInt8.ofNat a) (UInt8.ofNat b) (UInt8.ofNat c))
  return h

def phPackLine (f a n : Nat) : String :=
  match PacketHeader.pack { flags := f, ack := a, numChunks := n } with
  | none => "panic"
  | some x =>
    let (h, ws) := PacketHeader.unpackWarn x.1 x.2.1 x.2.2
    s!"{toHex (ofNat3 x)} {h.flags} {h.ack} {h.numChunks} {wsStr ws}"

def chPackLine (f s : Nat) : String :=
  match chunkHeaderPack { flags := f, size := s } with
  | none => "panic"
  | some x =>
    let (h, ws) := chunkHeaderUnpackWarn x.1 x.2
    s!"{toHex (ofNat2 x)} {h.flags} {h.size} {wsStr ws}"

def chvPackLine (f s q : Nat) : String :=
  match chunkHeaderVitalPack { h := { flags := f, size := s }, sequence := q } with
  | none => "panic"
  | some x =>
    let (h, ws) := chunkHeaderVitalUnpackWarn x.1 x.2.1 x.2.2
    s!"{toHex (ofNat3 x)} {h.h.flags} {h.h.size} {h.sequence} {wsStr ws}"

/-- flags in `[flo, fhi)`, ack `0..2048`, num_chunks ∈ {0, 1, 255} -/
def hashPhPack (flo fhi : Nat) : UInt64 := Id.run do
  let mut h := fnvOffset
  for f in [flo:fhi] do
    for a in [0:2048] do
      for n in [0, 1, 255] do
        h := hashLine h (phPackLine f a n)
  return h

/-- flags `0..8`, size `0..2048` -/
def hashChPack : UInt64 := Id.run do
  let mut h := fnvOffset
  for f in [0:8] do
    for s in [0:2048] do
      h := hashLine h (chPackLine f s)
  return h

/-- flags in `[flo, fhi)`, size `0..1025`, sequence `0..1025` -/
def hashChvPack (flo fhi step : Nat) : UInt64 := Id.run do
  let mut h := fnvOffset
  for f in [flo:fhi] do
    for s in [0:1025] do
      if s % step == 0 then
        for q in [0:1025] do
          h := hashLine h (chvPackLine f s q)
  return h

/-- all byte strings `prefix ++ [x] ++ mid ++ suffix`, `x ∈ [lo, hi)`, `mid` of length `nrest` -/
partial def hashRead (hint : Option Bool) (cap : Nat) (pre : List UInt8) (lo hi nrest : Nat)
    (suf : List UInt8) : UInt64 := Id.run do
  let mut h := fnvOffset
  let total := 256 ^ nrest
  for x in [lo:hi] do
    for k in [0:total] do
      let mid := (List.range nrest).map fun j => UInt8.ofNat (k / 256 ^ (nrest - 1 - j))
      let bs := pre ++ [UInt8.ofNat x] ++ mid ++ suf
      h := hashLine h (readLine (readWith fastDec bs hint (some cap)))
  return h

def parseVital (s : String) : Option (Option (Nat × Bool)) :=
  if s == "n" then some none
  else match s.splitOn "." with
    | [q, r] => (parseNat q).map fun q => some (q, r == "1")
    | _ => none

def parseChunkSpec (s : String) : Option (Option (Nat × Bool) × List UInt8) :=
  match s.splitOn ":" with
  | [v, h] => do
    let v ← parseVital v
    let d ← parseHex h
    pure (v, d)
  | _ => none

def writeChunks (cap : Nat) (cs : List (Option (Nat × Bool) × List UInt8)) (acc : List UInt8) : String :=
  match writeChunkList (cs.map fun x => (x.2, x.1)) cap acc with
  | .ok bs => s!"ok {toHex bs}"
  | .capacity => "capacity"
  | .panic _ => "panic"

def handle (toks : List String) : String :=
  match toks with
  | ["ph", h] =>
    match parseHex h with
    | some [a, b, c] => phLine a b c
    | _ => "bad-op"
  | ["ch", h] =>
    match parseHex h with
    | some [a, b] => chLine a b
    | _ => "bad-op"
  | ["chv", h] =>
    match parseHex h with
    | some [a, b, c] => chvLine a b c
    | _ => "bad-op"
  | ["ph_pack", f, a, n] =>
    match parseNat f, parseNat a, parseNat n with
    | some f, some a, some n => phPackLine f a n
    | _, _, _ => "bad-op"
  | ["ch_pack", f, s] =>
    match parseNat f, parseNat s with
    | some f, some s => chPackLine f s
    | _, _ => "bad-op"
  | ["chv_pack", f, s, q] =>
    match parseNat f, parseNat s, parseNat q with
    | some f, some s, some q => chvPackLine f s q
    | _, _, _ => "bad-op"
  | ["hash_ph", lo, hi, st] =>
    match parseNat lo, parseNat hi, parseNat st with
    | some lo, some hi, some (st + 1) => s!"h {hashPh lo hi (st + 1)}"
    | _, _, _ => "bad-op"
  | ["hash_ch"] => s!"h {hashCh}"
  | ["hash_chv", lo, hi, st] =>
    match parseNat lo, parseNat hi, parseNat st with
    | some lo, some hi, some (st + 1) => s!"h {hashChv lo hi (st + 1)}"
    | _, _, _ => "bad-op"
  | ["hash_ph_pack", lo, hi] =>
    match parseNat lo, parseNat hi with
    | some lo, some hi => s!"h {hashPhPack lo hi}"
    | _, _ => "bad-op"
  | ["hash_ch_pack"] => s!"h {hashChPack}"
  | ["hash_chv_pack", lo, hi, st] =>
    match parseNat lo, parseNat hi, parseNat st with
    | some lo, some hi, some (st + 1) => s!"h {hashChvPack lo hi (st + 1)}"
    | _, _, _ => "bad-op"
  | ["read", hint, cap, h] =>
    match parseHint hint, parseNat cap, parseHex h with
    | some hint, some cap, some bs => readLine (readWith fastDec bs hint (some cap))
    | _, _, _ => "bad-op"
  | ["readp", hint, h] =>
    match parseHint hint, parseHex h with
    | some hint, some bs => readLine (readWith fastDec bs hint none)
    | _, _ => "bad-op"
  | ["hash_read", hint, cap, pre, lo, hi, nrest, suf] =>
    match parseHint hint, parseNat cap, parseHex pre, parseNat lo, parseNat hi, parseNat nrest, parseHex suf with
    | some hint, some cap, some pre, some lo, some hi, some nrest, some suf =>
      s!"h {hashRead hint cap pre lo hi nrest suf}"
    | _, _, _, _, _, _, _ => "bad-op"
  | ["din", cap, h] =>
    match parseNat cap, parseHex h with
    | some cap, some bs =>
      match decompressIfNeededWith fastDec bs cap with
      | .ok false _ => "ok 0"
      | .ok true s => s!"ok 1 {toHex s}"
      | .err => "err"
      | .panic _ => "panic"
      | .diverge => "diverge"
    | _, _ => "bad-op"
  | ["init", h] =>
    match parseHex h with
    | some bs => b01 (isInitial bs)
    | none => "bad-op"
  | "write" :: cap :: pkt =>
    match parseNat cap, parsePkt pkt with
    | some cap, some p => writeLine (write tbl p cap)
    | _, _ => "bad-op"
  | ["iter", nc, h] =>
    match parseNat nc, parseHex h with
    | some nc, some bs => iterStr codec bs nc
    | _, _ => "bad-op"
  | "wchunks" :: cap :: specs =>
    match parseNat cap, specs.mapM parseChunkSpec with
    | some cap, some cs => writeChunks cap cs []
    | _, _ => "bad-op"
  | _ => "bad-op"

def main : IO Unit := runStateless handle

end Tw.Drv.Packet6
