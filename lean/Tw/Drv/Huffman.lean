import Tw.Model.Huffman
import Tw.Model.HuffmanFreq
import Tw.Model.HuffmanRef
import Tw.Model.HuffmanStream
import Tw.Model.HuffmanRefTree
import Tw.Gen.Huffman
import Tw.Drv.Util

/-! Line protocol for domain `huffman` (implementation side: `harness/src/d_huffman.rs`).

```
c <hex>                      -> <compress> <compress_bug> <compressed_len> <compressed_len_bug>
ci <bug 0|1> <cap> <hex>     -> ok <hex> | capacity
d <cap> <hex>                -> ok <hex> | capacity
dv <hex>                     -> ok <hex> | invalid                 (decompress_into_vec)
rc <hex>                     -> <hex>                              (C++ Compress, model of it)
rd <cap> <hex>               -> ok <hex> | error                   (C++ Decompress, model of it)
hc <prefix> <n>              -> h <fnv>     all inputs prefix ++ (every string of length n)
hd <prefix> <n> <capmax>     -> h <fnv>     … × capacities 0..capmax, Rust decompress
hrd <prefix> <n> <capmax>    -> h <fnv>     … × capacities 0..capmax, C++ Decompress
repr                         -> h <fnv>     the 257 code strings of the built-in table
tiefreq                      -> ok | differ from_frequencies(data/frequencies) is the built-in table
rfq <f0,…,f255> <hex>        -> skip | deep | <hex>   C++ ConstructTree + Compress (model of both);
                                `skip` when the C++ `int` arithmetic would overflow (Σ|f as i32| + 1 ≥ 2^31),
                                `deep` when a code is longer than 31 bits (`1 << Depth` undefined)
fqd <f0,…,f255> <cap:hex>…   -> panic | h<fnv of compress/compress_bug/lengths of [] and every single byte>
                                then one `ok:<hex>` / `capacity` per item: decoding with the table
                                built from the frequencies (one construction, many streams)
fq <f0,…,f255> <cap> <hex>   -> panic | ok <fnv of code strings> <compress hex> <compress_bug hex>
                                <len> <lenbug> <decompress of hex at cap: ok:<hex> | capacity>
```
-/
namespace Tw.Drv.Huffman
open Tw.Huffman Tw.Drv

def tbl : Table := Tw.Gen.Huffman.table

def decStr : DecResult → String
  | .ok out => s!"ok {toHex out}"
  | .capacity => "capacity"
  | .diverge => "diverge"

def refStr : RefDec → String
  | .ok out => s!"ok {toHex out}"
  | .error => "error"
  | .diverge => "diverge"

def le16 (n : Nat) : List UInt8 := [UInt8.ofNat n, UInt8.ofNat (n / 256)]

/-- The spec form `compress` is what the theorems are about; the streaming model (the form of the
Rust code) is proved equal to it for well-formed tables (`Tw.Props.C07.streaming_compressor_eq_spec`).
For inputs up to 512 bytes both are computed on every request and compared here as well (a cross-check
of the executable definitions); for longer inputs only the linear-time spec form is evaluated — the
streaming model measures `out.length` at every byte and is quadratic. -/
def compressChecked (t : Table) (bug : Bool) (xs : List UInt8) : Option (List UInt8) :=
  let a := compress t bug xs
  if xs.length > 512 then some a
  else
    match compressStream t bug xs with
    | some b => if a = b then some a else none
    | none => none

def hashCompress (t : Table) (h : UInt64) (xs : List UInt8) : UInt64 :=
  match compressChecked t false xs, compressChecked t true xs with
  | some a, some b =>
    let h := fnvBytes h a
    let h := fnvByte h 0xff
    let h := fnvBytes h b
    let h := fnvByte h 0xfe
    let h := fnvBytes h (le16 (compressedLen t xs))
    fnvBytes h (le16 (compressedLenBug t xs))
  | _, _ => fnvByte h 0x00

def hashDec (h : UInt64) : DecResult → UInt64
  | .ok out => fnvByte (fnvBytes (fnvByte h 1) out) 0xfe
  | .capacity => fnvByte h 2
  | .diverge => fnvByte h 3

def hashRef (h : UInt64) : RefDec → UInt64
  | .ok out => fnvByte (fnvBytes (fnvByte h 1) out) 0xfe
  | .error => fnvByte h 2
  | .diverge => fnvByte h 3

/-- the `k`-th string of length `n` in lexicographic order -/
def nthString (n k : Nat) : List UInt8 :=
  (List.range n).map fun j => UInt8.ofNat (k / 256 ^ (n - 1 - j))

def hashAllCompress (pre : List UInt8) (n : Nat) : UInt64 := Id.run do
  let mut h := fnvOffset
  for k in [0:256 ^ n] do
    h := hashCompress tbl h (pre ++ nthString n k)
  return h

def hashAllDec (pre : List UInt8) (n capmax : Nat) : UInt64 := Id.run do
  let mut h := fnvOffset
  for k in [0:256 ^ n] do
    let xs := pre ++ nthString n k
    for cap in [0:capmax + 1] do
      h := hashDec h (decompress tbl xs cap)
  return h

def hashAllRef (pre : List UInt8) (n capmax : Nat) : UInt64 := Id.run do
  let mut h := fnvOffset
  for k in [0:256 ^ n] do
    let xs := pre ++ nthString n k
    for cap in [0:capmax + 1] do
      h := hashRef h (refDecompress tbl (refFuel cap) xs cap)
  return h

def codeString (t : Table) (s : Nat) : String :=
  String.ofList ((codeBits t s).map fun b => if b then '1' else '0')

def reprHash (t : Table) : UInt64 := Id.run do
  let mut h := fnvOffset
  for s in [0:NUM_SYMBOLS] do
    h := fnvString h (codeString t s)
    h := fnvByte h 0x0a
  return h

/-- space-separated, `-` for none -/
def listStr' (xs : List String) : String := if xs.isEmpty then "-" else " ".intercalate xs

def parseFreqs (s : String) : Option (List Nat) := (s.splitOn ",").mapM parseNat

def handle (toks : List String) : String :=
  match toks with
  | ["c", h] =>
    match parseHex h with
    | some xs =>
      match compressChecked tbl false xs, compressChecked tbl true xs with
      | some a, some b => s!"{toHex a} {toHex b} {compressedLen tbl xs} {compressedLenBug tbl xs}"
      | _, _ => "model-stream-vs-spec-mismatch"
    | none => "bad-op"
  | ["ci", bug, cap, h] =>
    match parseNat bug, parseNat cap, parseHex h with
    | some bug, some cap, some xs =>
      match compressInto tbl (bug != 0) xs cap, compressStreamInto tbl (bug != 0) xs cap with
      | some out, .ok out' => if out = out' then s!"ok {toHex out}" else "model-stream-vs-spec-mismatch"
      | none, .capacity => "capacity"
      | _, .panic => "panic"
      | _, _ => "model-stream-vs-spec-mismatch"
    | _, _, _ => "bad-op"
  | ["d", cap, h] =>
    match parseNat cap, parseHex h with
    | some cap, some xs => decStr (decompress tbl xs cap)
    | _, _ => "bad-op"
  | ["dv", h] =>
    match parseHex h with
    | some xs =>
      match decompressVec tbl xs with
      | some out => s!"ok {toHex out}"
      | none => "invalid"
    | none => "bad-op"
  | ["rc", h] =>
    match parseHex h with
    | some xs => toHex (refCompress tbl xs)
    | none => "bad-op"
  | ["rd", cap, h] =>
    match parseNat cap, parseHex h with
    | some cap, some xs => refStr (refDecompress tbl (refFuel cap) xs cap)
    | _, _ => "bad-op"
  | ["hc", pre, n] =>
    match parseHex pre, parseNat n with
    | some pre, some n => s!"h {hashAllCompress pre n}"
    | _, _ => "bad-op"
  | ["hd", pre, n, capmax] =>
    match parseHex pre, parseNat n, parseNat capmax with
    | some pre, some n, some capmax => s!"h {hashAllDec pre n capmax}"
    | _, _, _ => "bad-op"
  | ["hrd", pre, n, capmax] =>
    match parseHex pre, parseNat n, parseNat capmax with
    | some pre, some n, some capmax => s!"h {hashAllRef pre n capmax}"
    | _, _, _ => "bad-op"
  | ["repr"] => s!"h {reprHash tbl}"
  | ["tiefreq"] =>
    match fromFrequencies Tw.Gen.Huffman.frequencies with
    | .ok t => if t = tbl then "ok" else "differ"
    | _ => "differ"
  | ["rfq", fs, h] =>
    match parseFreqs fs, parseHex h with
    | some fs, some xs =>
      if fs.length ≠ 256 then "bad-op"
      else
        let mag := (fs.map fun x => (toI32 x).natAbs).sum + 1
        if mag ≥ 2147483648 then "skip"
        else
          let r := refConstruct fs
          if r.maxLen ≥ 32 then "deep" else toHex (refTreeCompress r xs)
    | _, _ => "bad-op"
  | "fqd" :: fs :: items =>
    match parseFreqs fs, items.mapM (fun it => match it.splitOn ":" with
        | [c, h] => match parseNat c, parseHex h with
          | some c, some xs => some (c, xs)
          | _, _ => none
        | _ => none) with
    | some fs, some items =>
      match fromFrequencies fs with
      | .panic _ => "panic"
      | .diverge => "diverge"
      | .ok t =>
        if ¬ (decide (WellFormed t) ∧ decide (LutOk t)) then "ok-but-not-wellformed"
        else
          let hh := (List.range 257).foldl (fun h k =>
            hashCompress t h (if k = 0 then [] else [UInt8.ofNat (k - 1)])) fnvOffset
          listStr' (s!"h{hh}" :: items.map fun (cap, xs) =>
            match decompressFast t xs cap with
            | .ok out => s!"ok:{toHex out}"
            | .capacity => "capacity"
            | .diverge => "diverge")
    | _, _ => "bad-op"
  | ["fq", fs, cap, h] =>
    match parseFreqs fs, parseNat cap, parseHex h with
    | some fs, some cap, some xs =>
      match fromFrequencies fs with
      | .panic _ => "panic"
      | .diverge => "diverge"
      | .ok t =>
        -- the theorems of C07 apply to this table iff it is well-formed; decided here per table
        if ¬ (decide (WellFormed t) ∧ decide (LutOk t)) then "ok-but-not-wellformed"
        else
          match compressChecked t false xs, compressChecked t true xs with
          | some a, some b =>
            let d := match decompress t xs cap with
              | .ok out => s!"ok:{toHex out}"
              | .capacity => "capacity"
              | .diverge => "diverge"
            s!"ok {reprHash t} {toHex a} {toHex b} {compressedLen t xs} {compressedLenBug t xs} {d}"
          | _, _ => "model-stream-vs-spec-mismatch"
    | _, _, _ => "bad-op"
  | _ => "bad-op"

def main : IO Unit := runStateless handle

end Tw.Drv.Huffman
