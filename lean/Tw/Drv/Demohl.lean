import Tw.Model.DemoHl
import Tw.Drv.Demo
import Tw.Drv.Snap

/-!
Line protocol for domain `demohl` (implementation side: `harness/src/d_demohl.rs`): the high-level
`demo::ddnet::DemoWriter<libtw2_gamenet_ddnet::Protocol>` writing into memory and `DemoReader` reading
the same bytes back.

A session starts with `new …` (arguments as in domain `demo`).  Afterwards

* `snap <tick> <objects>`   `write_snap`; objects = `;`-separated `<type>.<id>:<int>,<int>,…`
                            (`-` = none), type = `o<ordinal>` or `u<uuid as 32 hex digits>`
* `motd <string>`           `write_msg(SvMotd)`
* `chat <team> <cid> <string>`   `write_msg(SvChat)`
* `file`                    the bytes written so far
* `read`                    `DemoReader::new`, header accessors, `next_chunk` until the end or the first
                            error, all warnings; object sets are printed sorted by (type, id)
* `last`                    the last object set the reader reports
* `mutall`                  (implementation side only: `DemoReader` on every single-byte corruption and
                            truncation of the file must not panic) prints the number of damaged copies
-/
namespace Tw.Drv.Demohl
open Tw.Demo Tw.DemoHl Tw.Snap Tw.Drv
open Tw.Drv.Demo (parseData dataTok kindStr)
open Tw.Drv.Snap (fmtTid parseInts parseUuid fmtIntsRaw)

def parseTid (s : String) : Option TypeId :=
  match s.toList with
  | 'o' :: r => (String.ofList r).toNat?.map .ordinal
  | 'u' :: r => (parseUuid (String.ofList r)).map .uuid
  | _ => none

def parseItem (s : String) : Option Item :=
  match s.splitOn ":" with
  | [h, v] =>
    match h.splitOn "." with
    | [t, id] => do
      let t ← parseTid t
      let id ← id.toNat?
      if id ≥ 65536 then none
      let v ← parseInts v
      pure ⟨t, id, v⟩
    | _ => none
  | _ => none

def parseItems (s : String) : Option (List Item) :=
  if s == "-" then some [] else (s.splitOn ";").mapM parseItem

def listLe : List Int → List Int → Bool
  | [], _ => true
  | _ :: _, [] => false
  | a :: as, b :: bs => if a < b then true else if a > b then false else listLe as bs

/-- the order of Rust's `(String, u16, Vec<i32>)` on `(type text, id, fields)` -/
def itemLe (a b : String × Nat × List Int) : Bool :=
  if a.1 < b.1 then true else if b.1 < a.1 then false
  else if a.2.1 < b.2.1 then true else if b.2.1 < a.2.1 then false
  else listLe a.2.2 b.2.2

def itemsText (items : List Item) : String :=
  if items.isEmpty then "-"
  else
    let keyed := items.map fun it => (fmtTid it.tid, it.id, it.data)
    let sorted := keyed.mergeSort itemLe
    ";".intercalate (sorted.map fun (t, id, d) => s!"{t}.{id}:{fmtIntsRaw d}")

def chunkStr : HChunk → String
  | .tick t => s!"T{t}"
  | .snapshot items =>
    let s := itemsText items
    if s.length > 200 then s!"S[#{items.length}:{fnvString fnvOffset s}]" else s!"S[{s}]"
  | .message d => "M:" ++ dataTok d
  | .invalid => "I"

def chunksStr (cs : List HChunk) : String :=
  let strs := cs.map chunkStr
  if strs.length ≤ 24 then listStr strs
  else s!"#{strs.length}:{fnvString fnvOffset (",".intercalate strs)}"

def hwName : HWarning → String
  | .demo w => "Demo(" ++ w.name ++ ")"
  | .snapshot w => "Snapshot(" ++ w.name ++ ")"

def herrName : HReadError → String
  | .inner e => e.name
  | .snap e => "Snap(" ++ e.name ++ ")"
  | .panic => "panic"

def readStr (file : List UInt8) : String :=
  match readFileHl ddnetObjSize file with
  | none => "hdr-err"
  | some (h, cs, ws, e) =>
    let sha := match h.sha with | none => "none" | some s => toHex s
    let fin := match e with | none => "end" | some e => "err:" ++ herrName e
    s!"v{h.version.num} nv={toHex h.netVersion} mn={toHex h.mapName} ms={h.mapSize} crc={h.crc} " ++
    s!"k={kindStr h.kind} len={h.length} ts={toHex h.timestamp} " ++
    s!"sha={sha} map={dataTok h.map} | {chunksStr cs} | {fin} | w={listStr (ws.map hwName)}"

def lastStr (file : List UInt8) : String :=
  match readFileHl ddnetObjSize file with
  | none => "hdr-err"
  | some (_, cs, _, _) =>
    match cs.reverse.findSome? (fun c => match c with | .snapshot items => some items | _ => none) with
    | none => "none"
    | some items =>
      let s := itemsText items
      if s.length > 2000 then s!"#{fnvString fnvOffset s}" else s

structure Session where
  w : Option DemoWriter := none

def hres (s : Session) (r : DemoWriter × HResult) : Session × String :=
  match r with
  | (w', .ok) => ({ s with w := some w' }, s!"ok {w'.inner.file.length}")
  | (w', .err e) => ({ s with w := some w' }, s!"err {e.name}")
  | (w', .panic _) => ({ s with w := some w' }, "panic")

def motdBytes (m : List UInt8) : List UInt8 := Tw.Packer.writeInt 2 ++ m ++ [0]
def chatBytes (team cid : Int) (m : List UInt8) : List UInt8 :=
  Tw.Packer.writeInt 6 ++ Tw.Packer.writeInt team ++ Tw.Packer.writeInt cid ++ m ++ [0]

def step (s : Session) (toks : List String) : Session × String :=
  match toks with
  | ["new", nv, mn, sha, crc, k, len, ts, map] =>
    let sha? : Option (Option (List UInt8)) :=
      if sha == "none" then some none
      else match parseData sha with
        | some b => if b.length = 32 then some (some b) else none
        | none => none
    let k? : Option Kind := if k == "c" then some .client else if k == "s" then some .server else none
    match parseData nv, parseData mn, sha?, parseNat crc, k?, parseInt len, parseData ts, parseData map with
    | some nv, some mn, some sha, some crc, some k, some len, some ts, some map =>
      if crc ≥ 4294967296 ∨ ¬ Tw.Packer.inI32 len then ({}, "bad-args")
      else
        match DemoWriter.new { netVersion := nv, mapName := mn, sha := sha, crc := crc, kind := k,
                               length := len, timestamp := ts, map := map } with
        | none => ({}, "panic")
        | some w => ({ w := some w }, s!"ok {w.inner.file.length} {fnvBytes fnvOffset w.inner.file}")
    | _, _, _, _, _, _, _, _ => ({}, "bad-args")
  | op :: args =>
    match s.w with
    | none => (s, "no-writer")
    | some w =>
      match op, args with
      | "snap", [t, items] =>
        match parseInt t, parseItems items with
        | some t, some items =>
          if ¬ Tw.Packer.inI32 t then (s, "bad-args")
          else hres s (w.writeSnap ddnetObjSize t items)
        | _, _ => (s, "bad-args")
      | "motd", [m] =>
        match parseData m with
        | some m => if m.any (· == 0) then (s, "bad-msg") else hres s (w.writeMsg (motdBytes m))
        | none => (s, "bad-args")
      | "chat", [team, cid, m] =>
        match parseInt team, parseInt cid, parseData m with
        | some team, some cid, some m =>
          if ¬ Tw.Packer.inI32 team ∨ ¬ Tw.Packer.inI32 cid then (s, "bad-args")
          else if ¬ (-2 ≤ team ∧ team ≤ 3 ∧ -1 ≤ cid ∧ cid ≤ 127) ∨ m.any (· < 32) then (s, "bad-msg")
          else hres s (w.writeMsg (chatBytes team cid m))
        | _, _, _ => (s, "bad-args")
      | "file", [] => (s, dataTok w.inner.file)
      | "read", [] => (s, readStr w.inner.file)
      | "last", [] => (s, lastStr w.inner.file)
      | "mutall", [] => (s, s!"n {4 * w.inner.file.length}")
      | _, _ => (s, "bad-op")
  | _ => (s, "bad-op")

def main : IO Unit := runLoop step {}

end Tw.Drv.Demohl
