/-
Shared helpers for the line-protocol drivers: hex, FNV-1a, token parsing, the stdin loop.
No proofs depend on this file; it is trusted glue (kept trivial).
-/
namespace Tw.Drv

def hexDigit (n : Nat) : Char :=
  if n < 10 then Char.ofNat (48 + n) else Char.ofNat (87 + n)

def hexByte (b : UInt8) : String :=
  String.ofList [hexDigit (b.toNat / 16), hexDigit (b.toNat % 16)]

/-- bytes → lowercase hex; the empty list is printed as `-` so every token is non-empty -/
def toHex (bs : List UInt8) : String :=
  if bs.isEmpty then "-" else String.join (bs.map hexByte)

def hexVal (c : Char) : Option Nat :=
  if '0' ≤ c ∧ c ≤ '9' then some (c.toNat - 48)
  else if 'a' ≤ c ∧ c ≤ 'f' then some (c.toNat - 87)
  else if 'A' ≤ c ∧ c ≤ 'F' then some (c.toNat - 55)
  else none

def parseHexChars : List Char → Option (List UInt8)
  | [] => some []
  | [_] => none
  | a :: b :: rest => do
    let x ← hexVal a
    let y ← hexVal b
    let r ← parseHexChars rest
    pure (UInt8.ofNat (x * 16 + y) :: r)

def parseHex (s : String) : Option (List UInt8) :=
  if s == "-" then some [] else parseHexChars s.toList

def parseInt (s : String) : Option Int := s.toInt?

def parseNat (s : String) : Option Nat := s.toNat?

def fnvOffset : UInt64 := 0xcbf29ce484222325
def fnvPrime : UInt64 := 0x100000001b3

def fnvByte (h : UInt64) (b : UInt8) : UInt64 := (h ^^^ b.toUInt64) * fnvPrime

def fnvBytes (h : UInt64) (bs : List UInt8) : UInt64 := bs.foldl fnvByte h

def fnvString (h : UInt64) (s : String) : UInt64 := s.toUTF8.foldl fnvByte h

def tokens (line : String) : List String :=
  (line.trimAscii.toString.splitOn " ").filter (· ≠ "")

def joinWith (sep : String) (xs : List String) : String := sep.intercalate xs

/-- `name1,name2` or `-` for the empty list -/
def listStr (xs : List String) : String := if xs.isEmpty then "-" else ",".intercalate xs

/-- Generic stateful line loop. -/
partial def loop {σ : Type} (h : IO.FS.Stream) (out : IO.FS.Stream) (step : σ → List String → σ × String)
    (s : σ) : IO Unit := do
  let line ← h.getLine
  if line.isEmpty then
    out.flush
    return ()
  let toks := tokens line
  if toks.isEmpty then
    loop h out step s
  else
    let (s', o) := step s toks
    out.putStrLn o
    loop h out step s'

def runLoop {σ : Type} (step : σ → List String → σ × String) (init : σ) : IO Unit := do
  let stdin ← IO.getStdin
  let stdout ← IO.getStdout
  loop stdin stdout step init

def runStateless (f : List String → String) : IO Unit :=
  runLoop (fun (_ : Unit) toks => ((), f toks)) ()

end Tw.Drv
