import Tw.Model.Conn7
import Tw.Drv.Conn6

/-!
Line protocol for domain `conn7` (implementation side: `harness/src/d_conn7.rs`).  Same request
grammar as `conn6` (see `Tw/Drv/Conn6.lean`) except that the 0.7 reader takes no token hint, so a
feed line carries one parse: `<ep> feed <hex> <p> [r=…]`, `<ep> dl <i> <hex> <p> [r=…]`.
-/
namespace Tw.Drv.Conn7
open Tw.Drv Tw.Conn Tw.Time Tw.Conn7
open Tw.Drv.Conn6 (tokStr chunksStr eventStr timeoutStr boolStr parseTok parseChunks parseBool parseDraws failStr)

def ctlStr : Control → String
  | .keepAlive => "ka"
  | .connect t => s!"co.{tokStr t}"
  | .accept => "ac"
  | .close r => s!"cx.{toHex (r.take 127)}"
  | .token t => s!"tk.{tokStr t}"

def packetStr : Packet → String
  | .connless t rt d => s!"cl:{tokStr t}:{tokStr rt}:{toHex d}"
  | .control ack t c => s!"ct:{ack}:{tokStr t}:{ctlStr c}"
  | .chunks ack t rr n cs => s!"ch:{ack}:{tokStr t}:{boolStr rr}:{n}:{chunksStr cs}"

def parseCtl (s : String) : Option Control :=
  match s.splitOn "." with
  | ["ka"] => some .keepAlive
  | ["ac"] => some .accept
  | ["co", t] => (parseTok t).map .connect
  | ["tk", t] => (parseTok t).map .token
  | ["cx", h] => (parseHex h).map .close
  | _ => none

def parsePacket (s : String) : Option (Option Packet) :=
  if s == "err" then some none
  else
    match s.splitOn ":" with
    | ["cl", t, rt, h] =>
      match parseTok t, parseTok rt, parseHex h with
      | some t, some rt, some d => some (some (.connless t rt d))
      | _, _, _ => none
    | ["ct", ack, t, c] =>
      match ack.toNat?, parseTok t, parseCtl c with
      | some ack, some t, some c => some (some (.control ack t c))
      | _, _, _ => none
    | ["ch", ack, t, rr, n, cs] =>
      match ack.toNat?, parseTok t, parseBool rr, n.toNat?, parseChunks cs with
      | some ack, some t, some rr, some n, some cs => some (some (.chunks ack t rr n cs))
      | _, _, _, _, _ => none
    | _ => none

def warnStr : Warn → String
  | .read => "read"
  | .tokenMismatch => "tokmis"
  | .connlessTokenMismatch => "cltok"
  | .connlessResponseTokenMismatch => "clrtok"

structure Ep where
  conn : Conn := .new
  dead : Bool := false

structure World where
  a : Ep := {}
  b : Ep := {}
  now : Nat := 0

def outLine (res : String) (c : Conn) (o : Out) : String :=
  s!"{res} s={listStr (o.sent.map packetStr)} e={listStr (o.events.map eventStr)} w={listStr (o.warns.map warnStr)} nt={timeoutStr c.needsTick}"

def fin (ep : Ep) (r : Res) : Ep × String :=
  match r with
  | .error f => ({ ep with dead := true }, failStr f)
  | .ok (c, o) => ({ ep with conn := c }, outLine "ok" c o)

def fin3 (ep : Ep) (r : Except Fail (Conn × SendRes × Out)) : Ep × String :=
  match r with
  | .error f => ({ ep with dead := true }, failStr f)
  | .ok (c, res, o) => ({ ep with conn := c }, outLine (if res = .ok then "ok" else "toolong") c o)

def epStep (now : Nat) (ep : Ep) (args : List String) : Ep × String :=
  if ep.dead then (ep, "dead")
  else
    let env : Env := { now := now, draws := parseDraws args }
    match args with
    | "connect" :: _ => fin ep (connect env ep.conn)
    | ["flush"] => fin ep (flush env ep.conn)
    | ["tick"] => fin ep (tick env ep.conn)
    | ["needs_tick"] => (ep, outLine "ok" ep.conn {})
    | ["send", k, h] =>
      match parseHex h with
      | some d => fin3 ep (send env ep.conn d (k == "v"))
      | none => (ep, "bad-op")
    | ["sendcl", h] =>
      match parseHex h with
      | some d => fin3 ep (sendConnless env ep.conn d)
      | none => (ep, "bad-op")
    | ["disconnect", h] =>
      match parseHex h with
      | some d => fin ep (disconnect env ep.conn d)
      | none => (ep, "bad-op")
    | "feed" :: _ :: p :: _ =>
      match parsePacket p with
      | some rd => fin ep (feed env ep.conn rd)
      | none => (ep, "bad-op")
    | "dl" :: _ :: _ :: p :: _ =>
      match parsePacket p with
      | some rd => fin ep (feed env ep.conn rd)
      | none => (ep, "bad-op")
    | _ => (ep, "bad-op")

def step (w : World) (toks : List String) : World × String :=
  match toks with
  | ["new"] => ({}, "ok")
  | ["time", ms] =>
    match ms.toNat? with
    | some ms => ({ w with now := w.now + msToUs ms }, "ok")
    | none => (w, "bad-op")
  | ["quiet"] => (w, "ok")
  | "a" :: args => let (e, o) := epStep w.now w.a args; ({ w with a := e }, o)
  | "b" :: args => let (e, o) := epStep w.now w.b args; ({ w with b := e }, o)
  | _ => (w, "bad-op")

/-- `f:<op> …` (send-fault sessions, from the first `failsend` on): the implementation side executes
the op under its oracles, the model does not know send faults — both sides print `skip`.  Every
later line of such a session carries the prefix, so the model's world is simply left behind until
the next `new`. -/
def stepTop (w : World) (toks : List String) : World × String :=
  match toks with
  | t :: _ => if t.startsWith "f:" then (w, "skip") else step w toks
  | [] => step w toks

def main : IO Unit := runLoop stepTop ({} : World)

end Tw.Drv.Conn7
