import Tw.Model.Snap
import Tw.Model.SnapFast
import Tw.Drv.Util

/-! Line protocol for domain `snap` (implementation side: `harness/src/d_snap.rs`).

Syntax: `INTS` = comma separated decimals (`-` = empty); `ITEMS` = `;`-separated `type.id:v,v,…`
(`-` = none); tokens longer than 120 characters are replaced by `#<fnv64>/<length>`. -/
namespace Tw.Drv.Snap
open Tw.Snap Tw.Drv

/-! ### formatting -/

def short (s : String) : String :=
  if s.length > 120 then s!"#{fnvString fnvOffset s}/{s.length}" else s

def fmtIntsRaw (xs : List Int) : String := ",".intercalate (xs.map toString)
def fmtInts (xs : List Int) : String := if xs.isEmpty then "-" else fmtIntsRaw xs

def fmtItems (m : Items) : String :=
  if m.isEmpty then "-"
  else ";".intercalate (m.map fun p => s!"{keyType p.1}.{keyId p.1}:{fmtIntsRaw p.2}")

def fmtWs (ws : List Warning) : String := listStr (ws.map Warning.name)

def fmtDelta (d : Delta) : String := s!"D[{fmtInts d.deleted}|{fmtItems d.updated}]"

def hex32 (u : Int) : String :=
  let n := u.toNat
  String.join ((List.range 16).map fun i => hexByte (UInt8.ofNat (n / 256 ^ (15 - i))))

def fmtTid : TypeId → String
  | .ordinal n => s!"o{n}"
  | .uuid u => s!"u{hex32 u}"

def fmtSnapItems (s : Snap) : String :=
  match s.items with
  | none => "panic"
  | some l =>
    if l.isEmpty then "-"
    else ";".intercalate (l.map fun (t, id, d) => s!"{fmtTid t}.{id}:{fmtIntsRaw d}")

def bigCap : Nat := 1000000

def fmtWriteInts (s : RawSnap) : String :=
  match s.writeToInts bigCap with
  | .ok xs => fmtInts xs
  | .capacity => "capacity"
  | .panic => "panic"

/-- summary of a snapshot through the public API: integer wire form, checksum, item listing -/
def fmtSnap (s : Snap) : String :=
  s!"S[{short (fmtWriteInts s.raw)}|{s.crc}|{short (fmtSnapItems s)}]"

def fmtRaw (s : RawSnap) : String := s!"R[{short (fmtItems s.items)}|{s.crc}]"

/-! ### parsing -/

def parseInts (s : String) : Option (List Int) :=
  if s == "-" || s == "" then some [] else (s.splitOn ",").mapM String.toInt?

def parseItem (s : String) : Option (Nat × Nat × List Int) :=
  match s.splitOn ":" with
  | [h, v] =>
    match h.splitOn "." with
    | [t, id] => do
      let t ← t.toNat?
      let id ← id.toNat?
      let v ← parseInts v
      pure (t, id, v)
    | _ => none
  | _ => none

def parseItems (s : String) : Option (List (Nat × Nat × List Int)) :=
  if s == "-" then some [] else (s.splitOn ";").mapM parseItem

def parseUuid (s : String) : Option Int := do
  let bs ← parseHex s
  if bs.length ≠ 16 then none
  else pure (bs.foldl (fun acc b => acc * 256 + (b.toNat : Int)) 0)

def tableFn (t : List (Nat × Nat)) (ty : Nat) : Option Nat :=
  match t.find? (fun p => p.1 == ty) with
  | some p => some p.2
  | none => none

def parseOsz (s : String) : Option (Nat → Option Nat) :=
  match s with
  | "none" => some (fun _ => none)
  | "syn" => some (tableFn [(40, 0), (41, 1), (42, 2), (43, 3)])
  | "ddnet" => some (tableFn Tw.Gen.Snap.objSize_ddnet)
  | "tw06" => some (tableFn Tw.Gen.Snap.objSize_tw06)
  | "tw07" => some (tableFn Tw.Gen.Snap.objSize_tw07)
  | "tw05" => some (tableFn Tw.Gen.Snap.objSize_tw05)
  | _ => none

/-- `RawBuilder`: add the items in order; error = `error@index`.  Runs the tree-backed twin, which
`Tw.Snap.Fast.buildFast_eq` proves equal to the list model `Fast.buildList … 0 RawSnap.empty`. -/
def buildRaw (its : List (Nat × Nat × List Int)) : Except String RawSnap :=
  match Fast.buildFast (its.map fun (t, id, d) => (keyOf t id, d)) with
  | .ok s => .ok s
  | .error (i, e) => .error s!"{e.name}@{i}"

/-! ### results -/

def fmtReadDelta (r : Res (Delta × List Warning)) : String :=
  match r with
  | .ok (d, ws) => s!"ok:{short (fmtDelta d)}:{fmtWs ws}"
  | .err e => s!"err:{e.name}"
  | .panic _ => "panic"

def fmtRawRes (r : Res (RawSnap × List Warning)) : String :=
  match r with
  | .ok (s, ws) => s!"ok:{fmtRaw s}:{fmtWs ws}"
  | .err e => s!"err:{e.name}"
  | .panic _ => "panic"

def fmtSnapRes (r : Res (Snap × List Warning)) : String :=
  match r with
  | .ok (s, ws) => s!"ok:{fmtSnap s}:{fmtWs ws}"
  | .err e => s!"err:{e.name}"
  | .panic _ => "panic"

def fmtOptInts (r : Option (List Int)) : String :=
  match r with
  | none => "panic"
  | some xs => short (fmtInts xs)

/-- is the pair inside the domain on which the C++ reference is defined? -/
def refDomain (osz : Nat → Option Nat) (a b : RawSnap) : Bool :=
  a.items.all (fun p => 0 ≤ p.1) && b.items.all (fun p => 0 ≤ p.1) &&
  decide (SizesAgree a b) && decide (SizesOk osz b.items) &&
  -- a pre-agreed size of 0 means "unset" in the reference's table
  (a.items ++ b.items).all (fun p => osz (keyType p.1) != some 0)

/-! ### op `pair` -/

def opPair (osz : Nat → Option Nat) (a b : RawSnap) : String :=
  let d := createDelta a b
  let part1 :=
    match d with
    | none => "d:panic"
    | some d =>
      let wi := d.writeInts osz
      let ri := match wi with
        | none => "-"
        | some xs => fmtReadDelta (readDelta osz (.ints xs))
      let rb := match wi with
        | none => "-"
        | some xs => fmtReadDelta (readDelta osz (.bytes (packInts xs)))
      let wb := match wi with
        | none => "panic"
        | some xs => short (toHex (packInts xs))
      s!"d:{short (fmtDelta d)} wi:{fmtOptInts wi} wb:{wb} ri:{ri} rb:{rb} ap:{fmtRawRes (Fast.applyDeltaFast a d)}"
  let si := short (fmtWriteInts b)
  let sb := match b.writeBytes bigCap with
    | .ok bs => short (toHex bs)
    | .capacity => "capacity"
    | .panic => "panic"
  let srt := match b.writeInts with
    | some xs =>
      match RawSnap.readFromInts xs, RawSnap.readBytes (packInts xs) with
      | .ok (s1, []), .ok (s2, []) => if s1 = b ∧ s2 = b then "1" else "0"
      | _, _ => "0"
    | none => "0"
  let part2 :=
    if refDomain osz a b then
      let ua := unsignedOrder a.items
      let ub := unsignedOrder b.items
      let rd := refCreateDelta osz ua ub
      if rd.length > 16384 then "ref:toolong" else
      let rd' := if rd.isEmpty then [0, 0, 0] else rd
      let rr := readDelta osz (.ints rd')
      let (rm, rap) := match rr with
        | .ok (dl, _) => (if refDeltaB a b dl then "1" else "0", fmtRawRes (Fast.applyDeltaFast a dl))
        | _ => ("0", "-")
      s!"ref:{short (fmtInts rd)} rs:{short (fmtInts (refSnapInts ub))} rr:{fmtReadDelta rr} rm:{rm} rap:{rap}"
    else "ref:na"
  s!"{part1} si:{si} sb:{sb} srt:{srt} {part2}"

/-! ### follow-up operations on an accepted snapshot (C11) -/

def newUuid : Int := 0x0123456789abcdef0fedcba987654321

def fmtAdd (r : Option (Builder × Option BuilderError)) : String :=
  match r with
  | none => "panic"
  | some (_, none) => "ok"
  | some (_, some e) => e.name

/-- recycle, add an item of a fresh UUID type and one of the first known UUID type, finish -/
def fmtRecycle (s : Snap) : String :=
  match s.recycle with
  | none => "panic"
  | some b =>
    match b.addItem (.uuid newUuid) 1 [7] with
    | none => "add:panic"
    | some (b1, r1) =>
      -- the UUID of the registry item with the smallest id (first item of the wire form)
      let known := match unsignedOrder s.raw.items with
        | [] => none
        | (k, d) :: _ =>
          if keyType k = typeIdEx then (dataToUuid d).map (fun p => p.1) else none
      match known with
      | none => s!"add:{fmtAdd (some (b1, r1))} {fmtSnap b1.snap}"
      | some u =>
        match b1.addItem (.uuid u) 2 [8, 9] with
        | none => s!"add:{fmtAdd (some (b1, r1))} add2:panic"
        | some (b2, r2) => s!"add:{fmtAdd (some (b1, r1))} add2:{fmtAdd (some (b2, r2))} {fmtSnap b2.snap}"

def followUps (s : Snap) : String :=
  let wi := s.raw.writeToInts bigCap
  let rt := match wi with
    | .ok xs =>
      match Snap.readFromInts xs, Snap.readBytes (packInts xs) with
      | .ok (s1, _), .ok (s2, _) => if s1 = s ∧ s2 = s then "1" else "0"
      | _, _ => "0"
    | _ => "0"
  let selfDelta := match createDelta s.raw s.raw with
    | none => "panic"
    | some d => s!"{short (fmtDelta d)}>{fmtSnapRes (Fast.readWithDeltaFast s d)}"
  let fromEmpty := match createDelta RawSnap.empty s.raw with
    | none => "panic"
    | some d => fmtSnapRes (Fast.readWithDeltaFast Snap.empty d)
  let toEmpty := match createDelta s.raw RawSnap.empty with
    | none => "panic"
    | some d => fmtSnapRes (Fast.readWithDeltaFast s d)
  s!"n:{s.raw.items.length} rt:{rt} sd:{selfDelta} fe:{fromEmpty} te:{toEmpty} rec:{fmtRecycle s}"

def opRsnap (r : Res (Snap × List Warning)) : String :=
  match r with
  | .ok (s, ws) => s!"ok:{fmtSnap s}:{fmtWs ws} {followUps s}"
  | .err e => s!"err:{e.name}"
  | .panic _ => "panic"

def opRdelta (osz : Nat → Option Nat) (src : Src) (base : List Int) : String :=
  match readDelta osz src with
  | .err e => s!"err:{e.name}"
  | .panic _ => "panic"
  | .ok (d, ws) =>
    let wi := d.writeInts osz
    let rr := match wi with
      | none => "panic"
      | some xs =>
        match readDelta osz (.ints xs), readDelta osz (.bytes (packInts xs)) with
        | .ok (d1, _), .ok (d2, _) => if d1 = d ∧ d2 = d then "1" else "0"
        | _, _ => "0"
    let ap := match Snap.readFromInts base with
      | .ok (a, _) =>
        match Fast.readWithDeltaFast a d with
        | .ok (s, ws') => s!"ok:{fmtSnap s}:{fmtWs ws'} {followUps s}"
        | .err e => s!"err:{e.name}"
        | .panic _ => "panic"
      | .err e => s!"base-err:{e.name}"
      | .panic _ => "base-panic"
    s!"ok:{short (fmtDelta d)}:{fmtWs ws} wi:{fmtOptInts wi} rr:{rr} ap:{ap}"

/-! ### op `build`: builder op sequences (C10) -/

structure VM where
  b : Option Builder := some Builder.new
  prev : Snap := Snap.empty
  /-- variants of the current snapshot: direct, bytes round trip, ints round trip, delta round trip -/
  cur : List (Option Snap) := []
  out : Array String := #[]
  stop : Bool := false

def fmtVar (direct : Snap) (v : Res (Snap × List Warning)) : String :=
  match v with
  | .ok (s, ws) =>
    let a := fmtSnap s
    let base := if a == fmtSnap direct then "=" else a
    if ws.isEmpty then base else s!"{base}:{fmtWs ws}"
  | .err e => s!"err:{e.name}"
  | .panic _ => "panic"

def resSnap (v : Res (Snap × List Warning)) : Option Snap :=
  match v with
  | .ok (s, _) => some s
  | _ => none

def parseTid (kind v : String) : Option TypeId :=
  if kind == "o" then v.toNat?.map TypeId.ordinal
  else if kind == "u" then (parseUuid v).map TypeId.uuid
  else none

def fmtItemRes (r : Option (Option (List Int))) : String :=
  match r with
  | none => "panic"
  | some none => "none"
  | some (some d) => short (fmtInts d)

def vmStep (vm : VM) (tok : String) : VM :=
  if vm.stop then vm
  else
    match tok.splitOn "." with
    | ["q", k, v, id] =>
      match parseTid k v, id.toNat? with
      | some tid, some id =>
        let rs := vm.cur.map fun o => match o with
          | none => "na"
          | some s => fmtItemRes (s.item tid id)
        { vm with out := vm.out.push s!"q[{"|".intercalate rs}]" }
      | _, _ => { vm with out := vm.out.push "bad-op", stop := true }
    | [k, v, id, data] =>
      -- add
      match vm.b, parseTid k v, id.toNat?, parseInts data with
      | some b, some tid, some id, some data =>
        match b.addItem tid id data with
        | none => { vm with out := vm.out.push "panic", stop := true }
        | some (b', r) => { vm with b := some b', out := vm.out.push (fmtAdd (some (b', r))) }
      | _, _, _, _ => { vm with out := vm.out.push "bad-op", stop := true }
    | ["fin"] =>
      match vm.b with
      | none => { vm with out := vm.out.push "bad-op", stop := true }
      | some b =>
        let s := b.snap
        let wi := s.raw.writeToInts bigCap
        let vb : Res (Snap × List Warning) := match wi with
          | .ok xs => Snap.readBytes (packInts xs)
          | _ => .panic "write"
        let vi : Res (Snap × List Warning) := match wi with
          | .ok xs => Snap.readFromInts xs
          | _ => .panic "write"
        let vx : Res (Snap × List Warning) := match createDelta vm.prev.raw s.raw with
          | none => .panic "create"
          | some d =>
            match d.writeInts (fun _ => none) with
            | none => .panic "write"
            | some xs =>
              match readDelta (fun _ => none) (.ints xs) with
              | .ok (d', []) => Fast.readWithDeltaFast vm.prev d'
              | .ok (_, _) => .panic "delta-warnings"
              | .err e => .err e
              | .panic p => .panic p
        { vm with b := none, cur := [some s, resSnap vb, resSnap vi, resSnap vx],
                  out := vm.out.push s!"fin[{fmtSnap s}|b:{fmtVar s vb}|i:{fmtVar s vi}|x:{fmtVar s vx}]" }
    | ["rec", w] =>
      let idx := if w == "d" then 0 else if w == "b" then 1 else if w == "i" then 2 else 3
      match vm.cur[idx]?, vm.cur[0]? with
      | some (some s), some (some direct) =>
        match s.recycle with
        | none => { vm with out := vm.out.push "rec:panic", stop := true }
        | some b => { vm with b := some b, prev := direct, cur := [], out := vm.out.push "rec:ok" }
      | _, _ => { vm with out := vm.out.push "rec:na", stop := true }
    | _ => { vm with out := vm.out.push "bad-op", stop := true }

def opBuild (toks : List String) : String :=
  let vm := toks.foldl vmStep {}
  " ".intercalate vm.out.toList

/-! ### hash-form sweeps over a small universe (C09) -/

/-- the universe's keys: a type with a pre-agreed size in the `ddnet` table (13 ↦ 2), a type
`≥ 0x8000`, a registry item, an extended type -/
def uniKeys : List (Nat × Nat) := [(13, 1), (32769, 7), (0, 16384), (16384, 2), (40, 3), (42, 9)]
def uniVals : List Int := [0, 1, -1, -2147483648, 2147483647]

/-- state `c` of one key: `0` = absent, otherwise a length 0..3 and values (base-5 digits) -/
def uniItem (c : Nat) : Option (List Int) :=
  if c = 0 then none
  else if c = 1 then some []
  else if c < 7 then some [uniVals[(c - 2) % 5]!]
  else if c < 32 then some [uniVals[(c - 7) % 5]!, uniVals[(c - 7) / 5 % 5]!]
  else some [uniVals[(c - 32) % 5]!, uniVals[(c - 32) / 5 % 5]!, uniVals[(c - 32) / 25 % 5]!]

/-- snapshot number `code` over the keys `ks`: mixed radix, `radix` states per key -/
def uniSnap (ks : List (Nat × Nat)) (radix code : Nat) : RawSnap :=
  let rec go (ks : List (Nat × Nat)) (code : Nat) (s : RawSnap) : RawSnap :=
    match ks with
    | [] => s
    | (t, id) :: r =>
      let s' := match uniItem (code % radix) with
        | none => s
        | some d => match s.addItem (keyOf t id) d with
          | .ok s' => s'
          | .error _ => s
      go r (code / radix) s'
  go ks code RawSnap.empty

def sweepPairs (osz : Nat → Option Nat) (mask radix lo hi : Nat) : UInt64 := Id.run do
  let ks := (uniKeys.zipIdx.filter (fun p => (mask / 2 ^ p.2) % 2 = 1)).map Prod.fst
  let total := radix ^ ks.length
  let mut h := fnvOffset
  for idx in [lo:hi] do
    let a := uniSnap ks radix (idx / total)
    let b := uniSnap ks radix (idx % total)
    h := fnvString h (opPair osz a b)
    h := fnvByte h 10
  return h

/-! ### dispatch -/

def handle (toks : List String) : String :=
  match toks with
  | ["pair", osz, a, b] =>
    match parseOsz osz, parseItems a, parseItems b with
    | some osz, some a, some b =>
      match buildRaw a, buildRaw b with
      | .ok a, .ok b => opPair osz a b
      | .error e, _ => s!"builderr:a:{e}"
      | _, .error e => s!"builderr:b:{e}"
    | _, _, _ => "bad-op"
  | ["sweep", osz, mask, radix, lo, hi] =>
    match parseOsz osz, mask.toNat?, radix.toNat?, lo.toNat?, hi.toNat? with
    | some o, some mk, some rx, some lo, some hi => s!"h {sweepPairs o mk rx lo hi}"
    | _, _, _, _, _ => "bad-op"
  | ["rsnap", "i", d] =>
    match parseInts d with
    | some xs => opRsnap (Snap.readFromInts xs)
    | none => "bad-op"
  | ["rsnap", "b", d] =>
    match parseHex d with
    | some bs => opRsnap (Snap.readBytes bs)
    | none => "bad-op"
  | ["rdelta", osz, "i", d, base] =>
    match parseOsz osz, parseInts d, parseInts base with
    | some osz, some xs, some base => opRdelta osz (.ints xs) base
    | _, _, _ => "bad-op"
  | ["rdelta", osz, "b", d, base] =>
    match parseOsz osz, parseHex d, parseInts base with
    | some osz, some bs, some base => opRdelta osz (.bytes bs) base
    | _, _, _ => "bad-op"
  | "build" :: rest => opBuild rest
  | _ => "bad-op"

def main : IO Unit := runStateless handle

end Tw.Drv.Snap
