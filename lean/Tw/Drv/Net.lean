import Tw.Model.NetFault
import Tw.Drv.Conn6

/-!
Line protocol for domain `net` (implementation side: `harness/src/d_net.rs`).

A session is one endpoint plus a clock.  Request lines:

    new s|c                               `Net::server()` / `Net::client()`, clock 0
    time <ms>                             advance the clock
    feed <addr> <hex> <pNone> <pFalse> <pTrue> [r=<tok>,…]
    connect <addr>
    accept <pid> [r=<tok>,…]
    reject <pid> <hexreason> | disconnect <pid> <hexreason> | ignore <pid>
    send <pid> v|n <hex> | flush <pid> | sendcl <addr> <hex>
    tick | needs_tick
    feed … k=<n> | tick k=<n>            the application pulls only `n` items of the returned iterator
    dup                                   oracle-only marker: an address is about to get a second peer
    fail <addr> <k>                       arm a send fault: the k-th next `Callback::send` to <addr> returns `Err`
                                          (a call during which a send failed prints ` x=<datagrams not sent> err=<n>` at the end)
    f:<op> …                              executed by the implementation side under its oracle only; both sides print `skip`
    nextid <n>                            verification hook `Net::verif_set_next_peer_id` (counter of fresh ids)
    sweep s|c <depth> <lo> <hi> | <op> ; <op> ; …      hash form: all sequences of `depth` calls over the alphabet

`<pX>` is the canonical text of `Packet::read(bytes, hint X)` as in domain `conn6`; the driver never
looks at the bytes.  Output of an op: `<ret> s=<addr>@<packet>,… e=<events> w=<warnings> nt=<needs_tick>`.
-/
namespace Tw.Drv.Net
open Tw.Drv Tw.Conn Tw.Time Tw.Net
open Tw.Drv.Conn6 (packetStr parseReads parseDraws timeoutStr failStr warnStr)

def optNatStr : Option Nat → String
  | none => "-"
  | some n => toString n

def eventStr : NEvent → String
  | .chunk pid v d => s!"ch.{pid}.{if v then "v" else "n"}.{toHex d}"
  | .connless a pid d => s!"cl.{a}.{optNatStr pid}.{toHex d}"
  | .connect pid => s!"con.{pid}"
  | .ready pid => s!"rdy.{pid}"
  | .disconnect pid r => s!"dc.{pid}.{toHex r}"

def cwarnStr : CWarn → String
  | .read => "read"
  | .unexpected => "unexpected"

def nwarnStr : NWarn → String
  | .peer a pid w => s!"p.{a}.{pid}.{warnStr w}"
  | .connless a w => s!"c.{a}.{cwarnStr w}"

def retStr : Ret → String
  | .unit => "ok"
  | .pid p => s!"pid.{p}"
  | .send .ok => "ok"
  | .send .tooLongData => "toolong"

def outLine (net : Net) (r : Ret) (o : Out) : String :=
  s!"{retStr r} s={listStr (o.sent.map fun (a, p) => s!"{a}@{packetStr p}")} e={listStr (o.events.map fun (_, e) => eventStr e)} w={listStr (o.warns.map fun (_, w) => nwarnStr w)} nt={timeoutStr net.needsTick}"

structure World where
  net : Net := Net.new true
  now : Nat := 0
  dead : Bool := false
  /-- armed send faults (`fail <addr> <k>`) -/
  arms : Arms := []

def parseOp (args : List String) : Option Op :=
  match args with
  | "feed" :: a :: _ :: pn :: pf :: pt :: _ =>
    match a.toNat?, parseReads pn pf pt with
    | some a, some rd => some (.feed a rd)
    | _, _ => none
  | ["connect", a] => a.toNat?.map .connect
  | "accept" :: pid :: _ => pid.toNat?.map .accept
  | ["reject", pid, h] =>
    match pid.toNat?, parseHex h with
    | some pid, some r => some (.reject pid r)
    | _, _ => none
  | ["disconnect", pid, h] =>
    match pid.toNat?, parseHex h with
    | some pid, some r => some (.disconnect pid r)
    | _, _ => none
  | ["ignore", pid] => pid.toNat?.map .ignore
  | ["send", pid, k, h] =>
    match pid.toNat?, parseHex h with
    | some pid, some d => some (.send pid d (k == "v"))
    | _, _ => none
  | ["flush", pid] => pid.toNat?.map .flush
  | ["sendcl", a, h] =>
    match a.toNat?, parseHex h with
    | some a, some d => some (.sendConnless a d)
    | _, _ => none
  | ["tick"] | ["tick", _] => some .tick
  | _ => none

/-- trailing `k=<n>`: the application pulls only `n` items of the returned iterator -/
def parsePull (args : List String) : Option Nat :=
  match args.find? (fun a => a.startsWith "k=") with
  | none => none
  | some a => (a.drop 2).toString.toNat?

def stepLine (w : World) (toks : List String) : World × String :=
  match toks with
  | ["new", k] => ({ net := Net.new (k == "s") }, "ok")
  | ["time", ms] =>
    match ms.toNat? with
    | some ms => ({ w with now := w.now + msToUs ms }, "ok")
    | none => (w, "bad-op")
  | ["dup"] => (w, "ok")
  | ["fail", a, k] =>
    match a.toNat?, k.toNat? with
    | some a, some k =>
      if 1 ≤ k ∧ k ≤ 1000 ∧ a < 4294967296 then ({ w with arms := w.arms ++ [(a, k)] }, "ok") else (w, "bad-op")
    | _, _ => (w, "bad-op")
  | ["nextid", n] =>
    match n.toNat? with
    | some n => if n < idMod then ({ w with net := { w.net with nextPeerId := n } }, "ok") else (w, "bad-op")
    | none => (w, "bad-op")
  | _ =>
    if w.dead then (w, "dead")
    else if toks == ["needs_tick"] then (w, outLine w.net .unit {})
    else
      match parseOp toks with
      | none => (w, "bad-op")
      | some op =>
        let env : Tw.Conn6.Env := { now := w.now, draws := parseDraws toks }
        if w.arms.isEmpty then
          match stepLazy env w.net op (parsePull toks) with
          | .error f => ({ w with dead := true }, failStr f)
          | .ok (net, r, o) => ({ w with net := net }, outLine net r o)
        else
          -- send faults are armed (the generator never combines them with a partly consumed result)
          match stepF env w.net w.arms op with
          | .error f => ({ w with dead := true }, failStr f)
          | .ok (net, r, o, x, arms) =>
            let tail := if x.isEmpty then "" else
              s!" x={listStr (x.map fun (a, p) => s!"{a}@{packetStr p}")} err={x.length}"
            ({ w with net := net, arms := arms }, outLine net r o ++ tail)

/-- split the alphabet of a `sweep` request at the `;` tokens -/
def splitOps (toks : List String) : List (List String) :=
  let (cur, acc) := toks.foldl
    (fun (st : List String × List (List String)) t =>
      if t == ";" then ([], st.1.reverse :: st.2) else (t :: st.1, st.2)) ([], [])
  (cur.reverse :: acc).reverse

/-- run sequence number `i` (digits base `k`, most significant first) from a fresh endpoint and fold
its output lines into the hash -/
def sweepOne (server : Bool) (ops : Array (List String)) (depth i : Nat) (h : UInt64) : UInt64 :=
  let k := ops.size
  let rec go (j : Nat) (w : World) (h : UInt64) : UInt64 :=
    match j with
    | 0 => h
    | j + 1 =>
      let d := (i / k ^ j) % k
      let (w1, line) := stepLine w (ops[d]?.getD [])
      go j w1 (fnvByte (fnvString h line) 10)
  go depth { net := Net.new server } h

def sweep (server : Bool) (ops : Array (List String)) (depth lo hi : Nat) : UInt64 :=
  let rec go (n i : Nat) (h : UInt64) : UInt64 :=
    match n with
    | 0 => h
    | n + 1 => go n (i + 1) (sweepOne server ops depth i h)
  go (hi - lo) lo fnvOffset

/-- `sweep s|c <depth> <lo> <hi> | <op> ; <op> ; …`: every sequence of `depth` calls over the given
alphabet with index in `[lo, hi)`, each from a fresh endpoint; prints `h <fnv of all output lines>` -/
def stepTop (w : World) (toks : List String) : World × String :=
  match toks with
  | "sweep" :: kind :: depth :: lo :: hi :: "|" :: rest =>
    match depth.toNat?, lo.toNat?, hi.toNat? with
    | some depth, some lo, some hi =>
      let ops := (splitOps rest).toArray
      if ops.size == 0 then (w, "bad-op") else (w, s!"h {sweep (kind == "s") ops depth lo hi}")
    | _, _, _ => (w, "bad-op")
  | t :: _ =>
    -- `f:<op> …` (send-fault sessions that are not compared): executed by the implementation side
    -- under its oracle only; both sides print `skip`
    if t.startsWith "f:" then (w, "skip") else stepLine w toks
  | _ => stepLine w toks

def main : IO Unit := runLoop stepTop ({} : World)

end Tw.Drv.Net
