import Tw.Model.Packer
import Tw.Drv.Util

/-! Line protocol for domain `packer` (see `harness/src/d_packer.rs` for the implementation side). -/
namespace Tw.Drv.Packer
open Tw.Packer Tw.Drv

def wsStr (ws : List Warning) : String := listStr (ws.map Warning.name)

def wsCode : Warning → UInt8
  | .overlongIntEncoding => 1
  | .nonZeroIntPadding => 2
  | .excessData => 3

def riLine (bs : List UInt8) : String :=
  match readInt bs with
  | none => "err"
  | some (v, rest, ws) => s!"ok {v} {toHex rest} {wsStr ws}"

def le32 (v : Int) : List UInt8 :=
  let n := (v % 4294967296).toNat
  [UInt8.ofNat n, UInt8.ofNat (n / 256), UInt8.ofNat (n / 65536), UInt8.ofNat (n / 16777216)]

/-- hash contribution of decoding `bs` -/
def hashRead (h : UInt64) (bs : List UInt8) : UInt64 :=
  match readInt bs with
  | none => fnvByte h 0
  | some (v, rest, ws) =>
    let h := fnvByte h 1
    let h := fnvBytes h (le32 v)
    let h := fnvByte h (UInt8.ofNat rest.length)
    let h := fnvBytes h (ws.map wsCode)
    fnvByte h 0xfe

def hashInt (h : UInt64) (v : Int) : UInt64 :=
  let bs := writeInt v
  let h := fnvBytes h bs
  let h := fnvByte h 0xff
  hashRead h bs

partial def hashIntRange (h : UInt64) (lo hi : Int) : UInt64 :=
  if lo ≥ hi then h else hashIntRange (hashInt h lo) (lo + 1) hi

/-- all byte strings of length `n` over the alphabet 0..255, in lexicographic order -/
partial def hashAllLen (n : Nat) : UInt64 := Id.run do
  let mut h := fnvOffset
  let total := 256 ^ n
  for k in [0:total] do
    let bs := (List.range n).map fun j => UInt8.ofNat (k / 256 ^ (n - 1 - j))
    h := hashRead h bs
  return h

def hashSweep5 (m1 m2 m3 : UInt8) : UInt64 := Id.run do
  let mut h := fnvOffset
  for a in [0:256] do
    for e in [0:256] do
      h := hashRead h [UInt8.ofNat a, m1, m2, m3, UInt8.ofNat e]
  return h

def parseField (s : String) : Option Field :=
  match s.splitOn ":" with
  | ["i", v] => (parseInt v).map Field.int
  | ["s", h] => (parseHex h).map Field.str
  | ["d", h] => (parseHex h).map Field.data
  | ["r", h] => (parseHex h).map Field.raw
  | _ => none

def parseKind (s : String) : Option Kind :=
  match s.splitOn ":" with
  | ["i"] => some .int
  | ["s"] => some .str
  | ["d"] => some .data
  | ["t"] => some .rest
  | ["r", n] => (parseNat n).map Kind.raw
  | _ => none

def valueStr : Value → String
  | .int v => s!"i:{v}"
  | .bytes s => s!"b:{toHex s}"

def handle (toks : List String) : String :=
  match toks with
  | ["wi", v] =>
    match parseInt v with
    | some v => toHex (writeInt v)
    | none => "bad-op"
  | ["ri", h] =>
    match parseHex h with
    | some bs => riLine bs
    | none => "bad-op"
  | ["hashrange_wi", lo, hi] =>
    match parseInt lo, parseInt hi with
    | some lo, some hi => s!"h {hashIntRange fnvOffset lo hi}"
    | _, _ => "bad-op"
  | ["hash_ri_len", n] =>
    match parseNat n with
    | some n => s!"h {hashAllLen n}"
    | none => "bad-op"
  | ["hash_ri_sweep5", m] =>
    match parseHex m with
    | some [m1, m2, m3] => s!"h {hashSweep5 m1 m2 m3}"
    | _ => "bad-op"
  | "pack" :: cap :: fields =>
    match parseNat cap, fields.mapM parseField with
    | some cap, some fs =>
      let (b, r) := packAll { cap := cap, data := [] } fs
      let rs := match r with
        | .ok => "ok"
        | .capacity => "capacity"
        | .panic _ => "panic"
      -- after a panic the buffer contents are not observable
      match r with
      | .panic _ => "panic"
      | _ => s!"{rs} {toHex b.data}"
    | _, _ => "bad-op"
  | "unpack" :: mode :: h :: kinds =>
    match parseHex h, kinds.mapM parseKind with
    | some bs, some ks =>
      let demo := mode == "demo"
      if demo ∧ bs.length % 4 ≠ 0 then "panic"
      else
        let (vs, ok, rest, ws) := unpackAll bs ks
        let fw := finishWarns demo rest
        s!"{if ok then "ok" else "err"} {listStr (vs.map valueStr)} {toHex rest} {wsStr ws} {if fw then "excess" else "clean"}"
    | _, _ => "bad-op"
  | ["s2i", n, h] =>
    match parseNat n, parseHex h with
    | some n, some s =>
      match stringToInts n s with
      | none => "panic"
      | some is => listStr (is.map toString)
    | _, _ => "bad-op"
  | ["b2s", h] =>
    match parseHex h with
    | some bs =>
      let (s, w) := bytesToString bs
      s!"{toHex s} {if w then "weird" else "clean"}"
    | none => "bad-op"
  | _ => "bad-op"

def main : IO Unit := runStateless handle

end Tw.Drv.Packer
