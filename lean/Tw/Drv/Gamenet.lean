import Tw.Model.Gamenet
import Tw.Model.GamenetCap
import Tw.Gen.Spec_tw05
import Tw.Gen.Spec_tw06
import Tw.Gen.Spec_tw07
import Tw.Gen.Spec_ddnet
import Tw.Drv.Util
import Tw.Drv.Packer

/-! Line protocol for domain `gamenet` (implementation side: `harness/src/d_gamenet.rs`).

```
msg  <proto> <hex>                      system/game message with id   -> decode (+ re-encode)
cl   <proto> <hex>                      connectionless message         -> decode (+ re-encode)
obj  <proto> <id> <ints>                snapshot object, id = n | u:<hex16>
size <proto> <n>                        obj_size
bmsg <proto> sys|game <name> <value>    encode a value
bcl  <proto> <name> <value>
bobj <proto> <name> <value>
```
Values: `i<int>` `t` `f` `x<hex>` `n` `s(<v>)` `[<v>,…]`. -/
namespace Tw.Drv.Gamenet
open Tw.Gamenet Tw.Drv

def proto (n : String) : Option ProtoSpec :=
  match n with
  | "tw05" => some Tw.Gen.Spec_tw05.spec
  | "tw06" => some Tw.Gen.Spec_tw06.spec
  | "tw07" => some Tw.Gen.Spec_tw07.spec
  | "ddnet" => some Tw.Gen.Spec_ddnet.spec
  | _ => none

mutual
def valStr : Val → String
  | .int v => s!"i{v}"
  | .bool b => if b then "t" else "f"
  | .bytes b => s!"x{toHex b}"
  | .none => "n"
  | .some v => s!"s({valStr v})"
  | .list vs => s!"[{vlStr vs true}]"
def vlStr : VL → Bool → String
  | .nil, _ => ""
  | .cons v vs, first => (if first then "" else ",") ++ valStr v ++ vlStr vs false
end

def vlTop (vs : VL) : String := s!"[{vlStr vs true}]"

/-- recursive-descent parser of the value syntax (trusted glue) -/
partial def parseVal : List Char → Option (Val × List Char)
  | 'i' :: cs =>
    let ds := cs.takeWhile (fun c => c.isDigit || c == '-')
    (String.ofList ds).toInt?.map fun v => (.int v, cs.drop ds.length)
  | 't' :: cs => some (.bool true, cs)
  | 'f' :: cs => some (.bool false, cs)
  | 'n' :: cs => some (.none, cs)
  | 'x' :: cs =>
    let ds := cs.takeWhile (fun c => c.isAlphanum || c == '-')
    (parseHex (String.ofList ds)).map fun b => (.bytes b, cs.drop ds.length)
  | 's' :: '(' :: cs =>
    match parseVal cs with
    | some (v, ')' :: rest) => some (.some v, rest)
    | _ => none
  | '[' :: ']' :: cs => some (.list .nil, cs)
  | '[' :: cs =>
    let rec go (cs : List Char) (acc : List Val) : Option (Val × List Char) :=
      match parseVal cs with
      | some (v, ',' :: rest) => go rest (v :: acc)
      | some (v, ']' :: rest) => some (.list (VL.ofList (v :: acc).reverse), rest)
      | _ => none
    go cs []
  | _ => none

def parseTop (s : String) : Option VL :=
  match parseVal s.toList with
  | some (.list vs, []) => some vs
  | _ => none

def wsStr (ws : List Tw.Packer.Warning) : String := Tw.Drv.Packer.wsStr ws

def encStr : Enc → String
  | .ok bs => toHex bs
  | .capacity => "capacity"
  | .panic _ => "panic"
  | .badValue => "bad-value"

def intsStr (xs : List Int) : String := listStr (xs.map toString)

def hasBoolM : MT → Bool
  | .boolean => true
  | .array _ t => hasBoolM t
  | _ => false

def hasBool : ML → Bool
  | .nil => false
  | .cons t ms => hasBoolM t || hasBool ms

/-- objects with `bool` fields: only the number of words is compared (padding bytes are
unspecified) -/
def objEncStr (ms : ML) : ObjEncoded → String
  | .ok ws => if hasBool ms then s!"len:{ws.length}" else intsStr (ws.map fun w => w.getD 0)
  | .panic _ => "panic"
  | .badValue => "bad-value"

def parseInts (s : String) : Option (List Int) :=
  if s == "-" then some [] else (s.splitOn ",").mapM String.toInt?

def parseIdent (s : String) : Option Ident :=
  if s.startsWith "u:" then
    match parseHex (s.drop 2).toString with
    | some b => if b.length = 16 then some (.uuid b) else none
    | none => none
  else s.toInt?.map Ident.ordinal

def handle (toks : List String) : String :=
  match toks with
  | "msg" :: p :: h :: _ =>
    match proto p, parseHex h with
    | some p, some bs =>
      match decodeMsg p bs with
      | .panic _ => "panic"
      | .err e ws => s!"err {e.name} {wsStr ws}"
      | .ok sys s v ws =>
        s!"ok {if sys then "sys" else "game"}:{s.name} {vlTop v} {wsStr ws} enc:{encStr (encodeMsg sys s v)}"
    | _, _ => "bad-op"
  | "cl" :: p :: h :: _ =>
    match proto p, parseHex h with
    | some p, some bs =>
      match decodeConnless p bs with
      | .panic _ => "panic"
      | .err e ws => s!"err {e.name} {wsStr ws}"
      | .ok s v ws => s!"ok cl:{s.name} {vlTop v} {wsStr ws} enc:{encStr (encodeConnless s v)}"
    | _, _ => "bad-op"
  | "obj" :: p :: id :: ints :: _ =>
    match proto p, parseIdent id, parseInts ints with
    | some p, some id, some xs =>
      match decodeObj p id xs with
      | (some s, .ok v ex) =>
        s!"ok obj:{s.name} {vlTop v} {if ex then "excess" else "clean"} enc:{objEncStr s.members (encodeObj s.members v)}"
      | (_, .err e) => s!"err {e.name}"
      | (none, _) => "err UnknownId"
    | _, _, _ => "bad-op"
  | ["size", p, n] =>
    match proto p, n.toNat? with
    | some p, some n =>
      match objSize p n with
      | some k => toString k
      | none => "none"
    | _, _ => "bad-op"
  | ["bmsg", p, kind, name, val, cap] =>
    match proto p, parseTop val, cap.toNat? with
    | some p, some v, some cap =>
      let sys := kind == "sys"
      match findSpecByName name (if sys then p.system else p.game) with
      | some s => encStr (encodeMsgCap cap sys s v)
      | none => "bad-op"
    | _, _, _ => "bad-op"
  | ["bcl", p, name, val, cap] =>
    match proto p, parseTop val, cap.toNat? with
    | some p, some v, some cap =>
      match findConnlessByName name p.connless with
      | some s => encStr (encodeConnlessCap cap s v)
      | none => "bad-op"
    | _, _, _ => "bad-op"
  | ["bmsg", p, kind, name, val] =>
    match proto p, parseTop val with
    | some p, some v =>
      let sys := kind == "sys"
      match findSpecByName name (if sys then p.system else p.game) with
      | some s => encStr (encodeMsg sys s v)
      | none => "bad-op"
    | _, _ => "bad-op"
  | ["bcl", p, name, val] =>
    match proto p, parseTop val with
    | some p, some v =>
      match findConnlessByName name p.connless with
      | some s => encStr (encodeConnless s v)
      | none => "bad-op"
    | _, _ => "bad-op"
  | ["bobj", p, name, val] =>
    match proto p, parseTop val with
    | some p, some v =>
      match findSpecByName name p.objects with
      | some s => objEncStr s.members (encodeObj s.members v)
      | none => "bad-op"
    | _, _ => "bad-op"
  | _ => "bad-op"

/-- hash form: all byte strings of length `len` appended to `pre`, decoded (+ re-encoded) as
`op`; FNV-1a over the output lines -/
def hashBodies (op p : String) (pre : List UInt8) (len : Nat) : UInt64 := Id.run do
  let mut h := fnvOffset
  let total := 256 ^ len
  for k in [0:total] do
    let body := (List.range len).map fun j => UInt8.ofNat (k / 256 ^ (len - 1 - j))
    h := fnvByte (fnvString h (handle [op, p, toHex (pre ++ body)])) 10
  return h

/-- hash form: the object `id` decoded from `base` with position `pos` replaced by every value of
`lo ..= hi` -/
def hashObjPos (p id : String) (base : List Int) (pos : Nat) (lo hi : Int) : UInt64 := Id.run do
  let mut h := fnvOffset
  let n := (hi - lo + 1).toNat
  for k in [0:n] do
    let xs := base.set pos (lo + k)
    h := fnvByte (fnvString h (handle ["obj", p, id, intsStr xs])) 10
  return h

/-- `codec <proto> <op> …` = `<op> <proto> …` (the harness counts the codec as exercised) -/
def handleTop (toks : List String) : String :=
  match toks with
  | "codec" :: p :: op :: rest => handle (op :: p :: rest)
  | ["hbody", p, op, pre, len] =>
    match parseHex pre, len.toNat? with
    | some pre, some len => s!"h {hashBodies op p pre len}"
    | _, _ => "bad-op"
  | ["hobjpos", p, id, base, pos, lo, hi] =>
    match parseInts base, pos.toNat?, lo.toInt?, hi.toInt? with
    | some base, some pos, some lo, some hi => s!"h {hashObjPos p id base pos lo hi}"
    | _, _, _, _ => "bad-op"
  | _ => handle toks

def main : IO Unit := runStateless handleTop

end Tw.Drv.Gamenet
