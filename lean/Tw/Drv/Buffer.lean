import Tw.Model.Buffer
import Tw.Drv.Util

/-! Line protocol for domain `buffer` (implementation side: `harness/src/d_buffer.rs`).

Stateful: `new <kind> <cap> <oldhex>` starts a session (a fresh container), the following lines are
operations on it.  Every output line is `<response> | <context>`, the context being the container
(`@0 len=… data=…`) when no view is live, else depth and `remaining()` of the innermost view.
`hash <kind> <cap> <oldhex> <L> / op / op …` runs *all* operation sequences of length `L` over the
given alphabet, each in a fresh session, and folds every output line into FNV-1a. -/
namespace Tw.Drv.Buffer
open Tw.Buffer Tw.Drv

def parseKind : String → Option Kind
  | "vec" => some .vec
  | "arr" => some .arr
  | "slice" => some .slice
  | "sref" => some .sref
  | "raw" => some .raw
  | _ => none

/-- capacities for which the harness has an `ArrayVec<[u8; N]>` -/
def arrCaps : List Nat := [0, 1, 2, 3, 4, 5, 6, 7, 8, 16, 32]

def parseUsize (s : String) : Option Nat :=
  match parseNat s with
  | some n => if n < 18446744073709551616 then some n else none
  | none => none

def parseByte (s : String) : Option UInt8 :=
  match parseHex s with
  | some [b] => some b
  | _ => none

def mkStore (k c o : String) : Option Store :=
  match parseKind k, parseUsize c, parseHex o with
  | some k, some cap, some old =>
    if cap > 4096 then none
    else match k with
      | .vec => if old.length ≤ cap then some (Store.fresh k cap old 0) else none
      | .arr => if old.length ≤ cap ∧ arrCaps.contains cap then some (Store.fresh k cap old 0) else none
      | .slice | .sref | .raw => if old.length = cap then some (Store.fresh k cap old 0) else none
  | _, _, _ => none

/-- prefix notation: `slice <hex>`, `rep <byte>`, `empty`, `take <n> R`, `chain R R`,
`liar <claim> <byte>`, `fail <byte>`; returns the reader and the unconsumed tokens -/
def parseRdr : Nat → List String → Option (Rdr × List String)
  | 0, _ => none
  | _ + 1, "slice" :: h :: rest => (parseHex h).map fun bs => (Rdr.slice bs, rest)
  | _ + 1, "file" :: h :: rest => (parseHex h).map fun bs => (Rdr.file bs, rest)
  | _ + 1, "rep" :: b :: rest => (parseByte b).map fun b => (Rdr.rep b, rest)
  | _ + 1, "empty" :: rest => some (Rdr.empty, rest)
  | _ + 1, "liar" :: c :: b :: rest =>
    match parseUsize c, parseByte b with
    | some c, some b => some (Rdr.liar c b, rest)
    | _, _ => none
  | _ + 1, "fail" :: b :: rest => (parseByte b).map fun b => (Rdr.fail b, rest)
  | f + 1, "bufr" :: n :: rest =>
    match parseUsize n, parseRdr f rest with
    | some n, some (r, rest') => if n ≤ 4096 then some (Rdr.bufr n [] r, rest') else none
    | _, _ => none
  | f + 1, "take" :: n :: rest =>
    match parseUsize n, parseRdr f rest with
    | some n, some (r, rest') => some (Rdr.take n r, rest')
    | _, _ => none
  | f + 1, "chain" :: rest =>
    match parseRdr f rest with
    | some (a, rest1) =>
      match parseRdr f rest1 with
      | some (b, rest2) => some (Rdr.chain a b false, rest2)
      | none => none
    | none => none
  | _ + 1, _ => none

def parseCaps (ts : List String) : Option (List Nat) :=
  if ts.length ≤ 2 then ts.mapM parseUsize else none

def parseOp : List String → Option Op
  | ["w", h] => (parseHex h).map Op.write
  | ["xr", b, n] =>
    match parseByte b, parseUsize n with
    | some b, some n => some (Op.extendRep b n)
    | _, _ => none
  | ["xp", h] => (parseHex h).map Op.extendPanic
  | ["adv", n, b] =>
    match parseUsize n, parseByte b with
    | some n, some b => some (Op.advance n b)
    | _, _ => none
  | ["rem"] => some Op.remaining
  | "open" :: caps => (parseCaps caps).map Op.openV
  | ["init"] => some Op.init
  | ["drop"] => some Op.drop
  | "setr" :: ts =>
    match parseRdr 8 ts with
    | some (r, []) => some (Op.setr r)
    | _ => none
  | "read" :: caps => (parseCaps caps).map Op.read
  | _ => none

def respStr : Resp → String
  | .wrote true => "ok"
  | .wrote false => "cap"
  | .num n => s!"{n}"
  | .opened => "open"
  | .closed (some bs) => s!"init {toHex bs}"
  | .closed none => "drop"
  | .readOk bs => s!"read {toHex bs}"
  | .readErr => "readerr"
  | .done => "done"
  | .panic => "panic"
  | .badOp => "bad-op"

def ctxStr (s : Sess) : String :=
  match s.stack with
  | [] =>
    let c := s.store.contents
    s!"@0 len={c.length} data={toHex c}"
  | v :: _ =>
    match v.remaining with
    | some n => s!"@{s.stack.length} rem={n}"
    | none => s!"@{s.stack.length} rem=?"

def line (r : Resp) (s : Sess) : String := s!"{respStr r} | {ctxStr s}"

/-- split at the `/` tokens -/
def splitOps (ts : List String) : List (List String) :=
  let rec go (cur : List String) (acc : List (List String)) : List String → List (List String)
    | [] => (cur.reverse :: acc).reverse
    | "/" :: rest => go [] (cur.reverse :: acc) rest
    | t :: rest => go (t :: cur) acc rest
  (go [] [] ts).filter (· ≠ [])

def foldLine (h : UInt64) (l : String) : UInt64 := fnvByte (fnvString h l) 10

/-- one session of the hash form: the ops with indices given by the base-`A` digits of `i` -/
def hashSession (h : UInt64) (st : Store) (alpha : Array Op) (len : Nat) (i : Nat) : UInt64 := Id.run do
  let mut h := h
  let mut s := Sess.fresh st
  let mut k := i
  for _ in [0:len] do
    let op := alpha[k % alpha.size]!
    k := k / alpha.size
    let (s', r) := s.step op
    h := foldLine h (line r s')
    s := s'
  -- the closures return: every live view is dropped
  return foldLine h (ctxStr s.unwind)

def hashAll (st : Store) (alpha : Array Op) (len : Nat) : UInt64 := Id.run do
  let mut h := fnvOffset
  for i in [0:alpha.size ^ len] do
    h := hashSession h st alpha len i
  return h

def handle (cur : Option Sess) (toks : List String) : Option Sess × String :=
  match toks with
  | ["new", k, c, o] =>
    match mkStore k c o with
    | some st => let s := Sess.fresh st; (some s, s!"ok | {ctxStr s}")
    | none => (none, "bad-op")
  | "hash" :: k :: c :: o :: l :: rest =>
    match mkStore k c o, parseNat l, (splitOps rest).mapM parseOp with
    | some st, some len, some ops =>
      if ops.isEmpty ∨ len > 8 then (cur, "bad-op")
      else (cur, s!"h {hashAll st ops.toArray len}")
    | _, _, _ => (cur, "bad-op")
  | _ =>
    match cur, parseOp toks with
    | some s, some op =>
      let (s', r) := s.step op
      (some s', line r s')
    | _, _ => (cur, "bad-op")

def main : IO Unit := runLoop handle none

end Tw.Drv.Buffer
