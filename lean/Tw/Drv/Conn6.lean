import Tw.Model.Conn6
import Tw.Drv.Util

/-!
Line protocol for domain `conn6` (implementation side: `harness/src/d_conn6.rs`).

A session is a world of two endpoints `a`, `b` sharing one clock.  Request lines:

    new                                   reset the world (both endpoints `Connection::new()`, clock 0)
    time <ms>                             advance the clock
    quiet                                 oracle-only marker (end of a fair suffix)
    <ep> newaccept <token>                replace the endpoint by `Connection::new_accept_token`
    <ep> connect | flush | tick | needs_tick
    <ep> send v|n <hex> | sendcl <hex> | disconnect <hexreason>
    <ep> feed <hex> <pNone> <pFalse> <pTrue> [r=<tok>,…]
    <ep> dl <i> <hex> <pNone> <pFalse> <pTrue> [r=<tok>,…]     (same, datagram i of the peer's history)

`feedp` is `feed` for the one outside datagram a "pure" session may contain (the token-less
connect request).  `<pX>` is the canonical text of `Packet::read(bytes, hint X)` (`err` for a read error, `=` for
"same as the previous one"); the driver never looks at the bytes.  A close reason is printed the
way the reader returns it (at most `CTRLMSG_CLOSE_REASON_LENGTH` = 127 bytes).  Output of an endpoint op:
`<result> s=<sent packets> e=<events> w=<warnings> nt=<needs_tick>`.
-/
namespace Tw.Drv.Conn6
open Tw.Drv Tw.Conn Tw.Time

/-! ### canonical text shared with `Conn7` -/

def hexDigits (n width : Nat) : String :=
  String.ofList ((List.range width).reverse.map fun i => hexDigit ((n / 16 ^ i) % 16))

def tokStr (t : Nat) : String := hexDigits t 8

def optTokStr : Option Nat → String
  | none => "-"
  | some t => tokStr t

def chunkStr (c : Chunk) : String :=
  match c.vital with
  | none => s!"n.{toHex c.data}"
  | some (s, false) => s!"v{s}.{toHex c.data}"
  | some (s, true) => s!"r{s}.{toHex c.data}"

def chunksStr (cs : List Chunk) : String :=
  if cs.isEmpty then "-" else "/".intercalate (cs.map chunkStr)

def eventStr : Event → String
  | .connless d => s!"cl.{toHex d}"
  | .chunk d true => s!"cv.{toHex d}"
  | .chunk d false => s!"cn.{toHex d}"
  | .ready => "rdy"
  | .disconnect r => s!"dc.{toHex r}"

def timeoutStr : Timeout → String
  | .inactive => "inactive"
  | .active t => toString t

def boolStr (b : Bool) : String := if b then "1" else "0"

def parseTok (s : String) : Option Nat :=
  if s.length ≠ 8 then none
  else s.toList.foldlM (fun a c => (hexVal c).map (a * 16 + ·)) 0

def parseOptTok (s : String) : Option (Option Nat) :=
  if s == "-" then some none else (parseTok s).map some

def parseChunk (s : String) : Option Chunk :=
  match s.splitOn "." with
  | [k, h] =>
    match parseHex h with
    | none => none
    | some d =>
      if k == "n" then some ⟨none, d⟩
      else
        match k.toList with
        | 'v' :: r => (String.ofList r).toNat?.map fun q => ⟨some (q, false), d⟩
        | 'r' :: r => (String.ofList r).toNat?.map fun q => ⟨some (q, true), d⟩
        | _ => none
  | _ => none

def parseChunks (s : String) : Option (List Chunk) :=
  if s == "-" then some [] else (s.splitOn "/").mapM parseChunk

def parseBool (s : String) : Option Bool :=
  if s == "1" then some true else if s == "0" then some false else none

/-- trailing `r=<tok>,<tok>` argument -/
def parseDraws (args : List String) : List Nat :=
  match args.find? (fun a => a.startsWith "r=") with
  | none => []
  | some a => ((a.drop 2).toString.splitOn ",").filterMap parseTok

/-! ### 0.6 packets -/
open Tw.Conn6

def ctlStr : Control → String
  | .keepAlive => "ka"
  | .connect => "co"
  | .connectAccept => "ca"
  | .accept => "ac"
  | .close r => s!"cx.{toHex (r.take 127)}"

def packetStr : Packet → String
  | .connless d => s!"cl:{toHex d}"
  | .control ack t c => s!"ct:{ack}:{optTokStr t}:{ctlStr c}"
  | .chunks ack t rr n cs => s!"ch:{ack}:{optTokStr t}:{boolStr rr}:{n}:{chunksStr cs}"

def parseCtl (s : String) : Option Control :=
  match s.splitOn "." with
  | ["ka"] => some .keepAlive
  | ["co"] => some .connect
  | ["ca"] => some .connectAccept
  | ["ac"] => some .accept
  | ["cx", h] => (parseHex h).map .close
  | _ => none

/-- `some none` = the reader returned an error -/
def parsePacket (s : String) : Option (Option Packet) :=
  if s == "err" then some none
  else
    match s.splitOn ":" with
    | ["cl", h] => (parseHex h).map fun d => some (.connless d)
    | ["ct", ack, t, c] =>
      match ack.toNat?, parseOptTok t, parseCtl c with
      | some ack, some t, some c => some (some (.control ack t c))
      | _, _, _ => none
    | ["ch", ack, t, rr, n, cs] =>
      match ack.toNat?, parseOptTok t, parseBool rr, n.toNat?, parseChunks cs with
      | some ack, some t, some rr, some n, some cs => some (some (.chunks ack t rr n cs))
      | _, _, _, _, _ => none
    | _ => none

def warnStr : Warn → String
  | .read => "read"
  | .tokenMismatch => "tokmis"

structure Ep where
  conn : Conn := .new
  dead : Bool := false

structure World where
  a : Ep := {}
  b : Ep := {}
  now : Nat := 0

def outLine (res : String) (c : Conn) (o : Out) : String :=
  s!"{res} s={listStr (o.sent.map packetStr)} e={listStr (o.events.map eventStr)} w={listStr (o.warns.map warnStr)} nt={timeoutStr c.needsTick}"

def failStr : Fail → String
  | .panic _ => "panic"
  | .hang => "hang"

def fin (ep : Ep) (r : Res) : Ep × String :=
  match r with
  | .error f => ({ ep with dead := true }, failStr f)
  | .ok (c, o) => ({ ep with conn := c }, outLine "ok" c o)

def fin3 (ep : Ep) (r : Except Fail (Conn × SendRes × Out)) : Ep × String :=
  match r with
  | .error f => ({ ep with dead := true }, failStr f)
  | .ok (c, res, o) => ({ ep with conn := c }, outLine (if res = .ok then "ok" else "toolong") c o)

/-- the three parses of a feed line, with `=` meaning "same as the previous one" -/
def parseReads (pn pf pt : String) : Option (Option Bool → Option Packet) :=
  match parsePacket pn with
  | none => none
  | some rn =>
    match (if pf == "=" then some rn else parsePacket pf) with
    | none => none
    | some rf =>
      match (if pt == "=" then some rf else parsePacket pt) with
      | none => none
      | some rt => some fun
        | none => rn
        | some false => rf
        | some true => rt

def epStep (now : Nat) (ep : Ep) (args : List String) : Ep × String :=
  if ep.dead then (ep, "dead")
  else
    let env : Env := { now := now, draws := parseDraws args }
    match args with
    | ["newaccept", t] =>
      match parseTok t with
      | some t => let c := Conn.newAcceptToken env t; ({ conn := c }, outLine "ok" c {})
      | none => (ep, "bad-op")
    | "connect" :: _ => fin ep (connect env ep.conn)
    | ["flush"] => fin ep (flush env ep.conn)
    | ["tick"] => fin ep (tick env ep.conn)
    | ["needs_tick"] => (ep, outLine "ok" ep.conn {})
    | ["send", k, h] =>
      match parseHex h with
      | some d => fin3 ep (send env ep.conn d (k == "v"))
      | none => (ep, "bad-op")
    | ["sendcl", h] =>
      match parseHex h with
      | some d => fin3 ep (sendConnless env ep.conn d)
      | none => (ep, "bad-op")
    | ["disconnect", h] =>
      match parseHex h with
      | some d => fin ep (disconnect env ep.conn d)
      | none => (ep, "bad-op")
    | "feed" :: _ :: pn :: pf :: pt :: _ =>
      match parseReads pn pf pt with
      | some rd => fin ep (feed env ep.conn rd)
      | none => (ep, "bad-op")
    | "feedp" :: _ :: pn :: pf :: pt :: _ =>
      match parseReads pn pf pt with
      | some rd => fin ep (feed env ep.conn rd)
      | none => (ep, "bad-op")
    | "dl" :: _ :: _ :: pn :: pf :: pt :: _ =>
      match parseReads pn pf pt with
      | some rd => fin ep (feed env ep.conn rd)
      | none => (ep, "bad-op")
    | _ => (ep, "bad-op")

def step (w : World) (toks : List String) : World × String :=
  match toks with
  | ["new"] => ({}, "ok")
  | ["time", ms] =>
    match ms.toNat? with
    | some ms => ({ w with now := w.now + msToUs ms }, "ok")
    | none => (w, "bad-op")
  | ["quiet"] => (w, "ok")
  | "a" :: args => let (e, o) := epStep w.now w.a args; ({ w with a := e }, o)
  | "b" :: args => let (e, o) := epStep w.now w.b args; ({ w with b := e }, o)
  | _ => (w, "bad-op")

/-- `f:<op> …` (send-fault sessions, from the first `failsend` on): the implementation side executes
the op under its oracles, the model does not know send faults — both sides print `skip`.  Every
later line of such a session carries the prefix, so the model's world is simply left behind until
the next `new`. -/
def stepTop (w : World) (toks : List String) : World × String :=
  match toks with
  | t :: _ => if t.startsWith "f:" then (w, "skip") else step w toks
  | [] => step w toks

def main : IO Unit := runLoop stepTop ({} : World)

end Tw.Drv.Conn6
