import Tw.Model.Teehistorian
import Tw.Drv.Util

/-! Line protocol for domain `teehist` (implementation side: `harness/src/d_teehist.rs`).

    run  <ver> <header hex> <stream hex> <frag>    full canonical output
    hash <ver> <header hex> <stream hex> <frag>    FNV-1a of that output
    all2 <ver> <header hex> <stream hex>           every two-piece split, folded into one hash

`<frag>`: `w` (as much as fits per read), `b` (byte by byte), `s:<k>` (first read `k` bytes),
`l:<n1>,<n2>,…` (these read sizes, zero allowed, then as much as fits). -/
namespace Tw.Drv.Teehist
open Tw.Teehistorian Tw.Drv

def valStr : Val → String
  | .int v => toString v
  | .bytes b => toHex b

def fields (name : String) (xs : List String) : String := name ++ "(" ++ ";".intercalate xs ++ ")"

def itemStr : Item → String
  | .tickStart t => fields "TickStart" [toString t]
  | .tickEnd t => fields "TickEnd" [toString t]
  | .playerNew c x y => fields "PlayerNew" [toString c, toString x, toString y]
  | .playerChange c x y ox oy => fields "PlayerChange" [toString c, toString x, toString y, toString ox, toString oy]
  | .playerOld c x y => fields "PlayerOld" [toString c, toString x, toString y]
  | .input c vs => fields "Input" (toString c :: vs.map toString)
  | .other o => fields o.name (o.vals.map valStr)

def itemErrStr : ItemErr → String
  | .unknownType v => s!"UnknownType:{v}"
  | .negativeDt => "NegativeDt"
  | .negativeNumArgs => "NegativeNumArgs"
  | .numArgsTooLarge => "NumArgsTooLarge"

def errStr : Err → String
  | .item e => itemErrStr e
  | .tickOverflow => "TickOverflow"
  | .unexpectedEnd => "UnexpectedEnd"
  | .invalidClientId => "InvalidClientId"
  | .playerNewDuplicate => "PlayerNewDuplicate"
  | .playerDiffWithoutNew => "PlayerDiffWithoutNew"
  | .playerOldWithoutNew => "PlayerOldWithoutNew"
  | .inputDiffWithoutNew => "InputDiffWithoutNew"

def outputStr (o : Output) : String :=
  match o.final with
  | .outOfFuel => "model-out-of-fuel"
  | .oom => "model-oom"
  | f =>
    let fs := match f with
      | .finished => "end"
      | .err e => "err:" ++ errStr e
      | _ => "?"
    s!"{fs} {o.cidsEnd} {o.items.length} {if o.items.isEmpty then "-" else " ".intercalate (o.items.map itemStr)}"

/-- 2^24 `VecMap` slots: far above every client id the generator produces -/
def memCids : Nat := 16777216

def cfgOf (ver : String) : Option Cfg :=
  if ver == "1" then some { hasEx := false, memCids := memCids }
  else if ver == "2" then some { hasEx := true, memCids := memCids }
  else none

def parseNatList (s : String) : Option (List Nat) :=
  if s.isEmpty then some [] else (s.splitOn ",").mapM parseNat

def parseFrag (total : Nat) (s : String) : Option (List Nat) :=
  if s == "w" then some []
  else if s == "b" then some (List.replicate total 1)
  else match s.splitOn ":" with
    | ["s", k] => (parseNat k).map fun k => [k]
    | ["l", l] => parseNatList l
    | _ => none

def outLine (cfg : Cfg) (hdr stream : List UInt8) (ds : List Nat) : String :=
  outputStr (run cfg hdr.length (hdr ++ stream) ds)

def all2 (cfg : Cfg) (hdr stream : List UInt8) : UInt64 := Id.run do
  let total := hdr ++ stream
  let mut h := fnvOffset
  for k in [0:total.length + 1] do
    h := fnvString h (outputStr (run cfg hdr.length total [k]))
    h := fnvByte h 10
  return h

def sweep (cfg : Cfg) (hdr pre : List UInt8) (n : Nat) : UInt64 := Id.run do
  let mut h := fnvOffset
  let ones := List.replicate (hdr.length + pre.length + n) 1
  for k in [0:256 ^ n] do
    let bs := pre ++ (List.range n).map fun j => UInt8.ofNat (k / 256 ^ (n - 1 - j))
    h := fnvString h (outputStr (run cfg hdr.length (hdr ++ bs) []))
    h := fnvByte h 10
    h := fnvString h (outputStr (run cfg hdr.length (hdr ++ bs) ones))
    h := fnvByte h 10
  return h

def handle (toks : List String) : String :=
  match toks with
  | ["sweep", ver, hh, n, ph] =>
    match cfgOf ver, parseHex hh, parseNat n, parseHex ph with
    | some cfg, some hdr, some n, some pre => s!"h {sweep cfg hdr pre n}"
    | _, _, _, _ => "bad-op"
  | [op, ver, hh, sh, frag] =>
    match cfgOf ver, parseHex hh, parseHex sh with
    | some cfg, some hdr, some stream =>
      match parseFrag (hdr.length + stream.length) frag with
      | some ds =>
        if op == "run" then outLine cfg hdr stream ds
        else if op == "hash" then
          let l := outLine cfg hdr stream ds
          if l == "panic" then l else s!"h {fnvString fnvOffset l}"
        else "bad-op"
      | none => "bad-op"
    | _, _, _ => "bad-op"
  | ["all2", ver, hh, sh] =>
    match cfgOf ver, parseHex hh, parseHex sh with
    | some cfg, some hdr, some stream => s!"h {all2 cfg hdr stream}"
    | _, _, _ => "bad-op"
  | _ => "bad-op"

def main : IO Unit := runStateless handle

end Tw.Drv.Teehist
