import Tw.Model.Teehistorian
import Tw.Drv.Util

/-! Line protocol for domain `teehist` (implementation side: `harness/src/d_teehist.rs`).

    run  <ver> <header hex> <stream hex> <frag>    full canonical output
    hash <ver> <header hex> <stream hex> <frag>    FNV-1a of that output
    all2 <ver> <header hex> <stream hex>           every two-piece split, folded into one hash

`<frag>`: `w` (as much as fits per read), `b` (byte by byte), `s:<k>` (first read `k` bytes),
`l:<n1>,<n2>,…` (these read sizes, zero allowed, then as much as fits). -/
namespace Tw.Drv.Teehist
open Tw.Teehistorian Tw.Drv

def valStr : Val → String
  | .int v => toString v
  | .bytes b => toHex b

def fields (name : String) (xs : List String) : String := name ++ "(" ++ ";".intercalate xs ++ ")"

def itemStr : Item → String
  | .tickStart t => fields "TickStart" [toString t]
  | .tickEnd t => fields "TickEnd" [toString t]
  | .playerNew c x y => fields "PlayerNew" [toString c, toString x, toString y]
  | .playerChange c x y ox oy => fields "PlayerChange" [toString c, toString x, toString y, toString ox, toString oy]
  | .playerOld c x y => fields "PlayerOld" [toString c, toString x, toString y]
  | .input c vs => fields "Input" (toString c :: vs.map toString)
  | .other o => fields o.name (o.vals.map valStr)

def itemErrStr : ItemErr → String
  | .unknownType v => s!"UnknownType:{v}"
  | .negativeDt => "NegativeDt"
  | .negativeNumArgs => "NegativeNumArgs"
  | .numArgsTooLarge => "NumArgsTooLarge"

def errStr : Err → String
  | .header _ => "Header"
  | .unknownVersion => "UnknownVersion"
  | .item e => itemErrStr e
  | .tickOverflow => "TickOverflow"
  | .unexpectedEnd => "UnexpectedEnd"
  | .invalidClientId => "InvalidClientId"
  | .playerNewDuplicate => "PlayerNewDuplicate"
  | .playerDiffWithoutNew => "PlayerDiffWithoutNew"
  | .playerOldWithoutNew => "PlayerOldWithoutNew"
  | .inputDiffWithoutNew => "InputDiffWithoutNew"

/-- What `player_pos(cid)` / `input(cid)` return after the last call, for every client id with an
entry, in ascending order of the client id. -/
def accessStr (a : Access) : String :=
  let ps := (a.players.toArray.qsort (fun x y => x.1 < y.1)).toList.map fun (c, (x, y)) => s!"{c}:{x}:{y}"
  let is := (a.inputs.toArray.qsort (fun x y => x.1 < y.1)).toList.map fun (c, v) =>
    ":".intercalate (toString c :: v.map toString)
  let j (l : List String) : String := if l.isEmpty then "-" else ",".intercalate l
  s!"P {j ps} I {j is}"

def outputStr (o : Output) : String :=
  match o.final with
  | .outOfFuel => "model-out-of-fuel"
  | f =>
    let fs := match f with
      | .finished => "end"
      | .err e => "err:" ++ errStr e
      | .cbErr => "err:Cb"
      | _ => "?"
    s!"{fs} {o.cidsEnd} {o.items.length} {if o.items.isEmpty then "-" else " ".intercalate (o.items.map itemStr)} {accessStr o.access}"

/-- The header's JSON content is outside the model: the request says which version the (valid)
header text carries. -/
def envOf (ver : String) : Option Env :=
  (parseInt ver).map fun v => { json := fun _ => .ok v }

def parseNatList (s : String) : Option (List Nat) :=
  if s.isEmpty then some [] else (s.splitOn ",").mapM parseNat

def parseSizes (total : Nat) (s : String) : Option (List Nat) :=
  if s == "w" then some []
  else if s == "b" then some (List.replicate total 1)
  else match s.splitOn ":" with
    | ["s", k] => (parseNat k).map fun k => [k]
    | ["l", l] => parseNatList l
    | _ => none

/-- `x<k>/<frag>`: the callback fails at its invocation number `k` (counting from 0); before
that it returns the sizes of `<frag>` (as much as fits once they are used up). -/
def parseFrag (total : Nat) (s : String) : Option (List CbEv) :=
  if s.startsWith "x" then
    match (s.drop 1).toString.splitOn "/" with
    | [k, f] =>
      match parseNat k, parseSizes total f with
      | some k, some ds =>
        some (((ds ++ List.replicate k total).take k).map CbEv.size ++ [CbEv.fail])
      | _, _ => none
    | _ => none
  else (parseSizes total s).map fun ds => ds.map CbEv.size

def osReads : List CbEv → List OsRead
  | [] => []
  | .fail :: r => .eio :: osReads r
  | .size d :: r => (if h : 0 < d then OsRead.data d h else OsRead.eintr) :: osReads r

/-- `all2`: by `Tw.Props.C17.run_eq_reference` the model output is the same for every split, so it
is computed once and folded `n + 1` times (the executable twin of running the buffered model on
every split, proved equal). -/
def all2 (env : Env) (total : List UInt8) : UInt64 := Id.run do
  let line := outputStr (reference env total)
  let mut h := fnvOffset
  for _ in [0:total.length + 1] do
    h := fnvString h line
    h := fnvByte h 10
  return h

def sweep (env : Env) (hdr pre : List UInt8) (n : Nat) : UInt64 := Id.run do
  let mut h := fnvOffset
  for k in [0:256 ^ n] do
    let bs := pre ++ (List.range n).map fun j => UInt8.ofNat (k / 256 ^ (n - 1 - j))
    let line := outputStr (reference env (hdr ++ bs))
    h := fnvString h line
    h := fnvByte h 10
    h := fnvString h line
    h := fnvByte h 10
  return h

def handle (toks : List String) : String :=
  match toks with
  | ["sweep", ver, hh, n, ph] =>
    match envOf ver, parseHex hh, parseNat n, parseHex ph with
    | some env, some hdr, some n, some pre => s!"h {sweep env hdr pre n}"
    | _, _, _, _ => "bad-op"
  | [op, ver, hh, sh, frag] =>
    match envOf ver, parseHex hh, parseHex sh with
    | some env, some hdr, some stream =>
      let total := hdr ++ stream
      match parseFrag total.length frag with
      | some evs =>
        -- `run` executes the buffered model itself
        if op == "run" then outputStr (runCb env { rem := total, ds := evs })
        -- the public `Reader`: `read(2)` results, `Ok(0)` is EOF
        else if op == "file" then outputStr (runFile env total (osReads evs))
        -- `hash`: the reference semantics, equal to the buffered model for every schedule without
        -- a failure (`run_eq_reference`); with a failure the buffered model is executed
        else if op == "hash" then
          let l := if evs.contains CbEv.fail then outputStr (runCb env { rem := total, ds := evs })
            else outputStr (reference env total)
          s!"h {fnvString fnvOffset l}"
        else "bad-op"
      | none => "bad-op"
    | _, _, _ => "bad-op"
  | ["all2", ver, hh, sh] =>
    match envOf ver, parseHex hh, parseHex sh with
    | some env, some hdr, some stream => s!"h {all2 env (hdr ++ stream)}"
    | _, _, _ => "bad-op"
  | _ => "bad-op"

def main : IO Unit := runStateless handle

end Tw.Drv.Teehist
