import Tw.Model.Demo
import Tw.Drv.Util

/-!
Line protocol for domain `demo` (implementation side: `harness/src/d_demo.rs`): the low-level
`demo::Writer` writing into memory and `demo::Reader` reading the same bytes back.

A session starts with
`new <net_version> <map_name> <sha256|none> <map_crc> <c|s> <length> <timestamp> <map>` (`Writer::new`
on an empty in-memory file).  Afterwards

* `t <0|1> <tick>`      `write_tick(keyframe, tick)`
* `s <data>` / `d <data>` / `m <data>`   `write_snapshot` / `write_snapshot_delta` / `write_message`
* `u`                   `write_chunk(RawChunk::Unknown)`
* `file`                the bytes written so far
* `read`                `Reader::new` on the bytes written so far, header accessors, `read_chunk` until
                        the end or the first error, all warnings
* `readmut <off> <x>`   the same on a copy with byte `off mod len` xor-ed with `x`
* `readtrunc <n>`       the same on the first `n mod (len+1)` bytes
* `mutall`               hash form: the `read` lines of every single-byte corruption (xor 0x01, 0x80,
                        0xff at every offset) and every truncation of the file
* `raw <data>`          the same on an arbitrary byte string
* `sweep <ver> <pre> <lo> <hi>`   hash form: FNV-1a over the `read` lines of the files
                        `sweepFile ver pre x` for `lo ≤ x < hi` (all two-byte chunk header starts)

`<data>` = parts joined by `+`; a part is hex (`-` = empty), `g<len>:<seed>` (byte `i` =
`seed + 7i + 13(i/900) + i/256 mod 256`), `z<len>` (zeros), `x<len>:<seed>` (bits 16..23 of the LCG
`x ← 1103515245·x + 12345 mod 2^31`), `n<len>:<seed>` (the same bytes mapped to `1 + b mod 255`).  Printed data longer than 32 bytes is `#<len>:<fnv1a>`.
-/
namespace Tw.Drv.Demo
open Tw.Demo Tw.Drv

def genData (len seed : Nat) : List UInt8 :=
  (List.range len).map fun i => UInt8.ofNat (seed + 7 * i + 13 * (i / 900) + i / 256)

def lcgData : Nat → Nat → List UInt8
  | 0, _ => []
  | n + 1, x =>
    let x' := (1103515245 * x + 12345) % 2147483648
    UInt8.ofNat (x' / 65536) :: lcgData n x'

def parsePart (s : String) : Option (List UInt8) :=
  match s.toList with
  | 'g' :: rest =>
    match (String.ofList rest).splitOn ":" with
    | [l, sd] => do
      let l ← parseNat l
      let sd ← parseNat sd
      pure (genData l sd)
    | _ => none
  | 'x' :: rest =>
    match (String.ofList rest).splitOn ":" with
    | [l, sd] => do
      let l ← parseNat l
      let sd ← parseNat sd
      pure (lcgData l sd)
    | _ => none
  | 'n' :: rest =>
    match (String.ofList rest).splitOn ":" with
    | [l, sd] => do
      let l ← parseNat l
      let sd ← parseNat sd
      pure ((lcgData l sd).map fun b => UInt8.ofNat (1 + b.toNat % 255))
    | _ => none
  | 'z' :: rest => do
    let l ← parseNat (String.ofList rest)
    pure (List.replicate l 0)
  | _ => parseHex s

def parseData (s : String) : Option (List UInt8) :=
  (s.splitOn "+").foldl (fun acc p => do
    let a ← acc
    let b ← parsePart p
    pure (a ++ b)) (some [])

def dataTok (d : List UInt8) : String :=
  if d.length ≤ 32 then toHex d else s!"#{d.length}:{fnvBytes fnvOffset d}"

def chunkStr : Chunk → String
  | .tick t kf => (if kf then "K" else "T") ++ toString t
  | .snapshot d => "S:" ++ dataTok d
  | .delta d => "D:" ++ dataTok d
  | .message d => "M:" ++ dataTok d
  | .unknown => "U"

def chunksStr (cs : List Chunk) : String :=
  let strs := cs.map chunkStr
  if strs.length ≤ 48 then listStr strs
  else s!"#{strs.length}:{fnvString fnvOffset (",".intercalate strs)}"

def kindStr : Kind → String
  | .client => "c"
  | .server => "s"

def readStr (file : List UInt8) : String :=
  match readFile file with
  | none => "hdr-err"
  | some (h, cs, ws, e) =>
    let sha := match h.sha with | none => "none" | some s => toHex s
    let fin := match e with | none => "end" | some e => "err:" ++ e.name
    s!"v{h.version.num} nv={toHex h.netVersion} mn={toHex h.mapName} ms={h.mapSize} crc={h.crc} " ++
    s!"k={kindStr h.kind} len={h.length} ts={toHex h.timestamp} tm={listStr (h.markers.map toString)} " ++
    s!"sha={sha} map={dataTok h.map} | {chunksStr cs} | {fin} | w={listStr (ws.map Warning.name)}"

/-- the file of case `x` of the exhaustive chunk-header sweep: a minimal header of version `ver`,
optionally an absolute tick marker `2^31 - 10`, the two bytes of `x`, and a fixed tail -/
def sweepFile (ver : Nat) (pre : Bool) (x : Nat) : List UInt8 :=
  let z (n : Nat) : List UInt8 := List.replicate n 0
  Tw.Demo.magic ++ [UInt8.ofNat ver] ++ z 64 ++ z 64 ++ z 4 ++ z 4 ++ Kind.client.magic ++ z 4 ++ z 20
    ++ (if ver ≠ 3 then z 4 ++ z 256 else [])
    ++ (if ver = 6 then Tw.Demo.shaExtension ++ z 32 else [])
    ++ (if pre then [0x80, 0x7f, 0xff, 0xff, 0xf6] else [])
    ++ [UInt8.ofNat (x / 256), UInt8.ofNat x]
    ++ [0x05, 0x01, 0x02, 0x03, 0x04, 0x05, 0x06, 0x07, 0x08, 0x09, 0x0a, 0x0b, 0x0c, 0x0d, 0x0e, 0x0f,
        0x81, 0x00, 0x00, 0x00, 0x07, 0xa3, 0x22, 0x51]

structure Session where
  w : Option Writer := none

def wres (s : Session) (r : Writer × WResult) : Session × String :=
  match r with
  | (w', .ok) => ({ s with w := some w' }, s!"ok {w'.file.length}")
  | (w', .panic _) => ({ s with w := some w' }, "panic")

def step (s : Session) (toks : List String) : Session × String :=
  match toks with
  | ["new", nv, mn, sha, crc, k, len, ts, map] =>
    let sha? : Option (Option (List UInt8)) :=
      if sha == "none" then some none
      else match parseData sha with
        | some b => if b.length = 32 then some (some b) else none
        | none => none
    let k? : Option Kind := if k == "c" then some .client else if k == "s" then some .server else none
    match parseData nv, parseData mn, sha?, parseNat crc, k?, parseInt len, parseData ts, parseData map with
    | some nv, some mn, some sha, some crc, some k, some len, some ts, some map =>
      if crc ≥ 4294967296 ∨ ¬ Tw.Packer.inI32 len then ({}, "bad-args")
      else
        match Writer.new { netVersion := nv, mapName := mn, sha := sha, crc := crc, kind := k,
                           length := len, timestamp := ts, map := map } with
        | none => ({}, "panic")
        | some w => ({ w := some w }, s!"ok {w.file.length} {fnvBytes fnvOffset w.file}")
    | _, _, _, _, _, _, _, _ => ({}, "bad-args")
  | ["sweep", ver, pre, lo, hi] =>
    match parseNat ver, parseNat pre, parseNat lo, parseNat hi with
    | some ver, some pre, some lo, some hi =>
      if ver > 255 ∨ pre > 1 ∨ hi > 65536 ∨ lo > hi then (s, "bad-args")
      else
        let h := (List.range (hi - lo)).foldl (fun h i =>
          fnvByte (fnvString h (readStr (sweepFile ver (pre == 1) (lo + i)))) 10) fnvOffset
        (s, s!"h {h}")
    | _, _, _, _ => (s, "bad-args")
  | ["raw", d] =>
    match parseData d with
    | some d => (s, readStr d)
    | none => (s, "bad-args")
  | op :: args =>
    match s.w with
    | none => (s, "no-writer")
    | some w =>
      match op, args with
      | "t", [kf, t] =>
        match parseNat kf, parseInt t with
        | some kf, some t =>
          if kf > 1 ∨ ¬ Tw.Packer.inI32 t then (s, "bad-args") else wres s (w.writeTick (kf == 1) t)
        | _, _ => (s, "bad-args")
      | "s", [d] =>
        match parseData d with
        | some d => wres s (w.writeChunk (.snapshot d))
        | none => (s, "bad-args")
      | "d", [d] =>
        match parseData d with
        | some d => wres s (w.writeChunk (.delta d))
        | none => (s, "bad-args")
      | "m", [d] =>
        match parseData d with
        | some d => wres s (w.writeChunk (.message d))
        | none => (s, "bad-args")
      | "u", [] => wres s (w.writeChunk .unknown)
      | "file", [] => (s, dataTok w.file)
      | "read", [] => (s, readStr w.file)
      | "readmut", [off, x] =>
        match parseNat off, parseNat x with
        | some off, some x =>
          if w.file.isEmpty then (s, "bad-args")
          else
            let i := off % w.file.length
            let f := w.file.take i ++ ((w.file.drop i).take 1).map (· ^^^ UInt8.ofNat x) ++ w.file.drop (i + 1)
            (s, readStr f)
        | _, _ => (s, "bad-args")
      | "mutall", [] =>
        -- every single-byte corruption (xor 0x01, 0x80, 0xff) and every truncation of the file, hash form
        let f := w.file
        let n := f.length
        let h := (List.range n).foldl (fun h i =>
          let pre := f.take i
          let post := f.drop (i + 1)
          let b := (f.drop i).head!
          let h := [0x01, 0x80, 0xff].foldl (fun h (x : UInt8) =>
            fnvByte (fnvString h (readStr (pre ++ (b ^^^ x) :: post))) 10) h
          fnvByte (fnvString h (readStr pre)) 10) fnvOffset
        (s, s!"h {h}")
      | "readtrunc", [n] =>
        match parseNat n with
        | some n => (s, readStr (w.file.take (n % (w.file.length + 1))))
        | none => (s, "bad-args")
      | _, _ => (s, "bad-op")
  | _ => (s, "bad-op")

def main : IO Unit := runLoop step {}

end Tw.Drv.Demo
