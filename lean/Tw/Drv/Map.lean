import Tw.Model.Map
import Tw.Model.Inflate
import Tw.Drv.Util
import Tw.Drv.Datafile
import Tw.Model.MapWriter

/-! Line protocol for domain `map` (implementation side: `harness/src/d_map.rs`).

`mopen <hex>`: open the bytes as a map and call everything the map reader exposes. -/
namespace Tw.Drv.Map
open Tw.Datafile Tw.Map Tw.Gen.MapItems Tw.Drv

def z : Zlib := Tw.Inflate.inflate

abbrev Acc := Except Unit

/-- `error ()` = a panic somewhere -/
def run {α : Type} (f : α → String) : Res α → Acc String
  | .ok a => pure (f a)
  | .err e => pure s!"e:{e}"
  | .panic _ => throw ()

def opt : Option Nat → String
  | none => "-"
  | some n => toString n

def le32 (v : Nat) : List UInt8 :=
  [UInt8.ofNat v, UInt8.ofNat (v / 256), UInt8.ofNat (v / 65536), UInt8.ofNat (v / 16777216)]

def bytesStr (bs : List UInt8) : String := s!"b{bs.length}:{fnvBytes fnvOffset bs}"

def groupStr (g : Group) : String :=
  let clip := match g.clipping with
    | none => "-"
    | some (x, y, w, h) => s!"{x}:{y}:{w}:{h}"
  s!"G({g.offsetX},{g.offsetY},{g.parallaxX},{g.parallaxY},{g.layersStart}..{g.layersEnd},{clip},{toHex g.name})"

def tyStr : TilemapType → String
  | .normal (r, g, b, a) env img data =>
    let e := match env with
      | none => "-"
      | some (i, off) => s!"{i}:{off}"
    s!"N({r}.{g}.{b}.{a},{e},{opt img},{data})"
  | .game d => s!"G({d})"
  | .teleport d zz => s!"Te({d},{zz})"
  | .speedup d zz => s!"Sp({d},{zz})"
  | .front d zz => s!"Fr({d},{zz})"
  | .switch d zz => s!"Sw({d},{zz})"
  | .tune d zz => s!"Tu({d},{zz})"

def layerStr (l : Layer) : String :=
  (if l.detail then "D" else "N") ++
    match l.t with
    | .quads q => s!"Q({q.numQuads},{q.data},{opt q.image},{toHex q.name})"
    | .sounds s => s!"S({s.numSources},{s.data},{opt s.sound},{if s.legacy then 1 else 0},{toHex s.name})"
    | .tilemap t => s!"T({t.width},{t.height},{tyStr t.type},{toHex t.name})"

def imageStr (i : Image) : String := s!"{i.width},{i.height},{i.name},{opt i.data}"

def infoStr (i : Info) : String :=
  s!"{opt i.author},{opt i.version},{opt i.credits},{opt i.license},{opt i.settings}"

/-- the typed tile accessor for a tile layer type -/
def tilesOf (r : Reader) (ty : TilemapType) (width height : Nat) : Res (List UInt8) :=
  match ty with
  | .normal _ _ _ d => tiles r z d width height sizeOf_Tile "InvalidTilesLength"
  | .game d => tiles r z d width height sizeOf_Tile "InvalidTilesLength"
  | .front d _ => tiles r z d width height sizeOf_Tile "InvalidTilesLength"
  | .teleport d _ => tiles r z d width height sizeOf_TeleTile "InvalidTeleTilesLength"
  | .speedup d _ => tiles r z d width height sizeOf_SpeedupTile "InvalidTeleTilesLength"
  | .switch d _ => tiles r z d width height sizeOf_SwitchTile "InvalidTeleTilesLength"
  | .tune d _ => tiles r z d width height sizeOf_TuneTile "InvalidTuneTilesLength"

def settingsStr (s : List UInt8) : Acc String :=
  match settingsAll s (s.length + 2) 0 with
  | none => pure "HANG"
  | some (.ok items) => pure s!"{bytesStr s}[{",".intercalate (items.map bytesStr)}]"
  | some (.err e) => pure s!"e:{e}"
  | some (.panic _) => throw ()

def foldRes (h : UInt64) : Res (List UInt8) → Acc UInt64
  | .ok bs => pure (fnvBytes (fnvBytes (fnvByte h 1) (le32 bs.length)) bs)
  | .err e => pure (fnvString (fnvByte h 0) e)
  | .panic _ => throw ()

def rangeFrom (a n : Nat) : List Nat := (List.range n).map (· + a)

def describe (r : Reader) : Acc String := do
  let v ← run toString (version r)
  let cv ← run (fun _ => "ok") (checkVersion r)
  let inf ← run infoStr (info r)
  let mut ss : List String := []
  match info r with
  | .ok i =>
    for d in [i.author, i.version, i.credits, i.license] do
      match d with
      | some d => ss := ss ++ [← run bytesStr (Tw.Map.string r z d)]
      | none => ss := ss ++ ["-"]
    match i.settings with
    | some d =>
      match settings r z d with
      | .ok s => ss := ss ++ [← settingsStr s]
      | .err e => ss := ss ++ [s!"e:{e}"]
      | .panic _ => throw ()
    | none => ss := ss ++ ["-"]
  | _ => pure ()
  let (ga, gb) ← match typeRange r MAP_ITEMTYPE_GROUP with
    | .ok x => pure x
    | _ => throw ()
  let mut gs : List String := []
  for i in rangeFrom ga (gb - ga) do
    let g := group r i
    let mut s ← run groupStr g
    match g with
    | .ok g =>
      let mut ls : List String := []
      for k in rangeFrom g.layersStart (g.layersEnd - g.layersStart) do
        let l := layer r k
        let mut t ← run layerStr l
        match l with
        | .ok { t := .tilemap tm, .. } =>
          t := t ++ "=" ++ (← run bytesStr (tilesOf r tm.type tm.width tm.height))
        | _ => pure ()
        ls := ls ++ [s!"{k}={t}"]
      s := s ++ "{" ++ ";".intercalate ls ++ "}"
    | _ => pure ()
    gs := gs ++ [s!"{i}={s}"]
  let (la, lb) ← match typeRange r MAP_ITEMTYPE_LAYER with
    | .ok x => pure x
    | _ => throw ()
  let mut ls : List String := []
  for k in rangeFrom la (lb - la) do
    ls := ls ++ [← run layerStr (layer r k)]
  let (ia, ib) ← match typeRange r MAP_ITEMTYPE_IMAGE with
    | .ok x => pure x
    | _ => throw ()
  let mut ms : List String := []
  for i in rangeFrom ia (ib - ia) do
    let im := image r i
    let mut s ← run imageStr im
    match im with
    | .ok im =>
      s := s ++ ":" ++ (← run bytesStr (imageName r z im.name))
      match im.data with
      | some d => s := s ++ ":" ++ (← run bytesStr (Tw.Map.readData r z d))
      | none => pure ()
    | _ => pure ()
    ms := ms ++ [s]
  let gl := gameLayers r
  let mut gls ← run (fun gl =>
    s!"{groupStr gl.group},{gl.width},{gl.height},{gl.game},{opt gl.teleport},{opt gl.speedup},{opt gl.front},{opt gl.switch},{opt gl.tune}") gl
  match gl with
  | .ok gl =>
    let tl (d : Option Nat) (size : Nat) (e : String) : Acc String :=
      match d with
      | some d => run bytesStr (tiles r z d gl.width gl.height size e)
      | none => pure "-"
    gls := gls ++ "=" ++ ",".intercalate [
      ← tl (some gl.game) sizeOf_Tile "InvalidTilesLength",
      ← tl gl.teleport sizeOf_TeleTile "InvalidTeleTilesLength",
      ← tl gl.speedup sizeOf_SpeedupTile "InvalidTeleTilesLength",
      ← tl gl.front sizeOf_Tile "InvalidTilesLength",
      ← tl gl.switch sizeOf_SwitchTile "InvalidTeleTilesLength",
      ← tl gl.tune sizeOf_TuneTile "InvalidTuneTilesLength"]
  | _ => pure ()
  let nd ← match numData r with
    | .ok n => pure n
    | _ => throw ()
  let mut h := fnvOffset
  for d in List.range nd do
    h ← foldRes h (Tw.Map.string r z d)
    let st := settings r z d
    h ← foldRes h st
    match st with
    | .ok s =>
      match settingsAll s (s.length + 2) 0 with
      | some (.ok items) =>
        for it in items do
          h := fnvByte (fnvBytes h it) 0xfe
      | some (.panic _) => throw ()
      | _ => h := fnvByte h 0xfd
    | _ => pure ()
    h ← foldRes h (imageName r z d)
    h ← foldRes h (tilesRaw r z d sizeOf_Tile "InvalidTilesLength")
    h ← foldRes h (tilesRaw r z d sizeOf_TeleTile "InvalidTeleTilesLength")
    h ← foldRes h (tilesRaw r z d sizeOf_SpeedupTile "InvalidTeleTilesLength")
    h ← foldRes h (tilesRaw r z d sizeOf_SwitchTile "InvalidTeleTilesLength")
    h ← foldRes h (tilesRaw r z d sizeOf_TuneTile "InvalidTuneTilesLength")
  pure s!"ok V={v} CV={cv} I={inf} S={listStr ss} G={listStr gs} L={listStr ls} M={listStr ms} GL={gls} X={h}"

def openLine (bs : List UInt8) : String :=
  match Reader.new bs with
  | .panic _ => "panic-new"
  | .err e => s!"err {e.name}"
  | .ok r =>
    match describe r with
    | .ok s => s
    | .error () => "panic-acc"

/-- `fopen`: the file-backed datafile reader opened at an offset; items and data -/
def fopenLine (file : List UInt8) (start : Nat) : String :=
  match fileOpen file start with
  | .panic _ => "panic-new"
  | .err e => s!"err {e.name}"
  | .ok r =>
    let res : Acc String := do
      let ni ← match r.numItemsU with | .ok n => pure n | _ => throw ()
      let nd ← match r.numDataU with | .ok n => pure n | _ => throw ()
      let mut is : List String := []
      for i in List.range ni do
        match r.item i with
        | .ok v => is := is ++ [s!"{v.typeId}.{v.id}.{toHex (bytesOfWords v.data)}"]
        | _ => throw ()
      let mut ds : List String := []
      for i in List.range nd do
        match r.readData z i with
        | .ok bs => ds := ds ++ [toHex bs]
        | .err e => ds := ds ++ [s!"e:{e.name}"]
        | .panic _ => throw ()
      pure s!"ok {Tw.Drv.Datafile.verStr r.version} {ni},{nd} I={listStr is} D={listStr ds}"
    match res with
    | .ok s => s
    | .error () => "panic-acc"

def handle (toks : List String) : String :=
  match toks with
  | ["fopen", st, h, _, _] =>
    match parseNat st, parseHex h with
    | some st, some bs => fopenLine bs st
    | _, _ => "bad-op"
  | ["msample", k] =>
    -- the file the map writer model produces for a sample map (to regenerate corpus/map/written-maps.txt)
    match parseNat k with
    | some k => s!"mopen {toHex (writeMap Tw.Inflate.deflateStored (sampleMap k))}"
    | none => "bad-op"
  | ["mopen", h] =>
    match parseHex h with
    | some bs => openLine bs
    | none => "bad-op"
  | _ => "bad-op"

def main : IO Unit := runStateless handle

end Tw.Drv.Map
