import Tw.Model.Packer
import Tw.Proofs.Packer
import Tw.Proofs.PackerFields
import Tw.Proofs.PackerSeq
import Tw.Gen.Packer
import Tw.Proofs.RsPacker

/-!
# C08 — variable-length integers and packed fields round-trip canonically

Property theorems only (helper lemmas live in `Tw/Proofs/Packer*.lean`).  The model is
`Tw/Model/Packer.lean`; it is tied to `packer/src/lib.rs` by the `packer` correspondence domain
(exhaustive over all 2^32 integers in the thorough tier) and by the literal ties below.
An `i32` is an `Int` satisfying `inI32`; a byte string is a `List UInt8`; `readInt bs = none` is
`Err(UnexpectedEnd)`.
-/
namespace Tw.Props.C08
open Tw.Packer

/-! ## Ties to the source -/

/-- The significant constants of `read_int` (named constants resolved, sorted): the digit widths
6 and 7 (6 twice: sign position and first-byte digits), the masks `0x3f`, `0x7f`, `0x80`, `0xf0` — the
numbers the model was written against.  Robust against renaming a magic number into a constant or
restructuring the loop; breaks when a mask or width changes. -/
theorem tie_read_int : Tw.Gen.Packer.sig_read_int = [6, 6, 7, 63, 127, 128, 240] := by decide

/-- … of `write_int`: buffer size 5, widths 6/7 (and the bit positions 6/7 of `to_bit`), masks. -/
theorem tie_write_int : Tw.Gen.Packer.sig_write_int = [5, 6, 6, 7, 7, 7, 63, 127] := by decide

/-- demo-mode `finish` and `new_from_demo`: the padding unit 4. -/
theorem tie_finish : Tw.Gen.Packer.sig_finish = [4] ∧ Tw.Gen.Packer.sig_new_from_demo = [4] := by
  decide

/-! ## Integers -/

/-- Every 32-bit integer is packed into one to five bytes … -/
theorem writeInt_length (v : Int) : 1 ≤ (writeInt v).length ∧ (writeInt v).length ≤ 5 :=
  Tw.Packer.writeInt_length v

/-- … that unpack to the same integer with no warning and nothing left over (for every
continuation `rest` of the byte string, which is returned untouched). -/
theorem readInt_writeInt (v : Int) (h : inI32 v) (rest : List UInt8) :
    readInt (writeInt v ++ rest) = some (v, rest, []) :=
  Tw.Packer.readInt_writeInt v h rest

/-- Canonicity: whenever decoding succeeds, the consumed bytes `c` (1 to 5 of them) are a prefix
of the input, the value is a 32-bit integer, decoding is warning-free **exactly when** `c` is the
packer's encoding of the value, and no shorter encoding of the value exists than the canonical one
(`(writeInt v).length ≤ c.length` for every byte string `c` that decodes to `v`). -/
theorem readInt_canonical (bs : List UInt8) (v : Int) (rest : List UInt8) (ws : List Warning)
    (h : readInt bs = some (v, rest, ws)) :
    ∃ c, bs = c ++ rest ∧ 1 ≤ c.length ∧ c.length ≤ 5 ∧ inI32 v ∧
      (ws = [] ↔ c = writeInt v) ∧ (writeInt v).length ≤ c.length :=
  Tw.Packer.readInt_inv bs v rest ws h

/-- Decoding fails only because the string ends too early: every byte present has its extend
bit set and there are fewer than five of them (the empty string included). -/
theorem readInt_fails_iff_truncated (bs : List UInt8) :
    readInt bs = none ↔ (bs.length < 5 ∧ ∀ b ∈ bs, 128 ≤ b.toNat) :=
  Tw.Packer.readInt_none_iff bs

/-- For zero padding bits decoding yields the value `doc/int.md` prescribes (`docValue` is
defined from the document's bit picture, independently of `readInt`). -/
theorem readInt_documented_value (bs : List UInt8) (v : Int) (rest : List UInt8)
    (ws : List Warning) (h : readInt bs = some (v, rest, ws))
    (hpad : Warning.nonZeroIntPadding ∉ ws) :
    ∃ c, bs = c ++ rest ∧ v = docValue c :=
  Tw.Packer.readInt_doc bs v rest ws h hpad

/-! ## Field sequences (strings, length-prefixed data, raw bytes, integers) -/

/-- Packing well-formed fields into a buffer: it succeeds iff the encodings fit in the remaining
capacity and then appends exactly the concatenated encodings; otherwise it returns
`CapacityError` having written a prefix of the encodings that stays within the capacity. -/
theorem packAll_spec (fs : List Field) (hwf : ∀ f ∈ fs, f.wf) (b : Buf) (hb : b.data.length ≤ b.cap) :
    (totalLen fs ≤ b.remaining → packAll b fs = ({ b with data := b.data ++ encodeAll fs }, .ok)) ∧
    (b.remaining < totalLen fs →
      ∃ k, packAll b fs = ({ b with data := b.data ++ (encodeAll fs).take k }, .capacity) ∧
        b.data.length + ((encodeAll fs).take k).length ≤ b.cap) :=
  Tw.Packer.packAll_spec fs hwf b hb

/-- What the packer wrote is read back identically, with nothing consumed beyond it and no
warning. -/
theorem unpackAll_encodeAll (fs : List Field) (hwf : ∀ f ∈ fs, f.wf) (rest : List UInt8) :
    unpackAll (encodeAll fs ++ rest) (fs.map Field.kind) = (fs.map Field.value, true, rest, []) :=
  Tw.Packer.unpackAll_encodeAll fs hwf rest

/-- Reading never runs past what is there: after any single read (successful or not) the
remaining input is a suffix of the previous input. -/
theorem unpackOne_suffix (inp : List UInt8) (k : Kind) :
    ∃ c, inp = c ++ (unpackOne inp k).2.1 :=
  Tw.Packer.unpackOne_suffix inp k

/-- Demo-mode `finish` warns iff at least four bytes or a non-zero byte remain. -/
theorem finish_demo (rest : List UInt8) :
    finishWarns true rest = true ↔ (4 ≤ rest.length ∨ ∃ b ∈ rest, b ≠ 0) := by
  simp [finishWarns]

/-! ## Non-vacuity -/

example : inI32 (-2147483648) ∧ inI32 2147483647 := by decide
example : readInt (writeInt (-2147483648) ++ [7]) = some (-2147483648, [7], []) := by decide
example : readInt [0x80, 0x00] = some (0, [], [Warning.overlongIntEncoding]) := by decide
example : (Field.str [65, 66]).wf ∧ (Field.data [1, 2, 3]).wf ∧ (Field.int (-5)).wf := by
  refine ⟨?_, ?_, ?_⟩ <;> simp [Field.wf] <;> decide
example : readInt [0xff, 0xff] = none := by decide

/-! ## Function-level tie (`tools/rs2lean`): `to_bit` of `packer/src/lib.rs`

`Tw.Gen.RsPacker.to_bit` is regenerated from the Rust source on every run (`write_int`, `read_int`
are generated next to it; their equivalence with `writeInt`/`readInt` is work in progress, see
`notes/rs2lean.md`). -/

/-- `to_bit(b, bit)` sets exactly bit `bit` when `b` holds, and panics iff the assertion `bit < 8`
fails (the model's `writeInt` uses it as `(if … then 128 else 0)` / `sign * 64`). -/
theorem tie_rs_to_bit (b : Bool) (bit : Nat) :
    (bit < 8 → Tw.Gen.RsPacker.to_bit b bit = .ok (if b then 2 ^ bit else 0)) ∧
    (8 ≤ bit → ∃ p, Tw.Gen.RsPacker.to_bit b bit = .error p) :=
  ⟨Tw.RsPacker.to_bit_eq b bit, Tw.RsPacker.to_bit_panics b bit⟩

end Tw.Props.C08
