import Tw.Model.Packer
import Tw.Proofs.Packer
import Tw.Gen.Packer

/-!
# C08 — variable-length integers and packed fields round-trip canonically

Property theorems only (helper lemmas live in `Tw/Proofs/Packer.lean`).  The model is
`Tw/Model/Packer.lean`; it is tied to `packer/src/lib.rs` by the `packer` correspondence domain
(exhaustive over all 2^32 integers in the thorough tier) and by the literal ties below.
-/
namespace Tw.Props.C08
open Tw.Packer

/-- Tie to the source: the integer literals of `read_int`, in source order, are the ones the model
was written against (masks `0x3f`, `0x80`, `0xf0`, `0x7f`, shifts `6 + 7*i`, 4 iterations). -/
theorem tie_read_int :
    Tw.Gen.Packer.lits_read_int = [0, 1, 6, 1, 63, 0, 4, 128, 0, 1, 3, 240, 0, 127, 6, 7, 1, 0] := by
  decide

theorem tie_write_int :
    Tw.Gen.Packer.lits_write_int = [5, 0, 1, 0, 63, 6, 0, 7, 0, 6, 0, 127, 7, 0, 7] := by decide

theorem tie_finish : Tw.Gen.Packer.lits_finish = [4, 0] ∧ Tw.Gen.Packer.lits_new_from_demo = [4, 0] := by
  decide

/-- Every 32-bit integer is packed into one to five bytes … -/
theorem writeInt_length (v : Int) : 1 ≤ (writeInt v).length ∧ (writeInt v).length ≤ 5 :=
  Tw.Packer.writeInt_length v

/-- … that unpack to the same integer with no warning and nothing left over (for every
continuation `rest` of the byte string, which is returned untouched). -/
theorem readInt_writeInt (v : Int) (h : inI32 v) (rest : List UInt8) :
    readInt (writeInt v ++ rest) = some (v, rest, []) :=
  Tw.Packer.readInt_writeInt v h rest

-- non-vacuity: the hypotheses are met by the extreme values, and the statement computes
example : inI32 (-2147483648) ∧ inI32 2147483647 := by decide
example : readInt (writeInt (-2147483648) ++ [7]) = some (-2147483648, [7], []) := by decide

end Tw.Props.C08
