import Tw.Model.Teehistorian
import Tw.Gen.Teehistorian
import Tw.Proofs.TeehistParse
import Tw.Proofs.TeehistRun
import Tw.Proofs.TeehistInterp

/-!
# C17 — teehistorian reading is independent of stream fragmentation

Property theorems only; helper lemmas live in `Tw/Proofs/Teehist*.lean`.  The model is
`Tw/Model/Teehistorian.lean`; it is tied to `teehistorian/src/{raw.rs,format/item.rs}` by the
`teehist` correspondence domain and by the `tie_*` theorems over the regenerated tables below.
-/
namespace Tw.Props.C17
open Tw.Teehistorian

/-! ### Ties to the source -/

/-- Item ids and table sizes. -/
theorem tie_ids :
    Gen.Teehistorian.FINISH = -1 ∧ Gen.Teehistorian.TICK_SKIP = -2 ∧ Gen.Teehistorian.PLAYER_NEW = -3 ∧
    Gen.Teehistorian.PLAYER_OLD = -4 ∧ Gen.Teehistorian.INPUT_DIFF = -5 ∧ Gen.Teehistorian.INPUT_NEW = -6 ∧
    Gen.Teehistorian.MESSAGE = -7 ∧ Gen.Teehistorian.JOIN = -8 ∧ Gen.Teehistorian.DROP = -9 ∧
    Gen.Teehistorian.CONSOLE_COMMAND = -10 ∧ Gen.Teehistorian.EX = -11 ∧
    Gen.Teehistorian.INPUT_LEN = 10 ∧ Gen.Teehistorian.CONSOLE_COMMAND_MAX_ARGS = 16 ∧
    Gen.Teehistorian.BUFFER_SIZE = 8192 := by decide

/-- `Kind::decode` dispatches exactly as `kindOfId` does: which ids exist, which read a second
integer, which is guarded by `version.has_ex()`. -/
theorem tie_kind_arms :
    Gen.Teehistorian.kindArms =
      [("FINISH", false, "Finish", false), ("TICK_SKIP", false, "TickSkip", false),
       ("PLAYER_NEW", false, "PlayerNew", true), ("PLAYER_OLD", false, "PlayerOld", true),
       ("INPUT_DIFF", false, "InputDiff", false), ("INPUT_NEW", false, "InputNew", false),
       ("MESSAGE", false, "Message", false), ("JOIN", false, "Join", false), ("DROP", false, "Drop", false),
       ("CONSOLE_COMMAND", false, "ConsoleCommand", false), ("EX", true, "Ex", false)] := by decide

/-- The read sequences of the `decode` functions that `parseRest` models by hand
(0 int, 1 string, 2 data; `ConsoleCommand` ends with the string read inside its loop). -/
theorem tie_core_decodes :
    ["PlayerDiff", "Finish", "TickSkip", "PlayerNew", "PlayerOld", "InputDiff", "InputNew", "Message", "Join",
      "Drop", "ConsoleCommand"].map (fun n => Gen.Teehistorian.decodeReads.lookup n) =
    [some ([0, 0], ["dx", "dy"]), some ([], []), some ([0], ["dt"]), some ([0, 0], ["x", "y"]), some ([], []),
     some ([0, 0, 0, 0, 0, 0, 0, 0, 0, 0, 0], ["cid", "diff"]),
     some ([0, 0, 0, 0, 0, 0, 0, 0, 0, 0, 0], ["cid", "new"]),
     some ([0, 2], ["cid", "msg"]), some ([0], ["cid"]), some ([0, 1], ["cid", "reason"]),
     some ([0, 0, 1, 0, 1], ["cid", "flag_mask", "cmd", "num_args"])] := by decide

/-- The extension table the model dispatches on has one row per UUID constant, every row was
assembled completely (UUID bytes and read sequence found), and no two rows share a UUID. -/
theorem tie_ex_table :
    exTable.length = Gen.Teehistorian.uuids.length ∧ exTable.length = 20 ∧
    (exTable.map (·.uuid)).Nodup ∧ exTable.all (fun r => r.uuid.length == 16) = true := by decide

/-- `Item::cid` returns the first field exactly for the variants whose first field is called
`cid` (the model takes the first value for the variants listed in `cidSome`). -/
theorem tie_cid_table :
    (Gen.Teehistorian.decodeReads.filter fun (_, _, names) => names.head? == some "cid").map (·.1) =
      Gen.Teehistorian.cidSome.filter (fun n => ! ["PlayerDiff", "PlayerNew", "PlayerOld"].contains n) ∨
    ((Gen.Teehistorian.decodeReads.filter fun (_, _, names) => names.head? == some "cid").all
        (fun (n, _, _) => Gen.Teehistorian.cidSome.contains n) = true ∧
     (Gen.Teehistorian.decodeReads.filter fun (_, _, names) => names.head? != some "cid").all
        (fun (n, _, _) => Gen.Teehistorian.cidNone.contains n || ["PlayerDiff", "PlayerNew", "PlayerOld"].contains n) = true) := by
  right; decide

/-- The statements of `Reader::read` that assign the tick state, in source order: the model's
`Reader.pre`/`Reader.post` were written against exactly these (including the
`prev_player_cid = None` of the `TickSkip` branch, the repair of defect D11). -/
theorem tie_read_assignments :
    Gen.Teehistorian.readAssigns.map (·.1) =
      ["next_item_kind", "in_tick", "tick", "prev_player_cid", "next_item_kind", "in_tick",
       "next_item_kind", "in_tick", "max_cid", "tick", "prev_player_cid", "in_tick", "in_tick",
       "prev_player_cid", "prev_player_cid", "prev_player_cid"] ∧
    Gen.Teehistorian.readAssigns.filter (·.1 == "prev_player_cid") =
      [("prev_player_cid", "None"), ("prev_player_cid", "None"), ("prev_player_cid", "Some(i.cid)"),
       ("prev_player_cid", "Some(i.cid)"), ("prev_player_cid", "Some(i.cid)")] ∧
    Gen.Teehistorian.lits_read = [1, 1] ∧ Gen.Teehistorian.lits_empty = [0, 1] := by decide

/-! ### Prefix monotonicity of every item parser -/

/-- A parse result obtained on a prefix of the stream is final (item id). -/
theorem parseKind_prefix_ok (hasEx : Bool) (p q rest : List UInt8) (k : Kind)
    (h : parseKind hasEx p = .ok k rest) : parseKind hasEx (p ++ q) = .ok k (rest ++ q) :=
  ((good_parseKind hasEx p).1 k rest h).2 q

theorem parseKind_prefix_err (hasEx : Bool) (p q : List UInt8) (e : ItemErr)
    (h : parseKind hasEx p = .err e) : parseKind hasEx (p ++ q) = .err e :=
  (good_parseKind hasEx p).2 e h q

/-- A parse result obtained on a prefix of the stream is final (rest of every record kind,
including every extension item). -/
theorem parseRest_prefix_ok (k : Kind) (p q rest : List UInt8) (it : FItem)
    (h : parseRest k p = .ok it rest) : parseRest k (p ++ q) = .ok it (rest ++ q) :=
  ((good_parseRest k p).1 it rest h).2 q

theorem parseRest_prefix_err (k : Kind) (p q : List UInt8) (e : ItemErr)
    (h : parseRest k p = .err e) : parseRest k (p ++ q) = .err e :=
  (good_parseRest k p).2 e h q

/-- What a successful parse consumed is a prefix of its input (the committed offset never
exceeds the buffered bytes). -/
theorem parse_consumes_prefix (hasEx : Bool) (k : Kind) (p rest : List UInt8) :
    (∀ k', parseKind hasEx p = .ok k' rest → ∃ pre, p = pre ++ rest ∧ pre ≠ []) ∧
    (∀ it, parseRest k p = .ok it rest → ∃ pre, p = pre ++ rest) := by
  refine ⟨fun k' h => ?_, fun it h => ((good_parseRest k p).1 it rest h).1⟩
  obtain ⟨pre, hpre⟩ := ((good_parseKind hasEx p).1 k' rest h).1
  refine ⟨pre, hpre, ?_⟩
  intro hnil
  have := parseKind_consumes h
  rw [hpre, hnil] at this
  simp at this

/-! ### Independence from the fragmentation -/

/-- **Every read schedule yields the reference output.**  `hdr` is the fixed valid header, `s` the
stream after it, `ds` the sizes the read callback returns (zero allowed; afterwards it delivers as
much as fits, then EOF). -/
theorem run_eq_runWhole (cfg : Cfg) (hdr s : List UInt8) (ds : List Nat) :
    run cfg hdr.length (hdr ++ s) ds = runWhole cfg s :=
  Tw.Teehistorian.run_eq_runWhole cfg hdr s ds

/-- **The item sequence and the final result do not depend on how the stream is split across read
callbacks.** -/
theorem fragmentation_independent (cfg : Cfg) (hdr s : List UInt8) (ds₁ ds₂ : List Nat) :
    run cfg hdr.length (hdr ++ s) ds₁ = run cfg hdr.length (hdr ++ s) ds₂ := by
  rw [run_eq_runWhole, run_eq_runWhole]

-- non-vacuity: PLAYER_NEW 2; PLAYER_NEW 3; TICK_SKIP 0; PLAYER_DIFF 2; FINISH behind a 3-byte
-- "header", read byte by byte / with empty reads / in one piece
example :
    run ⟨true, 1000⟩ 3 ([9, 9, 9] ++ [0x42, 2, 0, 0, 0x42, 3, 0, 0, 0x41, 0, 2, 1, 1, 0x40]) (List.replicate 17 1) =
      ⟨[.tickStart 0, .playerNew 2 0 0, .playerNew 3 0 0, .tickEnd 0, .tickStart 1,
        .playerChange 2 1 1 0 0, .tickEnd 1], .finished, 4⟩ := by decide +kernel
example :
    run ⟨true, 1000⟩ 3 ([9, 9, 9] ++ [0x42, 2, 0, 0, 0x42, 3, 0, 0, 0x41, 0, 2, 1, 1, 0x40]) [0, 5, 0, 0, 2] =
      runWhole ⟨true, 1000⟩ [0x42, 2, 0, 0, 0x42, 3, 0, 0, 0x41, 0, 2, 1, 1, 0x40] := by decide +kernel

end Tw.Props.C17
