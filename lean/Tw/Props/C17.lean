import Tw.Model.Teehistorian
import Tw.Gen.Teehistorian
import Tw.Proofs.TeehistParse
import Tw.Proofs.TeehistRun
import Tw.Proofs.TeehistInterp
import Tw.Proofs.TeehistSem
import Tw.Proofs.TeehistTicks
import Tw.Proofs.TeehistSums
import Tw.Proofs.TeehistTables
import Tw.Model.TeehistorianSpec

/-!
# C17 — teehistorian reading is independent of stream fragmentation

Property theorems only; helper lemmas live in `Tw/Proofs/Teehist*.lean`.  The model is
`Tw/Model/Teehistorian.lean`; it is tied to `teehistorian/src/{raw.rs,format/item.rs}` by the
`teehist` correspondence domain and by the `tie_*` theorems over the regenerated tables below.
-/
namespace Tw.Props.C17
open Tw.Teehistorian Tw.Teehistorian.Spec

/-! ### Ties to the source -/

/-- Item ids and table sizes. -/
theorem tie_ids :
    Gen.Teehistorian.FINISH = -1 ∧ Gen.Teehistorian.TICK_SKIP = -2 ∧ Gen.Teehistorian.PLAYER_NEW = -3 ∧
    Gen.Teehistorian.PLAYER_OLD = -4 ∧ Gen.Teehistorian.INPUT_DIFF = -5 ∧ Gen.Teehistorian.INPUT_NEW = -6 ∧
    Gen.Teehistorian.MESSAGE = -7 ∧ Gen.Teehistorian.JOIN = -8 ∧ Gen.Teehistorian.DROP = -9 ∧
    Gen.Teehistorian.CONSOLE_COMMAND = -10 ∧ Gen.Teehistorian.EX = -11 ∧
    Gen.Teehistorian.INPUT_LEN = 10 ∧ Gen.Teehistorian.CONSOLE_COMMAND_MAX_ARGS = 16 ∧
    Gen.Teehistorian.BUFFER_SIZE = 8192 := by decide

/-- `Kind::decode` dispatches exactly as `kindOfId` does: which ids exist, which read a second
integer, which is guarded by `version.has_ex()`. -/
theorem tie_kind_arms :
    Gen.Teehistorian.kindArms =
      [("FINISH", false, "Finish", false), ("TICK_SKIP", false, "TickSkip", false),
       ("PLAYER_NEW", false, "PlayerNew", true), ("PLAYER_OLD", false, "PlayerOld", true),
       ("INPUT_DIFF", false, "InputDiff", false), ("INPUT_NEW", false, "InputNew", false),
       ("MESSAGE", false, "Message", false), ("JOIN", false, "Join", false), ("DROP", false, "Drop", false),
       ("CONSOLE_COMMAND", false, "ConsoleCommand", false), ("EX", true, "Ex", false)] := by decide

/-- The read sequences of the `decode` functions that `parseRest` models by hand
(0 int, 1 string, 2 data; `ConsoleCommand` ends with the string read inside its loop). -/
theorem tie_core_decodes :
    ["PlayerDiff", "Finish", "TickSkip", "PlayerNew", "PlayerOld", "InputDiff", "InputNew", "Message", "Join",
      "Drop", "ConsoleCommand"].map (fun n => Gen.Teehistorian.decodeReads.lookup n) =
    [some ([0, 0], ["dx", "dy"]), some ([], []), some ([0], ["dt"]), some ([0, 0], ["x", "y"]), some ([], []),
     some ([0, 0, 0, 0, 0, 0, 0, 0, 0, 0, 0], ["cid", "diff"]),
     some ([0, 0, 0, 0, 0, 0, 0, 0, 0, 0, 0], ["cid", "new"]),
     some ([0, 2], ["cid", "msg"]), some ([0], ["cid"]), some ([0, 1], ["cid", "reason"]),
     some ([0, 0, 1, 0, 1], ["cid", "flag_mask", "cmd", "num_args"])] := by decide

/-- The extension table the model dispatches on has one row per UUID constant, every row was
assembled completely (UUID bytes and read sequence found), and no two rows share a UUID. -/
theorem tie_ex_table :
    exTable.length = Gen.Teehistorian.uuids.length ∧ exTable.length = 20 ∧
    (exTable.map (·.uuid)).Nodup ∧ exTable.all (fun r => r.uuid.length == 16) = true := by decide

/-- `Item::cid` returns the first field exactly for the variants whose first field is called
`cid` (the model takes the first value for the variants listed in `cidSome`). -/
theorem tie_cid_table :
    (Gen.Teehistorian.decodeReads.filter fun (_, _, names) => names.head? == some "cid").map (·.1) =
      Gen.Teehistorian.cidSome.filter (fun n => ! ["PlayerDiff", "PlayerNew", "PlayerOld"].contains n) ∨
    ((Gen.Teehistorian.decodeReads.filter fun (_, _, names) => names.head? == some "cid").all
        (fun (n, _, _) => Gen.Teehistorian.cidSome.contains n) = true ∧
     (Gen.Teehistorian.decodeReads.filter fun (_, _, names) => names.head? != some "cid").all
        (fun (n, _, _) => Gen.Teehistorian.cidNone.contains n || ["PlayerDiff", "PlayerNew", "PlayerOld"].contains n) = true) := by
  right; decide

/-- What `Reader::read` does to the tick state, as the model's `Reader.pre`/`Reader.post` assume it:
every tick update is overflow-checked and reports `TickOverflow`; `prev_player_cid` is only ever
cleared or set to a record's client id; the `TickSkip` arm clears it (the repair of defect D11) and
toggles `in_tick`; the implicit tick is decided by `prev >= cid`.  The translator inlines private
helpers, classifies right-hand sides and normalises the comparison, so that behaviour-preserving
refactorings (helper extraction, renames, `a >= b` ↔ `b <= a`, statement order) leave this tie
intact. -/
theorem tie_read_assignments :
    Gen.Teehistorian.readEffects =
      [("in_tick", "false"), ("in_tick", "true"), ("max_cid", "max"), ("next_item_kind", "Some"),
       ("prev_player_cid", "None"), ("prev_player_cid", "Some"), ("tick", "checked_add:TickOverflow")] ∧
    Gen.Teehistorian.tickSkipEffects =
      [("in_tick", "false"), ("in_tick", "true"), ("prev_player_cid", "None"),
       ("tick", "checked_add:TickOverflow")] ∧
    Gen.Teehistorian.implicitTickCmp = "prev >= cid" ∧
    Gen.Teehistorian.lits_empty = [0, 1] ∧ Gen.Teehistorian.lits_read_more = [0, 0, 0] := by
  decide

/-! ### Prefix monotonicity of every item parser -/

/-- A parse result obtained on a prefix of the stream is final (item id). -/
theorem parseKind_prefix_ok (hasEx : Bool) (p q rest : List UInt8) (k : Kind)
    (h : parseKind hasEx p = .ok k rest) : parseKind hasEx (p ++ q) = .ok k (rest ++ q) :=
  ((good_parseKind hasEx p).1 k rest h).2 q

theorem parseKind_prefix_err (hasEx : Bool) (p q : List UInt8) (e : ItemErr)
    (h : parseKind hasEx p = .err e) : parseKind hasEx (p ++ q) = .err e :=
  (good_parseKind hasEx p).2 e h q

/-- A parse result obtained on a prefix of the stream is final (rest of every record kind,
including every extension item). -/
theorem parseRest_prefix_ok (k : Kind) (p q rest : List UInt8) (it : FItem)
    (h : parseRest k p = .ok it rest) : parseRest k (p ++ q) = .ok it (rest ++ q) :=
  ((good_parseRest k p).1 it rest h).2 q

theorem parseRest_prefix_err (k : Kind) (p q : List UInt8) (e : ItemErr)
    (h : parseRest k p = .err e) : parseRest k (p ++ q) = .err e :=
  (good_parseRest k p).2 e h q

/-- What a successful parse consumed is a prefix of its input (the committed offset never
exceeds the buffered bytes). -/
theorem parse_consumes_prefix (hasEx : Bool) (k : Kind) (p rest : List UInt8) :
    (∀ k', parseKind hasEx p = .ok k' rest → ∃ pre, p = pre ++ rest ∧ pre ≠ []) ∧
    (∀ it, parseRest k p = .ok it rest → ∃ pre, p = pre ++ rest) := by
  refine ⟨fun k' h => ?_, fun it h => ((good_parseRest k p).1 it rest h).1⟩
  obtain ⟨pre, hpre⟩ := ((good_parseKind hasEx p).1 k' rest h).1
  refine ⟨pre, hpre, ?_⟩
  intro hnil
  have := parseKind_consumes h
  rw [hpre, hnil] at this
  simp at this

/-- The header framing the model parses is the generated magic: 16 bytes, the teehistorian UUID. -/
theorem tie_magic :
    Gen.Teehistorian.MAGIC_LEN = 16 ∧ magic.length = 16 ∧
    magic = [0x69, 0x9d, 0xb1, 0x7b, 0x8e, 0xfb, 0x34, 0xff, 0xb1, 0xd8, 0xda, 0x6f, 0x60, 0xc1, 0x5d, 0xd1] := by
  decide

/-- The source of the header framing, the version dispatch, the refill test and the `file.rs`
callback are the ones `pHeader`, `Env.cfgOf`, `readMore` and `fileCb`/`OsRead.ev` were written
against: magic first (`read_raw(MAGIC_LEN)`, compared with `UUID`), then one `read_string`; versions
1 and 2 only, `EX` for every version but 1; a callback result that `is_some` continues, `None` is
`UnexpectedEnd`; `File::read` `Ok(0)` is EOF, `Interrupted` is `Some(0)`, other errors are passed on. -/
theorem tie_header_and_file :
    Gen.Teehistorian.readMagic =
      "{ let magic = p.read_raw(MAGIC_LEN)?; if magic != UUID { return Err(WrongMagic.into()); } Ok(()) }" ∧
    Gen.Teehistorian.readHeaderCalls = ["read_magic", "read_header"] ∧
    Gen.Teehistorian.headerTextRead = "string" ∧
    Gen.Teehistorian.fromHeaderArms =
      [("1", "Reader::empty(format::Version::V1)"), ("2", "Reader::empty(format::Version::V2)"),
       ("_", "return Err(format::Error::UnknownVersion)")] ∧
    Gen.Teehistorian.hasExBody = "{ self != Version::V1 }" ∧
    Gen.Teehistorian.readMoreShape = ["is_some", "Ok(())", "Err(format::Error::UnexpectedEnd.into())"] ∧
    Gen.Teehistorian.fileReadArms =
      [("Ok(0)", "Ok(None)"), ("Ok(read)", "Ok(Some(read))"),
       ("Err(ref e) if e.kind() == io::ErrorKind::Interrupted", "Ok(Some(0))"), ("Err(e)", "Err(e)")] := by
  decide

/-! ### Independence from the fragmentation -/

/-- **Every read schedule yields the reference output — header included.**  `total` is *any* byte
string (the header may be valid, truncated, or carry a wrong magic; its JSON content is judged by
the parameter `env.json`), `ds` the sizes the read callback returns (zero allowed; afterwards it
delivers as much as fits, then EOF).  `reference` parses the header framing and the records on the
complete byte string, without any buffer. -/
theorem run_eq_reference (env : Env) (total : List UInt8) (ds : List Nat) :
    run env total ds = reference env total :=
  runCb_eq_reference env _ (noFail_sizes _ _ _)

/-- **The fragmentation of the header (and of everything after it) does not change the result.** -/
theorem header_fragmentation_independent (env : Env) (total : List UInt8) (ds₁ ds₂ : List Nat) :
    run env total ds₁ = run env total ds₂ := by
  rw [run_eq_reference, run_eq_reference]

/-- The prefix properties of the header framing: a header recognised (or rejected for its magic)
on a prefix of the file is recognised identically on the whole file, and what it consumed is
exactly the header. -/
theorem header_prefix (json : List UInt8 → Except Nat Int) (p q rest : List UInt8) (r : HeaderRes)
    (h : pHeader json p = .ok r rest) :
    pHeader json (p ++ q) = .ok r (rest ++ q) ∧ ∃ pre, p = pre ++ rest :=
  ⟨((good_pHeader json p).1 r rest h).2 q, ((good_pHeader json p).1 r rest h).1⟩

/-- After a complete valid header `hdr` (configuration `cfg`) the output is the reference output of
the stream `s` that follows, for every read schedule. -/
theorem run_eq_runWhole (env : Env) (hdr s : List UInt8) (cfg : Cfg) (hh : HeaderOk env hdr cfg)
    (ds : List Nat) : run env (hdr ++ s) ds = runWhole cfg s :=
  Tw.Teehistorian.run_eq_runWhole hh s ds

/-- **The item sequence and the final result do not depend on how the stream is split across read
callbacks.** -/
theorem fragmentation_independent (env : Env) (hdr s : List UInt8) (cfg : Cfg) (hh : HeaderOk env hdr cfg)
    (ds₁ ds₂ : List Nat) : run env (hdr ++ s) ds₁ = run env (hdr ++ s) ds₂ := by
  rw [run_eq_runWhole env hdr s cfg hh, run_eq_runWhole env hdr s cfg hh]

/-- **Fragmentations stated explicitly.**  A fragmentation is a list of read results (chunks,
empty ones allowed) whose concatenation is the file, followed by EOF.  `Cb.ofChunks` is the
callback that returns exactly these results (`chunk_read_results`), and any two fragmentations of
the same file make the reader produce the same items and the same final result. -/
theorem chunks_independent (env : Env) (total : List UInt8) (cs₁ cs₂ : List (List UInt8))
    (h₁ : cs₁.flatten = total) (h₂ : cs₂.flatten = total) :
    runCb env (Cb.ofChunks cs₁) = runCb env (Cb.ofChunks cs₂) ∧
    runCb env (Cb.ofChunks cs₁) = reference env total := by
  have e₁ := runCb_eq_reference env (Cb.ofChunks cs₁) (noFail_ofChunks cs₁)
  have e₂ := runCb_eq_reference env (Cb.ofChunks cs₂) (noFail_ofChunks cs₂)
  have r₁ : (Cb.ofChunks cs₁).rem = total := h₁
  have r₂ : (Cb.ofChunks cs₂).rem = total := h₂
  rw [r₁] at e₁; rw [r₂] at e₂
  exact ⟨e₁.trans e₂.symm, e₁⟩

/-- The callback of `chunks_independent` hands out exactly the listed chunks — each one that fits
into the buffer space it is offered, which the callback contract demands of every read result —
and then reports EOF. -/
theorem chunk_read_results (ch : List UInt8) (cs : List (List UInt8)) (space : Nat) :
    (ch.length ≤ space → (Cb.ofChunks (ch :: cs)).read space = .data ch (Cb.ofChunks cs)) ∧
    (Cb.ofChunks []).read space = .eof :=
  ⟨ofChunks_read_fits ch cs space, ofChunks_read_eof space⟩

/-- **A failing callback** (`Callback::Error`, `Error::Io` in `file.rs`): for every callback —
any read sizes, failing at any invocation, with or without the `Ok(0)`-is-EOF rule of `file.rs` —
the output is the reference output, or the final result is the callback's error and the items
read before it are a prefix of the reference items. -/
theorem callback_failure_prefix (env : Env) (c : Cb) :
    runCb env c = reference env c.rem ∨
    ((runCb env c).final = .cbErr ∧ ¬ c.noFail ∧ (runCb env c).items <+: (reference env c.rem).items) :=
  runCb_vs_reference env c

/-- **The public `Reader` of `file.rs`** (callback = `File::read`: `Ok(0)` is EOF, `Ok(n)` is
`Some(n)`, `EINTR` is passed on as an empty read, any other error ends the reading): whatever
`read(2)` does — short reads of any positive size, interruptions and an I/O error at any point —
the output is the reference output, or `Error::Io` after a prefix of the reference items. -/
theorem file_reader (env : Env) (total : List UInt8) (evs : List OsRead) :
    (OsRead.eio ∉ evs → runFile env total evs = reference env total) ∧
    (runFile env total evs = reference env total ∨
      ((runFile env total evs).final = .cbErr ∧
        (runFile env total evs).items <+: (reference env total).items)) := by
  refine ⟨fun h => ?_, ?_⟩
  · refine runCb_eq_reference env (fileCb total evs) ?_
    simp only [Cb.noFail, fileCb, List.mem_map, not_exists, not_and]
    intro e he hev
    cases e with
    | data n pos => simp [OsRead.ev] at hev
    | eintr => simp [OsRead.ev] at hev
    | eio => exact h he
  · rcases runCb_vs_reference env (fileCb total evs) with h | ⟨h1, _, h3⟩
    · exact Or.inl h
    · exact Or.inr ⟨h1, h3⟩

-- non-vacuity: a complete header (magic, `{}`, NUL) that the content parser accepts as version 2
example : HeaderOk ⟨fun _ => .ok 2⟩ (magic ++ [0x7b, 0x7d, 0]) ⟨true⟩ :=
  ⟨2, by decide +kernel, rfl⟩
-- PLAYER_NEW 2; PLAYER_NEW 3; TICK_SKIP 0; PLAYER_DIFF 2; FINISH behind that header, read byte by
-- byte / with empty reads
example :
    run ⟨fun _ => .ok 2⟩ (magic ++ [0x7b, 0x7d, 0] ++ [0x42, 2, 0, 0, 0x42, 3, 0, 0, 0x41, 0, 2, 1, 1, 0x40])
        (List.replicate 33 1) =
      ⟨[.tickStart 0, .playerNew 2 0 0, .playerNew 3 0 0, .tickEnd 0, .tickStart 1,
        .playerChange 2 1 1 0 0, .tickEnd 1], .finished, ⟨4, [(2, (1, 1)), (3, (0, 0))], []⟩⟩ := by decide +kernel
example :
    run ⟨fun _ => .ok 2⟩ (magic ++ [0x7b, 0x7d, 0] ++ [0x42, 2, 0, 0, 0x42, 3, 0, 0, 0x41, 0, 2, 1, 1, 0x40])
        [0, 5, 0, 0, 2, 17, 1] =
      runWhole ⟨true⟩ [0x42, 2, 0, 0, 0x42, 3, 0, 0, 0x41, 0, 2, 1, 1, 0x40] := by decide +kernel
-- header framing: wrong magic after 16 bytes, version 3, header cut before its NUL
example :
    (run ⟨fun _ => .ok 2⟩ (List.replicate 16 7 ++ [0x7b]) [3, 3]).final = .err (.header .wrongMagic) ∧
    (run ⟨fun _ => .ok 3⟩ (magic ++ [0x7b, 0x7d, 0, 0x40]) [1, 1]).final = .err .unknownVersion ∧
    (run ⟨fun _ => .ok 2⟩ (magic ++ [0x7b, 0x7d]) [4]).final = .err .unexpectedEnd := by decide +kernel
-- a callback that fails at its fourth invocation: prefix of the items, then the callback error
example :
    runCb ⟨fun _ => .ok 2⟩
      { rem := magic ++ [0x7b, 0x7d, 0] ++ [0x42, 2, 0, 0, 0x42, 3, 0, 0, 0x40],
        ds := [.size 19, .size 4, .size 2, .fail] } =
      ⟨[.tickStart 0, .playerNew 2 0 0], .cbErr, ⟨3, [(2, (0, 0))], []⟩⟩ := by decide +kernel
-- the file reader with an interruption and short reads
example :
    runFile ⟨fun _ => .ok 2⟩ (magic ++ [0x7b, 0x7d, 0] ++ [0x42, 2, 0, 0, 0x40])
      [.data 1 (by decide), .eintr, .data 30 (by decide), .eintr, .data 100 (by decide)] =
      ⟨[.tickStart 0, .playerNew 2 0 0, .tickEnd 0], .finished, ⟨3, [(2, (0, 0))], []⟩⟩ := by decide +kernel

/-! ### Totality -/

/-- The full totality statement: items, then the end or an error — nothing else. -/
def C17_full : Prop :=
  ∀ (env : Env) (total : List UInt8) (ds : List Nat),
    (run env total ds).final = .finished ∨ ∃ e, (run env total ds).final = .err e

/-- **Any byte string — header included —, under any fragmentation, yields items and then the end
or an error; nothing else.**  The model has no panic outcome (the arithmetic is checked or wrapping,
`offset ≤ len` holds by construction) and, since the repair of finding D18 (the tables are sparse
maps), no resource-exhaustion outcome either: every client id `0 … i32::MAX` costs one map node.
What this theorem adds is that none of the loops runs out of its fuel, for any schedule.  (Until the
repair this was `reader_total_partial`, under the hypothesis that every `PLAYER_NEW`/`INPUT_NEW`
client id stays below the number of allocatable `VecMap` slots.) -/
theorem reader_total (env : Env) (total : List UInt8) (ds : List Nat) :
    (run env total ds).final = .finished ∨ ∃ e, (run env total ds).final = .err e := by
  rw [run_eq_reference]
  unfold reference
  cases pHeader env.json total with
  | needMore => exact Or.inr ⟨_, rfl⟩
  | err e => exact Or.inr ⟨_, rfl⟩
  | ok r rest =>
    cases r with
    | bad e => exact Or.inr ⟨_, rfl⟩
    | version v =>
      simp only
      cases env.cfgOf v with
      | none => exact Or.inr ⟨_, rfl⟩
      | some cfg =>
        simp only
        have := runWhole_final cfg rest
        cases h : (runWhole cfg rest).final with
        | finished => exact Or.inl rfl
        | err e => exact Or.inr ⟨e, rfl⟩
        | cbErr => exact absurd h (runWhole_not_cbErr cfg rest)
        | outOfFuel => exact absurd h this

/-- The full statement holds. -/
theorem reader_total_full : C17_full := reader_total

/-- The same for every fragmentation given as an explicit chunk list, and for the public `Reader`
of `file.rs` over any `read(2)` behaviour without an I/O error. -/
theorem reader_total_chunks_and_file (env : Env) (total : List UInt8) :
    (∀ cs : List (List UInt8), cs.flatten = total →
      (runCb env (Cb.ofChunks cs)).final = .finished ∨ ∃ e, (runCb env (Cb.ofChunks cs)).final = .err e) ∧
    (∀ evs : List OsRead, OsRead.eio ∉ evs →
      (runFile env total evs).final = .finished ∨ ∃ e, (runFile env total evs).final = .err e) := by
  have key := reader_total env total []
  rw [run_eq_reference] at key
  refine ⟨fun cs h => ?_, fun evs h => ?_⟩
  · rw [(chunks_independent env total cs cs h h).2]; exact key
  · rw [(file_reader env total evs).1 h]; exact key

/-! ### The reader before the repair of finding D18 -/

/-- Below the table bound the old reader (tables = `VecMap`s on a machine that can allocate `slots`
entries, `Legacy.runWhole`) produced exactly what the repaired reader produces: the repair changes
nothing but the resource use.  (`CidsBelow` is the excluding hypothesis `reader_total_partial`
carried while D18 was open.) -/
theorem legacy_agrees_below (slots : Nat) (cfg : Cfg) (s : List UInt8)
    (hc : CidsBelow slots (parseAll cfg.hasEx (s.length + 1) s).1) :
    Legacy.runWhole slots cfg s = some (runWhole cfg s) :=
  Legacy.interp_of_below slots cfg _ _ _ hc

-- non-vacuity: the hypothesis is decidable and holds for an ordinary stream
example : CidsBelow 1000 (parseAll true 15 [0x42, 2, 0, 0, 0x42, 3, 0, 0, 0x41, 0, 2, 1, 1, 0x40]).1 := by
  decide +kernel

/-- **Finding D18 in the pre-repair model**, on the recorded input (`PLAYER_NEW` with client id
2^17, then `FINISH`, behind a complete version-2 header): whatever number of table slots up to 2^17
the machine can allocate, the old reader ends in resource exhaustion (`none`) — while the repaired
reader reads the same file to its end. -/
theorem d18_legacy_witness (slots : Nat) (h : slots ≤ 131072) :
    Legacy.reference slots ⟨fun _ => .ok 2⟩ (magic ++ [0x7b, 0x7d, 0] ++ [0x42, 0x80, 0x80, 0x10, 0, 0, 0x40]) = none ∧
    run ⟨fun _ => .ok 2⟩ (magic ++ [0x7b, 0x7d, 0] ++ [0x42, 0x80, 0x80, 0x10, 0, 0, 0x40]) [] =
      ⟨[.tickStart 0, .playerNew 131072 0 0, .tickEnd 0], .finished, ⟨131073, [(131072, (0, 0))], []⟩⟩ := by
  refine ⟨?_, by decide +kernel⟩
  have hh : pHeader (fun _ => .ok 2) (magic ++ [0x7b, 0x7d, 0] ++ [0x42, 0x80, 0x80, 0x10, 0, 0, 0x40]) =
      .ok (.version 2) [0x42, 0x80, 0x80, 0x10, 0, 0, 0x40] := by decide +kernel
  have hp : parseAll true 8 [0x42, 0x80, 0x80, 0x10, 0, 0, 0x40] =
      ([⟨.playerNew 131072, .playerNew 131072 0 0⟩, ⟨.finish, .finish⟩], .afterFinish) := by decide +kernel
  have hpre : preAll 4 Reader.empty (.playerNew 131072) =
      ([.tickStart 0], .ready { Reader.empty with inTick := true }) := by rfl
  simp only [Legacy.reference, hh, Env.cfgOf, Legacy.runWhole, List.length_cons, List.length_nil]
  show Legacy.interp slots ⟨true⟩ Reader.empty (parseAll true 8 [0x42, 0x80, 0x80, 0x10, 0, 0, 0x40]).1
    (parseAll true 8 [0x42, 0x80, 0x80, 0x10, 0, 0, 0x40]).2 = none
  rw [hp]
  exact Legacy.interp_none_of_first hpre ⟨131072, by decide, h⟩

/-! ### Tick structure -/

/-- **Tick boundaries are properly nested start/end pairs with strictly increasing numbers**, every
other item lies inside a tick, and a stream that ends with `FINISH` leaves no tick open — under
every fragmentation. -/
theorem tick_structure (env : Env) (hdr s : List UInt8) (cfg : Cfg) (hh : HeaderOk env hdr cfg) (ds : List Nat) :
    ∃ st, tickRun ⟨none, -1⟩ (run env (hdr ++ s) ds).items = some st ∧
      ((run env (hdr ++ s) ds).final = .finished → st.cur = none) := by
  rw [run_eq_runWhole env hdr s cfg hh]
  have hwf := (parseAll_wf cfg.hasEx (s.length + 1) s (by omega)).1
  have hI : InvT Reader.empty ⟨none, -1⟩ := by simp [InvT, Reader.empty]
  obtain ⟨st, h1, h2, _, _⟩ := interp_ticks cfg _ (parseAll cfg.hasEx (s.length + 1) s).2 Reader.empty _ hwf hI
  exact ⟨st, h1, h2⟩

/-- **The tick numbers equal the numbers the format documentation assigns**: the tick every
reported item lies in is the tick `doc/teehistorian.md`'s pseudo-code computes for its message
(all of them when the stream ends with `FINISH`, a prefix when reading stops at an error). -/
theorem ticks_equal_doc (env : Env) (hdr s : List UInt8) (cfg : Cfg) (hh : HeaderOk env hdr cfg) (ds : List Nat) :
    (itemTicks none (run env (hdr ++ s) ds).items <+:
      (docItemTicks 0 none ((messages cfg.hasEx s).map msgKind)).map some) ∧
    ((run env (hdr ++ s) ds).final = .finished →
      itemTicks none (run env (hdr ++ s) ds).items =
        (docItemTicks 0 none ((messages cfg.hasEx s).map msgKind)).map some) := by
  rw [run_eq_runWhole env hdr s cfg hh]
  have hwf := (parseAll_wf cfg.hasEx (s.length + 1) s (by omega)).1
  have hI : InvT Reader.empty ⟨none, -1⟩ := by simp [InvT, Reader.empty]
  obtain ⟨st, _, _, h3, h4⟩ := interp_ticks cfg _ (parseAll cfg.hasEx (s.length + 1) s).2 Reader.empty _ hwf hI
  simp only [messages, List.map_map]
  exact ⟨h3, h4⟩

/-! ### Running sums -/

/-- **Player positions and inputs equal the running sums of the recorded differences**: every
reported item is the one computed from exact integer sums, reduced modulo 2^32 only when
reported (`expectedItems`); in particular `PlayerChange.old_pos`/`pos` and `Input.input`. -/
theorem sums_equal_doc (env : Env) (hdr s : List UInt8) (cfg : Cfg) (hh : HeaderOk env hdr cfg) (ds : List Nat) :
    ((reported (run env (hdr ++ s) ds).items).map some <+:
      expectedItems Sums.empty (messages cfg.hasEx s)) ∧
    ((run env (hdr ++ s) ds).final = .finished →
      (reported (run env (hdr ++ s) ds).items).map some =
        expectedItems Sums.empty (messages cfg.hasEx s)) := by
  rw [run_eq_runWhole env hdr s cfg hh]
  have hwf := (parseAll_wf cfg.hasEx (s.length + 1) s (by omega)).1
  have hrg := parseAll_range cfg.hasEx (s.length + 1) s
  have hI : InvS Reader.empty Sums.empty := by
    refine ⟨fun c => ?_, fun c => ?_⟩ <;> simp [Reader.empty, Sums.empty, tGet]
  exact interp_sums cfg _ (parseAll cfg.hasEx (s.length + 1) s).2 Reader.empty Sums.empty
    (fun r h => ⟨hwf r h, hrg r h⟩) hI

/-- **The tables the reader exposes after the last call hold the running sums**: after a stream
that ends with `FINISH`, `player_pos(cid)` and `input(cid)` are, for every client id, the exact
integer sums of the recorded differences (`sumsAfter`) reduced modulo 2^32 — `None` exactly for the
ids without a live player / input — under every fragmentation. -/
theorem tables_equal_doc (env : Env) (hdr s : List UInt8) (cfg : Cfg) (hh : HeaderOk env hdr cfg) (ds : List Nat)
    (hf : (run env (hdr ++ s) ds).final = .finished) (c : Nat) :
    (run env (hdr ++ s) ds).access.playerPos c =
      ((sumsAfter Sums.empty (messages cfg.hasEx s)).pos c).map (fun p => (wrap32 p.1, wrap32 p.2)) ∧
    (run env (hdr ++ s) ds).access.input c =
      ((sumsAfter Sums.empty (messages cfg.hasEx s)).inp c).map (fun v => v.map wrap32) := by
  rw [run_eq_runWhole env hdr s cfg hh] at hf ⊢
  have hwf := (parseAll_wf cfg.hasEx (s.length + 1) s (by omega)).1
  have hrg := parseAll_range cfg.hasEx (s.length + 1) s
  have hI : InvS Reader.empty Sums.empty := by
    refine ⟨fun c => ?_, fun c => ?_⟩ <;> simp [Reader.empty, Sums.empty, tGet]
  have := interp_tables cfg _ (parseAll cfg.hasEx (s.length + 1) s).2 Reader.empty Sums.empty
    (fun r h => ⟨hwf r h, hrg r h⟩) hI hf
  exact ⟨this.1 c, this.2 c⟩

-- PLAYER_NEW 0 at (i32::MAX, i32::MIN); PLAYER_DIFF 0 (+1, -1); INPUT_NEW 7 (ten 3s); FINISH
example :
    (runWhole ⟨true⟩ ([0x42, 0, 0xbf, 0xff, 0xff, 0xff, 0x0f, 0xff, 0xff, 0xff, 0xff, 0x0f, 0, 1, 0x40] ++
      [0x45, 7, 3, 3, 3, 3, 3, 3, 3, 3, 3, 3, 0x40])).access =
      ⟨8, [(0, (-2147483648, 2147483647))], [(7, [3, 3, 3, 3, 3, 3, 3, 3, 3, 3])]⟩ := by decide +kernel

-- non-vacuity / regression for the repaired defect D11: PLAYER_NEW 2; PLAYER_NEW 3; TICK_SKIP 0;
-- PLAYER_DIFF 2; FINISH — the documentation puts the last record into tick 1
example :
    docItemTicks 0 none ((messages true [0x42, 2, 0, 0, 0x42, 3, 0, 0, 0x41, 0, 2, 1, 1, 0x40]).map msgKind) =
      [0, 0, 1] := by decide +kernel
example :
    itemTicks none (runWhole ⟨true⟩ [0x42, 2, 0, 0, 0x42, 3, 0, 0, 0x41, 0, 2, 1, 1, 0x40]).items =
      [some 0, some 0, some 1] := by decide +kernel
-- wrapping: PLAYER_NEW 0 at (i32::MAX, i32::MIN); PLAYER_DIFF 0 (+1, -1)
example :
    reported (runWhole ⟨true⟩
      [0x42, 0, 0xbf, 0xff, 0xff, 0xff, 0x0f, 0xff, 0xff, 0xff, 0xff, 0x0f, 0, 1, 0x40, 0x40]).items =
      [.playerNew 0 2147483647 (-2147483648), .playerChange 0 (-2147483648) 2147483647 2147483647 (-2147483648)] := by
  decide +kernel
-- explicit chunks with empty ones
example :
    runCb ⟨fun _ => .ok 2⟩
      (Cb.ofChunks [magic, [], [0x7b, 0x7d], [0, 0x42], [2, 0], [], [0, 0x40]]) =
      ⟨[.tickStart 0, .playerNew 2 0 0, .tickEnd 0], .finished, ⟨3, [(2, (0, 0))], []⟩⟩ := by decide +kernel

end Tw.Props.C17
