import Tw.Model.Teehistorian
import Tw.Gen.Teehistorian

/-!
# C17 — teehistorian reading is independent of stream fragmentation
-/
namespace Tw.Props.C17
open Tw.Teehistorian

/-- Tie to the source: item ids, table sizes. -/
theorem tie_ids :
    Gen.Teehistorian.FINISH = -1 ∧ Gen.Teehistorian.TICK_SKIP = -2 ∧ Gen.Teehistorian.PLAYER_NEW = -3 ∧
    Gen.Teehistorian.PLAYER_OLD = -4 ∧ Gen.Teehistorian.INPUT_DIFF = -5 ∧ Gen.Teehistorian.INPUT_NEW = -6 ∧
    Gen.Teehistorian.MESSAGE = -7 ∧ Gen.Teehistorian.JOIN = -8 ∧ Gen.Teehistorian.DROP = -9 ∧
    Gen.Teehistorian.CONSOLE_COMMAND = -10 ∧ Gen.Teehistorian.EX = -11 ∧
    Gen.Teehistorian.INPUT_LEN = 10 ∧ Gen.Teehistorian.CONSOLE_COMMAND_MAX_ARGS = 16 := by decide

end Tw.Props.C17
