import Tw.Model.NetSim
import Tw.Model.Conn6
import Tw.Model.Conn7
import Tw.Proofs.ConnSafetyOnline
import Tw.Proofs.ConnSafety6
import Tw.Proofs.ConnSafety7
import Tw.Proofs.Conn6
import Tw.Proofs.Conn7

/-!
# C01 — vital chunks are delivered exactly once, in order, uncorrupted

**System** (`Tw/Model/NetSim.lean`): two full connection objects (`Tw.Conn6.Conn` / `Tw.Conn7.Conn`,
starting at `Connection::new`) and an adversarial network that keeps the monotone history of every
datagram either side ever sent.  Moves: application calls on either side (`connect`, `send` vital /
non-vital, `send_connless`, `flush`, `tick`, `disconnect`), `deliver to i` of *any* datagram of the
peer's history at any time, any number of times (duplication, reordering, delay; loss = never
delivering), clock advance.  Variants: `proto6 false` (0.6 with the DDNet token), `proto6 true` (0.6
towards a peer that does not use the token), `proto7`.

**Assumptions** (predicates on a move in a world, `admissible` = they hold for every move of the
schedule and every call returns): H1 `h1` — a vital chunk is submitted only while the resend queue
holds fewer than 512 chunks; H2 `h2` — a datagram is delivered only while its ack is fewer than 1024
behind the receiver's `sequence` and every vital sequence number it carries is fewer than 1024
behind the sequence number the receiver waits for (both measured on the ghost absolute counters:
`unwrap` decodes a 10-bit value against the sender's counter stamped on the datagram); H3 (the
application drains every iterator) is built in.  H2 is tight: a chunk exactly 1024 behind is accepted
(`h2_tight`).

**Proved, for every admissible schedule from two fresh connections, all three variants**
(`C01_conn6`, `C01_conn7`, `C01_all`; `Safe`):
1. the vital payloads handed to either application are a prefix of the vital payloads the other
   application submitted — nothing skipped, duplicated, reordered or altered, across any number of
   sequence wrap-arounds;
2. every non-vital payload handed over was submitted non-vital by the peer;
3. either side is told `Ready` at most once, and only after the peer has emitted its
   `ConnectAccept` (0.6) / `Accept` (0.7) datagram;
4. `lazy_eq_eager`: the lazy delivery iterator yields exactly the chunks the eager scan accepts, for
   every packet, starting ack and flag.
Also `wire_hint_consistent`: the only totalised case of the 0.6 wire model (`P6.wireRead` on a packet
read against the token hint) is unreachable.

The first-stage result about the two online cores alone (`online_*_partial`, stamp-based H2) is kept
below; it is subsumed by the theorems above.
-/
namespace Tw.Props.C01
open Tw.Conn Tw.NetSim Tw.NetSim.Core

/-- Tie: the sequence modulus the modular arithmetic of the proofs is written for -/
theorem tie_seqmod : seqMod = 1024 ∧ Tw.Gen.Conn.P7.SEQUENCE_MODULUS = 1024 ∧ maxNumChunks = 255 := by decide

/-- the acceptance rule: `Sequence::update` accepts exactly the successor modulo 1024 -/
theorem update_accepts_successor (ack s : Nat) :
    ((seqUpdate ack s).2 = .current ↔ (ack + 1) % 1024 = s) ∧
    (seqUpdate ack s).1 = if (ack + 1) % 1024 = s then s else ack :=
  ⟨seqUpdate_snd ack s, seqUpdate_fst ack s⟩

/-- **lazy = eager**: the eager scan of `ReceivePacket::connected`, instrumented to record what it
accepts, computes the same `(ack, request_resend)` as the code's scan and records exactly the events
the lazy iterator `ReceiveChunks` yields from the saved ack — for every packet and every start -/
theorem lazy_eq_eager (ack : Nat) (rr : Bool) (cs : List Chunk) :
    (eagerTrace ack rr cs).1 = receiveEager ack rr cs ∧ (eagerTrace ack rr cs).2 = receiveLazy ack cs :=
  ⟨eagerTrace_fst ack rr cs, eagerTrace_snd ack rr cs⟩

/-! ## The theorem: clauses 1–3 for every admissible schedule, all variants -/

/-- an admissible schedule runs to the end (no call panics, every delivered index exists) -/
theorem admissible_runs {P : Proto} : ∀ (sched : List (Move P)) (w : World P),
    admissible w sched = true → ∃ w', run w sched = some w' := by
  intro sched
  induction sched with
  | nil => intro w _; exact ⟨w, rfl⟩
  | cons m ms ih =>
    intro w h
    simp only [admissible, Bool.and_eq_true] at h
    cases hs : step w m with
    | none => rw [hs] at h; simp at h
    | some w1 =>
      rw [hs] at h
      obtain ⟨w', hw'⟩ := ih w1 h.2
      exact ⟨w', by simp only [NetSim.run, hs]; exact hw'⟩

/-- **C01 for 0.6**, with (`tokenless = false`) and without (`tokenless = true`) the DDNet token -/
theorem C01_conn6 (tokenless : Bool) (sched : List (Move (proto6 tokenless))) (w : World (proto6 tokenless))
    (hadm : admissible (World.init (proto6 tokenless)) sched = true)
    (hrun : run (World.init (proto6 tokenless)) sched = some w) : Safe w :=
  safe_of (run_inv (P6.sim6 tokenless) sched _ w (init_inv (P6.sim6 tokenless)) hadm hrun)
    (run_hs (P6.hs6 tokenless) sched _ w init_hs hrun)

/-- **C01 for 0.7** -/
theorem C01_conn7 (sched : List (Move proto7)) (w : World proto7)
    (hadm : admissible (World.init proto7) sched = true) (hrun : run (World.init proto7) sched = some w) :
    Safe w :=
  safe_of (run_inv P7.sim7 sched _ w (init_inv P7.sim7) hadm hrun) (run_hs P7.hs7 sched _ w init_hs hrun)

/-- **C01**: 0.6 with token, 0.6 without token, 0.7 -/
theorem C01_all (P : Proto) (hP : P = proto6 false ∨ P = proto6 true ∨ P = proto7)
    (sched : List (Move P)) (hadm : admissible (World.init P) sched = true) :
    ∃ w, run (World.init P) sched = some w ∧ Safe w := by
  obtain ⟨w, hw⟩ := admissible_runs sched _ hadm
  refine ⟨w, hw, ?_⟩
  rcases hP with rfl | rfl | rfl
  · exact C01_conn6 false sched w hadm hw
  · exact C01_conn6 true sched w hadm hw
  · exact C01_conn7 sched w hadm hw

/-- clause 1 spelled out: in every reachable world, both directions -/
theorem C01_vital_prefix (P : Proto) (hP : P = proto6 false ∨ P = proto6 true ∨ P = proto7)
    (sched : List (Move P)) (w : World P) (hadm : admissible (World.init P) sched = true)
    (hrun : run (World.init P) sched = some w) :
    w.b.deliveredVital <+: w.a.submittedVital ∧ w.a.deliveredVital <+: w.b.submittedVital := by
  obtain ⟨w', hw', hs⟩ := C01_all P hP sched hadm
  rw [hrun] at hw'; injection hw' with hw'; subst hw'
  exact ⟨hs.vital_ab, hs.vital_ba⟩

/-- the one totalised case of the 0.6 wire model is dead: in every reachable world (admissible or not)
no datagram of the peer's history other than a close message is read against the receiver's token
hint (`P6.misread`), so `P6.wireRead` never turns a datagram into a read error that the reader of the
code would parse -/
theorem wire_hint_consistent (tokenless : Bool) (sched : List (Move (proto6 tokenless)))
    (w : World (proto6 tokenless)) (hrun : NetSim.run (World.init (proto6 tokenless)) sched = some w)
    (to : Side) (dg : Sent Tw.Conn6.Packet) (hdg : dg ∈ (w.get to.other).out) :
    P6.misread tokenless dg.pkt (Tw.Conn6.Conn.hint (w.get to).conn) = false := by
  have h := run_loc (P6.loc6 tokenless) sched _ w (init_loc (P6.loc6 tokenless)) hrun
  exact P6.misread_false (h.side to).1 ((h.side to.other).2 dg hdg)

/-- H2 cannot be weakened: a chunk whose sequence number is exactly 1024 behind the one the
receiver waits for passes the acceptance test (the 10-bit sequence space cannot tell them apart) -/
theorem h2_tight (d : Nat) (hd : 1024 ≤ d) : (seqUpdate (d % 1024) ((d - 1024 + 1) % 1024)).2 = .current := by
  rw [seqUpdate_snd, seqNext_eq]
  omega

/-! ## First stage: the online cores alone -/

/-- **prefix theorem (online phase)**: for every admissible schedule from two fresh online endpoints,
in both directions, what was handed over is a prefix of what was submitted -/
theorem online_vital_prefix_partial (cfg : Cfg) (hc : cfg.Ok) (ms : List Move) (s : Sys)
    (h : run cfg Sys.init ms = some s) (x : Bool) : s.del (!x) <+: s.sub x := by
  have := (run_dir hc ms Sys.init s (Sys.init_dir cfg) h x).pre
  rw [this]
  exact List.take_prefix _ _

/-- … for the 0.6 and the 0.7 configuration -/
theorem online_vital_prefix6_partial (ms : List Move) (s : Sys) (h : run Tw.Conn6.cfg Sys.init ms = some s)
    (x : Bool) : s.del (!x) <+: s.sub x := online_vital_prefix_partial _ Tw.Conn6.cfg_ok ms s h x

theorem online_vital_prefix7_partial (ms : List Move) (s : Sys) (h : run Tw.Conn7.cfg Sys.init ms = some s)
    (x : Bool) : s.del (!x) <+: s.sub x := online_vital_prefix_partial _ Tw.Conn7.cfg_ok ms s h x

/-- the receiver's ack and the sender's sequence are the two counters modulo 1024 (wrap-around) -/
theorem online_counters_partial (cfg : Cfg) (hc : cfg.Ok) (ms : List Move) (s : Sys)
    (h : run cfg Sys.init ms = some s) (x : Bool) :
    (s.ep (!x)).ack = (s.del (!x)).length % 1024 ∧ (s.ep x).sequence = (s.sub x).length % 1024 := by
  have d := run_dir hc ms Sys.init s (Sys.init_dir cfg) h x
  exact ⟨d.ack, d.seq⟩

/-- every non-vital chunk handed over was submitted by the peer -/
theorem online_nonvital_membership_partial (cfg : Cfg) (hc : cfg.Ok) (ms : List Move) (s : Sys)
    (h : run cfg Sys.init ms = some s) (x : Bool) : ∀ d ∈ s.nvDel (!x), d ∈ s.nvSub x :=
  (run_dir hc ms Sys.init s (Sys.init_dir cfg) h x).nvd

/-! ## "ready" -/

theorem receiveLazy_no_ready (ack : Nat) (cs : List Chunk) : Event.ready ∉ receiveLazy ack cs := by
  induction cs generalizing ack with
  | nil => simp [receiveLazy]
  | cons c cs ih =>
    unfold receiveLazy
    cases hv : c.vital with
    | none => simp only; intro h; rcases List.mem_cons.mp h with h | h; cases h; exact ih _ h
    | some v =>
      obtain ⟨s, r⟩ := v
      simp only
      split
      · intro h; rcases List.mem_cons.mp h with h | h; cases h; exact ih _ h
      · exact ih _

theorem receive_events {cfg : Cfg} {now : Nat} {o : Online} {snd : Tw.Time.Timeout} {rr : Bool} {cs : List Chunk}
    {o' : Online} {s' : Tw.Time.Timeout} {fl : List Flushed} {evs : List Event}
    (h : o.receive cfg now snd rr cs = .ok (o', s', fl, evs)) : ∃ a, evs = receiveLazy a cs := by
  unfold Online.receive at h
  cases rr with
  | false =>
    simp only [Bool.false_eq_true, if_false] at h
    split at h
    · cases h
    · injection h with h; injection h with _ e2; injection e2 with _ e3; injection e3 with _ e4
      exact ⟨_, e4.symm⟩
  | true =>
    simp only [if_true] at h
    cases hr : o.resend cfg now snd with
    | error e => rw [hr] at h; cases h
    | ok r =>
      obtain ⟨o2, s2, f2⟩ := r
      rw [hr] at h
      simp only at h
      split at h
      · cases h
      · injection h with h; injection h with _ e2; injection e2 with _ e3; injection e3 with _ e4
        exact ⟨_, e4.symm⟩

theorem tickAction6_no_events (env : Tw.Conn6.Env) (c c' : Tw.Conn6.Conn) (out : Tw.Conn6.Out)
    (h : Tw.Conn6.tickAction env c = .ok (c', out)) : out.events = [] := by
  obtain ⟨st, snd⟩ := c
  cases st <;> simp only [Tw.Conn6.tickAction] at h
  · injection h with h; injection h with _ h; rw [← h]
  · split at h
    · cases h
    · injection h with h; injection h with _ h; rw [← h]
  · split at h
    · cases h
    · injection h with h; injection h with _ h; rw [← h]
  · split at h
    · split at h
      · cases h
      · injection h with h; injection h with _ h; rw [← h]
    · split at h
      · cases h
      · injection h with h; injection h with _ h; rw [← h]
  · injection h with h; injection h with _ h; rw [← h]

/-- **0.6**: processing a packet yields `Ready` only if the packet is a `ConnectAccept` control
packet and the connection is `Connecting`; the connection then goes online with that packet's token.
(`feedBody` is `feed` after the token check; every other call of the API produces no event at all.) -/
theorem conn6_ready_only_on_accept_partial (env : Tw.Conn6.Env) (c c' : Tw.Conn6.Conn) (token : Option Nat)
    (p : Tw.Conn6.Packet) (out : Tw.Conn6.Out)
    (h : Tw.Conn6.feedBody env c token p = .ok (c', out)) (hr : Event.ready ∈ out.events) :
    c.state = .connecting ∧ (∃ ack tok, p = .control ack tok .connectAccept) ∧ c'.state = .online token .new := by
  obtain ⟨st, snd⟩ := c
  cases p with
  | connless d =>
    simp only [Tw.Conn6.feedBody] at h
    injection h with h; injection h with _ h; rw [← h] at hr; simp at hr
  | chunks ack tk rr n cs =>
    have key : ∀ (t : Option Nat) (o : Online),
        (match o.receive Tw.Conn6.cfg env.now snd rr cs with
          | .error e => .error e
          | .ok (o1, send1, fl, evs) =>
            match Tw.Conn6.emit (fl.map (Tw.Conn6.ofFlushed t)) with
            | .error e => .error e
            | .ok ps => .ok (⟨.online t o1, send1⟩, { sent := ps, events := evs })) = Except.ok (c', out) → False := by
      intro t o hk
      cases hrc : o.receive Tw.Conn6.cfg env.now snd rr cs with
      | error e => rw [hrc] at hk; cases hk
      | ok r =>
        obtain ⟨o1, s1, fl, evs⟩ := r
        rw [hrc] at hk
        simp only at hk
        split at hk
        · cases hk
        · injection hk with hk; injection hk with _ hk
          rw [← hk] at hr
          simp only at hr
          -- the events are those of the lazy iterator
          obtain ⟨a, ha⟩ := receive_events hrc
          rw [ha] at hr
          exact receiveLazy_no_ready _ _ hr
    cases st with
    | online t o => exact absurd h (fun hh => key t o hh)
    | pending t => exact absurd h (fun hh => key t .new hh)
    | unconnected => simp only [Tw.Conn6.feedBody] at h; injection h with h; injection h with _ h; rw [← h] at hr; simp at hr
    | connecting => simp only [Tw.Conn6.feedBody] at h; injection h with h; injection h with _ h; rw [← h] at hr; simp at hr
    | disconnected => simp only [Tw.Conn6.feedBody] at h; injection h with h; injection h with _ h; rw [← h] at hr; simp at hr
  | control ack tk ctl =>
    cases ctl with
    | keepAlive => simp only [Tw.Conn6.feedBody] at h; injection h with h; injection h with _ h; rw [← h] at hr; simp at hr
    | accept => simp only [Tw.Conn6.feedBody] at h; injection h with h; injection h with _ h; rw [← h] at hr; simp at hr
    | close r => simp only [Tw.Conn6.feedBody] at h; injection h with h; injection h with _ h; rw [← h] at hr; simp at hr
    | connect =>
      cases st with
      | unconnected =>
        cases token with
        | none =>
          simp only [Tw.Conn6.feedBody] at h
          have := tickAction6_no_events _ _ _ _ h
          rw [this] at hr; simp at hr
        | some t0 =>
          simp only [Tw.Conn6.feedBody] at h
          split at h
          · split at h
            · cases h
            · have := tickAction6_no_events _ _ _ _ h
              rw [this] at hr; simp at hr
          · injection h with h; injection h with _ h; rw [← h] at hr; simp at hr
      | online t o => simp only [Tw.Conn6.feedBody] at h; injection h with h; injection h with _ h; rw [← h] at hr; simp at hr
      | pending t => simp only [Tw.Conn6.feedBody] at h; injection h with h; injection h with _ h; rw [← h] at hr; simp at hr
      | connecting => simp only [Tw.Conn6.feedBody] at h; injection h with h; injection h with _ h; rw [← h] at hr; simp at hr
      | disconnected => simp only [Tw.Conn6.feedBody] at h; injection h with h; injection h with _ h; rw [← h] at hr; simp at hr
    | connectAccept =>
      cases st with
      | connecting =>
        simp only [Tw.Conn6.feedBody] at h
        split at h
        · cases h
        · injection h with h; injection h with h1 _
          exact ⟨rfl, ⟨ack, tk, rfl⟩, by rw [← h1]⟩
      | online t o => simp only [Tw.Conn6.feedBody] at h; injection h with h; injection h with _ h; rw [← h] at hr; simp at hr
      | pending t => simp only [Tw.Conn6.feedBody] at h; injection h with h; injection h with _ h; rw [← h] at hr; simp at hr
      | unconnected => simp only [Tw.Conn6.feedBody] at h; injection h with h; injection h with _ h; rw [← h] at hr; simp at hr
      | disconnected => simp only [Tw.Conn6.feedBody] at h; injection h with h; injection h with _ h; rw [← h] at hr; simp at hr

/-! ## Non-vacuity: an admissible schedule with loss, duplication and reordering; the guards are
decidable and the statement computes -/

def demo : List Move :=
  [.send true [1] true, .send true [2] true, .flush true, .send true [3] true, .send true [9] false, .flush true,
   .deliver false 1,      -- second datagram first: chunk 3 is from the future, a resend is requested
   .deliver false 1,      -- duplicate
   .flush false,
   .deliver true 0,       -- the resend request reaches the sender: it resends everything
   .flush true,
   .deliver false 2,      -- the resent chunks arrive
   .deliver false 0]      -- the delayed first datagram: all in the past

example : (run Tw.Conn6.cfg Sys.init demo).map (fun s => (s.del false, s.sub true, s.nvDel false)) =
    some ([[1], [2], [3]], [[1], [2], [3]], [[9], [9]]) := by decide +kernel

example : Tw.Conn6.cfg.Ok ∧ Tw.Conn7.cfg.Ok := ⟨Tw.Conn6.cfg_ok, Tw.Conn7.cfg_ok⟩


/-! ## Non-vacuity of the main theorems: admissible schedules with handshake, loss, duplication,
reordering, a peer-requested resend and a timer tick, in which chunks are delivered -/

/-- after the handshake: three vital chunks and a non-vital one in two datagrams; the second
datagram arrives first (twice), the receiver asks for a resend, the resent chunks arrive, then the
delayed first datagram -/
def traffic (P : Proto) (alt : P.Alt) (first fb : Nat) : List (Move P) :=
  [.call .a [] (.send [1] true), .call .a [] (.send [2] true), .call .a [] .flush,
   .call .a [] (.send [3] true), .call .a [] (.send [9] false), .call .a [] .flush,
   .deliver .b (first + 1) [] alt, .deliver .b (first + 1) [] alt,
   .call .b [] .flush,
   .deliver .a fb [] alt,
   .call .a [] .flush,
   .deliver .b (first + 2) [] alt,
   .deliver .b first [] alt,
   .advance 600000, .call .b [] .tick, .deliver .a (fb + 1) [] alt,
   .call .b [] (.send [7] true), .call .b [] .flush, .deliver .a (fb + 2) [] alt]

def demo6 (tokenless : Bool) : List (Move (proto6 tokenless)) :=
  [.call .a [] .connect, .deliver .b 0 [12345] .exact, .deliver .a 0 [] .exact, .deliver .b 0 [] .exact] ++
  traffic (proto6 tokenless) .exact 2 1

def demo7 : List (Move proto7) :=
  [.call .a [111] .connect, .deliver .b 0 [222] (), .deliver .a 0 [] (), .deliver .b 1 [] (),
   .deliver .a 1 [] ()] ++ traffic proto7 () 2 2

/-- submitted by a / handed to b (vital, non-vital) / handed to a; `Ready` events of a -/
def summary {P : Proto} (w : World P) : List (List Bytes) × Nat :=
  ([w.a.submittedVital, w.b.deliveredVital, w.b.deliveredNonvital, w.a.deliveredVital], readyCount w.a.events)

example : admissible (World.init (proto6 false)) (demo6 false) = true := by decide +kernel
example : (run (World.init (proto6 false)) (demo6 false)).map summary =
    some ([[[1], [2], [3]], [[1], [2], [3]], [[9], [9]], [[7]]], 1) := by decide +kernel

example : admissible (World.init (proto6 true)) (demo6 true) = true := by decide +kernel
example : (run (World.init (proto6 true)) (demo6 true)).map summary =
    some ([[[1], [2], [3]], [[1], [2], [3]], [[9], [9]], [[7]]], 1) := by decide +kernel

example : admissible (World.init proto7) demo7 = true := by decide +kernel
example : (run (World.init proto7) demo7).map summary =
    some ([[[1], [2], [3]], [[1], [2], [3]], [[9], [9]], [[7]]], 1) := by decide +kernel

end Tw.Props.C01
