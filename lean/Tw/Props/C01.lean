import Tw.Model.Conn6
import Tw.Model.Conn7

/-! # C01 — everything the connection layer sends is well-formed; bad sends are refused (stub, extended below) -/
namespace Tw.Props.C01
open Tw.Conn

/-- Tie: the constants shared by the two protocol files agree (the shared core uses the 0.6 names). -/
theorem tie_shared_constants :
    Tw.Gen.Conn.P6.MAX_PAYLOAD = Tw.Gen.Conn.P7.MAX_PAYLOAD ∧
    Tw.Gen.Conn.P6.MAX_PACKETSIZE = Tw.Gen.Conn.P7.MAX_PACKETSIZE ∧
    Tw.Gen.Conn.P6.CHUNK_HEADER_SIZE = Tw.Gen.Conn.P7.CHUNK_HEADER_SIZE ∧
    Tw.Gen.Conn.P6.CHUNK_HEADER_SIZE_VITAL = Tw.Gen.Conn.P7.CHUNK_HEADER_SIZE_VITAL ∧
    Tw.Gen.Conn.P6.SEQUENCE_MODULUS = Tw.Gen.Conn.P7.SEQUENCE_MODULUS ∧
    Tw.Gen.Conn.C6.arrayCap = Tw.Gen.Conn.C7.arrayCap ∧
    Tw.Gen.Conn.C6.resendTimeoutMs = Tw.Gen.Conn.C7.resendTimeoutMs ∧
    Tw.Gen.Conn.C6.sendTimeoutMs = Tw.Gen.Conn.C7.sendTimeoutMs := by decide

end Tw.Props.C01
