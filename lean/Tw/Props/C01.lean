import Tw.Model.NetSim
import Tw.Model.Conn6
import Tw.Model.Conn7
import Tw.Proofs.ConnSafetyOnline
import Tw.Proofs.ConnSafety6
import Tw.Proofs.ConnSafety7
import Tw.Proofs.Conn6
import Tw.Proofs.Conn7
import Tw.Proofs.RsConn
import Tw.Proofs.RsConn7

/-!
# C01 — vital chunks are delivered exactly once, in order, uncorrupted

**System** (`Tw/Model/NetSim.lean`): two full connection objects (`Tw.Conn6.Conn` / `Tw.Conn7.Conn`,
starting at `Connection::new`) and an adversarial network that keeps the monotone history of every
datagram either side ever sent.  Moves: application calls on either side (`connect`, `send` vital /
non-vital, `send_connless`, `flush`, `tick`, `disconnect`), `deliver to i` of *any* datagram of the
peer's history at any time, any number of times (duplication, reordering, delay; loss = never
delivering), clock advance.  Variants: `proto6 false` (0.6 with the DDNet token), `proto6 true` (0.6
towards a peer that does not use the token), `proto7`.

**Assumptions** (predicates on a move in a world, `admissible` = they hold for every move of the
schedule and every call returns): H1 `h1` — a vital chunk is submitted only while the resend queue
holds fewer than 512 chunks; H2 `h2` — a datagram is delivered only while its ack is fewer than 1024
behind the receiver's `sequence` and every vital sequence number it carries is fewer than 1024
behind the sequence number the receiver waits for (both measured on the ghost absolute counters:
`unwrap` decodes a 10-bit value against the sender's counter stamped on the datagram); H3 (the
application drains every iterator) is built in.  H2 is tight: a chunk exactly 1024 behind is accepted
(`h2_tight`).

**Proved, for every admissible schedule from two fresh connections, all three variants**
(`C01_conn6`, `C01_conn7`, `C01_all`; `Safe`):
1. the vital payloads handed to either application are a prefix of the vital payloads the other
   application submitted — nothing skipped, duplicated, reordered or altered, across any number of
   sequence wrap-arounds;
2. every non-vital payload handed over was submitted non-vital by the peer;
3. either side is told `Ready` at most once, and only after the peer has emitted its
   `ConnectAccept` (0.6) / `Accept` (0.7) datagram;
4. `lazy_eq_eager`: the lazy delivery iterator yields exactly the chunks the eager scan accepts, for
   every packet, starting ack and flag.
Also `wire_hint_consistent`: the only totalised case of the 0.6 wire model (`P6.wireRead` on a packet
read against the token hint) is unreachable.

`C01_conn6_accept_token`: the same when the accepting 0.6 connection is created by
`Connection::new_accept_token` after a stateless listener answered the handshake.

The first-stage result about the two online cores alone (stamp-based H2) is subsumed by the theorems
above; it lives on as lemmas in `Proofs/ConnSafetyOnline.lean`.
-/
namespace Tw.Props.C01
open Tw.Conn Tw.NetSim

/-- Tie: the sequence modulus the modular arithmetic of the proofs is written for -/
theorem tie_seqmod : seqMod = 1024 ∧ Tw.Gen.Conn.P7.SEQUENCE_MODULUS = 1024 ∧ maxNumChunks = 255 := by decide

/-- the acceptance rule: `Sequence::update` accepts exactly the successor modulo 1024 -/
theorem update_accepts_successor (ack s : Nat) :
    ((seqUpdate ack s).2 = .current ↔ (ack + 1) % 1024 = s) ∧
    (seqUpdate ack s).1 = if (ack + 1) % 1024 = s then s else ack :=
  ⟨seqUpdate_snd ack s, seqUpdate_fst ack s⟩

/-- **lazy = eager**: the eager scan of `ReceivePacket::connected`, instrumented to record what it
accepts, computes the same `(ack, request_resend)` as the code's scan and records exactly the events
the lazy iterator `ReceiveChunks` yields from the saved ack — for every packet and every start -/
theorem lazy_eq_eager (ack : Nat) (rr : Bool) (cs : List Chunk) :
    (eagerTrace ack rr cs).1 = receiveEager ack rr cs ∧ (eagerTrace ack rr cs).2 = receiveLazy ack cs :=
  ⟨eagerTrace_fst ack rr cs, eagerTrace_snd ack rr cs⟩

/-! ## The theorem: clauses 1–3 for every admissible schedule, all variants -/

/-- an admissible schedule runs to the end (no call panics, every delivered index exists) -/
theorem admissible_runs {P : Proto} : ∀ (sched : List (Move P)) (w : World P),
    admissible w sched = true → ∃ w', run w sched = some w' := by
  intro sched
  induction sched with
  | nil => intro w _; exact ⟨w, rfl⟩
  | cons m ms ih =>
    intro w h
    simp only [admissible, Bool.and_eq_true] at h
    cases hs : step w m with
    | none => rw [hs] at h; simp at h
    | some w1 =>
      rw [hs] at h
      obtain ⟨w', hw'⟩ := ih w1 h.2
      exact ⟨w', by simp only [NetSim.run, hs]; exact hw'⟩

/-- **C01 for 0.6**, with (`tokenless = false`) and without (`tokenless = true`) the DDNet token -/
theorem C01_conn6 (tokenless : Bool) (sched : List (Move (proto6 tokenless))) (w : World (proto6 tokenless))
    (hadm : admissible (World.init (proto6 tokenless)) sched = true)
    (hrun : run (World.init (proto6 tokenless)) sched = some w) : Safe w :=
  safe_of (run_inv (P6.sim6 tokenless) sched _ w (init_inv (P6.sim6 tokenless)) hadm hrun)
    (run_hs (P6.hs6 tokenless) sched _ w init_hs hrun)

/-- **C01 for 0.6 with an accepting side made by `Connection::new_accept_token`** (a stateless
listener answered the handshake: `b` starts online with the token, its history holds the listener's
`ConnectAccept` datagrams): the same conclusion for every admissible schedule -/
theorem C01_conn6_accept_token (now token k : Nat) (sched : List (Move (proto6 false))) (w : World (proto6 false))
    (hadm : admissible (World.initAccept6 now token k) sched = true)
    (hrun : NetSim.run (World.initAccept6 now token k) sched = some w) : Safe w :=
  safe_of (run_inv (P6.sim6 false) sched _ w (P6.initAccept_inv now token k) hadm hrun)
    (run_hs (P6.hs6 false) sched _ w (P6.initAccept_hs now token k) hrun)

/-- **C01 for 0.7** -/
theorem C01_conn7 (sched : List (Move proto7)) (w : World proto7)
    (hadm : admissible (World.init proto7) sched = true) (hrun : run (World.init proto7) sched = some w) :
    Safe w :=
  safe_of (run_inv P7.sim7 sched _ w (init_inv P7.sim7) hadm hrun) (run_hs P7.hs7 sched _ w init_hs hrun)

/-- **C01**: 0.6 with token, 0.6 without token, 0.7 -/
theorem C01_all (P : Proto) (hP : P = proto6 false ∨ P = proto6 true ∨ P = proto7)
    (sched : List (Move P)) (hadm : admissible (World.init P) sched = true) :
    ∃ w, run (World.init P) sched = some w ∧ Safe w := by
  obtain ⟨w, hw⟩ := admissible_runs sched _ hadm
  refine ⟨w, hw, ?_⟩
  rcases hP with rfl | rfl | rfl
  · exact C01_conn6 false sched w hadm hw
  · exact C01_conn6 true sched w hadm hw
  · exact C01_conn7 sched w hadm hw

/-- clause 1 spelled out: in every reachable world, both directions -/
theorem C01_vital_prefix (P : Proto) (hP : P = proto6 false ∨ P = proto6 true ∨ P = proto7)
    (sched : List (Move P)) (w : World P) (hadm : admissible (World.init P) sched = true)
    (hrun : run (World.init P) sched = some w) :
    w.b.deliveredVital <+: w.a.submittedVital ∧ w.a.deliveredVital <+: w.b.submittedVital := by
  obtain ⟨w', hw', hs⟩ := C01_all P hP sched hadm
  rw [hrun] at hw'; injection hw' with hw'; subst hw'
  exact ⟨hs.vital_ab, hs.vital_ba⟩

/-- the one totalised case of the 0.6 wire model is dead: in every reachable world (admissible or not)
no datagram of the peer's history other than a close message is read against the receiver's token
hint (`P6.misread`), so `P6.wireRead` never turns a datagram into a read error that the reader of the
code would parse -/
theorem wire_hint_consistent (tokenless : Bool) (sched : List (Move (proto6 tokenless)))
    (w : World (proto6 tokenless)) (hrun : NetSim.run (World.init (proto6 tokenless)) sched = some w)
    (to : Side) (dg : Sent Tw.Conn6.Packet) (hdg : dg ∈ (w.get to.other).out) :
    P6.misread tokenless dg.pkt (Tw.Conn6.Conn.hint (w.get to).conn) = false := by
  have h := run_loc (P6.loc6 tokenless) sched _ w (init_loc (P6.loc6 tokenless)) hrun
  exact P6.misread_false (h.side to).1 ((h.side to.other).2 dg hdg)

/-- … also from the `new_accept_token` start -/
theorem wire_hint_consistent_accept_token (now token k : Nat) (sched : List (Move (proto6 false)))
    (w : World (proto6 false)) (hrun : NetSim.run (World.initAccept6 now token k) sched = some w)
    (to : Side) (dg : Sent Tw.Conn6.Packet) (hdg : dg ∈ (w.get to.other).out) :
    P6.misread false dg.pkt (Tw.Conn6.Conn.hint (w.get to).conn) = false := by
  have h := run_loc (P6.loc6 false) sched _ w (P6.initAccept_loc now token k) hrun
  exact P6.misread_false (h.side to).1 ((h.side to.other).2 dg hdg)

/-- H2 cannot be weakened: a chunk whose sequence number is exactly 1024 behind the one the
receiver waits for passes the acceptance test (the 10-bit sequence space cannot tell them apart) -/
theorem h2_tight (d : Nat) (hd : 1024 ≤ d) : (seqUpdate (d % 1024) ((d - 1024 + 1) % 1024)).2 = .current := by
  rw [seqUpdate_snd, seqNext_eq]
  omega

/-! ## Non-vacuity of the main theorems: admissible schedules with handshake, loss, duplication,
reordering, a peer-requested resend and a timer tick, in which chunks are delivered -/

example : admissible (World.init (proto6 false)) (demo6 false) = true := by decide +kernel
example : (run (World.init (proto6 false)) (demo6 false)).map summary =
    some ([[[1], [2], [3]], [[1], [2], [3]], [[9], [9]], [[7]]], 1) := by decide +kernel

example : admissible (World.init (proto6 true)) (demo6 true) = true := by decide +kernel
example : (run (World.init (proto6 true)) (demo6 true)).map summary =
    some ([[[1], [2], [3]], [[1], [2], [3]], [[9], [9]], [[7]]], 1) := by decide +kernel

example : admissible (World.init proto7) demo7 = true := by decide +kernel
example : (run (World.init proto7) demo7).map summary =
    some ([[[1], [2], [3]], [[1], [2], [3]], [[9], [9]], [[7]]], 1) := by decide +kernel

example : admissible (World.initAccept6 0 777 1) demoAccept6 = true := by decide +kernel
example : (NetSim.run (World.initAccept6 0 777 1) demoAccept6).map summary =
    some ([[[1], [2], [3]], [[1], [2], [3]], [[9], [9]], [[7]]], 1) := by decide +kernel

/-! ## Function-level tie: `Sequence` of `net/src/connection.rs`, translated by `tools/rs2lean`

`Tw.Gen.RsConn.*` is regenerated from the Rust source on every run; these theorems state that the
regenerated definitions compute the hand-written `seqNext` / `seqCompare` / `seqUpdate` the theorems
above are about (representation map: `Sequence { seq }` ↦ `seq`, `SequenceOrdering` ↦ `SeqOrd` via
`Tw.RsConn.ordMap`; `Except.error` = panic). -/

theorem tie_rs_seq_from_u16 (s : Nat) :
    (s < seqMod → Tw.Gen.RsConn.Sequence.from_u16 s = .ok ⟨s⟩) ∧
    (seqMod ≤ s → ∃ p, Tw.Gen.RsConn.Sequence.from_u16 s = .error p) :=
  ⟨Tw.RsConn.seq_from_u16_eq s, Tw.RsConn.seq_from_u16_panics s⟩

theorem tie_rs_seq_next (s : Tw.Gen.RsConn.Sequence) (h : s.seq < 65535) :
    Tw.Gen.RsConn.Sequence.next s = .ok (⟨seqNext s.seq⟩, ⟨seqNext s.seq⟩) :=
  Tw.RsConn.seq_next_eq s h

theorem tie_rs_seq_compare (a b : Tw.Gen.RsConn.Sequence) :
    Tw.Gen.RsConn.Sequence.compare a b = .ok (Tw.RsConn.ordMap (seqCompare a.seq b.seq)) :=
  Tw.RsConn.seq_compare_eq a b

theorem tie_rs_seq_update (a b : Tw.Gen.RsConn.Sequence) (h : a.seq < 65535) :
    Tw.Gen.RsConn.Sequence.update a b =
      .ok (Tw.RsConn.ordMap (seqUpdate a.seq b.seq).2, ⟨(seqUpdate a.seq b.seq).1⟩) :=
  Tw.RsConn.seq_update_eq a b h

example : (⟨1023⟩ : Tw.Gen.RsConn.Sequence).seq < 65535 := by decide

/-! The same for the 0.7 twin, `Sequence` of `net/src/connection7.rs` (`Tw.Gen.RsConn7.*`). -/

theorem tie_rs7_seq_from_u16 (s : Nat) :
    (s < seqMod → Tw.Gen.RsConn7.Sequence.from_u16 s = .ok ⟨s⟩) ∧
    (seqMod ≤ s → ∃ p, Tw.Gen.RsConn7.Sequence.from_u16 s = .error p) :=
  ⟨Tw.RsConn7.seq_from_u16_eq s, Tw.RsConn7.seq_from_u16_panics s⟩

theorem tie_rs7_seq_next (s : Tw.Gen.RsConn7.Sequence) (h : s.seq < 65535) :
    Tw.Gen.RsConn7.Sequence.next s = .ok (⟨seqNext s.seq⟩, ⟨seqNext s.seq⟩) :=
  Tw.RsConn7.seq_next_eq s h

theorem tie_rs7_seq_compare (a b : Tw.Gen.RsConn7.Sequence) :
    Tw.Gen.RsConn7.Sequence.compare a b = .ok (Tw.RsConn7.ordMap (seqCompare a.seq b.seq)) :=
  Tw.RsConn7.seq_compare_eq a b

theorem tie_rs7_seq_update (a b : Tw.Gen.RsConn7.Sequence) (h : a.seq < 65535) :
    Tw.Gen.RsConn7.Sequence.update a b =
      .ok (Tw.RsConn7.ordMap (seqUpdate a.seq b.seq).2, ⟨(seqUpdate a.seq b.seq).1⟩) :=
  Tw.RsConn7.seq_update_eq a b h

end Tw.Props.C01
