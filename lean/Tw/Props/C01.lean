import Tw.Model.NetSim
import Tw.Model.Conn6
import Tw.Model.Conn7
import Tw.Proofs.NetSim
import Tw.Proofs.Conn6
import Tw.Proofs.Conn7

/-!
# C01 — vital chunks are delivered exactly once, in order, uncorrupted

**Proved (online phase, both variants — the code of the online phase is shared, `Tw/Model/Conn.lean`):**
for two endpoints that are online and an adversarial network (`Tw/Model/NetSim.lean`: the history of
every datagram ever sent stays deliverable, so duplication / reordering / delay are "deliver any
index at any time" and loss is "never deliver"; application calls `send`, `flush` and the connection
layer's `resend` interleave arbitrarily on both sides), under the assumptions of the property as
guards of the moves — H1: a vital chunk is submitted only while fewer than 512 are unacknowledged;
H2: a datagram is delivered only while each side has submitted fewer than 256 vital chunks since it
was sent; H3: every event iterator is drained —

1. `online_vital_prefix_partial`: the vital payloads handed to either application are a prefix of
   the vital payloads the other application submitted (nothing skipped, duplicated, reordered or
   altered), across sequence-number wrap-around (no bound on the length of the run);
2. `online_nonvital_membership_partial`: every non-vital payload handed over was submitted;
3. `lazy_eq_eager`: for every packet, starting ack and flag, the lazy delivery iterator yields exactly
   the chunks the eager scan accepts;
4. `conn6_ready_only_on_accept_partial` (0.6): processing a packet yields `Ready` only if the packet
   is the peer's `ConnectAccept` and the connection is `Connecting`; it then goes online with that
   packet's token.

**Partial / open** (`C01_full`, `C01_ready_full` state the whole claims): (a) H2 is the stamp-based
sufficient condition above rather than "no sequence number mentioned is 1024 behind"; (b) the
schedule theorem is about the online cores (two `Online` values: the token check and the handshake
are not part of the system; `Conn6.feed`/`Conn7.feed` hand exactly these cores the packets that carry
the right token — C03 — but lifting the theorem through the handshake state machines is not
proved); (c) "`Ready` at most once over a whole run" and the 0.7 counterpart of item 4 are not proved
(the two-endpoint oracle `C01/ready-twice`, `C01/ready-before-accept` checks them on the implementation).
-/
namespace Tw.Props.C01
open Tw.Conn Tw.NetSim

/-- Tie: the sequence modulus the modular arithmetic of the proofs is written for -/
theorem tie_seqmod : seqMod = 1024 ∧ Tw.Gen.Conn.P7.SEQUENCE_MODULUS = 1024 ∧ maxNumChunks = 255 := by decide

/-- the acceptance rule: `Sequence::update` accepts exactly the successor modulo 1024 -/
theorem update_accepts_successor (ack s : Nat) :
    ((seqUpdate ack s).2 = .current ↔ (ack + 1) % 1024 = s) ∧
    (seqUpdate ack s).1 = if (ack + 1) % 1024 = s then s else ack :=
  ⟨seqUpdate_snd ack s, seqUpdate_fst ack s⟩

/-- **lazy = eager**: the eager scan of `ReceivePacket::connected`, instrumented to record what it
accepts, computes the same `(ack, request_resend)` as the code's scan and records exactly the events
the lazy iterator `ReceiveChunks` yields from the saved ack — for every packet and every start -/
theorem lazy_eq_eager (ack : Nat) (rr : Bool) (cs : List Chunk) :
    (eagerTrace ack rr cs).1 = receiveEager ack rr cs ∧ (eagerTrace ack rr cs).2 = receiveLazy ack cs :=
  ⟨eagerTrace_fst ack rr cs, eagerTrace_snd ack rr cs⟩

/-- **prefix theorem (online phase)**: for every admissible schedule from two fresh online endpoints,
in both directions, what was handed over is a prefix of what was submitted -/
theorem online_vital_prefix_partial (cfg : Cfg) (hc : cfg.Ok) (ms : List Move) (s : Sys)
    (h : run cfg Sys.init ms = some s) (x : Bool) : s.del (!x) <+: s.sub x := by
  have := (run_dir hc ms Sys.init s (Sys.init_dir cfg) h x).pre
  rw [this]
  exact List.take_prefix _ _

/-- … for the 0.6 and the 0.7 configuration -/
theorem online_vital_prefix6_partial (ms : List Move) (s : Sys) (h : run Tw.Conn6.cfg Sys.init ms = some s)
    (x : Bool) : s.del (!x) <+: s.sub x := online_vital_prefix_partial _ Tw.Conn6.cfg_ok ms s h x

theorem online_vital_prefix7_partial (ms : List Move) (s : Sys) (h : run Tw.Conn7.cfg Sys.init ms = some s)
    (x : Bool) : s.del (!x) <+: s.sub x := online_vital_prefix_partial _ Tw.Conn7.cfg_ok ms s h x

/-- the receiver's ack and the sender's sequence are the two counters modulo 1024 (wrap-around) -/
theorem online_counters_partial (cfg : Cfg) (hc : cfg.Ok) (ms : List Move) (s : Sys)
    (h : run cfg Sys.init ms = some s) (x : Bool) :
    (s.ep (!x)).ack = (s.del (!x)).length % 1024 ∧ (s.ep x).sequence = (s.sub x).length % 1024 := by
  have d := run_dir hc ms Sys.init s (Sys.init_dir cfg) h x
  exact ⟨d.ack, d.seq⟩

/-- every non-vital chunk handed over was submitted by the peer -/
theorem online_nonvital_membership_partial (cfg : Cfg) (hc : cfg.Ok) (ms : List Move) (s : Sys)
    (h : run cfg Sys.init ms = some s) (x : Bool) : ∀ d ∈ s.nvDel (!x), d ∈ s.nvSub x :=
  (run_dir hc ms Sys.init s (Sys.init_dir cfg) h x).nvd

/-- the whole claim: the same for two full connections (handshake included, tokens checked) with the
delay assumption in its weakest form -/
def C01_full : Prop :=
  ∀ (cfg : Cfg) (ms : List Move) (s : Sys), run cfg Sys.init ms = some s → ∀ x, s.del (!x) <+: s.sub x

/-! ## "ready" -/

theorem receiveLazy_no_ready (ack : Nat) (cs : List Chunk) : Event.ready ∉ receiveLazy ack cs := by
  induction cs generalizing ack with
  | nil => simp [receiveLazy]
  | cons c cs ih =>
    unfold receiveLazy
    cases hv : c.vital with
    | none => simp only; intro h; rcases List.mem_cons.mp h with h | h; cases h; exact ih _ h
    | some v =>
      obtain ⟨s, r⟩ := v
      simp only
      split
      · intro h; rcases List.mem_cons.mp h with h | h; cases h; exact ih _ h
      · exact ih _

theorem receive_events {cfg : Cfg} {now : Nat} {o : Online} {snd : Tw.Time.Timeout} {rr : Bool} {cs : List Chunk}
    {o' : Online} {s' : Tw.Time.Timeout} {fl : List Flushed} {evs : List Event}
    (h : o.receive cfg now snd rr cs = .ok (o', s', fl, evs)) : ∃ a, evs = receiveLazy a cs := by
  unfold Online.receive at h
  cases rr with
  | false =>
    simp only [Bool.false_eq_true, if_false] at h
    split at h
    · cases h
    · injection h with h; injection h with _ e2; injection e2 with _ e3; injection e3 with _ e4
      exact ⟨_, e4.symm⟩
  | true =>
    simp only [if_true] at h
    cases hr : o.resend cfg now snd with
    | error e => rw [hr] at h; cases h
    | ok r =>
      obtain ⟨o2, s2, f2⟩ := r
      rw [hr] at h
      simp only at h
      split at h
      · cases h
      · injection h with h; injection h with _ e2; injection e2 with _ e3; injection e3 with _ e4
        exact ⟨_, e4.symm⟩

theorem tickAction6_no_events (env : Tw.Conn6.Env) (c c' : Tw.Conn6.Conn) (out : Tw.Conn6.Out)
    (h : Tw.Conn6.tickAction env c = .ok (c', out)) : out.events = [] := by
  obtain ⟨st, snd⟩ := c
  cases st <;> simp only [Tw.Conn6.tickAction] at h
  · injection h with h; injection h with _ h; rw [← h]
  · split at h
    · cases h
    · injection h with h; injection h with _ h; rw [← h]
  · split at h
    · cases h
    · injection h with h; injection h with _ h; rw [← h]
  · split at h
    · split at h
      · cases h
      · injection h with h; injection h with _ h; rw [← h]
    · split at h
      · cases h
      · injection h with h; injection h with _ h; rw [← h]
  · injection h with h; injection h with _ h; rw [← h]

/-- **0.6**: processing a packet yields `Ready` only if the packet is a `ConnectAccept` control
packet and the connection is `Connecting`; the connection then goes online with that packet's token.
(`feedBody` is `feed` after the token check; every other call of the API produces no event at all.) -/
theorem conn6_ready_only_on_accept_partial (env : Tw.Conn6.Env) (c c' : Tw.Conn6.Conn) (token : Option Nat)
    (p : Tw.Conn6.Packet) (out : Tw.Conn6.Out)
    (h : Tw.Conn6.feedBody env c token p = .ok (c', out)) (hr : Event.ready ∈ out.events) :
    c.state = .connecting ∧ (∃ ack tok, p = .control ack tok .connectAccept) ∧ c'.state = .online token .new := by
  obtain ⟨st, snd⟩ := c
  cases p with
  | connless d =>
    simp only [Tw.Conn6.feedBody] at h
    injection h with h; injection h with _ h; rw [← h] at hr; simp at hr
  | chunks ack tk rr n cs =>
    have key : ∀ (t : Option Nat) (o : Online),
        (match o.receive Tw.Conn6.cfg env.now snd rr cs with
          | .error e => .error e
          | .ok (o1, send1, fl, evs) =>
            match Tw.Conn6.emit (fl.map (Tw.Conn6.ofFlushed t)) with
            | .error e => .error e
            | .ok ps => .ok (⟨.online t o1, send1⟩, { sent := ps, events := evs })) = Except.ok (c', out) → False := by
      intro t o hk
      cases hrc : o.receive Tw.Conn6.cfg env.now snd rr cs with
      | error e => rw [hrc] at hk; cases hk
      | ok r =>
        obtain ⟨o1, s1, fl, evs⟩ := r
        rw [hrc] at hk
        simp only at hk
        split at hk
        · cases hk
        · injection hk with hk; injection hk with _ hk
          rw [← hk] at hr
          simp only at hr
          -- the events are those of the lazy iterator
          obtain ⟨a, ha⟩ := receive_events hrc
          rw [ha] at hr
          exact receiveLazy_no_ready _ _ hr
    cases st with
    | online t o => exact absurd h (fun hh => key t o hh)
    | pending t => exact absurd h (fun hh => key t .new hh)
    | unconnected => simp only [Tw.Conn6.feedBody] at h; injection h with h; injection h with _ h; rw [← h] at hr; simp at hr
    | connecting => simp only [Tw.Conn6.feedBody] at h; injection h with h; injection h with _ h; rw [← h] at hr; simp at hr
    | disconnected => simp only [Tw.Conn6.feedBody] at h; injection h with h; injection h with _ h; rw [← h] at hr; simp at hr
  | control ack tk ctl =>
    cases ctl with
    | keepAlive => simp only [Tw.Conn6.feedBody] at h; injection h with h; injection h with _ h; rw [← h] at hr; simp at hr
    | accept => simp only [Tw.Conn6.feedBody] at h; injection h with h; injection h with _ h; rw [← h] at hr; simp at hr
    | close r => simp only [Tw.Conn6.feedBody] at h; injection h with h; injection h with _ h; rw [← h] at hr; simp at hr
    | connect =>
      cases st with
      | unconnected =>
        cases token with
        | none =>
          simp only [Tw.Conn6.feedBody] at h
          have := tickAction6_no_events _ _ _ _ h
          rw [this] at hr; simp at hr
        | some t0 =>
          simp only [Tw.Conn6.feedBody] at h
          split at h
          · split at h
            · cases h
            · have := tickAction6_no_events _ _ _ _ h
              rw [this] at hr; simp at hr
          · injection h with h; injection h with _ h; rw [← h] at hr; simp at hr
      | online t o => simp only [Tw.Conn6.feedBody] at h; injection h with h; injection h with _ h; rw [← h] at hr; simp at hr
      | pending t => simp only [Tw.Conn6.feedBody] at h; injection h with h; injection h with _ h; rw [← h] at hr; simp at hr
      | connecting => simp only [Tw.Conn6.feedBody] at h; injection h with h; injection h with _ h; rw [← h] at hr; simp at hr
      | disconnected => simp only [Tw.Conn6.feedBody] at h; injection h with h; injection h with _ h; rw [← h] at hr; simp at hr
    | connectAccept =>
      cases st with
      | connecting =>
        simp only [Tw.Conn6.feedBody] at h
        split at h
        · cases h
        · injection h with h; injection h with h1 _
          exact ⟨rfl, ⟨ack, tk, rfl⟩, by rw [← h1]⟩
      | online t o => simp only [Tw.Conn6.feedBody] at h; injection h with h; injection h with _ h; rw [← h] at hr; simp at hr
      | pending t => simp only [Tw.Conn6.feedBody] at h; injection h with h; injection h with _ h; rw [← h] at hr; simp at hr
      | unconnected => simp only [Tw.Conn6.feedBody] at h; injection h with h; injection h with _ h; rw [← h] at hr; simp at hr
      | disconnected => simp only [Tw.Conn6.feedBody] at h; injection h with h; injection h with _ h; rw [← h] at hr; simp at hr

/-- the full "ready" clause: over whole runs of two full connections the connecting side sees `Ready`
at most once, and only after the accepting side has emitted its accept datagram -/
def C01_ready_full : Prop :=
  ∀ (sched : List (Tw.Conn6.Env × Tw.Conn6.Op)) (c : Tw.Conn6.Conn) (outs : List Tw.Conn6.Out),
    Tw.Conn6.run .new sched = .ok (c, outs) →
    ((outs.map fun o => (o.events.filter (· == Event.ready)).length).foldl (· + ·) 0) ≤ 1

/-! ## Non-vacuity: an admissible schedule with loss, duplication and reordering; the guards are
decidable and the statement computes -/

def demo : List Move :=
  [.send true [1] true, .send true [2] true, .flush true, .send true [3] true, .send true [9] false, .flush true,
   .deliver false 1,      -- second datagram first: chunk 3 is from the future, a resend is requested
   .deliver false 1,      -- duplicate
   .flush false,
   .deliver true 0,       -- the resend request reaches the sender: it resends everything
   .flush true,
   .deliver false 2,      -- the resent chunks arrive
   .deliver false 0]      -- the delayed first datagram: all in the past

example : (run Tw.Conn6.cfg Sys.init demo).map (fun s => (s.del false, s.sub true, s.nvDel false)) =
    some ([[1], [2], [3]], [[1], [2], [3]], [[9], [9]]) := by decide +kernel

example : Tw.Conn6.cfg.Ok ∧ Tw.Conn7.cfg.Ok := ⟨Tw.Conn6.cfg_ok, Tw.Conn7.cfg_ok⟩

end Tw.Props.C01
