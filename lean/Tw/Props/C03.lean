import Tw.Model.Conn6
import Tw.Model.Conn7
import Tw.Proofs.Conn7

/-!
# C03 — datagrams without the agreed token are inert

`feed` takes the result of the library's reader (`none` = read error; 0.6: as a function of the token
hint the connection passes).  Once an endpoint has fixed a token — 0.6: `Pending (some t)` /
`Online (some t)`; 0.7: every state from `Token` to `Online` (own token) — a datagram that the reader
rejects, or a connection-oriented packet carrying another token or none, returns **the same
connection value**, no event and nothing to send (a warning is allowed).  Equal state gives equal
behaviour under every continuation.  The only exception is 0.7's unauthenticated token request
while `PendingConnect`, whose whole effect is one more token reply.  Tokens an acceptor hands out
come from `Token::random` and are never a reserved value.

The quantifier over byte strings is the quantifier over the reader's possible results here; that the
reader maps every byte string to `none` or to one structured packet is the packet codec's totality
(C06).
-/
namespace Tw.Props.C03
open Tw.Conn

/-! ## 0.6 with token -/

/-- the token a 0.6 endpoint has fixed with its peer, if any -/
def fixed6 (c : Tw.Conn6.Conn) : Option Nat :=
  match c.state with
  | .pending (some t) => some t
  | .online (some t) _ => some t
  | _ => none

/-- a connection-oriented packet that does not carry exactly token `t` -/
def foreign6 (t : Nat) : Tw.Conn6.Packet → Bool
  | .connless _ => false
  | .control _ tok _ => tok != some t
  | .chunks _ tok _ _ _ => tok != some t

/-- **0.6.**  In every state with a fixed token `t`, for every clock value and random source, a
datagram the reader rejects or that is a connected packet without exactly `t` leaves the connection
equal, yields no event and sends nothing. -/
theorem conn6_foreign_inert (env : Tw.Conn6.Env) (c : Tw.Conn6.Conn) (t : Nat) (hfix : fixed6 c = some t)
    (rd : Option Bool → Option Tw.Conn6.Packet)
    (hf : ∀ p, rd (some true) = some p → foreign6 t p = true) :
    ∃ w, Tw.Conn6.feed env c rd = .ok (c, { sent := [], events := [], warns := w }) := by
  obtain ⟨st, snd⟩ := c
  -- the hint passed to the reader is `some true`, the expected token is `some t`
  have hst : (st = .pending (some t)) ∨ (∃ o, st = .online (some t) o) := by
    cases st with
    | pending tok => cases tok <;> simp [fixed6] at hfix; left; rw [hfix]
    | online tok o => cases tok <;> simp [fixed6] at hfix; right; exact ⟨o, by rw [hfix]⟩
    | unconnected => simp [fixed6] at hfix
    | connecting => simp [fixed6] at hfix
    | disconnected => simp [fixed6] at hfix
  have hhint : (Tw.Conn6.Conn.mk st snd).hint = some true := by
    rcases hst with rfl | ⟨o, rfl⟩ <;> simp [Tw.Conn6.Conn.hint, Tw.Conn6.State.token?]
  have htok : (Tw.Conn6.Conn.mk st snd).state.token? = some (some t) := by
    rcases hst with rfl | ⟨o, rfl⟩ <;> simp [Tw.Conn6.State.token?]
  unfold Tw.Conn6.feed
  rw [hhint]
  cases hr : rd (some true) with
  | none => exact ⟨_, rfl⟩
  | some p =>
    have hfp := hf p hr
    cases p with
    | connless d => simp [foreign6] at hfp
    | control ack tok ctl =>
      simp only [foreign6, bne_iff_ne, ne_eq] at hfp
      simp only [Tw.Conn6.Packet.tokenAck?, htok, Option.any_some]
      rw [if_pos (by simpa using fun h => hfp h.symm)]
      exact ⟨_, rfl⟩
    | chunks ack tok rr n cs =>
      simp only [foreign6, bne_iff_ne, ne_eq] at hfp
      simp only [Tw.Conn6.Packet.tokenAck?, htok, Option.any_some]
      rw [if_pos (by simpa using fun h => hfp h.symm)]
      exact ⟨_, rfl⟩

/-- … hence the endpoint's later behaviour is unchanged: every continuation gives the same result -/
theorem conn6_foreign_no_later_effect (env : Tw.Conn6.Env) (c : Tw.Conn6.Conn) (t : Nat)
    (hfix : fixed6 c = some t) (rd : Option Bool → Option Tw.Conn6.Packet)
    (hf : ∀ p, rd (some true) = some p → foreign6 t p = true)
    (sched : List (Tw.Conn6.Env × Tw.Conn6.Op)) :
    Tw.Conn6.run c ((env, .feed rd) :: sched) =
      (match Tw.Conn6.run c sched with
       | .error e => .error e
       | .ok (c', outs) => .ok (c', { warns := (match Tw.Conn6.feed env c rd with
                                                | .ok (_, o) => o.warns
                                                | .error _ => []) } :: outs)) := by
  obtain ⟨w, he⟩ := conn6_foreign_inert env c t hfix rd hf
  simp only [Tw.Conn6.run, Tw.Conn6.step, he]
  cases Tw.Conn6.run c sched with
  | error e => rfl
  | ok r => rfl

/-- `Token::random` (0.6) never returns `TOKEN_NONE` or `TOKEN_RESERVED`, whatever the random source -/
theorem conn6_random_not_reserved (draws : List Nat) (t : Nat) (h : Tw.Conn6.tokenRandom draws = some t) :
    t ≠ Tw.Conn6.TOKEN_NONE ∧ t ≠ Tw.Conn6.TOKEN_RESERVED := by
  induction draws with
  | nil => simp [Tw.Conn6.tokenRandom] at h
  | cons x xs ih =>
    simp only [Tw.Conn6.tokenRandom] at h
    split at h
    · injection h with h; subst h; assumption
    · exact ih h

/-- the token a 0.6 acceptor stores when it answers a connect request is such a value -/
theorem conn6_acceptor_token (env : Tw.Conn6.Env) (snd : Tw.Time.Timeout)
    (rd : Option Bool → Option Tw.Conn6.Packet) (c' : Tw.Conn6.Conn) (out : Tw.Conn6.Out) (t : Nat)
    (h : Tw.Conn6.feed env ⟨.unconnected, snd⟩ rd = .ok (c', out)) (hs : c'.state = .pending (some t)) :
    t ≠ Tw.Conn6.TOKEN_NONE ∧ t ≠ Tw.Conn6.TOKEN_RESERVED := by
  unfold Tw.Conn6.feed at h
  cases hr : rd (Tw.Conn6.Conn.hint ⟨.unconnected, snd⟩) with
  | none => rw [hr] at h; simp at h; rw [← h.1] at hs; simp at hs
  | some p =>
    rw [hr] at h
    cases p with
    | connless d => simp [Tw.Conn6.Packet.tokenAck?, Tw.Conn6.feedBody] at h; rw [← h.1] at hs; simp at hs
    | chunks ack tok rr n cs =>
      simp [Tw.Conn6.Packet.tokenAck?, Tw.Conn6.State.token?, Tw.Conn6.feedBody] at h
      rw [← h.1] at hs; simp at hs
    | control ack tok ctl =>
      simp only [Tw.Conn6.Packet.tokenAck?, Tw.Conn6.State.token?, Option.any_none, Bool.false_eq_true,
        if_false] at h
      cases ctl with
      | keepAlive => simp [Tw.Conn6.feedBody] at h; rw [← h.1] at hs; simp at hs
      | accept => simp [Tw.Conn6.feedBody] at h; rw [← h.1] at hs; simp at hs
      | connectAccept => simp [Tw.Conn6.feedBody] at h; rw [← h.1] at hs; simp at hs
      | close r => simp [Tw.Conn6.feedBody] at h; rw [← h.1] at hs; simp at hs
      | connect =>
        cases tok with
        | none =>
          simp [Tw.Conn6.feedBody, Tw.Conn6.tickAction, Tw.Conn6.sendControl, Tw.Conn6.controlPacket] at h
          split at h
          · cases h
          · simp at h; rw [← h.1] at hs; simp at hs
        | some tk =>
          simp only [Tw.Conn6.feedBody] at h
          split at h
          · cases hd : Tw.Conn6.tokenRandom env.draws with
            | none => rw [hd] at h; cases h
            | some nt =>
              rw [hd] at h
              simp [Tw.Conn6.tickAction, Tw.Conn6.sendControl, Tw.Conn6.controlPacket] at h
              split at h
              · cases h
              · simp at h
                rw [← h.1] at hs
                simp at hs
                subst hs
                exact conn6_random_not_reserved _ _ hd
          · simp at h; rw [← h.1] at hs; simp at hs

/-! ## 0.7 -/

/-- a datagram's token as `feed` compares it: header token of a connected or connless packet -/
def token7 : Tw.Conn7.Packet → Nat
  | .connless tok _ _ => tok
  | .control _ tok _ => tok
  | .chunks _ tok _ _ _ => tok

/-- the protocol's explicit exception: an unauthenticated token request (control `Token`, header
token `TOKEN_NONE`) while the acceptor is in `PendingConnect` -/
def tokenRequestException (st : Tw.Conn7.State) (p : Tw.Conn7.Packet) : Bool :=
  match st, p with
  | .pendingConnect _, .control _ tok (.token _) => tok == Tw.Conn7.TOKEN_NONE
  | _, _ => false

/-- **0.7.**  In every state with an own token (`Token`, `PendingConnect`, `Connecting`, `Pending`,
`Online`), a datagram the reader rejects or whose token differs from the own token — the token
request exception aside — leaves the connection equal, yields no event and sends nothing. -/
theorem conn7_foreign_inert (env : Tw.Conn7.Env) (c : Tw.Conn7.Conn) (own : Nat)
    (hfix : c.state.ownToken? = some own) (rd : Option Tw.Conn7.Packet)
    (hf : ∀ p, rd = some p → token7 p ≠ own ∧ tokenRequestException c.state p = false) :
    ∃ w, Tw.Conn7.feed env c rd = .ok (c, { sent := [], events := [], warns := w }) := by
  cases rd with
  | none => exact ⟨_, rfl⟩
  | some p =>
    obtain ⟨hne, hex⟩ := hf p rfl
    cases p with
    | connless tok rtok d =>
      simp only [token7] at hne
      simp only [Tw.Conn7.feed, hfix]
      rw [if_pos (by simpa using hne)]
      exact ⟨_, rfl⟩
    | chunks ack tok rr n cs =>
      simp only [token7] at hne
      have hexp : Tw.Conn7.expectedToken c.state (.chunks ack tok rr n cs) = own := by
        unfold Tw.Conn7.expectedToken
        split
        · rename_i h1 h2; cases h2
        · rw [hfix]; rfl
      simp only [Tw.Conn7.feed, hexp]
      rw [if_pos (by simpa using hne)]
      exact ⟨_, rfl⟩
    | control ack tok ctl =>
      simp only [token7] at hne
      have hexp : Tw.Conn7.expectedToken c.state (.control ack tok ctl) = own := by
        unfold Tw.Conn7.expectedToken
        split
        · rename_i o a t r h1 h2
          injection h2 with h2a h2b h2c
          subst h2b h2c
          simp only [tokenRequestException, h1, beq_eq_false_iff_ne, ne_eq] at hex
          rw [if_neg hex]
          rw [h1] at hfix
          simpa [Tw.Conn7.State.ownToken?] using hfix
        · rw [hfix]; rfl
      simp only [Tw.Conn7.feed, hexp]
      rw [if_pos (by simpa using hne)]
      exact ⟨_, rfl⟩

/-- the exception's whole effect: the acceptor stays in the same state and answers with one token
packet addressed to the requester's response token -/
theorem conn7_token_request_exception (env : Tw.Conn7.Env) (own : Nat) (snd : Tw.Time.Timeout)
    (ack rt : Nat) (hown : own ≠ Tw.Conn7.TOKEN_NONE) :
    Tw.Conn7.feed env ⟨.pendingConnect own, snd⟩ (some (.control ack Tw.Conn7.TOKEN_NONE (.token rt))) =
      .ok (⟨.pendingConnect own, snd⟩, { sent := [.control 0 rt (.token own)] }) := by
  obtain ⟨p, he, _⟩ := Tw.Conn7.sendControlWith_ok (.pendingConnect own) (.token own) rt (by simp) (by simp)
    (by intro r hr; injection hr with hr; subst hr; exact hown)
  have he' : Tw.Conn7.sendControlWith (.pendingConnect own) (.token own) rt = .ok [.control 0 rt (.token own)] := by
    unfold Tw.Conn7.sendControlWith at he ⊢
    cases hq : Tw.Conn7.emit [.control 0 rt (.token own)] with
    | error e => simp only [hq] at he; cases he
    | ok ps =>
      unfold Tw.Conn7.emit at hq
      split at hq
      · cases hq
      · split at hq
        · injection hq with hq; rw [hq]
        · cases hq
  simp [Tw.Conn7.feed, Tw.Conn7.expectedToken, Tw.Conn7.feedBody, he']

/-- `Token::random` (0.7) never returns `TOKEN_NONE` -/
theorem conn7_random_not_none (draws : List Nat) (t : Nat) (h : Tw.Conn7.tokenRandom draws = some t) :
    t ≠ Tw.Conn7.TOKEN_NONE := Tw.Conn7.tokenRandom_ne h

/-- … and in every state a permitted schedule reaches from a fresh 0.7 connection, the own token
(the one the endpoint hands to its peer) is not `TOKEN_NONE` -/
theorem conn7_own_token_not_none (sched : List (Tw.Conn7.Env × Tw.Conn7.Op))
    (h : Tw.Conn7.runPermitted .new sched = true) :
    ∃ c outs, Tw.Conn7.run .new sched = .ok (c, outs) ∧
      ∀ own, c.state.ownToken? = some own → own ≠ Tw.Conn7.TOKEN_NONE := by
  obtain ⟨c, outs, he, hinv, _⟩ := Tw.Conn7.run_good sched .new Tw.Conn7.Conn.new_inv h
  exact ⟨c, outs, he, hinv.own⟩

/-! ## Non-vacuity -/

example : fixed6 ⟨.online (some 0x12345678) .new, .inactive⟩ = some 0x12345678 := rfl
example : foreign6 0x12345678 (.chunks 0 (some 0x12345679) false 1 [⟨some (1, false), [1]⟩]) = true := by decide
example : foreign6 0x12345678 (.control 0 none (.close [])) = true := by decide
example : Tw.Conn6.tokenRandom [0xffffffff, 0, 7] = some 7 := by decide
example : tokenRequestException (.pendingConnect 5) (.control 0 0xffffffff (.token 9)) = true := by decide

end Tw.Props.C03
