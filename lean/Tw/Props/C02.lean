import Tw.Model.Conn6
import Tw.Model.Conn7
import Tw.Proofs.Conn6
import Tw.Proofs.Conn7
import Tw.Model.OnlineNet
import Tw.Proofs.ConnProgress
import Tw.Proofs.ConnTimed6
import Tw.Proofs.ConnTimed7
import Tw.Proofs.ConnOpen6
import Tw.Proofs.ConnOpen7

/-!
# C02 — the connection makes progress: every call returns, the deadline is finite

(a) **Every call returns.**  The model's functions are total; the only loop of the connection layer
is `Connection::resend`.  After the repair (commit "fix: Connection::resend looped forever …") it
places one chunk per iteration, so the model's `resendLoop` is structural recursion on the list of
chunks and no fuel is involved; `Fail.hang` is unreachable from every call in every state.  The loop
as it was is kept in `Tw.Conn.Unfixed` with explicit fuel: for a chunk that does not fit an empty
packet one iteration returns to the same state, and it runs out of every amount of fuel
(`unfixed_resend_diverges_witness`, defect D4 — replayed as a hang on the real 0.7 connection before
the repair).

(b) **The deadline is finite** in every non-idle state, as an invariant over all call sequences:
0.6 in `Connecting`, `Pending`, `Online`; 0.7 in `Token`, `Connecting`, `Pending`, `Online`.  For
0.7's `PendingConnect` it is false (defect D23, open): the full statement is `C02_deadline_full`,
the theorem is `conn7_deadline_finite_partial`, the counterexample `conn7_deadline_witness`.

(c) **Progress under a fair suffix.**  Online phase: `C02_progress` — over the two-endpoint system of
`Tw/Model/OnlineNet.lean` (`fairRound`: both sides resend and flush, every datagram of the round is
delivered once, in order), from every state reachable under an arbitrary admissible prefix at most
four fair rounds reach `quiescent` (everything handed over, queues and packets empty, no resend
request pending); the bound is constant.  Handshake: `handshake6_fair` (two deliveries) and
`handshake7_fair` (four deliveries) make the connector `Online` and `Ready`.  (c'') **Handshake and online phase composed, from any reachable world**: `C02_open_progress6` (≤ 5 fair
rounds) and `C02_open_progress7` (≤ 6 fair rounds): exactly one side has called `connect`, nobody is
disconnected ⇒ the connector becomes online and `Ready`, everything is handed over and acknowledged,
all queues empty.  These are the full progress statements of the property; the role hypothesis is
necessary (`C02_simultaneous_open6_witness`).

(c') **Timed fair suffix over two full connections** (`Tw/Model/NetSim.lean`, `World`: two complete
`Conn6`/`Conn7` values incl. tokens and timers, clock, per-endpoint datagram histories — builder
`connc01`): `C02_timed_progress6_partial`, `C02_timed_progress7_partial` — from every world reached by
an admissible schedule from two fresh connections in which both sides are `Online`, four timed
rounds (clock +1 s, both tick, clock +0.5 s, both tick, the datagrams emitted by the ticks delivered
in order) reach quiescence; every tick of the round is at or after the reported deadline
(`timers_due6/7`) and the two sides hold the same token (`tokens_agree6/7`), for every reachable
world.  `C02_fair_progress6_partial` / `C02_fair_progress7_partial` strengthen the round: every datagram sent
during the suffix is delivered, the answers to resend requests included.  Partial only in that the
handshake rounds (`handshake6_fair` / `handshake7_fair`) are not composed with it.
-/
namespace Tw.Props.C02
open Tw.Conn Tw.Time

/-! ## Ties -/

/-- the two timer intervals the model uses (ms), as extracted from both connection files -/
theorem tie_timeouts :
    Tw.Gen.Conn.C6.resendTimeoutMs = 1000 ∧ Tw.Gen.Conn.C6.sendTimeoutMs = 500 ∧
    Tw.Gen.Conn.C7.resendTimeoutMs = 1000 ∧ Tw.Gen.Conn.C7.sendTimeoutMs = 500 := by decide

/-! ## (a) every call returns -/

/-- no call of the 0.6 connection, in any state, with any arguments, fails to return -/
theorem conn6_call_returns (env : Tw.Conn6.Env) (c : Tw.Conn6.Conn) (op : Tw.Conn6.Op) :
    Tw.Conn6.step env c op ≠ .error .hang := (Tw.Conn6.step_keeps env c op).1

theorem conn7_call_returns (env : Tw.Conn7.Env) (c : Tw.Conn7.Conn) (op : Tw.Conn7.Op) :
    Tw.Conn7.step env c op ≠ .error .hang := (Tw.Conn7.step_keeps env c op).1

/-- in particular `resend`, for every configuration, queue and chunk size -/
theorem resend_returns (cfg : Cfg) (now : Nat) (o : Online) (send : Timeout) :
    o.resend cfg now send ≠ .error .hang := (resend_nohang cfg now o send).1

/-- whole schedules -/
theorem conn6_schedule_returns (sched : List (Tw.Conn6.Env × Tw.Conn6.Op)) :
    Tw.Conn6.run .new sched ≠ .error .hang :=
  (Tw.Conn6.run_keeps sched .new (by simp [Tw.Conn6.Armed, Tw.Conn6.Conn.new])).1

theorem conn7_schedule_returns (sched : List (Tw.Conn7.Env × Tw.Conn7.Op)) :
    Tw.Conn7.run .new sched ≠ .error .hang :=
  (Tw.Conn7.run_keeps sched .new (by simp [Tw.Conn7.Armed, Tw.Conn7.Conn.new])).1

/-- D4, the loop before the repair: with nothing queued, a chunk that does not fit an empty packet
(`3 + len > MAX_PAYLOAD`) makes one iteration return the same todo list and the same state … -/
theorem unfixed_resend_step_fixpoint (cfg : Cfg) (c : ResendChunk) (rest : List ResendChunk) (o : Online)
    (hfit : o.packet.canFit c.data.length true = false) (hidle : o.canSend = false) :
    Unfixed.resendStep cfg c rest o = .ok (c :: rest, o) := by
  simp [Unfixed.resendStep, hfit, Online.flush, hidle]

/-- … so the loop exhausts every amount of fuel -/
theorem unfixed_resend_diverges (cfg : Cfg) (now : Nat) (c : ResendChunk) (rest : List ResendChunk) (o : Online)
    (hfit : o.packet.canFit c.data.length true = false) (hidle : o.canSend = false) :
    ∀ (fuel : Nat) (send : Timeout) (acc : List Flushed),
      Unfixed.resendLoop cfg now fuel (c :: rest) o send acc = .error .hang := by
  intro fuel
  induction fuel with
  | zero => intro send acc; rfl
  | succ n ih =>
    intro send acc
    simp only [Unfixed.resendLoop, hfit, Bool.false_eq_true, if_false]
    have : o.flush = (o, []) := by simp [Online.flush, hidle]
    rw [this]
    exact ih _ _

/-- the concrete witness replayed on the implementation: 0.7, one vital chunk of 1388 bytes -/
theorem unfixed_resend_diverges_witness (data : Bytes) (hlen : data.length = 1388) (fuel : Nat) :
    Unfixed.resendLoop Tw.Conn7.cfg 0 fuel [⟨.inactive, 1, data⟩] .new .inactive [] = .error .hang :=
  unfixed_resend_diverges _ _ _ _ _
    (by simp only [hlen]; decide) (by decide) fuel _ _

/-- … on which the repaired loop returns (the chunk is queued; it travels alone in a datagram of
exactly `MAX_PACKETSIZE` bytes) -/
theorem fixed_resend_witness (data : Bytes) (hlen : data.length = 1388) :
    ∃ o s fl, resendLoop Tw.Conn7.cfg 0 [⟨.inactive, 1, data⟩] .new .inactive [] = .ok (o, s, fl) := by
  obtain ⟨o, s, fl, he, _⟩ := resendLoop_spec Tw.Conn7.cfg_ok 0 [⟨.inactive, 1, data⟩] .new .inactive []
    (Online.new_inv _) (by intro c hc; simp at hc; subst hc; simp only [hlen]; decide) (by simp)
  exact ⟨o, s, fl, he⟩

/-! ## (b) the deadline is finite in every non-idle state -/

/-- **0.6**: in every state reached by any schedule from a fresh connection, unless the connection is
idle (`Unconnected`, `Disconnected`), `needs_tick` is an instant -/
theorem conn6_deadline_finite (sched : List (Tw.Conn6.Env × Tw.Conn6.Op)) (c : Tw.Conn6.Conn)
    (outs : List Tw.Conn6.Out) (h : Tw.Conn6.run .new sched = .ok (c, outs))
    (hn : c.state ≠ .unconnected ∧ c.state ≠ .disconnected) : c.needsTick ≠ .inactive :=
  Tw.Conn6.armed_needsTick
    ((Tw.Conn6.run_keeps sched .new (by simp [Tw.Conn6.Armed, Tw.Conn6.Conn.new])).2 c outs h) hn

/-- … also from `Connection::new_accept_token` -/
theorem conn6_accept_deadline_finite (env : Tw.Conn6.Env) (tok : Nat)
    (sched : List (Tw.Conn6.Env × Tw.Conn6.Op)) (c : Tw.Conn6.Conn) (outs : List Tw.Conn6.Out)
    (h : Tw.Conn6.run (.newAcceptToken env tok) sched = .ok (c, outs))
    (hn : c.state ≠ .unconnected ∧ c.state ≠ .disconnected) : c.needsTick ≠ .inactive :=
  Tw.Conn6.armed_needsTick
    ((Tw.Conn6.run_keeps sched _ (by simp [Tw.Conn6.Armed, Tw.Conn6.Conn.newAcceptToken, Tw.Conn6.after_active])).2
      c outs h) hn

/-- the full 0.7 statement: finite deadline in every state other than `Unconnected`/`Disconnected` -/
def C02_deadline_full : Prop :=
  ∀ (sched : List (Tw.Conn7.Env × Tw.Conn7.Op)) (c : Tw.Conn7.Conn) (outs : List Tw.Conn7.Out),
    Tw.Conn7.run .new sched = .ok (c, outs) →
    c.state ≠ .unconnected ∧ c.state ≠ .disconnected → c.needsTick ≠ .inactive

/-- **0.7**, proved for every state except `PendingConnect` (`armedKind`: `Token`, `Connecting`,
`Pending`, `Online`) -/
theorem conn7_deadline_finite_partial (sched : List (Tw.Conn7.Env × Tw.Conn7.Op)) (c : Tw.Conn7.Conn)
    (outs : List Tw.Conn7.Out) (h : Tw.Conn7.run .new sched = .ok (c, outs))
    (hn : c.state.armedKind = true) : c.needsTick ≠ .inactive :=
  Tw.Conn7.armed_needsTick
    ((Tw.Conn7.run_keeps sched .new (by simp [Tw.Conn7.Armed, Tw.Conn7.Conn.new])).2 c outs h) hn

/-- D23: after answering a token request the 0.7 acceptor is mid-handshake with no deadline -/
theorem conn7_deadline_witness : ¬ C02_deadline_full := by
  intro h
  have := h [({ now := 0, draws := [7] }, .feed (some (.control 0 Tw.Conn7.TOKEN_NONE (.token 5))))]
    ⟨.pendingConnect 7, .inactive⟩ [{ sent := [.control 0 5 (.token 7)] }] rfl (by decide)
  exact this rfl

/-! ## (c) progress under a fair suffix -/

/-- the full progress claim for the online phase: from every state reachable under an arbitrary
admissible prefix (loss, duplication, reordering, delay, application calls), at most **four** fair
rounds reach quiescence — everything submitted handed over, both resend queues and packets empty, no
resend request pending.  The bound is a constant: round 1 hands everything over, round 2 carries the
acks that empty the queues, round 3 flushes what the duplicates of round 2 left queued, round 4
clears the last resend request.  (The handshake rounds are `handshake6_fair` / `handshake7_fair`.) -/
def C02_progress_full : Prop :=
  ∀ (cfg : Cfg), cfg.Ok → ∀ (ms : List Tw.OnlineNet.Move) (s : Tw.OnlineNet.Sys), Tw.OnlineNet.run cfg .init ms = some s →
    ∃ k s', k ≤ 4 ∧ Tw.OnlineNet.fairRounds cfg k s = some s' ∧ Tw.OnlineNet.quiescent s'

/-- **progress under a fair suffix (online phase)** — proof: `Tw/Proofs/ConnProgress.lean` (builder
`connc01`), on top of the component lemmas of `Tw/Proofs/ConnProgressCore.lean` -/
theorem C02_progress : C02_progress_full :=
  fun _ hc ms s hr => Tw.OnlineNet.progress hc ms s hr

/-- … for the 0.6 and the 0.7 configuration -/
theorem C02_progress6 (ms : List Tw.OnlineNet.Move) (s : Tw.OnlineNet.Sys)
    (hr : Tw.OnlineNet.run Tw.Conn6.cfg .init ms = some s) :
    ∃ k s', k ≤ 4 ∧ Tw.OnlineNet.fairRounds Tw.Conn6.cfg k s = some s' ∧ Tw.OnlineNet.quiescent s' :=
  C02_progress _ Tw.Conn6.cfg_ok ms s hr

theorem C02_progress7 (ms : List Tw.OnlineNet.Move) (s : Tw.OnlineNet.Sys)
    (hr : Tw.OnlineNet.run Tw.Conn7.cfg .init ms = some s) :
    ∃ k s', k ≤ 4 ∧ Tw.OnlineNet.fairRounds Tw.Conn7.cfg k s = some s' ∧ Tw.OnlineNet.quiescent s' :=
  C02_progress _ Tw.Conn7.cfg_ok ms s hr

/-- the chunks of a packet are exactly the sender's chunks `d, d+1, …, d+m-1` in order (non-vital
chunks may be interleaved) — the shape `resend` gives a packet -/
inductive NextChunks (sub : List Bytes) : Nat → List Chunk → Nat → Prop where
  | nil (d : Nat) : NextChunks sub d [] 0
  | nonvital (d m : Nat) (data : Bytes) (cs : List Chunk) : NextChunks sub d cs m →
      NextChunks sub d (⟨none, data⟩ :: cs) m
  | vital (d m : Nat) (r : Bool) (data : Bytes) (cs : List Chunk) : sub[d]? = some data →
      NextChunks sub (d + 1) cs m → NextChunks sub d (⟨some ((d + 1) % 1024, r), data⟩ :: cs) (m + 1)

/-- **in-order delivery makes full progress**: a receiver that has been handed `d` chunks and is fed a
packet carrying exactly the next `m` chunks accepts all of them — its ack advances to `d + m`, it is
handed exactly those payloads, and it does not ask for a resend because of this packet -/
theorem progress_in_order_delivery_partial (sub : List Bytes) (cs : List Chunk) (d m : Nat) (rr : Bool)
    (h : NextChunks sub d cs m) :
    receiveEager (d % 1024) rr cs = ((d + m) % 1024, rr) ∧
    Tw.OnlineNet.vitalPayloads (receiveLazy (d % 1024) cs) = (sub.drop d).take m := by
  induction h generalizing rr with
  | nil d => simp [receiveEager, receiveLazy, Tw.OnlineNet.vitalPayloads]
  | nonvital d m data cs _ ih =>
    obtain ⟨h1, h2⟩ := ih rr
    exact ⟨by simpa [receiveEager] using h1, by simpa [receiveLazy, Tw.OnlineNet.vitalPayloads] using h2⟩
  | vital d m r data cs hd _ ih =>
    have hacc : seqNext (d % 1024) = (d + 1) % 1024 := by rw [seqNext_val]; omega
    have h1 : (seqUpdate (d % 1024) ((d + 1) % 1024)).2 = .current := (seqUpdate_accept_snd _ _).mpr hacc
    have h2 : (seqUpdate (d % 1024) ((d + 1) % 1024)).1 = (d + 1) % 1024 := by
      rw [seqUpdate_accept_fst, if_pos hacc]
    obtain ⟨i1, i2⟩ := ih rr
    have hds : d < sub.length := (List.getElem?_eq_some_iff.mp hd).1
    constructor
    · simp only [receiveEager, h1, h2]
      have : (rr || (SeqOrd.current != SeqOrd.current)) = rr := by simp
      rw [this, i1]
      congr 2; omega
    · simp only [receiveLazy, h1, h2, if_true, Tw.OnlineNet.vitalPayloads]
      rw [i2, List.drop_eq_getElem_cons hds, List.take_succ_cons]
      rw [List.getElem?_eq_getElem hds] at hd
      injection hd with hd
      rw [hd]

/-- a lossy, reordering prefix followed by fair rounds reaches quiescence (computed on the model) -/
theorem fair_round_demo :
    (match Tw.OnlineNet.run Tw.Conn7.cfg .init
        [.send true [1] true, .send true [2] true, .flush true, .send true [3] true, .send false [7] true,
         .flush true, .deliver false 1] with
      | none => false
      | some s =>
        match Tw.OnlineNet.fairRounds Tw.Conn7.cfg 3 s with
        | none => false
        | some s' =>
          s'.del false == s'.sub true && s'.del true == s'.sub false &&
          (s'.ep true).resendQueue.isEmpty && (s'.ep false).resendQueue.isEmpty &&
          (s'.ep true).packet.chunks.isEmpty && (s'.ep false).packet.chunks.isEmpty) = true := by
  decide +kernel

/-! ### (c') timed fair suffix over two full connections -/

section Timed
open Tw.NetSim

/-- **0.6 (with and without token, `tl`), timed**: from every world reachable by an admissible schedule
(H1/H2 of C01) from two fresh connections in which both sides are online, four timed rounds — clock
+1 s, both tick, clock +0.5 s, both tick, then the datagrams the ticks emitted are delivered in order —
reach quiescence: everything submitted handed over in both directions, both resend queues and packets
empty, no resend request pending.  `_partial`: (i) both sides already `Online` (handshake rounds:
`handshake6_fair`); (ii) the round delivers the datagrams emitted by the ticks, not those emitted while a
delivery is processed. -/
theorem C02_timed_progress6_partial (tl : Bool) (alt : P6.Alt) (sched : List (Move (proto6 tl)))
    (w : World (proto6 tl)) (hadm : admissible (World.init (proto6 tl)) sched = true)
    (hrun : NetSim.run (World.init (proto6 tl)) sched = some w) {ta tb : Option Nat} {oa ob : Tw.Conn.Online}
    (ha : w.a.conn.state = .online ta oa) (hb : w.b.conn.state = .online tb ob) :
    ∃ w', timedRounds alt 4 w = some w' ∧ w'.quiescent :=
  P6.timed_progress6 tl alt sched w hadm hrun ha hb

/-- **0.7, timed** (same statement) -/
theorem C02_timed_progress7_partial (sched : List (Move proto7)) (w : World proto7)
    (hadm : admissible (World.init proto7) sched = true) (hrun : NetSim.run (World.init proto7) sched = some w)
    {oa ta ob tb : Nat} {ca cb : Tw.Conn.Online} (ha : w.a.conn.state = .online oa ta ca)
    (hb : w.b.conn.state = .online ob tb cb) :
    ∃ w', timedRounds () 4 w = some w' ∧ w'.quiescent :=
  P7.timed_progress7 sched w hadm hrun ha hb

/-- **0.6, the full fair suffix**: as above, but every datagram sent during the suffix is delivered —
the ticks' datagrams *and* the answers to resend requests emitted while a delivery is processed
(`fairRoundT`: delivery cursors per direction; leftovers of the previous round first).  The only
remaining reason for `_partial` is that both sides are already `Online` (handshake rounds:
`handshake6_fair`). -/
theorem C02_fair_progress6_partial (tl : Bool) (draws : List Nat) (alt : P6.Alt) (sched : List (Move (proto6 tl)))
    (w : World (proto6 tl)) (hadm : admissible (World.init (proto6 tl)) sched = true)
    (hrun : NetSim.run (World.init (proto6 tl)) sched = some w) {ta tb : Option Nat} {oa ob : Tw.Conn.Online}
    (ha : w.a.conn.state = .online ta oa) (hb : w.b.conn.state = .online tb ob) :
    ∃ s', fairRoundsT draws alt 4 (FairState.start w) = some s' ∧ s'.w.quiescent :=
  P6.fair_progress6 tl draws alt sched w hadm hrun ha hb

/-- **0.7, the full fair suffix** -/
theorem C02_fair_progress7_partial (draws : List Nat) (sched : List (Move proto7)) (w : World proto7)
    (hadm : admissible (World.init proto7) sched = true) (hrun : NetSim.run (World.init proto7) sched = some w)
    {oa ta ob tb : Nat} {ca cb : Tw.Conn.Online} (ha : w.a.conn.state = .online oa ta ca)
    (hb : w.b.conn.state = .online ob tb cb) :
    ∃ s', fairRoundsT draws () 4 (FairState.start w) = some s' ∧ s'.w.quiescent :=
  P7.fair_progress7 draws sched w hadm hrun ha hb

/-- **why the progress statements carry a state hypothesis** (0.6): if *both* applications called
`connect` (simultaneous open), then in every world reachable afterwards nobody is ever pending or
online and nobody is told `Ready` — each side ignores the other's `Connect`.  "The connecting side
becomes ready" therefore cannot hold from every reachable state; it needs exactly one connecting
side.  (Such worlds are reachable: example below the proof in `Tw/Proofs/ConnTimed6.lean`.) -/
theorem C02_simultaneous_open6_witness (tl : Bool) (sched : List (Move (proto6 tl))) (w : World (proto6 tl))
    (hadm : admissible (World.init (proto6 tl)) sched = true)
    (hrun : NetSim.run (World.init (proto6 tl)) sched = some w) (ha : P6.hasConnect w.a) (hb : P6.hasConnect w.b) :
    (∀ s : Side, P6.stTok (w.get s).conn.state = none) ∧
      Tw.Conn.Event.ready ∉ w.a.events ∧ Tw.Conn.Event.ready ∉ w.b.events :=
  P6.simultaneous_open6 tl sched w hadm hrun ha hb

/-- in every reachable world (no admissibility needed) an online endpoint and its pending-or-online
peer hold the same token, so neither drops the other's datagrams -/
theorem tokens_agree6 (tl : Bool) (sched : List (Move (proto6 tl))) (w : World (proto6 tl))
    (hrun : NetSim.run (World.init (proto6 tl)) sched = some w) (s : Side) {t1 : Option Nat} {o1 : Tw.Conn.Online}
    (h1 : (w.get s).conn.state = .online t1 o1) {t2 : Option Nat}
    (h2 : P6.stTok (w.get s.other).conn.state = some t2) : t1 = t2 :=
  P6.tokens_agree6 tl sched w hrun s h1 h2

theorem tokens_agree7 (sched : List (Move proto7)) (w : World proto7)
    (hrun : NetSim.run (World.init proto7) sched = some w) (s : Side) {t o : Nat}
    (h1 : (w.get s).conn.state.theirToken? = some t) (h2 : (w.get s.other).conn.state.ownToken? = some o) : t = o :=
  P7.tokens_agree7 sched w hrun s h1 h2

/-- in every reachable world, while a deadline is reported the send timer is due within 500 ms and
every retransmission timer within 1 s (0.7 `PendingConnect` unconstrained: D23) -/
theorem timers_due6 (tl : Bool) (sched : List (Move (proto6 tl))) (w : World (proto6 tl))
    (hrun : NetSim.run (World.init (proto6 tl)) sched = some w) : P6.Timed w.now w.a.conn ∧ P6.Timed w.now w.b.conn :=
  P6.timers_due6 tl sched w hrun

theorem timers_due7 (sched : List (Move proto7)) (w : World proto7)
    (hrun : NetSim.run (World.init proto7) sched = some w) : P7.Timed w.now w.a.conn ∧ P7.Timed w.now w.b.conn :=
  P7.timers_due7 sched w hrun

-- non-vacuity: an admissible busy schedule that ends online and unsettled, settled after four timed rounds
example : admissible (World.init (proto6 false)) (busy6 false) = true := by decide +kernel
example : (((NetSim.run (World.init (proto6 false)) (busy6 false)).bind (timedRounds .exact 4)).map World.settled) = some true := by
  decide +kernel
example : (((NetSim.run (World.init proto7) busy7).bind (timedRounds () 4)).map World.settled) = some true := by
  decide +kernel
example : (((NetSim.run (World.init (proto6 false)) (busy6 false)).bind fun w =>
    fairRoundsT (P := proto6 false) [] P6.Alt.exact 4 (FairState.start w)).map fun s => s.w.settled) = some true := by
  decide +kernel

/-! #### handshake + online phase, from any reachable world (0.6) -/

/-- **an online connector has been told `Ready`** (0.6): in every reachable world a side that sent a
`Connect` and is `Online` has `Ready` among its events (by C01 exactly once) -/
theorem C02_ready_of_connector6 (tl : Bool) (sched : List (Move (proto6 tl))) (w : World (proto6 tl))
    (hrun : NetSim.run (World.init (proto6 tl)) sched = some w) (s : Side) {t : Option Nat} {o : Tw.Conn.Online}
    (h1 : (w.get s).conn.state = .online t o) (h2 : P6.hasConnect (w.get s)) :
    Tw.Conn.Event.ready ∈ (w.get s).events :=
  P6.ready_of_connector6 tl sched w hrun s h1 h2

/-- … exactly once (with C01's "at most once") -/
theorem C02_ready_exactly_once6 (tl : Bool) (sched : List (Move (proto6 tl))) (w : World (proto6 tl))
    (hrun : NetSim.run (World.init (proto6 tl)) sched = some w) (s : Side) {t : Option Nat} {o : Tw.Conn.Online}
    (h1 : (w.get s).conn.state = .online t o) (h2 : P6.hasConnect (w.get s)) :
    readyCount (w.get s).events = 1 :=
  P6.ready_exactly_once6 tl sched w hrun s h1 h2

/-- no acceptor is online while its peer is still connecting (every reachable world) -/
theorem C02_no_online_acceptor_while_connecting6 (tl : Bool) (sched : List (Move (proto6 tl)))
    (w : World (proto6 tl)) (hrun : NetSim.run (World.init (proto6 tl)) sched = some w) (s : Side)
    (h1 : (w.get s).conn.state = .connecting) (h2 : ¬ P6.hasConnect (w.get s.other)) (t : Option Nat)
    (o : Tw.Conn.Online) : (w.get s.other).conn.state ≠ .online t o :=
  P6.no_online_acceptor_while_connecting6 tl sched w hrun s h1 h2 t o

/-- **0.6, handshake and online phase composed — the full progress statement for 0.6**: from every
world reachable by an admissible schedule (arbitrary loss, duplication, reordering, delay and
application calls) in which `a` has called `connect`, `b` has not (`C02_simultaneous_open6_witness`
shows the roles are necessary) and nobody is disconnected, at most **five** rounds of the fair suffix
— every datagram delivered once in order, both sides tick at their reported deadline; the acceptor's
random source can produce a token — end with `a` online and told `Ready`, everything handed over and
acknowledged on both sides, all queues empty (`quiescentH`: `b` is still `Pending` if `a` never sent
a chunk).  No shape hypothesis on the starting world. -/
theorem C02_open_progress6 (tl : Bool) (draws : List Nat) (alt : (proto6 tl).Alt) (nt : Nat)
    (hnt : Tw.Conn6.tokenRandom draws = some nt) (sched : List (Move (proto6 tl))) (w : World (proto6 tl))
    (hadm : admissible (World.init (proto6 tl)) sched = true)
    (hrun : NetSim.run (World.init (proto6 tl)) sched = some w)
    (ha : P6.hasConnect w.a) (hb : ¬ P6.hasConnect w.b)
    (hda : w.a.conn.state ≠ .disconnected) (hdb : w.b.conn.state ≠ .disconnected) :
    ∃ k, k ≤ 5 ∧ ∃ s', fairRoundsT draws alt k (FairState.start w) = some s' ∧ s'.w.quiescentH ∧
      (∃ t o s, s'.w.a.conn = ⟨.online t o, s⟩) ∧ Tw.Conn.Event.ready ∈ s'.w.a.events :=
  P6.open_progress6 tl draws alt nt hnt sched w hadm hrun ha hb hda hdb

/-! #### handshake + online phase, from any reachable world (0.7) -/

/-- **0.7, handshake and online phase composed — the full progress statement for 0.7**: from every
world reachable by an admissible schedule in which `a` has called `connect` and `b` has not (role
hypothesis on the schedule: `P7.connects`) and nobody is disconnected, at most **six** rounds of the
fair suffix (the acceptor's random source can produce a token) end with `a` online and told `Ready`,
everything handed over and acknowledged, all queues empty.  No exclusion for D23 is needed: the
missing timer of `PendingConnect` is harmless under the fair suffix because the connector
retransmits its token request and the acceptor answers each one. -/
theorem C02_open_progress7 (draws : List Nat) (nt : Nat) (hnt : Tw.Conn7.tokenRandom draws = some nt)
    (sched : List (Move proto7)) (w : World proto7)
    (hadm : admissible (World.init proto7) sched = true)
    (hrun : NetSim.run (World.init proto7) sched = some w)
    (hca : P7.connects .a sched = true) (hcb : P7.connects .b sched = false)
    (hda : w.a.conn.state ≠ .disconnected) (hdb : w.b.conn.state ≠ .disconnected) :
    ∃ k, k ≤ 6 ∧ ∃ s', fairRoundsT draws () k (FairState.start w) = some s' ∧ s'.w.quiescentH ∧
      (∃ o t c s, s'.w.a.conn = ⟨.online o t c, s⟩) ∧ Tw.Conn.Event.ready ∈ s'.w.a.events :=
  P7.open_progress7 draws nt hnt sched w hadm hrun hca hcb hda hdb

/-- every such reachable world is in one of the handshake shapes (`P7.Shape`: token × {unconnected,
pendingConnect}, connecting × {pendingConnect, pending}, online+Ready × {pending, online}) with matching
token pairs and own tokens different from `TOKEN_NONE` -/
theorem C02_handshake_shapes7 (sched : List (Move proto7)) (w : World proto7)
    (hrun : NetSim.run (World.init proto7) sched = some w)
    (hca : P7.connects .a sched = true) (hcb : P7.connects .b sched = false)
    (hda : w.a.conn.state ≠ .disconnected) (hdb : w.b.conn.state ≠ .disconnected) : P7.Shape w :=
  P7.shape_of_reachable sched w hrun hca hcb hda hdb

/-- an online 0.7 connector has been told `Ready`, and its peer is pending, online or disconnected -/
theorem C02_ready_of_connector7 (sched : List (Move proto7)) (w : World proto7)
    (hrun : NetSim.run (World.init proto7) sched = some w) (hca : P7.connects .a sched = true)
    {o t : Nat} {c : Tw.Conn.Online} (h : w.a.conn.state = .online o t c) :
    Tw.Conn.Event.ready ∈ w.a.events ∧
      (P7.tag w.b.conn.state = 4 ∨ P7.tag w.b.conn.state = 5 ∨ P7.tag w.b.conn.state = 6) :=
  P7.ready_of_connector7 sched w hrun hca h

/-- … exactly once -/
theorem C02_ready_exactly_once7 (sched : List (Move proto7)) (w : World proto7)
    (hrun : NetSim.run (World.init proto7) sched = some w) (hca : P7.connects .a sched = true)
    {o t : Nat} {c : Tw.Conn.Online} (h : w.a.conn.state = .online o t c) : readyCount w.a.events = 1 :=
  P7.ready_exactly_once7 sched w hrun hca h

end Timed

/-! ### the handshake rounds (separate from the online phase) -/

/-- what `sendControl` sends, exactly -/
theorem sendControl6_eq (st : Tw.Conn6.State) (ctl : Tw.Conn6.Control) (p : Tw.Conn6.Packet)
    (hp : Tw.Conn6.controlPacket st ctl = .ok p) (hv : p.valid = true) : Tw.Conn6.sendControl st ctl = .ok [p] := by
  unfold Tw.Conn6.sendControl
  rw [hp]
  exact Tw.Conn6.emit_ok (by intro q hq; simp at hq; subst hq; exact hv)

/-- **0.6 handshake, fair delivery**: `connect`, then the connect request delivered to a fresh acceptor
(whose random source yields a usable token `t`), then its answer delivered back: the connector is
`Online` with `t`, has been told `Ready` exactly in that call, and has sent `Accept`; the acceptor is
`Pending` with `t` and its send timer armed (it goes `Online` with the first chunk packet:
`Tw.Conn6.feedBody`, chunks case).  Three calls, two datagram deliveries. -/
theorem handshake6_fair (now1 now2 now3 : Nat) (draws : List Nat) (t : Nat)
    (ht : Tw.Conn6.tokenRandom draws = some t) :
    ∃ c1 c2 s1,
      Tw.Conn6.connect { now := now1 } .new =
        .ok (c1, { sent := [.control 0 (some Tw.Conn6.TOKEN_NONE) .connect] }) ∧
      Tw.Conn6.feed { now := now2, draws := draws } .new (fun _ => some (.control 0 (some Tw.Conn6.TOKEN_NONE) .connect)) =
        .ok (s1, { sent := [.control 0 (some t) .connectAccept] }) ∧
      s1.state = .pending (some t) ∧ s1.needsTick ≠ .inactive ∧
      Tw.Conn6.feed { now := now3 } c1 (fun _ => some (.control 0 (some t) .connectAccept)) =
        .ok (c2, { sent := [.control 0 (some t) .accept], events := [.ready] }) ∧
      c2.state = .online (some t) .new := by
  have v1 : (Tw.Conn6.Packet.control 0 (some Tw.Conn6.TOKEN_NONE) .connect).valid = true :=
    Tw.Conn6.control_valid _ _ _ (by simp)
  have v2 : (Tw.Conn6.Packet.control 0 (some t) .connectAccept).valid = true := Tw.Conn6.control_valid _ _ _ (by simp)
  have v3 : (Tw.Conn6.Packet.control 0 (some t) .accept).valid = true := Tw.Conn6.control_valid _ _ _ (by simp)
  have e1 := sendControl6_eq .connecting .connect _ rfl v1
  have e2 := sendControl6_eq (.pending (some t)) .connectAccept _ rfl v2
  have e3 := sendControl6_eq (.online (some t) .new) .accept _ rfl v3
  refine ⟨⟨.connecting, Tw.Time.Timeout.after now1 sendUs⟩, ⟨.online (some t) .new, Tw.Time.Timeout.after now1 sendUs⟩,
    ⟨.pending (some t), Tw.Time.Timeout.after now2 sendUs⟩, ?_, ?_, rfl, ?_, ?_, rfl⟩
  · simp [Tw.Conn6.connect, Tw.Conn6.Conn.new, Tw.Conn6.tickAction, e1]
  · simp [Tw.Conn6.feed, Tw.Conn6.Conn.new, Tw.Conn6.Conn.hint, Tw.Conn6.State.token?, Tw.Conn6.Packet.tokenAck?,
      Tw.Conn6.feedBody, ht, Tw.Conn6.tickAction, e2]
  · simp [Tw.Conn6.Conn.needsTick, Tw.Time.Timeout.min, Tw.Time.Timeout.le, Tw.Time.Timeout.after]
  · simp [Tw.Conn6.feed, Tw.Conn6.Conn.hint, Tw.Conn6.State.token?, Tw.Conn6.Packet.tokenAck?,
      Tw.Conn6.feedBody, e3]
    rfl

theorem sendControlWith7_eq (st : Tw.Conn7.State) (ctl : Tw.Conn7.Control) (tok : Nat)
    (hst : st.isOnline = false) (hv : (Tw.Conn7.Packet.control 0 tok ctl).valid = true) :
    Tw.Conn7.sendControlWith st ctl tok = .ok [.control 0 tok ctl] := by
  have he : Tw.Conn7.emit [.control 0 tok ctl] = .ok [.control 0 tok ctl] :=
    Tw.Conn7.emit_ok (by intro q hq; simp at hq; subst hq; exact hv)
  cases st with
  | online a b o => simp [Tw.Conn7.State.isOnline] at hst
  | unconnected => exact he
  | token a => exact he
  | pendingConnect a => exact he
  | connecting a b => exact he
  | pending a b => exact he
  | disconnected => exact he

/-- **0.7 handshake, fair delivery**: token request, token answer, connect, accept — five calls, four
datagram deliveries — make the connector `Online` and `Ready`; the acceptor is `Pending` (online with
the first chunk packet).  While the acceptor is in `PendingConnect` (after the second call) it has no
deadline (D23), which does not matter as long as the client's `Connect` arrives. -/
theorem handshake7_fair (n1 n2 n3 n4 n5 : Nat) (dA dB : List Nat) (a b : Nat)
    (ha : Tw.Conn7.tokenRandom dA = some a) (hb : Tw.Conn7.tokenRandom dB = some b) :
    ∃ c1 c2 c3 s1 s2,
      Tw.Conn7.connect { now := n1, draws := dA } .new =
        .ok (c1, { sent := [.control 0 Tw.Conn7.TOKEN_NONE (.token a)] }) ∧
      Tw.Conn7.feed { now := n2, draws := dB } .new (some (.control 0 Tw.Conn7.TOKEN_NONE (.token a))) =
        .ok (s1, { sent := [.control 0 a (.token b)] }) ∧
      Tw.Conn7.feed { now := n3 } c1 (some (.control 0 a (.token b))) =
        .ok (c2, { sent := [.control 0 b (.connect a)] }) ∧
      Tw.Conn7.feed { now := n4 } s1 (some (.control 0 b (.connect a))) =
        .ok (s2, { sent := [.control 0 a .accept] }) ∧
      s2.state = .pending b a ∧ s2.needsTick ≠ .inactive ∧
      Tw.Conn7.feed { now := n5 } c2 (some (.control 0 a .accept)) = .ok (c3, { events := [.ready] }) ∧
      c3.state = .online a b .new := by
  have na := Tw.Conn7.tokenRandom_ne ha
  have nb := Tw.Conn7.tokenRandom_ne hb
  have v1 : (Tw.Conn7.Packet.control 0 Tw.Conn7.TOKEN_NONE (.token a)).valid = true :=
    Tw.Conn7.control_valid _ _ _ (by simp) (by simp) (by intro rt h; injection h with h; subst h; exact na)
  have v2 : (Tw.Conn7.Packet.control 0 a (.token b)).valid = true :=
    Tw.Conn7.control_valid _ _ _ (by simp) (by simp) (by intro rt h; injection h with h; subst h; exact nb)
  have v3 : (Tw.Conn7.Packet.control 0 b (.connect a)).valid = true :=
    Tw.Conn7.control_valid _ _ _ (by simp) (by intro rt h; injection h with h; subst h; exact na) (by simp)
  have v4 : (Tw.Conn7.Packet.control 0 a .accept).valid = true :=
    Tw.Conn7.control_valid _ _ _ (by simp) (by simp) (by simp)
  have e1 : Tw.Conn7.sendControl (.token a) (.token a) = .ok [.control 0 Tw.Conn7.TOKEN_NONE (.token a)] :=
    sendControlWith7_eq _ _ _ rfl v1
  have e2 := sendControlWith7_eq (.pendingConnect b) (.token b) a rfl v2
  have e3 : Tw.Conn7.sendControl (.connecting a b) (.connect a) = .ok [.control 0 b (.connect a)] :=
    sendControlWith7_eq _ _ _ rfl v3
  have e4 : Tw.Conn7.sendControl (.pending b a) .accept = .ok [.control 0 a .accept] :=
    sendControlWith7_eq _ _ _ rfl v4
  have hne : ¬ (a = Tw.Conn7.TOKEN_NONE) := na
  refine ⟨⟨.token a, Tw.Time.Timeout.after n1 sendUs⟩, ⟨.connecting a b, Tw.Time.Timeout.after n3 sendUs⟩,
    ⟨.online a b .new, Tw.Time.Timeout.after n3 sendUs⟩, ⟨.pendingConnect b, .inactive⟩,
    ⟨.pending b a, Tw.Time.Timeout.after n4 sendUs⟩, ?_, ?_, ?_, ?_, rfl, ?_, ?_, rfl⟩
  · simp [Tw.Conn7.connect, Tw.Conn7.Conn.new, ha, Tw.Conn7.tickAction, e1]
  · simp [Tw.Conn7.feed, Tw.Conn7.Conn.new, Tw.Conn7.expectedToken, Tw.Conn7.State.ownToken?,
      Tw.Conn7.feedBody, hb, e2]
  · simp [Tw.Conn7.feed, Tw.Conn7.expectedToken, Tw.Conn7.State.ownToken?, Tw.Conn7.feedBody,
      Tw.Conn7.tickAction, e3]
  · simp [Tw.Conn7.feed, Tw.Conn7.expectedToken, Tw.Conn7.State.ownToken?, Tw.Conn7.feedBody,
      Tw.Conn7.tickAction, e4]
  · simp [Tw.Conn7.Conn.needsTick, Tw.Time.Timeout.min, Tw.Time.Timeout.le, Tw.Time.Timeout.after]
  · simp [Tw.Conn7.feed, Tw.Conn7.expectedToken, Tw.Conn7.State.ownToken?, Tw.Conn7.feedBody]

/-! ## Non-vacuity -/

example : NextChunks [[5], [6]] 0 [⟨some (1, true), [5]⟩, ⟨none, [9]⟩, ⟨some (2, true), [6]⟩] 2 :=
  .vital 0 1 true [5] _ rfl (.nonvital 1 1 [9] _ (.vital 1 0 true [6] _ rfl (.nil 2)))

example : ∃ c outs, Tw.Conn6.run .new [({ now := 0 }, .connect)] = .ok (c, outs) ∧
    c.state = .connecting ∧ c.needsTick = .active 500000 := ⟨_, _, rfl, rfl, rfl⟩

example : (Tw.Conn7.State.token 5).armedKind = true := rfl

end Tw.Props.C02
