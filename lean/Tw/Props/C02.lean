import Tw.Model.Conn6
import Tw.Model.Conn7
import Tw.Proofs.Conn6
import Tw.Proofs.Conn7

/-!
# C02 — the connection makes progress: every call returns, the deadline is finite

(a) **Every call returns.**  The model's functions are total; the only loop of the connection layer
is `Connection::resend`.  After the repair (commit "fix: Connection::resend looped forever …") it
places one chunk per iteration, so the model's `resendLoop` is structural recursion on the list of
chunks and no fuel is involved; `Fail.hang` is unreachable from every call in every state.  The loop
as it was is kept in `Tw.Conn.Unfixed` with explicit fuel: for a chunk that does not fit an empty
packet one iteration returns to the same state, and it runs out of every amount of fuel
(`unfixed_resend_diverges_witness`, defect D4 — replayed as a hang on the real 0.7 connection before
the repair).

(b) **The deadline is finite** in every non-idle state, as an invariant over all call sequences:
0.6 in `Connecting`, `Pending`, `Online`; 0.7 in `Token`, `Connecting`, `Pending`, `Online`.  For
0.7's `PendingConnect` it is false (defect D23, open): the full statement is `C02_deadline_full`,
the theorem is `conn7_deadline_finite_partial`, the counterexample `conn7_deadline_witness`.

(c) Progress under a fair suffix is stated in `C02_progress_full` over the two-endpoint system of
`Props/C01`; what is proved of it is listed there.
-/
namespace Tw.Props.C02
open Tw.Conn Tw.Time

/-! ## Ties -/

/-- the two timer intervals the model uses (ms), as extracted from both connection files -/
theorem tie_timeouts :
    Tw.Gen.Conn.C6.resendTimeoutMs = 1000 ∧ Tw.Gen.Conn.C6.sendTimeoutMs = 500 ∧
    Tw.Gen.Conn.C7.resendTimeoutMs = 1000 ∧ Tw.Gen.Conn.C7.sendTimeoutMs = 500 := by decide

/-! ## (a) every call returns -/

/-- no call of the 0.6 connection, in any state, with any arguments, fails to return -/
theorem conn6_call_returns (env : Tw.Conn6.Env) (c : Tw.Conn6.Conn) (op : Tw.Conn6.Op) :
    Tw.Conn6.step env c op ≠ .error .hang := (Tw.Conn6.step_keeps env c op).1

theorem conn7_call_returns (env : Tw.Conn7.Env) (c : Tw.Conn7.Conn) (op : Tw.Conn7.Op) :
    Tw.Conn7.step env c op ≠ .error .hang := (Tw.Conn7.step_keeps env c op).1

/-- in particular `resend`, for every configuration, queue and chunk size -/
theorem resend_returns (cfg : Cfg) (now : Nat) (o : Online) (send : Timeout) :
    o.resend cfg now send ≠ .error .hang := (resend_nohang cfg now o send).1

/-- whole schedules -/
theorem conn6_schedule_returns (sched : List (Tw.Conn6.Env × Tw.Conn6.Op)) :
    Tw.Conn6.run .new sched ≠ .error .hang :=
  (Tw.Conn6.run_keeps sched .new (by simp [Tw.Conn6.Armed, Tw.Conn6.Conn.new])).1

theorem conn7_schedule_returns (sched : List (Tw.Conn7.Env × Tw.Conn7.Op)) :
    Tw.Conn7.run .new sched ≠ .error .hang :=
  (Tw.Conn7.run_keeps sched .new (by simp [Tw.Conn7.Armed, Tw.Conn7.Conn.new])).1

/-- D4, the loop before the repair: with nothing queued, a chunk that does not fit an empty packet
(`3 + len > MAX_PAYLOAD`) makes one iteration return the same todo list and the same state … -/
theorem unfixed_resend_step_fixpoint (cfg : Cfg) (c : ResendChunk) (rest : List ResendChunk) (o : Online)
    (hfit : o.packet.canFit c.data.length true = false) (hidle : o.canSend = false) :
    Unfixed.resendStep cfg c rest o = .ok (c :: rest, o) := by
  simp [Unfixed.resendStep, hfit, Online.flush, hidle]

/-- … so the loop exhausts every amount of fuel -/
theorem unfixed_resend_diverges (cfg : Cfg) (now : Nat) (c : ResendChunk) (rest : List ResendChunk) (o : Online)
    (hfit : o.packet.canFit c.data.length true = false) (hidle : o.canSend = false) :
    ∀ (fuel : Nat) (send : Timeout) (acc : List Flushed),
      Unfixed.resendLoop cfg now fuel (c :: rest) o send acc = .error .hang := by
  intro fuel
  induction fuel with
  | zero => intro send acc; rfl
  | succ n ih =>
    intro send acc
    simp only [Unfixed.resendLoop, hfit, Bool.false_eq_true, if_false]
    have : o.flush = (o, []) := by simp [Online.flush, hidle]
    rw [this]
    exact ih _ _

/-- the concrete witness replayed on the implementation: 0.7, one vital chunk of 1388 bytes -/
theorem unfixed_resend_diverges_witness (data : Bytes) (hlen : data.length = 1388) (fuel : Nat) :
    Unfixed.resendLoop Tw.Conn7.cfg 0 fuel [⟨.inactive, 1, data⟩] .new .inactive [] = .error .hang :=
  unfixed_resend_diverges _ _ _ _ _
    (by simp only [hlen]; decide) (by decide) fuel _ _

/-- … on which the repaired loop returns (the chunk is queued; it travels alone in a datagram of
exactly `MAX_PACKETSIZE` bytes) -/
theorem fixed_resend_witness (data : Bytes) (hlen : data.length = 1388) :
    ∃ o s fl, resendLoop Tw.Conn7.cfg 0 [⟨.inactive, 1, data⟩] .new .inactive [] = .ok (o, s, fl) := by
  obtain ⟨o, s, fl, he, _⟩ := resendLoop_spec Tw.Conn7.cfg_ok 0 [⟨.inactive, 1, data⟩] .new .inactive []
    (Online.new_inv _) (by intro c hc; simp at hc; subst hc; simp only [hlen]; decide) (by simp)
  exact ⟨o, s, fl, he⟩

/-! ## (b) the deadline is finite in every non-idle state -/

/-- **0.6**: in every state reached by any schedule from a fresh connection, unless the connection is
idle (`Unconnected`, `Disconnected`), `needs_tick` is an instant -/
theorem conn6_deadline_finite (sched : List (Tw.Conn6.Env × Tw.Conn6.Op)) (c : Tw.Conn6.Conn)
    (outs : List Tw.Conn6.Out) (h : Tw.Conn6.run .new sched = .ok (c, outs))
    (hn : c.state ≠ .unconnected ∧ c.state ≠ .disconnected) : c.needsTick ≠ .inactive :=
  Tw.Conn6.armed_needsTick
    ((Tw.Conn6.run_keeps sched .new (by simp [Tw.Conn6.Armed, Tw.Conn6.Conn.new])).2 c outs h) hn

/-- … also from `Connection::new_accept_token` -/
theorem conn6_accept_deadline_finite (env : Tw.Conn6.Env) (tok : Nat)
    (sched : List (Tw.Conn6.Env × Tw.Conn6.Op)) (c : Tw.Conn6.Conn) (outs : List Tw.Conn6.Out)
    (h : Tw.Conn6.run (.newAcceptToken env tok) sched = .ok (c, outs))
    (hn : c.state ≠ .unconnected ∧ c.state ≠ .disconnected) : c.needsTick ≠ .inactive :=
  Tw.Conn6.armed_needsTick
    ((Tw.Conn6.run_keeps sched _ (by simp [Tw.Conn6.Armed, Tw.Conn6.Conn.newAcceptToken, Tw.Conn6.after_active])).2
      c outs h) hn

/-- the full 0.7 statement: finite deadline in every state other than `Unconnected`/`Disconnected` -/
def C02_deadline_full : Prop :=
  ∀ (sched : List (Tw.Conn7.Env × Tw.Conn7.Op)) (c : Tw.Conn7.Conn) (outs : List Tw.Conn7.Out),
    Tw.Conn7.run .new sched = .ok (c, outs) →
    c.state ≠ .unconnected ∧ c.state ≠ .disconnected → c.needsTick ≠ .inactive

/-- **0.7**, proved for every state except `PendingConnect` (`armedKind`: `Token`, `Connecting`,
`Pending`, `Online`) -/
theorem conn7_deadline_finite_partial (sched : List (Tw.Conn7.Env × Tw.Conn7.Op)) (c : Tw.Conn7.Conn)
    (outs : List Tw.Conn7.Out) (h : Tw.Conn7.run .new sched = .ok (c, outs))
    (hn : c.state.armedKind = true) : c.needsTick ≠ .inactive :=
  Tw.Conn7.armed_needsTick
    ((Tw.Conn7.run_keeps sched .new (by simp [Tw.Conn7.Armed, Tw.Conn7.Conn.new])).2 c outs h) hn

/-- D23: after answering a token request the 0.7 acceptor is mid-handshake with no deadline -/
theorem conn7_deadline_witness : ¬ C02_deadline_full := by
  intro h
  have := h [({ now := 0, draws := [7] }, .feed (some (.control 0 Tw.Conn7.TOKEN_NONE (.token 5))))]
    ⟨.pendingConnect 7, .inactive⟩ [{ sent := [.control 0 5 (.token 7)] }] rfl (by decide)
  exact this rfl

/-! ## Non-vacuity -/

example : ∃ c outs, Tw.Conn6.run .new [({ now := 0 }, .connect)] = .ok (c, outs) ∧
    c.state = .connecting ∧ c.needsTick = .active 500000 := ⟨_, _, rfl, rfl, rfl⟩

example : (Tw.Conn7.State.token 5).armedKind = true := rfl

end Tw.Props.C02
