import Tw.Model.Buffer
import Tw.Proofs.Buffer
import Tw.Proofs.BufferIdeal
import Tw.Gen.Buffer

/-!
# C19 — the uninitialised-buffer abstraction never overruns and counts exactly

Property theorems only (helper lemmas: `Tw/Proofs/Buffer.lean`).  The model is
`Tw/Model/Buffer.lean`: a view is the spare-capacity memory `mem` plus the separate counter `init`
(`BufferRef { buffer, initialized_ }`); containers are `{kind, buf, len}`; a session is a container,
the stack of live (nested, possibly capped) views and a reader.  It is tied to `buffer/src/**` by the
`buffer` correspondence domain (real nested `with_buffer` closures; exhaustive over all operation
sequences up to a small length per container shape, random longer ones) and the ties below.

The memory-safety sentence of C19 is *not* a theorem (a list model cannot exhibit undefined
behaviour); see `notes/buffer.md` for the Miri validation.
-/
namespace Tw.Props.C19
open Tw.Buffer

/-- Tie to the source: the literals of the `BufferRef` methods are the ones the model was written
against (`debug_assert!(*initialized == 0)`, `+= 1` per stored byte, `assert!(… == 0)` in `cap_at`),
every intermediate object starts its counter at 0, and exactly `vec`, `arrayvec`, `slice_ref`,
`buffer_ref` have a `Drop` impl (a slice has none; `CapAtBuffer` relies on its inner object's). -/
theorem tie_literals :
    Tw.Gen.Buffer.lits_new = [0] ∧ Tw.Gen.Buffer.lits_advance = [] ∧ Tw.Gen.Buffer.lits_extend = [1] ∧
    Tw.Gen.Buffer.lits_initialized = [] ∧ Tw.Gen.Buffer.lits_remaining = [] ∧
    Tw.Gen.Buffer.lits_cap_at = [0] ∧ Tw.Gen.Buffer.initial_counters = [0, 0, 0, 0, 0] ∧
    Tw.Gen.Buffer.drop_impls = ["vec", "arrayvec", "slice_ref", "buffer_ref"] := by decide

/-- Tie to the source: the reader types declared `ReadBufferMarker` ("`read` does not look at the
buffer it is given", the assumption under which `read_buffer_ref` hands out uninitialised memory)
are the reviewed list.  A new `unsafe impl` breaks this tie and must be reviewed. -/
theorem tie_marked_readers :
    Tw.Gen.Buffer.marked_readers =
      ["&'a [u8]", "&'a fs::File", "&'a mut R", "&'a net::TcpStream", "Box<R>", "fs::File",
       "io::BufReader<R>", "io::Chain<T, U>", "io::Empty", "io::Repeat", "io::Stdin",
       "io::StdinLock<'a>", "io::Take<R>", "net::TcpStream", "process::ChildStderr",
       "process::ChildStdout"] := by decide

/-! ## 1. the counter never exceeds the capacity -/

/-- For every container kind, capacity, pre-existing contents (and whatever the spare memory
holds), and **every** sequence of operations — writes, iterator extends (also ones that panic in
the middle), `advance`, nested and capped views, reads, early exits, panics and the unwinding they
cause — in the state reached: the container's length is at most its capacity, and for every live
view the counter is at most the view's capacity. -/
theorem counter_never_exceeds_capacity (k : Kind) (cap : Nat) (old : List UInt8) (junk : UInt8)
    (h : old.length ≤ cap) (ops : List Op) :
    let s := ((Sess.fresh (Store.fresh k cap old junk)).run ops).1
    s.store.len ≤ s.store.buf.length ∧ ∀ v ∈ s.stack, v.init ≤ v.mem.length := by
  intro s
  have hw : s.Wf := Sess.run_wf ops (Sess.fresh_wf _ (Store.fresh_wf k cap old junk (fun _ => h)))
  exact ⟨hw.1.1, fun v hv => stackOk_mem hw.2 v hv⟩

/-- The unreachable panic sites (`remaining`'s subtraction, the slice expressions of `initialized`
and `extend`) are indeed never taken: under the invariant these operations do not panic. -/
theorem no_internal_panic (v : View) (h : v.init ≤ v.mem.length) (xs : List UInt8) :
    v.remaining = some (v.mem.length - v.init) ∧ v.initialized = some (v.mem.take v.init) ∧
    (v.extend xs).2 ≠ .panic := by
  refine ⟨View.remaining_eq h, View.initialized_eq h, ?_⟩
  rw [View.extend_res h]; split <;> simp

/-! ## 2. a write fails exactly when it does not fit, and commits exactly the fitting prefix -/

/-- `write xs` (and `extend` with an iterator yielding `xs`) returns `Err(CapacityError)` iff `xs`
is longer than `remaining()`. -/
theorem write_error_iff_too_long (v : View) (h : v.init ≤ v.mem.length) (xs : List UInt8) :
    (v.extend xs).2 = .cap ↔ xs.length > v.mem.length - v.init := by
  rw [View.extend_res h]
  simp only [View.room]
  by_cases hx : xs.length ≤ v.mem.length - v.init
  · simp [hx]
  · simp [hx]; omega

/-- Whether or not it fails, a write commits exactly the prefix of `xs` that fits: the initialised
bytes grow by that prefix, the counter by its length, the capacity stays, and nothing before the
old counter changes. -/
theorem write_commits_fitting_prefix (v : View) (h : v.init ≤ v.mem.length) (xs : List UInt8) :
    let v' := (v.extend xs).1
    let fit := xs.take (v.mem.length - v.init)
    v'.initialized = some (v.mem.take v.init ++ fit) ∧ v'.init = v.init + fit.length ∧
    v'.mem.length = v.mem.length ∧ v'.init ≤ v'.mem.length := by
  intro v' fit
  have hw := View.extend_wf h xs
  refine ⟨?_, ?_, View.extend_cap h xs, hw⟩
  · rw [View.initialized_eq hw, View.extend_done h]; rfl
  · rw [View.extend_init h]; simp [fit, View.room]; omega

/-! ## 3. the initialised bytes are the writes, in order -/

/-- After any sequence of writes `xs₁, xs₂, …` through a view, `initialized()` is what was
initialised before followed by the concatenation of the writes, cut at the capacity; and all of the
writes succeed iff the concatenation fits. -/
theorem initialized_is_concatenation_of_writes (v : View) (h : v.init ≤ v.mem.length)
    (ws : List (List UInt8)) :
    (v.writeAll ws).1.initialized = some (v.mem.take v.init ++ ws.flatten.take (v.mem.length - v.init)) ∧
    ((∀ r ∈ (v.writeAll ws).2, r = Res.ok) ↔ ws.flatten.length ≤ v.mem.length - v.init) := by
  obtain ⟨h1, _, h3, h4⟩ := View.writeAll_spec ws h
  exact ⟨by rw [View.initialized_eq h1, h3]; rfl, h4⟩

/-- … in particular, when every write succeeded, exactly the concatenation of the writes. -/
theorem initialized_is_concatenation_of_successful_writes (cap : List UInt8) (ws : List (List UInt8))
    (hok : ∀ r ∈ (View.writeAll ⟨cap, 0⟩ ws).2, r = Res.ok) :
    (View.writeAll ⟨cap, 0⟩ ws).1.initialized = some ws.flatten := by
  have h : (⟨cap, 0⟩ : View).init ≤ (⟨cap, 0⟩ : View).mem.length := Nat.zero_le _
  obtain ⟨h1, h2⟩ := initialized_is_concatenation_of_writes ⟨cap, 0⟩ h ws
  rw [h1]
  have := h2.mp hok
  simp only [List.take_zero, List.nil_append, Nat.sub_zero] at *
  rw [List.take_of_length_le this]

/-! ## 4. release: the container grows by exactly the initialised bytes -/

/-- `Drop for VecBuffer` / `ArrayVecBuffer`: after the view is released the vector's contents are
the old contents followed by the view's initialised bytes, its length grew by exactly the counter,
its capacity is unchanged.  (The same for a caller-owned slice + counter, `BufferRef::new`: the
counted prefix of the slice grows by exactly the initialised bytes.) -/
theorem release_vector (s : Store) (v : View) (hk : s.kind = .vec ∨ s.kind = .arr ∨ s.kind = .raw)
    (hs : s.len ≤ s.buf.length) (hv : v.init ≤ v.mem.length) (hf : v.mem.length ≤ s.buf.length - s.len) :
    (s.release v).contents = s.contents ++ v.mem.take v.init ∧ (s.release v).len = s.len + v.init ∧
    (s.release v).buf.length = s.buf.length ∧ (s.release v).len ≤ (s.release v).buf.length := by
  have hsw : s.Wf := ⟨hs, by rcases hk with hk | hk | hk <;> simp [hk]⟩
  obtain ⟨h1, h2, h3, _⟩ := Store.release_vec hsw hv hf hk
  exact ⟨h1, h2, h3, (Store.release_wf hsw hv hf).1⟩

/-- a byte slice has no length to update: it keeps its length and starts with the initialised bytes -/
theorem release_slice (s : Store) (v : View) (hk : s.kind = .slice) (h0 : s.len = 0)
    (hv : v.init ≤ v.mem.length) (hf : v.mem.length ≤ s.buf.length) :
    (s.release v).contents.take v.init = v.mem.take v.init ∧
    (s.release v).contents.length = s.contents.length := by
  have hsw : s.Wf := ⟨by omega, fun _ => h0⟩
  obtain ⟨h1, h2, _, _⟩ := Store.release_slice hsw hv (by simp [Store.room, h0]; exact hf) hk
  exact ⟨h1, h2⟩

/-- `Drop for SliceRefBuffer`: the slice reference is narrowed to exactly the initialised bytes -/
theorem release_slice_ref (s : Store) (v : View) (hk : s.kind = .sref) (h0 : s.len = 0)
    (hv : v.init ≤ v.mem.length) (hf : v.mem.length ≤ s.buf.length) :
    (s.release v).contents = v.mem.take v.init := by
  have hsw : s.Wf := ⟨by omega, fun _ => h0⟩
  exact (Store.release_sref hsw hv (by simp [Store.room, h0]; exact hf) hk).1

/-- `Drop for BufferRefBuffer`: releasing a nested view appends exactly the child's initialised
bytes to the parent's, adds the child's counter to the parent's, and keeps the parent's capacity. -/
theorem release_nested (p c : View) (hp : p.init ≤ p.mem.length) (hc : c.init ≤ c.mem.length)
    (hf : c.mem.length ≤ p.mem.length - p.init) :
    (p.writeBack c).initialized = some (p.mem.take p.init ++ c.mem.take c.init) ∧
    (p.writeBack c).init = p.init + c.init ∧ (p.writeBack c).mem.length = p.mem.length ∧
    (p.writeBack c).init ≤ (p.writeBack c).mem.length := by
  have hw := View.writeBack_wf hp hc hf
  refine ⟨?_, rfl, View.writeBack_cap hp hf, hw⟩
  rw [View.initialized_eq hw, View.writeBack_done hp hc hf]; rfl

/-! ## 5. capped views -/

/-- `x.cap_at(c₁).cap_at(c₂)…` yields (never panics) a view onto the first
`min(cap, c₁, c₂, …)` bytes with counter 0 — for *every* cap, also those beyond the capacity
(defect D14, repaired: the unrepaired code panicked there, see `cap_at_unfixed_witness`). -/
theorem cap_at_is_min (v : View) (h0 : v.init = 0) (caps : List Nat) :
    ∃ v', v.capAll caps = some v' ∧ v'.init = 0 ∧ v'.mem = v.mem.take (caps.foldl min v.mem.length) ∧
      v'.remaining = some (caps.foldl min v.mem.length) := by
  refine ⟨_, View.capAll_eq caps v h0, rfl, rfl, ?_⟩
  have := View.foldl_min_le caps v.mem.length
  simp [View.remaining, Nat.min_eq_left this]

/-- D14 in the model of the unrepaired code: `cap_at(8)` on a 4-byte slice panicked. -/
theorem cap_at_unfixed_witness :
    View.capAtUnfixed ⟨[0, 0, 0, 0], 0⟩ 8 = none ∧
    (View.capAt ⟨[0, 0, 0, 0], 0⟩ 8).map (·.remaining) = some (some 4) := by decide

/-! ## 6. `advance` refuses to go past the capacity -/

/-- `advance(n)` succeeds iff `n ≤ remaining()`; otherwise it panics (the `assert!`) and the
counter is unchanged. -/
theorem advance_refuses_overrun (v : View) (h : v.init ≤ v.mem.length) (n : Nat) :
    (n ≤ v.mem.length - v.init → v.advance n = ({ v with init := v.init + n }, .ok)) ∧
    (n > v.mem.length - v.init → v.advance n = (v, .panic)) := by
  unfold View.advance
  constructor <;> intro hn
  · rw [if_pos (by omega)]
  · rw [if_neg (by omega)]

/-! ## 7. every operation sequence: the model refines the ideal ("counts exactly") semantics

`Tw/Proofs/BufferIdeal.lean` defines the *ideal* semantics the property describes in words: a view is
just its capacity and the log of the bytes committed through it, in order (no memory, no counter);
a write appends the fitting prefix to the log; a released nested view's log is appended to its
parent's; the released outermost view's log is appended to the vector's contents (or becomes the
slice reference).  A capped view has capacity `min`. -/

/-- For every container kind, capacity, old contents, spare-memory content and **every** operation
sequence (writes, extends, panicking iterators, `advance`, nested and capped views, reads with any
reader, early exits, panics + unwinding):
* the model of the code gives exactly the responses of the ideal semantics
  (`Ok`/`Err(CapacityError)`, `remaining()`, the bytes of `initialized()` and of `read_buffer`,
  panics);
* every live view has the ideal view's capacity, its `initialized()` bytes are the ideal log — the
  concatenation, in order, of what was committed through it and through its released children — and
  its counter is the length of that log;
* a vector's contents are the ideal contents (old contents followed by the logs of the released
  outermost views), its length is their length, and its capacity is still `cap`; a slice keeps its
  length; a slice reference is exactly the ideal slice; a caller-owned counter counts exactly the
  ideal contents, which are a prefix of the caller's slice (a second `BufferRef::new` on a counter
  that is not 0 is refused — both semantics answer `panic`). -/
theorem model_refines_ideal_semantics (k : Kind) (cap : Nat) (old : List UInt8) (junk : UInt8)
    (h : old.length ≤ cap) (ops : List Op) :
    let m := (Sess.fresh (Store.fresh k cap old junk)).run ops
    let i := (ISess.fresh (IStore.fresh k cap old)).run ops
    m.2 = i.2 ∧
    m.1.stack.length = i.1.stack.length ∧
    (∀ p ∈ List.zip m.1.stack i.1.stack,
      p.1.mem.length = p.2.cap ∧ p.1.initialized = some p.2.log ∧ p.1.init = p.2.log.length ∧
      p.2.log.length ≤ p.2.cap) ∧
    ((k = .vec ∨ k = .arr) → m.1.store.contents = i.1.store.data ∧
      m.1.store.len = i.1.store.data.length ∧ m.1.store.buf.length = cap ∧ i.1.store.cap = cap) ∧
    (k = .slice → m.1.store.contents.length = old.length) ∧
    (k = .sref → m.1.store.contents = i.1.store.data) ∧
    (k = .raw → m.1.store.contents = i.1.store.data ∧ m.1.store.len = i.1.store.data.length ∧
      m.1.store.buf.length = old.length) := by
  intro m i
  have key : Rel m.1 i.1 ∧ m.2 = i.2 := run_rel ops (fresh_rel k cap old junk h)
  have hsame : i.1.store.Same (ISess.fresh (IStore.fresh k cap old)).store := ISess.run_same ops _
  clear_value m i
  obtain ⟨hrel, hresp⟩ := key
  obtain ⟨hw, hs, hst, _⟩ := hrel
  obtain ⟨hl, hz⟩ := stackRel_zip hst
  refine ⟨hresp, hl, ?_, ?_, ?_, ?_, ?_⟩
  · intro p hp
    have hv := hz p hp
    have hi := hv.init_eq
    have hwf : p.1.init ≤ p.1.mem.length := hv.1
    exact ⟨hv.2.1, by rw [View.initialized_eq hv.1, hv.2.2], hi, by rw [← hv.2.1, ← hi]; exact hwf⟩
  all_goals
    obtain ⟨sw, sk, sm⟩ := hs
    have hik : i.1.store.kind = k := by rw [hsame.1]; cases k <;> rfl
    have hmk : m.1.store.kind = k := sk.trans hik
    intro hk
  · have hcap : i.1.store.cap = cap := by
      rw [hsame.2 (by rcases hk with e | e <;> subst e <;> simp [ISess.fresh, IStore.fresh])]
      rcases hk with e | e <;> subst e <;> rfl
    rcases hk with e | e <;> subst e <;> simp only [hmk] at sm <;>
      exact ⟨sm.2.1, sm.2.2, sm.1.trans hcap, hcap⟩
  · subst hk
    simp only [hmk] at sm
    have hcap : i.1.store.cap = old.length := by
      rw [hsame.2 (by simp [ISess.fresh, IStore.fresh])]; rfl
    simp only [Store.contents, hmk]
    exact sm.trans hcap
  · subst hk
    simp only [hmk] at sm
    simp only [Store.contents, hmk]
    exact sm.2
  · subst hk
    simp only [hmk] at sm
    have hcap : i.1.store.cap = old.length := by
      rw [hsame.2 (by simp [ISess.fresh, IStore.fresh])]; rfl
    exact ⟨sm.2.1, sm.2.2, sm.1.trans hcap⟩

/-- No byte of the uninitialised spare capacity is ever observed: the responses of every operation
sequence and the final contents of the container do not depend on what the spare memory held. -/
theorem outputs_independent_of_uninitialized_memory (k : Kind) (hk : k = .vec ∨ k = .arr) (cap : Nat)
    (old : List UInt8) (junk1 junk2 : UInt8) (h : old.length ≤ cap) (ops : List Op) :
    let m1 := (Sess.fresh (Store.fresh k cap old junk1)).run ops
    let m2 := (Sess.fresh (Store.fresh k cap old junk2)).run ops
    m1.2 = m2.2 ∧ m1.1.store.contents = m2.1.store.contents ∧ m1.1.store.len = m2.1.store.len := by
  intro m1 m2
  obtain ⟨a1, _, _, a4, _, _, _⟩ := model_refines_ideal_semantics k cap old junk1 h ops
  obtain ⟨b1, _, _, b4, _, _, _⟩ := model_refines_ideal_semantics k cap old junk2 h ops
  exact ⟨a1.trans b1.symm, (a4 hk).1.trans (b4 hk).1.symm, (a4 hk).2.1.trans (b4 hk).2.1.symm⟩

-- The ideal semantics does what the property says, e.g.: a write that does not fit reports the
-- error and commits exactly the fitting prefix; the vector ends up as old ++ committed bytes.
example :
    ((ISess.fresh (IStore.fresh .vec 4 [0xa0])).run
      [.openV [], .write [1], .openV [9], .write [2, 3, 4], .init, .init]).2 =
      [.opened, .wrote true, .opened, .wrote false, .closed (some [2, 3]), .closed (some [1, 2, 3])] ∧
    ((ISess.fresh (IStore.fresh .vec 4 [0xa0])).run
      [.openV [], .write [1], .openV [9], .write [2, 3, 4], .init, .init]).1.store.data = [0xa0, 1, 2, 3] := by
  decide

-- non-vacuity: concrete sessions (a 4-byte vector holding 1 byte; nested + capped views; an error
-- in the middle; a cap beyond the capacity)
example :
    let s := Sess.fresh (Store.fresh .vec 4 [0xa0] 0)
    let r := s.run [.openV [], .write [1], .openV [9], .write [2, 3, 4], .init, .init]
    r.1.store.contents = [0xa0, 1, 2, 3] ∧ r.1.store.len = 4 := by decide

example : (View.writeAll ⟨[9, 9, 9], 0⟩ [[1], [2, 3], [4]]).2 = [.ok, .ok, .cap] := by decide

-- the hypotheses of the release theorems are met by the states a session reaches, e.g. a 4-byte
-- vector holding 1 byte with a view that committed 2 of its 3 bytes, and a parent/child pair
example :
    let s : Store := ⟨.vec, [0xa0, 0, 0, 0], 1⟩
    let v : View := ⟨[1, 2, 0], 2⟩
    (s.kind = .vec ∨ s.kind = .arr) ∧ s.len ≤ s.buf.length ∧ v.init ≤ v.mem.length ∧
    v.mem.length ≤ s.buf.length - s.len ∧ (s.release v).contents = [0xa0, 1, 2] := by decide

example :
    let p : View := ⟨[1, 0, 0, 0], 1⟩
    let c : View := ⟨[2, 3, 0], 2⟩
    p.init ≤ p.mem.length ∧ c.init ≤ c.mem.length ∧ c.mem.length ≤ p.mem.length - p.init ∧
    (p.writeBack c).initialized = some [1, 2, 3] := by decide

-- a caller-owned slice + counter (`BufferRef::new`): counted exactly; a second view on the counter
-- that is no longer 0 is refused; it cannot be capped
example :
    ((Sess.fresh (Store.fresh .raw 3 [7, 8, 9] 0)).run
      [.openV [1], .openV [], .write [1, 2], .init, .openV [], .setr (.bufr 2 [] (.slice [5, 6, 7])), .read []]).2 =
      [.badOp, .opened, .wrote true, .closed (some [1, 2]), .panic, .done, .panic] ∧
    ((Sess.fresh (Store.fresh .raw 3 [7, 8, 9] 0)).run
      [.openV [], .write [1, 2], .init]).1.store.contents = [1, 2] := by decide

-- a `BufReader` delivers from its internal buffer: 2 bytes buffered, 1 delivered, then the other
example :
    ((Sess.fresh (Store.fresh .vec 4 [] 0)).run
      [.setr (.bufr 2 [] (.slice [5, 6, 7])), .read [1], .read [], .read []]).2 =
      [.done, .readOk [5], .readOk [6], .readOk [7]] := by decide

-- an over-claiming reader is refused (panic, nothing committed); an early error leaves the vector as it was
example :
    ((Sess.fresh (Store.fresh .vec 4 [0xa0] 0)).run [.setr (.liar 9 0xee), .read []]).2 = [.done, .panic] ∧
    ((Sess.fresh (Store.fresh .vec 4 [0xa0] 0)).run [.setr (.liar 9 0xee), .read []]).1.store.contents = [0xa0] ∧
    ((Sess.fresh (Store.fresh .vec 4 [0xa0] 0)).run [.setr (.fail 0xdd), .read [2]]).2 = [.done, .readErr] := by
  decide

end Tw.Props.C19
