import Tw.Model.Buffer
import Tw.Gen.Buffer

/-!
# C19 — the uninitialised-buffer abstraction never overruns and counts exactly
-/
namespace Tw.Props.C19
open Tw.Buffer

/-- Tie to the source: the literals of the `BufferRef` methods are the ones the model was written
against (`debug_assert!(*initialized == 0)`, `+= 1` per stored byte, `assert!(… == 0)` in `cap_at`),
every intermediate object starts its counter at 0, and exactly `vec`, `arrayvec`, `slice_ref`,
`buffer_ref` have a `Drop` impl (a slice has none; `CapAtBuffer` relies on its inner object's). -/
theorem tie_literals :
    Tw.Gen.Buffer.lits_new = [0] ∧ Tw.Gen.Buffer.lits_advance = [] ∧ Tw.Gen.Buffer.lits_extend = [1] ∧
    Tw.Gen.Buffer.lits_initialized = [] ∧ Tw.Gen.Buffer.lits_remaining = [] ∧
    Tw.Gen.Buffer.lits_cap_at = [0] ∧ Tw.Gen.Buffer.initial_counters = [0, 0, 0, 0, 0] ∧
    Tw.Gen.Buffer.drop_impls = ["vec", "arrayvec", "slice_ref", "buffer_ref"] := by decide

end Tw.Props.C19
