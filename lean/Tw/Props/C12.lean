import Tw.Model.SnapXfer
import Tw.Gen.SnapXfer
import Tw.Proofs.SnapXfer
import Tw.Proofs.SnapXferSeq

/-!
# C12 — multi-part snapshot transfer reassembles exactly once

Property theorems only; helper lemmas are in `Tw/Proofs/SnapXfer.lean` (part map, chunker, single
steps) and `Tw/Proofs/SnapXferSeq.lean` (the invariant along a message sequence).  The model is
`Tw/Model/SnapXfer.lean` (`deltaChunks` = `snapshot/src/snap.rs delta_chunks`, `Receiver` =
`snapshot/src/receiver.rs DeltaReceiver`), tied to the code by the `recv` correspondence domain and
the literal ties below.

Vocabulary (defined in the proof files, repeated here for the reader):
* `Fresh r tick` — every tick the receiver `r` knows of (`r.newest`: the transfer in progress, else the
  last completed tick) is older than `tick`; this is "`r` can receive `tick`" without a transfer for
  `tick` itself already under way;
* `newestSeen r pre` — the maximum of `r.newest` and the ticks of the messages `pre`;
* `Admissible r msgs ms` — every element of `ms` is an element of `msgs`, or its tick is older than
  `newestSeen r pre` for the messages `pre` before it;
* `SeenAll msgs pre` — every element of `msgs` occurs in `pre`;
* `isDelivery x` — the result `x` is `Ok(Some(_))`.
-/
namespace Tw.Props.C12
open Tw.SnapXfer

/-- Tie to the source: the argument checks of `DeltaReceiver::snap` — `num_parts` in `0 ..= 32`, `part`
in `0 .. num_parts` — extracted as ranges whichever way they are spelt (`0 <= x && x <= 32`,
`(0..=MAX_PARTS).contains(&x)`, …), and the integer literals of `snap` and its private helpers with
file-level constants resolved, as a sorted multiset. -/
theorem tie_receiver_snap :
    Tw.Gen.SnapXfer.receiver_num_parts_range = (0, maxParts) ∧
      Tw.Gen.SnapXfer.receiver_part_lower = 0 ∧
      Tw.Gen.SnapXfer.receiver_part_below_num_parts = true ∧
      Tw.Gen.SnapXfer.lits_receiver_snap = [maxParts] := by decide

/-- Tie to the source: part size 900, the literals of `delta_chunks` / `DeltaChunks::next`
(`0`, `-1`, `- 1`; `0`, `1`, `+ 1`, `+= 1`; sorted, constants resolved), and the wrapping subtraction (fix of D8). -/
theorem tie_delta_chunks :
    partSize = 900 ∧ Tw.Gen.SnapXfer.lits_delta_chunks = [] ∧
      Tw.Gen.SnapXfer.lits_delta_chunks_next = [] ∧
      Tw.Gen.SnapXfer.delta_chunks_wrapping = true := by decide

/-- The sender never panics on data of up to 32 parts, whatever the ticks are, and produces at
least one message; all its messages carry `tick`. -/
theorem delta_chunks_total (tick base crc : Int) (data : List UInt8)
    (hlen : data.length ≤ maxParts * partSize) :
    ∃ msgs, deltaChunks tick base data crc = .ok msgs ∧ msgs ≠ [] ∧ ∀ m, m ∈ msgs → m.tick = tick := by
  have hn := numParts_le _ hlen
  have hn' : numParts data.length ≤ 2147483647 := by unfold maxParts at hn; omega
  have hex : ∃ msgs, deltaChunks tick base data crc = .ok msgs := by
    unfold deltaChunks
    simp only [hn', not_true_eq_false, if_false]
    split
    · exact ⟨_, rfl⟩
    · split <;> exact ⟨_, rfl⟩
  obtain ⟨msgs, h⟩ := hex
  have hform := deltaChunks_form hlen h
  refine ⟨msgs, h, ?_, hform.tick_eq⟩
  cases hform with
  | empty _ hm => simp [hm]
  | single _ hm => simp [hm]
  | multi h2 hm =>
    intro e
    have : msgs.length = numParts data.length := by simp [hm]
    rw [e] at this; simp at this; omega

/-- The parts of the sender's messages, in order, concatenate to the data, and there are
`ceil(len/900)` of them. -/
theorem chunks_concat (data : List UInt8) :
    ((List.range (numParts data.length)).map (chunk data)).flatten = data ∧
      data.length ≤ partSize * numParts data.length ∧
      (∀ i, (chunk data i).length ≤ partSize) :=
  ⟨flatten_all_chunks data, numParts_cover _, fun i => by simp [chunk]; omega⟩

/-- The receiver recovers the base tick from the relative value on the wire for every pair of
ticks (sender and receiver both wrap). -/
theorem base_tick_roundtrip (tick base : Int) (hb : inI32 base) :
    wrapSub tick (wrapSub tick base) = base := wrapSub_wrapSub tick base hb

/-- **C12, message by message.**  For all data of at most 32 parts, all `tick`, `base`, `crc`,
every receiver state `r` for which `tick` is newer than everything it knows, and every admissible
sequence `ms` (messages of the transfer in any order with any repetition, interleaved with
messages older than the newest tick seen so far): look at any message `m` of the sequence, the
messages `pre` before it, and the state `s` the receiver is in when `m` arrives.

1. `m` is not one of the transfer's messages (so it is an older one): `Err(OldDelta)`, no warning,
   state unchanged.
2. `m` belongs to the transfer and all of the transfer's messages have already arrived:
   `Err(OldDelta)`, no warning, state unchanged.
3. `m` belongs to the transfer, has arrived before, and the transfer is not yet complete:
   `Err(DuplicatePart)`, no warning, state unchanged.
4. `m` is a new part and some part is still missing afterwards: `Ok(None)`, no warning.
5. `m` is the first message after which every part has arrived: `Ok(Some(d))` with
   `d = (base, tick, data, crc)` (no payload for empty data), no warning. -/
theorem transfer_classified (tick base crc : Int) (data : List UInt8) (msgs : List Msg)
    (r : Receiver) (ms : List Msg)
    (hbase : inI32 base) (hlen : data.length ≤ maxParts * partSize)
    (hchunks : deltaChunks tick base data crc = .ok msgs)
    (hfresh : Fresh r tick) (hadm : Admissible r msgs ms)
    (pre : List Msg) (m : Msg) (post : List Msg) (hsplit : ms = pre ++ m :: post) :
    let s := r.after pre
    let d : Received :=
      { deltaTick := base, tick := tick, dataCrc := if data = [] then none else some (data, crc) }
    (m ∉ msgs → s.step m = (s, .error .oldDelta, [])) ∧
    (m ∈ msgs → SeenAll msgs pre → s.step m = (s, .error .oldDelta, [])) ∧
    (m ∈ msgs → ¬ SeenAll msgs pre → m ∈ pre → s.step m = (s, .error .duplicatePart, [])) ∧
    (m ∈ msgs → m ∉ pre → ¬ SeenAll msgs (pre ++ [m]) → (s.step m).2 = (.ok none, [])) ∧
    (m ∈ msgs → m ∉ pre → SeenAll msgs (pre ++ [m]) → (s.step m).2 = (.ok (some d), [])) :=
  (classify hbase hlen (deltaChunks_form hlen hchunks) hfresh hadm post hsplit).verdict

/-- **C12, exactly once.**  Under the same hypotheses: if every message of the transfer occurs in
the sequence, exactly one of the results is a delivery (by `transfer_classified` it is
`(base, tick, data, crc)`, produced by the first message that completes the part set); if some
message is missing, none is.  (`r.run ms` lists result and warnings of every message.) -/
theorem delivered_exactly_once (tick base crc : Int) (data : List UInt8) (msgs : List Msg)
    (r : Receiver) (ms : List Msg)
    (hbase : inI32 base) (hlen : data.length ≤ maxParts * partSize)
    (hchunks : deltaChunks tick base data crc = .ok msgs)
    (hfresh : Fresh r tick) (hadm : Admissible r msgs ms) :
    (SeenAll msgs ms → (r.run ms).countP isDelivery = 1) ∧
    (¬ SeenAll msgs ms → (r.run ms).countP isDelivery = 0) :=
  deliveries hbase hlen (deltaChunks_form hlen hchunks) hfresh ms [] (by simpa using hadm)

/-- Messages for ticks older than the newest one the receiver knows of are refused with
`OldDelta`, silently and without any change of the receiver state — in **every** state, so they
can never complete, overwrite or corrupt a transfer. -/
theorem older_rejected (r : Receiver) (m : Msg) (t : Int) (hn : r.newest = some t) (h : m.tick < t) :
    r.step m = (r, .error .oldDelta, []) :=
  Tw.SnapXfer.older_rejected r m t hn h

/-- A well-formed message of a *newer* tick abandons the transfer in progress: the newer tick
becomes the newest known one, and from then on every message of the abandoned tick (or older) is
refused with `OldDelta` and no state change, whatever else arrives in between (`pre`). -/
theorem newer_tick_abandons (r : Receiver) (tick : Int) (m : Msg)
    (hr : r.newest = some tick) (hm : tick < m.tick) (hwf : m.wellFormed) :
    (r.step m).1.newest = some m.tick ∧
    ∀ (pre : List Msg) (x : Msg), x.tick ≤ tick →
      ((r.step m).1.after pre).step x = ((r.step m).1.after pre, .error .oldDelta, []) := by
  have hf : Fresh r m.tick := by intro t ht; rw [hr] at ht; injection ht with ht; omega
  have hnew := step_newest_of_accept r m hf.canReceive hwf
  exact ⟨hnew, fun pre x hx => refused_after_newer _ m.tick tick hnew hm pre x hx⟩

/-- The newest tick the receiver knows of never decreases. -/
theorem newest_monotone (r : Receiver) (ms : List Msg) (t : Int) (h : r.newest = some t) :
    ∃ t', (r.after ms).newest = some t' ∧ t ≤ t' := newest_mono r ms t h

-- non-vacuity: a new receiver is fresh for every tick; sequences made of the transfer's messages
-- (any order, any repetition) are admissible; the extreme tick pair of D8 produces messages
example (tick : Int) : Fresh Receiver.new tick := by intro t h; simp [Receiver.new, Receiver.newest] at h
example (r : Receiver) (msgs : List Msg) : Admissible r msgs (msgs ++ msgs.reverse ++ msgs) :=
  admissible_of_all_mem r msgs _ (by intro m h; simp at h; exact h)
example : inI32 (-1) ∧ inI32 2147483647 ∧ inI32 (-2147483648) := by decide
example : deltaChunks 2147483647 (-1) [1, 2, 3] 7 = .ok [.single 2147483647 (-2147483648) 7 [1, 2, 3]] := by
  decide
example : (Receiver.new.run [.single 2147483647 (-2147483648) 7 [1, 2, 3]]) =
    [(.ok (some { deltaTick := -1, tick := 2147483647, dataCrc := some ([1, 2, 3], 7) }), [])] := by
  decide
-- an older message between the parts is admissible: receiver that completed tick 4 before
example : Admissible { previousTick := some 4 } [Msg.empty 9 1] [.empty 3 0, .empty 9 1, .empty 9 1, .empty 8 2] := by
  intro pre m post h
  match pre, h with
  | [], h => injection h with h1 _; subst h1; right; exact ⟨4, rfl, by decide⟩
  | [_], h =>
    injection h with _ h; injection h with h1 _; subst h1; left; simp
  | [_, _], h =>
    injection h with _ h; injection h with _ h; injection h with h1 _; subst h1; left; simp
  | [a, b, c], h =>
    injection h with ha h; injection h with hb h; injection h with hc h; injection h with h1 _
    subst ha hb hc h1; right; exact ⟨9, by decide, by decide⟩
  | _ :: _ :: _ :: _ :: _ :: _, h => simp at h

end Tw.Props.C12
