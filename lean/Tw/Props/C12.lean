import Tw.Model.SnapXfer
import Tw.Gen.SnapXfer

/-!
# C12 — multi-part snapshot transfer reassembles exactly once
-/
namespace Tw.Props.C12
open Tw.SnapXfer

/-- Tie to the source: the literals of `DeltaReceiver::snap` (`0 <= num_parts <= 32`, `0 <= part`). -/
theorem tie_receiver_snap : Tw.Gen.SnapXfer.lits_receiver_snap = [0, (maxParts : Nat), 0] := by decide

/-- Messages of a tick older than the newest tick the receiver knows of are refused with
`OldDelta`, without a warning and without any change of the receiver state — for every state. -/
theorem older_rejected (r : Receiver) (m : Msg) (t : Int) (hn : r.newest = some t) (h : m.tick < t) :
    r.step m = (r, .error .oldDelta, []) := by
  have hc : r.canReceive m.tick = false := by
    unfold Receiver.newest at hn
    unfold Receiver.canReceive
    cases hcur : r.current with
    | some c => simp [hcur] at hn ⊢; omega
    | none => simp [hcur] at hn ⊢; simp [hn]; omega
  cases m <;> simp [Receiver.step, Receiver.snap, Receiver.snapEmpty, Receiver.snapSingle, Msg.tick] at hc ⊢ <;> simp [hc]

end Tw.Props.C12
