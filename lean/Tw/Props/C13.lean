import Tw.Model.SnapMgr
import Tw.Gen.SnapMgr
import Tw.Proofs.SnapMgr
import Tw.Proofs.SnapMgrSys
import Tw.Proofs.SnapMgrInst
import Tw.Proofs.SnapChain
import Tw.Proofs.SnapMgrC
import Tw.Proofs.SnapBound

/-!
# C13 — client and server snapshot state never diverge silently

Model: `Tw/Model/SnapMgr.lean` — `Storage` (sender and receiver roles), the sender glue of
`server/src/main.rs`, `Manager`, and `Sys`: both sides plus the history of everything that was
ever put on the snapshot channel (`msgs`) and on the acknowledgement channel (`acks`).  An event
sequence (`Ev`) is a sender history interleaved with an arbitrary delivery schedule: `deliver i` /
`deliverAck j` hand over *any* message sent so far, any number of times, in any order, or never;
`forgedAck` is an acknowledgement nobody sent; `clientReset` is `Manager::reset`.

The snapshot/delta layer is the parameter `ops : Ops S D` with the laws `Laws ops`:
`apply a (create a b) = b` (C09), `read (write d) = d` (C10), written deltas are not empty, and the
cleared delta means "same as base".  `ops.emptyWhenSame` selects the sender glue: `false` is
`server/src/main.rs` (always writes the delta, never sends `SnapEmpty`), `true` a protocol-conforming
sender that sends `SnapEmpty` when the new snapshot equals the base (as the reference server does);
the theorems cover both, so the `temp_delta.clear()` of `ManagerInner::add_delta` is part of the
verified model.
The receiver is the C12 model.  The checksum is not used in the argument.
-/
namespace Tw.Props.C13
open Tw.SnapXfer Tw.SnapMgr

/-- Tie to the source: `MAX_STORED_SNAPSHOT`, the literals of `Storage::add_delta`
(`unwrap_or(-1)`, `delta_tick >= 0`, `delta_tick != -1`) and `set_delta_tick` (`tick < 0`,
`tick != -1`), the base tick the sender glue passes to `delta_chunks`, and `new_builder` recycling a
copy of the newest stored snapshot (repair of D25), and the 64 KiB the glue reserves for the packed
delta. -/
theorem tie_storage :
    maxStored = 100 ∧ Tw.Gen.SnapMgr.lits_add_delta = [0, 1, 1, maxStored] ∧
      Tw.Gen.SnapMgr.lits_set_delta_tick = [0, 1] ∧
      Tw.Gen.SnapMgr.glue_base_tick_or_minus_one = true ∧
      Tw.Gen.SnapMgr.new_builder_continues_newest = true ∧ writeCapacity = 65536 := by decide

/-- **C13, safety.**  For every lawful snapshot layer, every sender history whose ticks are `i32`s
and strictly increasing, and every delivery schedule of snapshot messages and acknowledgements
(loss, duplication, reordering, forged acknowledgements, client resets): if the history runs
without a panic of the snapshot layer, then for every delivery of a message with tick `t`

* if the `Manager` accepts (`Ok(Some(s))`), `s` is the snapshot the sender built for `t`
  (`(t, s) ∈ sent`, and `sent` has one snapshot per tick) and `ack_tick() = Some(t)`;
* if it returns `Ok(None)` (part of an incomplete transfer), `ack_tick()` is unchanged;
* if it returns an error, `ack_tick()` is unchanged or has been cleared — it never advances. -/
theorem accepted_snapshot_is_senders {S D : Type} (ops : Ops S D) (laws : Laws ops)
    (evs : List (Ev S)) (hapi : sendsOk none evs)
    (y : Sys S) (obs : List (Obs S)) (hrun : Sys.run ops {} evs = .ok (y, obs)) :
    Functional y.sent ∧
    ∀ t res before after, Obs.delivered t res before after ∈ obs →
      (∀ s, res = .ok (some s) → (t, s) ∈ y.sent ∧ after = some t) ∧
      (res = .ok none → after = before) ∧
      (∀ e, res = .error e → after = before ∨ after = none) := by
  obtain ⟨hg, hobs, _⟩ := run_safe laws.on evs {} none ⟨good_init, fun _ _ => trivial⟩
    (by intro p hp; cases hp) hapi (fun _ _ _ _ _ => trivial) y obs hrun
  refine ⟨hg.1.sentFun, ?_⟩
  intro t res before after hmem
  have h := hobs _ hmem
  refine ⟨?_, ?_, ?_⟩
  · intro s hs; subst hs; exact h
  · intro hs; subst hs; exact h
  · intro e hs; subst hs; exact h

/-- The laws hold for the concrete snapshot model `Tw.Snap` (`Model/Snap.lean`, properties C09–C11)
over the snapshots with the builder's registry invariant (`ExtOk`, established for every
builder-reachable snapshot by C10) whose item sizes agree with the object-size table: this is
C09's `applyDelta_createDelta`, C10's `buildFromRaw_of_extOk` and `readDelta_writeInts`, and C08's
`writeInt_length`. -/
theorem laws_of_snapshot_model (objSize : Nat → Option Nat) (refGlue : Bool) :
    Laws (snapOps objSize refGlue) :=
  snapOps_laws objSize refGlue

/-- **C13 for the concrete snapshot model**: `accepted_snapshot_is_senders` (either sender glue) with `Delta::create`,
`Delta::write`, `Delta::read`, `Snap::read_with_delta` and `Snap::crc` of `Model/Snap.lean` as
the snapshot layer — no law is assumed any more. -/
theorem accepted_snapshot_is_senders_snap_model (objSize : Nat → Option Nat) (refGlue : Bool)
    (evs : List (Ev { s : Tw.Snap.Snap // GoodSnap objSize s })) (hapi : sendsOk none evs)
    (y : Sys { s : Tw.Snap.Snap // GoodSnap objSize s })
    (obs : List (Obs { s : Tw.Snap.Snap // GoodSnap objSize s }))
    (hrun : Sys.run (snapOps objSize refGlue) {} evs = .ok (y, obs)) :
    Functional y.sent ∧
    ∀ t res before after, Obs.delivered t res before after ∈ obs →
      (∀ s, res = .ok (some s) → (t, s) ∈ y.sent ∧ after = some t) ∧
      (res = .ok none → after = before) ∧
      (∀ e, res = .error e → after = before ∨ after = none) :=
  accepted_snapshot_is_senders (snapOps objSize refGlue) (snapOps_laws objSize refGlue) evs hapi y obs hrun

/-- **C13, safety, with the builder and the free list.**  The same statement for histories in
which the sender builds its snapshots with `new_builder()` (seeded from the newest stored snapshot,
else from the free list) from what the application adds (`sendItems`), for any builder whatsoever
(`BuildOps`): a refused item (`BuilderError`) sends nothing; everything that is delivered obeys the
verdict of `accepted_snapshot_is_senders`. -/
theorem accepted_snapshot_is_senders_with_builder {S D I : Type} (ops : Ops S D) (laws : Laws ops)
    (b : BuildOps S I) (evs : List (EvB S I)) (hapi : sendsOkB none evs)
    (y : SysB S) (obs : List (ObsB S)) (hrun : SysB.run ops b {} evs = .ok (y, obs)) :
    Functional y.sys.sent ∧
    ∀ t res before after, ObsB.obs (Obs.delivered t res before after) ∈ obs →
      (∀ s, res = .ok (some s) → (t, s) ∈ y.sys.sent ∧ after = some t) ∧
      (res = .ok none → after = before) ∧
      (∀ e, res = .error e → after = before ∨ after = none) := by
  have hbk : ∀ e, e ∈ evs → BuildKeeps b (fun _ => True) e := by
    intro e _
    cases e with
    | sendItems t items => intro _ _ _ _; trivial
    | other e => cases e <;> trivial
  obtain ⟨hg, hobs, _⟩ := runB_safe laws.on b trivial evs {} none (goodB_init laws.on)
    (by intro p hp; cases hp) hapi hbk y obs hrun
  refine ⟨hg.1.1.sentFun, ?_⟩
  intro t res before after hmem
  have h : Obs.ok y.sys.sent (Obs.delivered t res before after) := hobs _ hmem
  refine ⟨?_, ?_, ?_⟩
  · intro s hs; subst hs; exact h
  · intro hs; subst hs; exact h
  · intro e hs; subst hs; exact h

/-- `ack_tick` is cleared on an unknown base and on a bad checksum (and set only by a successful
apply: `Storage.finishDelta`) — for every storage state, delta and snapshot layer. -/
theorem ack_cleared_on_unknown_base_or_bad_checksum {S D : Type} (ops : Ops S D) (st : Storage S)
    (crc : Option Int) (deltaTick tick : Int) (delta : D) :
    ((st.addDelta ops crc deltaTick tick delta).2.1 = .error .unknownSnap ∨
      (st.addDelta ops crc deltaTick tick delta).2.1 = .error .invalidCrc) →
    (st.addDelta ops crc deltaTick tick delta).1.ackTick = none := by
  have hfin : ∀ (st' : Storage S) (base : S) (w : Bool),
      ((st'.finishDelta ops crc tick base delta w).2.1 = .error .unknownSnap ∨
        (st'.finishDelta ops crc tick base delta w).2.1 = .error .invalidCrc) →
      (st'.finishDelta ops crc tick base delta w).1.ackTick = none := by
    intro st' base w
    unfold Storage.finishDelta
    cases ops.apply base delta with
    | error e => intro h; rcases h with h | h <;> simp at h
    | ok new =>
      simp only
      cases crc with
      | none => simp
      | some c => by_cases hc : c = ops.crc new <;> simp [hc]
  unfold Storage.addDelta
  by_cases h1 : st.newestTick ≥ tick
  · simp only [h1, if_true]; intro h; rcases h with h | h <;> simp at h
  simp only [h1, if_false]
  by_cases h2 : deltaTick ≥ 0
  · simp only [h2, if_true]
    cases (keepFrom st.snaps deltaTick).getLast? with
    | none => intro _; rfl
    | some d =>
      simp only
      by_cases h3 : d.tick = deltaTick
      · rw [if_pos h3]; exact hfin _ _ _
      · rw [if_neg h3]; intro _; rfl
  · simp only [h2, if_false]; exact hfin _ _ _

/-- The invariant behind it: at every moment every snapshot stored on the receiving side under
tick `t` is the sender's snapshot for `t`, the sender's base is a snapshot it still stores (with a
non-negative tick) or the empty one, and the receiver is either idle or holds true parts of one of
the sender's transfers. -/
theorem exchange_invariant {S D : Type} (ops : Ops S D) (laws : Laws ops)
    (evs : List (Ev S)) (hapi : sendsOk none evs)
    (y : Sys S) (obs : List (Obs S)) (hrun : Sys.run ops {} evs = .ok (y, obs)) :
    (∀ s, s ∈ y.client.storage.snaps → (s.tick, s.snap) ∈ y.sent) ∧
    (∀ s, s ∈ y.sender.snaps → (s.tick, s.snap) ∈ y.sent) ∧
    (∀ t, y.sender.deltaTick = some t → 0 ≤ t ∧ ∃ d, y.sender.snaps.getLast? = some d ∧ d.tick = t) ∧
    RecvOk y.xfers y.client.receiver := by
  obtain ⟨hg, _, _⟩ := run_safe laws.on evs {} none ⟨good_init, fun _ _ => trivial⟩
    (by intro p hp; cases hp) hapi (fun _ _ _ _ _ => trivial) y obs hrun
  exact ⟨hg.1.clientStored, hg.1.senderStored, hg.1.senderDelta, hg.1.recvOk⟩

/-- The receiver alone: whatever consistent transfers are interleaved in whatever way (newer ticks
included), a delivery carries exactly the base tick, tick, data and checksum the sender cut up (no
payload for empty data: `SnapEmpty`). -/
theorem receiver_delivers_only_what_was_sent {xfers : List Xfer} (huniq : UniqueTicks xfers)
    {r : Receiver} (hr : RecvOk xfers r) {x : Xfer} (hx : x ∈ xfers) (hb : inI32 x.base)
    {ms : List Msg} (hms : x.chunks = .ok ms) {m : Msg} (hm : m ∈ ms) :
    RecvOk xfers (r.step m).1 ∧
      ∀ d, (r.step m).2.1 = .ok (some d) →
        d = { deltaTick := x.base, tick := x.tick,
              dataCrc := if x.bytes = [] then none else some (x.bytes, x.crc) } :=
  recv_step_safe huniq hr hx hb hms hm

/-- **No panic (partial).**  The protocol layer (`Storage`, glue, `DeltaReceiver`, `Manager`) has no
panic of its own: if `Delta::create` succeeds on the snapshot pairs it is given and the delta fits
the glue's buffer, no history panics — whatever the ticks and the schedule are.  The excluded case
(`create = none`) is D15 / D25, see `C13_full` and `no_panic_witness`. -/
theorem no_panic_partial {S D : Type} (ops : Ops S D)
    (hcreate : ∀ a b, ∃ d, ops.create a b = some d)
    (hwrite : ∀ d, ∃ bs, ops.write d = some bs ∧ bs.length ≤ 65536)
    (evs : List (Ev S)) (y : Sys S) : ∃ r, Sys.run ops y evs = .ok r := by
  induction evs generalizing y with
  | nil => exact ⟨_, rfl⟩
  | cons e rest ih =>
    have hstep : ∃ r, y.step ops e = .ok r := by
      cases e with
      | send tick snap =>
        obtain ⟨d, hd⟩ := hcreate (y.sender.baseOf ops ({ tick := tick, snap := snap } :: y.sender.snaps)) snap
        obtain ⟨bs, hbs, hlen⟩ := hwrite d
        have hch : ∃ ms, deltaChunks tick (y.sender.deltaTick.getD (-1)) bs (ops.crc snap) = .ok ms := by
          have hn : numParts bs.length ≤ 2147483647 := by
            simp only [numParts, partSize, Tw.Gen.SnapXfer.MAX_SNAPSHOT_PACKSIZE]; omega
          unfold deltaChunks
          simp only [hn, not_true_eq_false, if_false]
          split
          · exact ⟨_, rfl⟩
          · split <;> exact ⟨_, rfl⟩
        obtain ⟨ms, hms⟩ := hch
        have hch0 : ∃ ms0, deltaChunks tick (y.sender.deltaTick.getD (-1)) [] (ops.crc snap) = .ok ms0 :=
          ⟨_, rfl⟩
        obtain ⟨ms0, hms0⟩ := hch0
        by_cases hcond : (ops.emptyWhenSame &&
            ops.same (y.sender.baseOf ops ({ tick := tick, snap := snap } :: y.sender.snaps)) snap) = true
        · simp only [Sys.step, sendSnap, Storage.addSnap, hd, if_pos hcond, hms0]; exact ⟨_, rfl⟩
        · simp only [Sys.step, sendSnap, Storage.addSnap, hd, if_neg hcond, hbs, hms]; exact ⟨_, rfl⟩
      | deliver i =>
        simp only [Sys.step]
        cases y.msgs[i]? <;> exact ⟨_, rfl⟩
      | ack => exact ⟨_, rfl⟩
      | deliverAck j =>
        simp only [Sys.step]
        cases y.acks[j]? <;> exact ⟨_, rfl⟩
      | forgedAck v => exact ⟨_, rfl⟩
      | clientReset => exact ⟨_, rfl⟩
    obtain ⟨⟨y1, o1⟩, h1⟩ := hstep
    obtain ⟨⟨y2, os⟩, h2⟩ := ih y1
    exact ⟨(y2, o1 :: os), by simp [Sys.run, h1, h2]⟩

/-- **No panic on the sending side, from application-level hypotheses (partial: up to the glue's
buffer).**  The concrete model: snapshot layer of `Model/Snap.lean`, builder with `recycle`,
`Storage` with its free list, the glue with its 64 KiB buffer (`execOps`, `execBuild`).  Hypotheses:
the object-size table agrees with the sizes the application uses and has no entry for the registry
type or an extended type number (`TableOk`; true of `obj_size` of every protocol crate); every item
the application adds has a valid type, a `u16` id, `i32` data and the size fixed for its
`(type, id)` (`EvOk`, `ItemOk`); nothing is said about ticks or the delivery schedule (any `i32` ticks, any acknowledgements
incl. forged ones, any losses).  Then a history either runs to the end — no panic in
`Snap::recycle`, `Builder::add_item`, `Delta::create` (D15/D25), the size assertion of
`Delta::write`, `delta_chunks`, `Storage` — or it panics and some packed delta was larger than the
buffer `send_snapshots` reserves.  What keeps this from `C13_full`: the buffer of the server glue. -/
theorem sender_panics_only_on_buffer_overflow_partial (objSize : Nat → Option Nat)
    (size : Tw.Snap.TypeId → Nat → Nat) (ht : TableOk objSize size) (refGlue : Bool)
    (evs : List (EvB Tw.Snap.Snap (List Item))) (hev : ∀ e, e ∈ evs → EvOk size e) :
    (∃ r, SysB.run (execOps objSize refGlue) execBuild {} evs = .ok r) ∨
    ((∃ s, SysB.run (execOps objSize refGlue) execBuild {} evs = .panic s) ∧ Oversize objSize) :=
  runB_no_panic ht refGlue (Q := fun _ => True) trivial evs {} (invB_init size _) hev
    (fun e _ => by cases e with
      | sendItems t items => intro _ _ _ _ _ _; trivial
      | other e => trivial)

/-- **No panic at all within a size budget (partial only by that budget).**  The same executable
model and application-level hypotheses, plus a budget per snapshot: UUID types among a fixed list
`U`, at most `N` items, at most `M` data integers, with `5·(3 + 4·(|U|+N) + 4·|U| + M) ≤ 65536`
(e.g. 8 UUID types, 200 items, 8000 integers).  Then **no history panics**: not the builder, not
`Delta::create`, not `Delta::write`, not the glue's 64 KiB buffer, not `delta_chunks`, not
`Storage`, not the receiver, not the `Manager` — for any `i32` ticks (increasing or not), any
acknowledgements (forged ones included), any loss, duplication and reordering, either sender glue.
The bound comes from `Delta::write` emitting at most `3 + |a| + 3·|b| + data(b)` integers of at most
five bytes each, and a snapshot of the builder chain having at most `|U| + N` items. -/
theorem exchange_never_panics_within_budget_partial (objSize : Nat → Option Nat)
    (size : Tw.Snap.TypeId → Nat → Nat) (ht : TableOk objSize size) (refGlue : Bool)
    (U : List Int) (N M : Nat) (hk : 5 * (3 + 4 * (U.length + N) + (4 * U.length + M)) ≤ 65536)
    (evs : List (EvB Tw.Snap.Snap (List Item))) (hev : ∀ e, e ∈ evs → EvOk size e)
    (hbud : ∀ e, e ∈ evs → EvBudget U N M e) :
    ∃ r, SysB.run (execOps objSize refGlue) execBuild {} evs = .ok r :=
  runB_never_panics ht refGlue U N M hk evs hev hbud

/-- **C13 over one executable model.**  Snapshot layer of `Model/Snap.lean` over plain values
(`execOps`), builder with `recycle`, free list, glue buffer, either sender glue, the C12 receiver,
`Manager` and `Storage`: for every history in which the application adds acceptable items (`EvOk`) and
the ticks are `i32`s and increasing (`sendsOkB`), whatever the delivery schedule, if the run does not
hit the glue's buffer limit then every accepted snapshot is the sender's snapshot for that tick
and sets `ack_tick`, an incomplete transfer leaves `ack_tick` alone, and an error leaves it alone or
clears it.  The laws of the snapshot layer are *proved* for the executable layer on the snapshots
the builder chain makes (`execOps_lawsOn`), nothing is assumed. -/
theorem exchange_safe_executable_model (objSize : Nat → Option Nat)
    (size : Tw.Snap.TypeId → Nat → Nat) (ht : TableOk objSize size) (refGlue : Bool)
    (evs : List (EvB Tw.Snap.Snap (List Item))) (hev : ∀ e, e ∈ evs → EvOk size e)
    (hapi : sendsOkB none evs)
    (y : SysB Tw.Snap.Snap) (obs : List (ObsB Tw.Snap.Snap))
    (hrun : SysB.run (execOps objSize refGlue) execBuild {} evs = .ok (y, obs)) :
    Functional y.sys.sent ∧
    ∀ t res before after, ObsB.obs (Obs.delivered t res before after) ∈ obs →
      (∀ s, res = .ok (some s) → (t, s) ∈ y.sys.sent ∧ after = some t) ∧
      (res = .ok none → after = before) ∧
      (∀ e, res = .error e → after = before ∨ after = none) := by
  have laws := execOps_lawsOn ht refGlue
  obtain ⟨hg, hobs, _⟩ := runB_safe laws execBuild (Tw.Snap.built_empty size) evs {} none
    (goodB_init laws) (by intro p hp; cases hp) hapi (fun e he => execBuild_keeps e (hev e he)) y obs hrun
  refine ⟨hg.1.1.sentFun, ?_⟩
  intro t res before after hmem
  have h : Obs.ok y.sys.sent (Obs.delivered t res before after) := hobs _ hmem
  refine ⟨?_, ?_, ?_⟩
  · intro s hs; subst hs; exact h
  · intro hs; subst hs; exact h
  · intro e hs; subst hs; exact h

/-- **C13 in one statement for the executable model (partial only by the budget).**  Application-level
hypotheses only — acceptable items, increasing `i32` ticks, the size budget: every history runs to
the end without a panic on either side, and every delivery obeys the verdict (accepted = the
sender's snapshot for that tick with `ack_tick` set; otherwise `ack_tick` unchanged or cleared). -/
theorem exchange_correct_within_budget_partial (objSize : Nat → Option Nat)
    (size : Tw.Snap.TypeId → Nat → Nat) (ht : TableOk objSize size) (refGlue : Bool)
    (U : List Int) (N M : Nat) (hk : 5 * (3 + 4 * (U.length + N) + (4 * U.length + M)) ≤ 65536)
    (evs : List (EvB Tw.Snap.Snap (List Item))) (hev : ∀ e, e ∈ evs → EvOk size e)
    (hbud : ∀ e, e ∈ evs → EvBudget U N M e) (hapi : sendsOkB none evs) :
    ∃ y obs, SysB.run (execOps objSize refGlue) execBuild {} evs = .ok (y, obs) ∧
      Functional y.sys.sent ∧
      ∀ t res before after, ObsB.obs (Obs.delivered t res before after) ∈ obs →
        (∀ s, res = .ok (some s) → (t, s) ∈ y.sys.sent ∧ after = some t) ∧
        (res = .ok none → after = before) ∧
        (∀ e, res = .error e → after = before ∨ after = none) := by
  obtain ⟨⟨y, obs⟩, hrun⟩ := exchange_never_panics_within_budget_partial objSize size ht refGlue U N M hk
    evs hev hbud
  exact ⟨y, obs, hrun, exchange_safe_executable_model objSize size ht refGlue evs hev hapi y obs hrun⟩

/-- The full-strength "nothing panics" statement: for *every* lawful snapshot layer.  It is false
for a layer whose `create` can fail, and the real `Delta::create` can (open findings D15, D25). -/
def C13_full : Prop :=
  ∀ (S D : Type) (ops : Ops S D), Laws ops → ∀ evs : List (Ev S), sendsOk none evs →
    ∃ r, Sys.run ops {} evs = .ok r

/-- a snapshot layer whose `create` refuses (what `Delta::create` does on differing item sizes) -/
theorem no_panic_witness : ¬ C13_full := by
  intro h
  let ops : Ops Unit Unit :=
    { empty := (), create := fun _ _ => none, write := fun _ => some [0], clear := (),
      read := fun _ => .ok (), apply := fun _ _ => .ok (), crc := fun _ => 0,
      same := fun _ _ => false, emptyWhenSame := false }
  have laws : Laws ops :=
    { apply_create := by intro a b d h; cases h
      read_write := by intro d bs _; rfl
      write_nonempty := by intro d bs h; cases h; simp
      same_clear := by intro a b h; cases h }
  obtain ⟨r, hr⟩ := h Unit Unit ops laws [.send 0 ()] (by simp [sendsOk, inI32])
  simp [Sys.run, Sys.step, sendSnap, Storage.addSnap, ops] at hr

/-- **D25 in the concrete snapshot model.**  Two snapshots built the way the sender glue built them
before the repair of `Storage::new_builder` while the free list was empty (a fresh `Builder` each): the first holds one item of UUID type 1001
(two integers), the second additionally one item of UUID type 1000 (one integer), added first.
Every `(type, id)` keeps its size, yet the builder gives raw type number 0x4000 to type 1001 in the
first snapshot and to type 1000 in the second, the raw key `(0x4000, 0)` has two and one integers,
and `Delta::create` refuses (it panicked in the implementation; `corpus/snapmgr/fixed-d25.txt`).
This is why `new_builder` now continues the registry of the newest stored snapshot. -/
theorem d25_witness :
    ∃ a b : Tw.Snap.Snap,
      freshBuild [(.uuid 1001, 0, [5, 5])] = some a ∧
      freshBuild [(.uuid 1000, 0, [7]), (.uuid 1001, 0, [5, 5])] = some b ∧
      Tw.Snap.createDelta a.raw b.raw = none := by
  refine ⟨_, _, rfl, rfl, ?_⟩
  decide

/-- **D25 repaired, in the concrete snapshot model.**  Since the repair every builder the sender
uses continues the snapshot built before it (`Step.recycle`), so the snapshots the sender stores lie
on one chain that starts with `Builder::new()`.  If the application gives every item the size it fixed for that
`(type, id)` (`Step.add`), any earlier snapshot `a` and later snapshot `b`
of the chain have agreeing raw item sizes — a UUID type keeps its raw number along the chain — and
`Delta::create(a, b)` does not panic.  (`d25_witness` shows that this fails for unrelated fresh
builders.) -/
theorem recycled_builder_chain_never_refuses {size : Tw.Snap.TypeId → Nat → Nat} {a b : Tw.Snap.Builder}
    (h0 : Tw.Snap.Chain size Tw.Snap.Builder.new a) (h1 : Tw.Snap.Chain size a b) :
    Tw.Snap.SizesAgree a.snap.raw b.snap.raw ∧
      ∃ d, Tw.Snap.createDelta a.snap.raw b.snap.raw = some d :=
  Tw.Snap.chain_create h0 h1

-- non-vacuity of the budget: 8 UUID types, 200 items, 8000 data integers per snapshot
example : 5 * (3 + 4 * (8 + 200) + (4 * 8 + 8000)) ≤ 65536 := by decide
example : Budget [1, 2, 3] 200 8000 [(.uuid 2, 7, [1, 2, 3]), (.ordinal 5, 0, [4, 5, 6])] :=
  { uuids := by
      intro it hit u hu
      simp only [List.mem_cons, List.not_mem_nil, or_false] at hit
      rcases hit with rfl | rfl
      · injection hu with hu; subst hu; decide
      · cases hu
    count := by decide
    data := by decide }

-- non-vacuity: the 0.6 object-size table with any size function that extends it satisfies `TableOk`
example : TableOk (fun t => (Tw.Gen.Snap.objSize_tw06.find? (·.1 == t)).map (·.2))
    (fun tid id => match tid with
      | .ordinal o => ((Tw.Gen.Snap.objSize_tw06.find? (·.1 == o)).map (·.2)).getD (1 + id % 4)
      | .uuid _ => 3 + id % 2) where
  registry := by decide
  extended := by
    intro t ht
    have : ∀ p, p ∈ Tw.Gen.Snap.objSize_tw06 → p.1 < 16384 := by decide
    cases hf : Tw.Gen.Snap.objSize_tw06.find? (·.1 == t) with
    | none => rfl
    | some p =>
      have h1 := this p (List.mem_of_find?_eq_some hf)
      have h2 := List.find?_some hf
      simp only [beq_iff_eq] at h2
      rw [Tw.Snap.offsetExt_eq] at ht
      omega
  ordinal := by
    intro o n id _ _ h
    simp only [h, Option.getD_some]

-- non-vacuity: a lawful snapshot layer exists (snapshot = byte string, delta = 1 :: target, cleared
-- delta = "same as base", protocol-conforming glue),
-- and histories with increasing ticks satisfy `sendsOk`
example : Laws ({ empty := [], create := fun _ b => some (1 :: b), write := fun d => some (0 :: d),
                  clear := [], read := fun bs => .ok bs.tail,
                  apply := fun a d => .ok (match d with | [] => a | _ :: t => t),
                  crc := fun s => s.length, same := fun a b => a == b,
                  emptyWhenSame := true } : Ops (List UInt8) (List UInt8)) :=
  { apply_create := by intro a b d h; cases h; rfl
    read_write := by intro d bs h; cases h; rfl
    write_nonempty := by intro d bs h; cases h; simp
    same_clear := by intro a b h; simp at h; simp [h] }
example : sendsOk (S := Nat) none [.send 0 7, .deliver 0, .ack, .deliverAck 0, .send 2147483647 8, .deliver 5] :=
  by simp [sendsOk, inI32]

end Tw.Props.C13
