import Tw.Model.SnapMgr
import Tw.Gen.SnapMgr

/-!
# C13 — client and server snapshot state never diverge silently
-/
namespace Tw.Props.C13
open Tw.SnapXfer Tw.SnapMgr

/-- Tie to the source: `MAX_STORED_SNAPSHOT`, the literals of `Storage::add_delta`
(`unwrap_or(-1)`, `delta_tick >= 0`, `delta_tick != -1`) and `set_delta_tick` (`tick < 0`,
`tick != -1`), and the base tick the sender glue passes to `delta_chunks`. -/
theorem tie_storage :
    maxStored = 100 ∧ Tw.Gen.SnapMgr.lits_add_delta = [1, 0, 1] ∧
      Tw.Gen.SnapMgr.lits_set_delta_tick = [0, 1] ∧
      Tw.Gen.SnapMgr.glue_base_tick_or_minus_one = true := by decide

end Tw.Props.C13
