import Tw.Model.Packet6
import Tw.Proofs.Packet6Headers
import Tw.Proofs.Packet6Write
import Tw.Model.Packet7
import Tw.Proofs.Packet7Headers
import Tw.Proofs.Packet7Write
import Tw.Proofs.Packet6Chunks
import Tw.Proofs.Packet7Chunks
import Tw.Proofs.HuffmanTable

/-!
# C05 — packet encoding and decoding are mutually inverse

Property theorems only; helper lemmas are in `Tw/Proofs/Packet*.lean`.  Models:
`Tw/Model/Packet6.lean` (`net/src/protocol.rs`), `Tw/Model/Packet7.lean` (`net/src/protocol7.rs`), tied to
the code by the regenerated masks/constants in `Tw/Gen/Packet6.lean` / `Packet7.lean` and by the
correspondence domains `packet6` / `packet7` (exhaustive header sweeps in hash form).
-/
namespace Tw.Props.C05
open Tw.Packet

/-! ## 0.6 header codecs -/
section V6
open Tw.Packet6

/-- Tie: the literals of the 0.6 header pack/unpack functions, in source order (the model is written
with these constants; the bit-field lemmas below are proved for exactly these values). -/
theorem tie_masks6 :
    Tw.Gen.Packet6.PacketHeaderPacked_unpack_warn = [32, 0, 12, 0, 240, 4, 3, 8] ∧
    Tw.Gen.Packet6.PacketHeader_pack = [0, 0, 4, 8] ∧
    Tw.Gen.Packet6.ChunkHeaderPacked_unpack_warn = [240, 0, 192, 6, 63, 4, 15] ∧
    Tw.Gen.Packet6.ChunkHeader_pack = [0, 0, 3, 6, 1008, 4, 15] ∧
    Tw.Gen.Packet6.ChunkHeaderVitalPacked_unpack_warn = [48, 4, 192, 6, 15, 240, 2, 255] ∧
    Tw.Gen.Packet6.ChunkHeaderVital_pack = [0, 15, 960, 2, 255] := by decide

/-- 0.6 packet header: every in-range field tuple packs (no assertion fails) into three bytes that
unpack to the same tuple with no warning. -/
theorem v6_packetHeader_unpack_pack (h : PacketHeader) (hf : h.flags < 16) (ha : h.ack < 1024) :
    ∃ b0 b1 b2, h.pack = some (b0, b1, b2) ∧ b0 < 256 ∧ b1 < 256 ∧
      PacketHeader.unpackWarn b0 b1 b2 = (h, []) :=
  ph_unpack_pack h hf ha

/-- 0.6 packet header: unpacking any three bytes and re-packing returns them with the two padding bits
cleared (`& 0b1111_0011`); in particular canonical patterns (padding bits zero) re-pack to themselves. -/
theorem v6_packetHeader_pack_unpack (b0 b1 b2 : Nat) (h1 : b1 < 256) :
    (PacketHeader.unpackWarn b0 b1 b2).1.pack = some (b0 &&& 243, b1, b2) :=
  ph_pack_unpack b0 b1 b2 h1

/-- 0.6 non-vital chunk header round trip for all flags < 4, size < 1024. -/
theorem v6_chunkHeader_unpack_pack (h : ChunkHeader) (hf : h.flags < 4) (hs : h.size < 1024) :
    ∃ b0 b1, chunkHeaderPack h = some (b0, b1) ∧ b0 < 256 ∧ b1 < 256 ∧
      chunkHeaderUnpackWarn b0 b1 = (h, []) :=
  ch_unpack_pack h hf hs

/-- 0.6 non-vital chunk header: re-packing clears the four padding bits of the second byte. -/
theorem v6_chunkHeader_pack_unpack (b0 b1 : Nat) (h0 : b0 < 256) :
    chunkHeaderPack (chunkHeaderUnpackWarn b0 b1).1 = some (b0, b1 &&& 15) :=
  ch_pack_unpack b0 b1 h0

/-- 0.6 vital chunk header round trip for all flags < 4, size < 1024, sequence < 1024. -/
theorem v6_chunkHeaderVital_unpack_pack (v : ChunkHeaderVital) (hf : v.h.flags < 4)
    (hs : v.h.size < 1024) (hq : v.sequence < 1024) :
    ∃ b0 b1 b2, chunkHeaderVitalPack v = some (b0, b1, b2) ∧ b0 < 256 ∧ b1 < 256 ∧ b2 < 256 ∧
      chunkHeaderVitalUnpackWarn b0 b1 b2 = (v, []) :=
  chv_unpack_pack v hf hs hq

/-- 0.6 vital chunk header: every canonical pattern (the two sequence bits that are stored twice
agree, i.e. no `ChunkHeaderSequence` warning) re-packs to itself. -/
theorem v6_chunkHeaderVital_pack_unpack_canonical (b0 b1 b2 : Nat) (h0 : b0 < 256) (h1 : b1 < 256)
    (h2 : b2 < 256) (hc : b1 / 16 % 4 = b2 / 64 % 4) :
    chunkHeaderVitalPack (chunkHeaderVitalUnpackWarn b0 b1 b2).1 = some (b0, b1, b2) :=
  chv_pack_unpack_canonical b0 b1 b2 h0 h1 h2 hc

/-- **0.6 whole-packet round trip.**  For every packet value satisfying `Tw.Packet6.Valid`
(connless payload within the writer's limit; ack < 1024, num_chunks < 256, payload plus token at
most `MAX_PACKETSIZE - HEADER_SIZE`; close reason NUL-free and at most 127 bytes) `Packet::write` into
any buffer of at least `MAX_PACKETSIZE` bytes succeeds with at most `MAX_PACKETSIZE` bytes, and
`Packet::read` of these bytes with `token_hint = Some(has_token)` returns the same value with
`Tw.Packet6.expectedWarnings` (`[]`, or `[ChunksNoChunks]` exactly for an empty chunk packet without
resend request) — irrespective of the branch (compressed / plain) the writer took.
`HuffmanRoundTrip t` is discharged for the built-in table by C07
(`Tw.Huffman.decompress_compress _ Tw.Huffman.wellFormed_table false`). -/
theorem v6_write_read_roundtrip (t : Tw.Huffman.Table) (hrt : Tw.Packet6.HuffmanRoundTrip t)
    (p : Tw.Packet6.Packet) (hv : Tw.Packet6.Valid p) (cap scap : Nat)
    (hcap : Tw.Gen.Packet6.MAX_PACKETSIZE ≤ cap) (hs : Tw.Gen.Packet6.MAX_PACKETSIZE ≤ scap) :
    ∃ bs, Tw.Packet6.write t p cap = .ok bs ∧ bs.length ≤ Tw.Gen.Packet6.MAX_PACKETSIZE ∧
      ∃ r, Tw.Packet6.read t bs (some p.hasToken) (some scap) = .ok r ∧ r.pkt = p ∧
        r.warns = Tw.Packet6.expectedWarnings p :=
  Tw.Packet6.write_read_roundtrip t hrt p hv cap scap hcap hs

/-- **The silent truncation of `ConnectedPacket::write` (0.6) as an explicit outcome.**  `write` returns
`okTruncated bs` — the Rust returns `Ok(bs)` — exactly for a chunk packet with a token whose payload plus
token exceed the 2048-byte `ArrayVec` the token is appended in (and whose truncated form fitted into the
caller's buffer); `bs` then encodes only the first 2048 bytes of payload ++ token, a proper prefix. -/
theorem v6_write_truncates_iff (t : Tw.Huffman.Table) (p : Tw.Packet6.Packet) (cap : Nat) (bs : List UInt8) :
    Tw.Packet6.write t p cap = .okTruncated bs ↔
      ∃ ack tk rr nc payload, p = .connected ack (some tk) (.chunks rr nc payload) ∧
        payload.length + Tw.Gen.Packet6.TOKEN_SIZE > Tw.Packet6.TOKEN_BUFFER_CAP ∧
        Tw.Packet6.writeChunksCore t ack rr nc (Tw.Packet6.tokenExtend payload (some tk)) cap = .ok bs :=
  Tw.Packet6.write_okTruncated_iff t p cap bs

theorem v6_truncation_loses_data (payload : List UInt8) (tk : Token)
    (h : payload.length + Tw.Gen.Packet6.TOKEN_SIZE > Tw.Packet6.TOKEN_BUFFER_CAP) :
    (Tw.Packet6.tokenExtend payload (some tk)).length = Tw.Packet6.TOKEN_BUFFER_CAP ∧
    Tw.Packet6.tokenExtend payload (some tk) ≠ payload ++ tk.toList :=
  Tw.Packet6.truncation_loses_data payload tk h

/-- … and it never happens to a `Valid` packet (built-in table). -/
theorem v6_valid_packet_not_truncated (p : Tw.Packet6.Packet) (hv : Tw.Packet6.Valid p) (cap : Nat)
    (hcap : Tw.Gen.Packet6.MAX_PACKETSIZE ≤ cap) (bs : List UInt8) :
    Tw.Packet6.write Tw.Gen.Huffman.table p cap ≠ .okTruncated bs :=
  Tw.Packet6.valid_not_truncated _
    (fun xs c h => Tw.Huffman.decompress_compress _ Tw.Huffman.wellFormed_table false xs c h) p hv cap hcap bs

/-- The connected-packet limit the API documents (`MAX_PAYLOAD` bytes of chunk data plus one vital chunk
header, with a token) is inside `Valid`. -/
theorem v6_max_payload_is_valid (ack : Nat) (tok : Option Token) (rr : Bool) (nc : Nat)
    (payload : List UInt8) (ha : ack < 1024) (hn : nc < 256)
    (hl : payload.length ≤ Tw.Gen.Packet6.MAX_PAYLOAD + Tw.Gen.Packet6.CHUNK_HEADER_SIZE_VITAL) :
    Tw.Packet6.Valid (.connected ack tok (.chunks rr nc payload)) := by
  refine ⟨ha, hn, ?_⟩
  have h1 : Tw.Gen.Packet6.MAX_PAYLOAD = 1390 := by decide
  have h2 : Tw.Gen.Packet6.CHUNK_HEADER_SIZE_VITAL = 3 := by decide
  have h3 : Tw.Gen.Packet6.TOKEN_SIZE = 4 := by decide
  have h4 : Tw.Gen.Packet6.READ_PAYLOAD_LIMIT = 1397 := by decide
  split <;> omega

/-- 0.6 vital chunk header, **every** three-byte pattern: re-packing or-s the two doubly stored sequence
bits together (`[v.0, v.1 | ((v.2 & 0b1100_0000) >> 2), v.2 | ((v.1 & 0b0011_0000) << 2)]`, the
normalisation documented in doc/packet.md and used by the crate's own quickcheck). -/
theorem v6_chunkHeaderVital_pack_unpack_all (b0 b1 b2 : Nat) (h0 : b0 < 256) (h1 : b1 < 256) (h2 : b2 < 256) :
    chunkHeaderVitalPack (chunkHeaderVitalUnpackWarn b0 b1 b2).1 =
      some (b0, b1 ||| ((b2 &&& 192) >>> 2), b2 ||| ((b1 &&& 48) <<< 2)) :=
  chv_pack_unpack_all b0 b1 b2 h0 h1 h2

-- non-vacuity
example : Tw.Packet6.Valid (.connected 1023 (some ⟨1, 2, 3, 4⟩) (.control (.close [0x62, 0x79, 0x65]))) := by
  refine ⟨by decide, by decide, ?_⟩
  intro b hb
  simp only [List.mem_cons, List.not_mem_nil, or_false] at hb
  rcases hb with rfl | rfl | rfl <;> decide
example : (PacketHeader.mk 15 1023 255).pack = some (243, 255, 255) := by decide
example : chunkHeaderVitalUnpackWarn 0x40 0x70 0xcf = ({ h := { flags := 1, size := 0 }, sequence := 463 }, []) := by
  decide

end V6

/-! ## 0.7 header codecs -/
section V7
open Tw.Packet7

/-- Tie: the literals of the 0.7 header pack/unpack functions, in source order.  The first literal of
`ChunkHeaderPacked::unpack_warn` is the padding mask: `0b1100_0000` (two padding bits) since the repair
of defect D1; with the former `0b1111_0000` the two chunk-header round trips below are false
(`ch_pack 0 16` warns) and this tie and `Tw.Packet7.ch_unpack_eq` stop checking. -/
theorem tie_masks7 :
    Tw.Gen.Packet7.PacketHeaderPacked_unpack_warn = [192, 0, 60, 2, 3, 8] ∧
    Tw.Gen.Packet7.PacketHeader_pack = [0, 0, 2, 8] ∧
    Tw.Gen.Packet7.PacketHeaderConnlessPacked_unpack_warn = [192, 0, 60, 2, 3] ∧
    Tw.Gen.Packet7.PacketHeaderConnless_pack = [0, 0, 2] ∧
    Tw.Gen.Packet7.ChunkHeaderPacked_unpack_warn = [192, 0, 192, 6, 63, 6, 63] ∧
    Tw.Gen.Packet7.ChunkHeader_pack = [0, 0, 3, 6, 4032, 6, 63] ∧
    Tw.Gen.Packet7.ChunkHeaderVitalPacked_unpack_warn = [63, 192, 2, 255] ∧
    Tw.Gen.Packet7.ChunkHeaderVital_pack = [0, 63, 768, 2, 255] := by decide

/-- 0.7 packet header round trip for all flags < 16, ack < 1024, any num_chunks and token. -/
theorem v7_packetHeader_unpack_pack (h : PacketHeader) (hf : h.flags < 16) (ha : h.ack < 1024) :
    ∃ b0 b1 b2, h.pack = some (b0, b1, b2) ∧ b0 < 256 ∧ b1 < 256 ∧
      PacketHeader.unpackWarn b0 b1 b2 h.token = (h, []) :=
  Tw.Packet7.ph_unpack_pack h hf ha

/-- 0.7 packet header: re-packing clears the two padding bits (`& 0b0011_1111`). -/
theorem v7_packetHeader_pack_unpack (b0 b1 b2 : Nat) (tok : Token) (h1 : b1 < 256) :
    (PacketHeader.unpackWarn b0 b1 b2 tok).1.pack = some (b0 &&& 63, b1, b2) :=
  Tw.Packet7.ph_pack_unpack b0 b1 b2 tok h1

/-- 0.7 connless header round trip for all flags < 16, version < 4, any tokens. -/
theorem v7_packetHeaderConnless_unpack_pack (h : PacketHeaderConnless) (hf : h.flags < 16)
    (hv : h.version < 4) :
    ∃ b0, h.pack = some b0 ∧ b0 < 256 ∧
      PacketHeaderConnless.unpackWarn b0 h.token h.responseToken = (h, []) :=
  Tw.Packet7.phc_unpack_pack h hf hv

theorem v7_packetHeaderConnless_pack_unpack (b0 : Nat) (tok rt : Token) :
    (PacketHeaderConnless.unpackWarn b0 tok rt).1.pack = some (b0 &&& 63) :=
  Tw.Packet7.phc_pack_unpack b0 tok rt

/-- 0.7 non-vital chunk header round trip for all flags < 4, size < 4096 (needs the D1 repair). -/
theorem v7_chunkHeader_unpack_pack (h : ChunkHeader) (hf : h.flags < 4) (hs : h.size < 4096) :
    ∃ b0 b1, Tw.Packet7.chunkHeaderPack h = some (b0, b1) ∧ b0 < 256 ∧ b1 < 256 ∧
      Tw.Packet7.chunkHeaderUnpackWarn b0 b1 = (h, []) :=
  Tw.Packet7.ch_unpack_pack h hf hs

theorem v7_chunkHeader_pack_unpack (b0 b1 : Nat) (h0 : b0 < 256) :
    Tw.Packet7.chunkHeaderPack (Tw.Packet7.chunkHeaderUnpackWarn b0 b1).1 = some (b0, b1 &&& 63) :=
  Tw.Packet7.ch_pack_unpack b0 b1 h0

/-- 0.7 vital chunk header round trip for all flags < 4, size < 4096, sequence < 1024. -/
theorem v7_chunkHeaderVital_unpack_pack (v : ChunkHeaderVital) (hf : v.h.flags < 4)
    (hs : v.h.size < 4096) (hq : v.sequence < 1024) :
    ∃ b0 b1 b2, Tw.Packet7.chunkHeaderVitalPack v = some (b0, b1, b2) ∧ b0 < 256 ∧ b1 < 256 ∧ b2 < 256 ∧
      Tw.Packet7.chunkHeaderVitalUnpackWarn b0 b1 b2 = (v, []) :=
  Tw.Packet7.chv_unpack_pack v hf hs hq

/-- 0.7 vital chunk header: every three-byte pattern is canonical and re-packs to itself. -/
theorem v7_chunkHeaderVital_pack_unpack (b0 b1 b2 : Nat) (h0 : b0 < 256) (h1 : b1 < 256) (h2 : b2 < 256) :
    Tw.Packet7.chunkHeaderVitalPack (Tw.Packet7.chunkHeaderVitalUnpackWarn b0 b1 b2).1 = some (b0, b1, b2) :=
  Tw.Packet7.chv_pack_unpack b0 b1 b2 h0 h1 h2

/-- **0.7 whole-packet round trip.**  For every packet value satisfying `Tw.Packet7.Valid` (connless
payload within the writer's limit; ack < 1024, num_chunks < 256, payload at most
`MAX_PACKETSIZE - HEADER_SIZE`; close reason NUL-free and at most 127 bytes; response token of
`Connect`/`Token` different from `TOKEN_NONE`, as the writer asserts) `Packet::write` into any buffer of at
least `MAX_PACKETSIZE` bytes succeeds with at most `MAX_PACKETSIZE` bytes (519 for a token request), and
`Packet::read` returns the same value with `Tw.Packet7.expectedWarnings`, irrespective of the
compression branch. -/
theorem v7_write_read_roundtrip (t : Tw.Huffman.Table) (hrt : Tw.Packet7.HuffmanRoundTrip t)
    (p : Tw.Packet7.Packet) (hv : Tw.Packet7.Valid p) (cap scap : Nat)
    (hcap : Tw.Gen.Packet7.MAX_PACKETSIZE ≤ cap) (hs : Tw.Gen.Packet7.MAX_PACKETSIZE ≤ scap) :
    ∃ bs, Tw.Packet7.write t p cap = .ok bs ∧ bs.length ≤ Tw.Gen.Packet7.MAX_PACKETSIZE ∧
      ∃ r, Tw.Packet7.read t bs (some scap) = .ok r ∧ r.pkt = p ∧ r.warns = Tw.Packet7.expectedWarnings p :=
  Tw.Packet7.write_read_roundtrip t hrt p hv cap scap hcap hs

-- non-vacuity: a token request (header token = TOKEN_NONE) is valid
example : Tw.Packet7.Valid (.connected 0 Tw.Packet7.tokenNone (.control (.token ⟨1, 2, 3, 4⟩))) := by
  refine ⟨by decide, by decide⟩

-- non-vacuity: the D1 witness size 16 now round-trips without warning
example : Tw.Packet7.chunkHeaderUnpackWarn 0x00 0x10 = ({ flags := 0, size := 16 }, []) := by decide
example : Tw.Packet7.chunkHeaderVitalPack { h := { flags := 1, size := 48 }, sequence := 5 } = some (0x40, 0x30, 0x05) := by
  decide

end V7

/-- Tie: the numbers and constants the writer models depend on: the capacities of the stack buffers of
`write_impl` (by variable name), the connless padding byte, and — as *sets* of the distinct numbers > 1
each writer function mentions (literals, constants resolved to values, `.len()` of byte-string constants,
private helpers followed) — everything else, so that a restructuring which keeps the numbers leaves the tie
intact while a new or changed number breaks it. -/
theorem tie_writer_literals :
    Tw.Gen.Packet6.WRITE_TOKEN_BUFFER_SIZE = 2048 ∧ Tw.Gen.Packet6.WRITE_COMPRESSION_BUFFER_SIZE = 2048 ∧
    Tw.Gen.Packet7.WRITE_COMPRESSION_BUFFER_SIZE = 2048 ∧ Tw.Gen.Packet6.CONNLESS_PADDING_BYTE = 255 ∧
    Tw.Gen.Packet6.nums_write_impl = [4, 8, 2048] ∧ Tw.Gen.Packet7.nums_write_impl = [2, 4, 2048] ∧
    Tw.Gen.Packet6.nums_write_connless_packet = [3, 255, 1400] ∧
    Tw.Gen.Packet7.nums_write_connless_packet = [8, 9, 1400] ∧
    Tw.Gen.Packet6.nums_control_write = [2, 3, 4, 1400] ∧ Tw.Gen.Packet7.nums_control_write = [2, 4, 5, 519, 1400] ∧
    Tw.Gen.Packet6.nums_write_chunk_impl = [2, 10] ∧ Tw.Gen.Packet7.nums_write_chunk_impl = [2, 12] ∧
    Tw.Gen.Packet6.CTRLMSG_TOKEN_MAGIC = [84, 75, 69, 78] ∧ Tw.Gen.Packet7.TOKEN_NONE = [255, 255, 255, 255] ∧
    (Tw.Gen.Packet6.PACKETFLAG_CONTROL, Tw.Gen.Packet6.PACKETFLAG_CONNLESS, Tw.Gen.Packet6.PACKETFLAG_REQUEST_RESEND,
      Tw.Gen.Packet6.PACKETFLAG_COMPRESSION) = (1, 2, 4, 8) ∧
    (Tw.Gen.Packet7.PACKETFLAG_CONTROL, Tw.Gen.Packet7.PACKETFLAG_REQUEST_RESEND, Tw.Gen.Packet7.PACKETFLAG_COMPRESSION,
      Tw.Gen.Packet7.PACKETFLAG_CONNLESS) = (1, 2, 4, 8) ∧
    (Tw.Gen.Packet6.CHUNKFLAG_VITAL, Tw.Gen.Packet6.CHUNKFLAG_RESEND, Tw.Gen.Packet7.CHUNKFLAG_VITAL,
      Tw.Gen.Packet7.CHUNKFLAG_RESEND) = (1, 2, 1, 2) ∧
    (Tw.Gen.Packet6.MAX_PAYLOAD, Tw.Gen.Packet7.MAX_PAYLOAD, Tw.Gen.Packet6.CTRLMSG_CLOSE_REASON_LENGTH,
      Tw.Gen.Packet7.CTRLMSG_CLOSE_REASON_LENGTH, Tw.Gen.Packet7.CONNLESS_VERSION) = (1390, 1390, 127, 127, 1) := by
  decide

/-! ## chunk list ↔ chunk iterator -/

/-- **0.6**: a list of chunks (each shorter than 1024 bytes, sequence numbers below 1024) serialised
with `write_chunk` into one buffer and iterated with `ChunksIter::new(bytes, list.len())` comes back
as exactly the same list — data, vital flag, sequence number, resend flag — with no warning at all
(including the final `None` call), and the iteration ends within its fuel. -/
theorem v6_chunk_list_iterator_roundtrip (cs : List (List UInt8 × Option (Nat × Bool)))
    (hok : ∀ x ∈ cs, Tw.Packet6.ChunkOk x.1 x.2) (cap : Nat) (bs : List UInt8)
    (hw : Tw.Packet6.writeChunkList cs cap [] = .ok bs) :
    (((Iter.new bs cs.length).drain Tw.Packet6.codec).1.map fun ch => (ch.data, ch.vital)) = cs ∧
    ((Iter.new bs cs.length).drain Tw.Packet6.codec).2.1 = [] ∧
    ((Iter.new bs cs.length).drain Tw.Packet6.codec).2.2.2 = false :=
  Tw.Packet6.chunkList_roundtrip cs hok cap bs hw

/-- **0.7** (chunks shorter than 4096 bytes); true only with the D1 repair: before it every chunk whose
size has bit 4 or 5 set produced `ChunkHeaderPadding` here. -/
theorem v7_chunk_list_iterator_roundtrip (cs : List (List UInt8 × Option (Nat × Bool)))
    (hok : ∀ x ∈ cs, Tw.Packet7.ChunkOk x.1 x.2) (cap : Nat) (bs : List UInt8)
    (hw : Tw.Packet7.writeChunkList cs cap [] = .ok bs) :
    (((Iter.new bs cs.length).drain Tw.Packet7.codec).1.map fun ch => (ch.data, ch.vital)) = cs ∧
    ((Iter.new bs cs.length).drain Tw.Packet7.codec).2.1 = [] ∧
    ((Iter.new bs cs.length).drain Tw.Packet7.codec).2.2.2 = false :=
  Tw.Packet7.chunkList_roundtrip cs hok cap bs hw

/-- a chunk list that fits is written (`write_chunk` fails only for lack of capacity) -/
theorem v6_chunk_written_iff_fits (d : List UInt8) (v : Option (Nat × Bool)) (cap : Nat) (acc : List UInt8)
    (hok : Tw.Packet6.ChunkOk d v) :
    Tw.Packet6.writeChunk d v cap acc =
      if acc.length + (Tw.Packet6.chunkHdr d v).length + d.length ≤ cap
      then .ok (acc ++ Tw.Packet6.chunkHdr d v ++ d) else .capacity :=
  Tw.Packet6.writeChunk_char d v cap acc hok

-- non-vacuity: the D1 witness (a 16-byte non-vital chunk) and a vital resent chunk, in the model
example : Tw.Packet7.writeChunkList [(List.replicate 16 0, none), ([7], some (1023, true))] 100 [] =
    .ok ([0x00, 0x10] ++ List.replicate 16 0 ++ [0xc0, 0xc1, 0xff, 7]) := by decide
example : Tw.Packet7.ChunkOk (List.replicate 16 0) none := ⟨by decide, by intro q r h; cases h⟩

/-! ## the whole-packet theorems for the built-in table, without any hypothesis about the Huffman codec

C07 (`Tw.Huffman.decompress_compress`, `Tw.Huffman.wellFormed_table`: kernel-checked well-formedness of
the regenerated table `Tw.Gen.Huffman.table`) discharges `HuffmanRoundTrip`. -/

theorem huffmanRoundTrip6_table : Tw.Packet6.HuffmanRoundTrip Tw.Gen.Huffman.table :=
  fun xs cap h => Tw.Huffman.decompress_compress _ Tw.Huffman.wellFormed_table false xs cap h

theorem huffmanRoundTrip7_table : Tw.Packet7.HuffmanRoundTrip Tw.Gen.Huffman.table :=
  fun xs cap h => Tw.Huffman.decompress_compress _ Tw.Huffman.wellFormed_table false xs cap h

/-- **C05 for 0.6 with the real table**: every `Valid` packet is written to at most `MAX_PACKETSIZE` bytes
that read back (true token mode) as the same value with `expectedWarnings`, whichever compression branch
the writer takes. -/
theorem v6_write_read_roundtrip_table (p : Tw.Packet6.Packet) (hv : Tw.Packet6.Valid p) (cap scap : Nat)
    (hcap : Tw.Gen.Packet6.MAX_PACKETSIZE ≤ cap) (hs : Tw.Gen.Packet6.MAX_PACKETSIZE ≤ scap) :
    ∃ bs, Tw.Packet6.write Tw.Gen.Huffman.table p cap = .ok bs ∧ bs.length ≤ Tw.Gen.Packet6.MAX_PACKETSIZE ∧
      ∃ r, Tw.Packet6.read Tw.Gen.Huffman.table bs (some p.hasToken) (some scap) = .ok r ∧ r.pkt = p ∧
        r.warns = Tw.Packet6.expectedWarnings p :=
  v6_write_read_roundtrip _ huffmanRoundTrip6_table p hv cap scap hcap hs

/-- **C05 for 0.7 with the real table**. -/
theorem v7_write_read_roundtrip_table (p : Tw.Packet7.Packet) (hv : Tw.Packet7.Valid p) (cap scap : Nat)
    (hcap : Tw.Gen.Packet7.MAX_PACKETSIZE ≤ cap) (hs : Tw.Gen.Packet7.MAX_PACKETSIZE ≤ scap) :
    ∃ bs, Tw.Packet7.write Tw.Gen.Huffman.table p cap = .ok bs ∧ bs.length ≤ Tw.Gen.Packet7.MAX_PACKETSIZE ∧
      ∃ r, Tw.Packet7.read Tw.Gen.Huffman.table bs (some scap) = .ok r ∧ r.pkt = p ∧
        r.warns = Tw.Packet7.expectedWarnings p :=
  v7_write_read_roundtrip _ huffmanRoundTrip7_table p hv cap scap hcap hs

end Tw.Props.C05
