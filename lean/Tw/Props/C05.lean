import Tw.Model.Packet6
import Tw.Proofs.Packet6Headers

/-!
# C05 — packet encoding and decoding are mutually inverse

Property theorems only; helper lemmas are in `Tw/Proofs/Packet*.lean`.  Models:
`Tw/Model/Packet6.lean` (`net/src/protocol.rs`), `Tw/Model/Packet7.lean` (`net/src/protocol7.rs`), tied to
the code by the regenerated masks/constants in `Tw/Gen/Packet6.lean` / `Packet7.lean` and by the
correspondence domains `packet6` / `packet7` (exhaustive header sweeps in hash form).
-/
namespace Tw.Props.C05
open Tw.Packet

/-! ## 0.6 header codecs -/
section V6
open Tw.Packet6

/-- Tie: the literals of the 0.6 header pack/unpack functions, in source order (the model is written
with these constants; the bit-field lemmas below are proved for exactly these values). -/
theorem tie_masks6 :
    Tw.Gen.Packet6.PacketHeaderPacked_unpack_warn = [32, 0, 12, 0, 240, 4, 3, 8] ∧
    Tw.Gen.Packet6.PacketHeader_pack = [0, 0, 4, 8] ∧
    Tw.Gen.Packet6.ChunkHeaderPacked_unpack_warn = [240, 0, 192, 6, 63, 4, 15] ∧
    Tw.Gen.Packet6.ChunkHeader_pack = [0, 0, 3, 6, 1008, 4, 15] ∧
    Tw.Gen.Packet6.ChunkHeaderVitalPacked_unpack_warn = [48, 4, 192, 6, 15, 240, 2, 255] ∧
    Tw.Gen.Packet6.ChunkHeaderVital_pack = [0, 15, 960, 2, 255] := by decide

/-- 0.6 packet header: every in-range field tuple packs (no assertion fails) into three bytes that
unpack to the same tuple with no warning. -/
theorem v6_packetHeader_unpack_pack (h : PacketHeader) (hf : h.flags < 16) (ha : h.ack < 1024) :
    ∃ b0 b1 b2, h.pack = some (b0, b1, b2) ∧ b0 < 256 ∧ b1 < 256 ∧
      PacketHeader.unpackWarn b0 b1 b2 = (h, []) :=
  ph_unpack_pack h hf ha

/-- 0.6 packet header: unpacking any three bytes and re-packing returns them with the two padding bits
cleared (`& 0b1111_0011`); in particular canonical patterns (padding bits zero) re-pack to themselves. -/
theorem v6_packetHeader_pack_unpack (b0 b1 b2 : Nat) (h1 : b1 < 256) :
    (PacketHeader.unpackWarn b0 b1 b2).1.pack = some (b0 &&& 243, b1, b2) :=
  ph_pack_unpack b0 b1 b2 h1

/-- 0.6 non-vital chunk header round trip for all flags < 4, size < 1024. -/
theorem v6_chunkHeader_unpack_pack (h : ChunkHeader) (hf : h.flags < 4) (hs : h.size < 1024) :
    ∃ b0 b1, chunkHeaderPack h = some (b0, b1) ∧ b0 < 256 ∧ b1 < 256 ∧
      chunkHeaderUnpackWarn b0 b1 = (h, []) :=
  ch_unpack_pack h hf hs

/-- 0.6 non-vital chunk header: re-packing clears the four padding bits of the second byte. -/
theorem v6_chunkHeader_pack_unpack (b0 b1 : Nat) (h0 : b0 < 256) :
    chunkHeaderPack (chunkHeaderUnpackWarn b0 b1).1 = some (b0, b1 &&& 15) :=
  ch_pack_unpack b0 b1 h0

/-- 0.6 vital chunk header round trip for all flags < 4, size < 1024, sequence < 1024. -/
theorem v6_chunkHeaderVital_unpack_pack (v : ChunkHeaderVital) (hf : v.h.flags < 4)
    (hs : v.h.size < 1024) (hq : v.sequence < 1024) :
    ∃ b0 b1 b2, chunkHeaderVitalPack v = some (b0, b1, b2) ∧ b0 < 256 ∧ b1 < 256 ∧ b2 < 256 ∧
      chunkHeaderVitalUnpackWarn b0 b1 b2 = (v, []) :=
  chv_unpack_pack v hf hs hq

/-- 0.6 vital chunk header: every canonical pattern (the two sequence bits that are stored twice
agree, i.e. no `ChunkHeaderSequence` warning) re-packs to itself. -/
theorem v6_chunkHeaderVital_pack_unpack_canonical (b0 b1 b2 : Nat) (h0 : b0 < 256) (h1 : b1 < 256)
    (h2 : b2 < 256) (hc : b1 / 16 % 4 = b2 / 64 % 4) :
    chunkHeaderVitalPack (chunkHeaderVitalUnpackWarn b0 b1 b2).1 = some (b0, b1, b2) :=
  chv_pack_unpack_canonical b0 b1 b2 h0 h1 h2 hc

-- non-vacuity
example : (PacketHeader.mk 15 1023 255).pack = some (243, 255, 255) := by decide
example : chunkHeaderVitalUnpackWarn 0x40 0x70 0xcf = ({ h := { flags := 1, size := 0 }, sequence := 463 }, []) := by
  decide

end V6

end Tw.Props.C05
