import Tw.Model.Snap
import Tw.Gen.Snap
import Tw.Proofs.SnapDelta
import Tw.Proofs.SnapWire
import Tw.Proofs.SnapRef3
import Tw.Proofs.SnapFast

/-!
# C09 — applying a snapshot delta reproduces the target snapshot

Model: `Tw/Model/Snap.lean` (`createDelta` = `Delta::create_raw`, `applyDelta` =
`RawSnap::read_with_delta`, `Delta.writeInts` = `Delta::write_impl`, `readDelta` =
`Delta::read_impl` over integers or packed bytes).  Helper lemmas: `Tw/Proofs/Snap*.lean`.

The delta format cannot express a size change of an existing key; `Delta::create` panics on such
a pair (finding D15, open).  The theorems therefore carry `SizesAgree a b` and are named
`…_partial`; the unrestricted statement is `C09_full`, refuted in the model by
`create_panics_witness`.
-/
namespace Tw.Props.C09
open Tw.Snap

/-- Tie to the source: limits and type-id constants. -/
theorem tie_consts :
    maxSize = 65536 ∧ maxItems = 1024 ∧ typeIdEx = 0 ∧ offsetExt = 16384 := by decide

/-- (Lists are the *significant numbers* of each function: its integer literals and the values of
the named constants it mentions, as a sorted set without 0 and 1 — see `exlib.significant_set`.)
Tie to the source: the shifts/masks of `key`, `key_to_id`, `key_to_raw_type_id`, the header
padding word of `DeltaHeader::encode_obj`, the `2 +` of `serialized_ints_size`. -/
theorem tie_literals :
    Tw.Gen.Snap.lits_key = [16] ∧ Tw.Gen.Snap.lits_key_to_id = [65535] ∧
    Tw.Gen.Snap.lits_key_to_raw_type_id = [16, 65535] ∧ Tw.Gen.Snap.lits_encode_obj = [] ∧
    Tw.Gen.Snap.lits_serialized_ints_size = [2] ∧ Tw.Gen.Snap.lits_prepare_item_vacant = [1024, 65536] := by
  decide

/-- The full-strength statement of the first sentence of C09 (every pair of snapshots). -/
def C09_full : Prop :=
  ∀ a b : RawSnap, a.WF → b.WF → ∃ d, createDelta a b = some d ∧ applyDelta a d = .ok (b, [])

/-- For all snapshots `a`, `b` with agreeing item sizes: the delta computed from `a` to `b`, applied
to `a`, yields exactly `b` (same items, same data) and no warning. -/
theorem apply_create_partial {a b : RawSnap} (ha : a.WF) (hb : b.WF) (hag : SizesAgree a b) :
    ∃ d, createDelta a b = some d ∧ applyDelta a d = .ok (b, []) :=
  applyDelta_createDelta ha hb hag

/-- … in particular the checksum of the result is the checksum of the target. -/
theorem apply_create_crc_partial {a b : RawSnap} (ha : a.WF) (hb : b.WF) (hag : SizesAgree a b)
    {d : Delta} {s : RawSnap} {ws : List Warning} (hd : createDelta a b = some d)
    (hs : applyDelta a d = .ok (s, ws)) : s.crc = b.crc ∧ s.items = b.items ∧ ws = [] := by
  obtain ⟨d', hd', hap⟩ := applyDelta_createDelta ha hb hag
  rw [hd] at hd'
  injection hd' with hd'
  subst hd'
  rw [hs] at hap
  injection hap with hap
  injection hap with h1 h2
  subst h1 h2
  exact ⟨rfl, rfl, rfl⟩

/-- Wire form, integers: a well-formed delta written with an object-size table that agrees with
its items is read back unchanged and without warning. -/
theorem delta_wire_ints (objSize : Nat → Option Nat) {d : Delta} (hd : d.WF)
    (hok : SizesOk objSize d.updated) :
    ∃ xs, d.writeInts objSize = some xs ∧ readDelta objSize (.ints xs) = .ok (d, []) :=
  readDelta_writeInts false objSize hd hok

/-- Wire form, bytes (each integer packed by `Packer::write_int`). -/
theorem delta_wire_bytes (objSize : Nat → Option Nat) {d : Delta} (hd : d.WF)
    (hok : SizesOk objSize d.updated) :
    ∃ xs, d.writeInts objSize = some xs ∧ readDelta objSize (.bytes (packInts xs)) = .ok (d, []) :=
  readDelta_writeInts true objSize hd hok

/-- The whole journey: create, write (pre-agreed sizes omitted, others explicit — the same table on
both sides), read back from integers and from bytes, apply: the target snapshot, no warning
anywhere. -/
theorem delta_journey_partial (objSize : Nat → Option Nat) {a b : RawSnap} (ha : a.WF) (hb : b.WF)
    (hag : SizesAgree a b) (hok : SizesOk objSize b.items) :
    ∃ d xs, createDelta a b = some d ∧ d.writeInts objSize = some xs ∧
      readDelta objSize (.ints xs) = .ok (d, []) ∧
      readDelta objSize (.bytes (packInts xs)) = .ok (d, []) ∧
      applyDelta a d = .ok (b, []) := by
  obtain ⟨d, xs, hd, hw, hr, hap⟩ := delta_roundtrip false objSize ha hb hag hok
  obtain ⟨d', xs', hd', hw', hr', _⟩ := delta_roundtrip true objSize ha hb hag hok
  rw [hd] at hd'; injection hd' with hd'; subst hd'
  rw [hw] at hw'; injection hw' with hw'; subst hw'
  exact ⟨d, xs, hd, hw, hr, hr', hap⟩

/-- Reference deltas: any delta that deletes exactly the keys of `a` missing in `b`, lists
differences (or data, for new keys) of items of `b`, and omits only unchanged items — which is
what `CSnapshotDelta::CreateDelta` emits — applied to `a` also yields `b` without warning. -/
theorem apply_reference_delta_partial {a b : RawSnap} {d : Delta} (ha : a.WF) (hb : b.WF)
    (hag : SizesAgree a b) (hd : RefDelta a b d) : applyDelta a d = .ok (b, []) :=
  applyDelta_of_refDelta ha hb hag hd

/-- The delta the bundled reference computes (`refCreateDelta` = the model of
`CSnapshotDelta::CreateDelta`, tied to the C++ code by the correspondence run; snapshots handed to
the reference builder in ascending unsigned key order; the empty output stands for the empty
delta) is read by `Delta::read_from_ints` without warning, is a reference delta in the sense
above, and therefore — applied here — yields `b`. -/
theorem reference_delta_applies_partial (objSize : Nat → Option Nat) {a b : RawSnap} (ha : a.WF) (hb : b.WF)
    (hag : SizesAgree a b) (hok : SizesOk objSize b.items) :
    ∃ d, readDelta objSize (.ints
        (if (refCreateDelta objSize (unsignedOrder a.items) (unsignedOrder b.items)).isEmpty then [0, 0, 0]
         else refCreateDelta objSize (unsignedOrder a.items) (unsignedOrder b.items))) = .ok (d, []) ∧
      RefDelta a b d ∧ applyDelta a d = .ok (b, []) := by
  obtain ⟨d, h1, h2⟩ := refCreateDelta_refDelta objSize ha hb hag hok
  exact ⟨d, h1, h2, applyDelta_of_refDelta ha hb hag h2⟩

/-- A snapshot serializes to the same integers as the reference builder produces for the same
items (inserted in ascending unsigned key order, which is the order `write_impl` sorts into). -/
theorem snapshot_ints_eq_reference {s : RawSnap} (h : s.WF) :
    s.writeInts = some (refSnapInts (unsignedOrder s.items)) :=
  writeInts_eq_reference h

/-- `Delta::create` panics exactly on the pairs excluded above (D15). -/
theorem create_panics_iff (a b : RawSnap) : createDelta a b = none ↔ ¬ SizesAgree a b :=
  createDelta_eq_none_iff a b

/-- Witness of finding D15 in the model: the key `(5, 1)` with two and with three integers. -/
theorem create_panics_witness :
    (RawSnap.mk [(keyOf 5 1, [1, 2])]).WF ∧ (RawSnap.mk [(keyOf 5 1, [1, 2, 3])]).WF ∧
    createDelta ⟨[(keyOf 5 1, [1, 2])]⟩ ⟨[(keyOf 5 1, [1, 2, 3])]⟩ = none := by decide

/-- hence the unrestricted statement does not hold for the code as it is -/
theorem C09_full_refuted_witness : ¬ C09_full := by
  intro h
  obtain ⟨d, hd, _⟩ := h ⟨[(keyOf 5 1, [1, 2])]⟩ ⟨[(keyOf 5 1, [1, 2, 3])]⟩
    create_panics_witness.1 create_panics_witness.2.1
  rw [create_panics_witness.2.2] at hd
  exact absurd hd (by simp)

/-- The driver runs tree-backed twins (`Tw/Model/SnapFast.lean`) of the two map-heavy model
functions; they compute exactly the list model, for every input (no hypothesis). -/
theorem driver_twin_build_eq (its : List (Int × List Int)) :
    Fast.buildFast its = Fast.buildList its 0 RawSnap.empty := Fast.buildFast_eq its

theorem driver_twin_apply_eq (a : RawSnap) (d : Delta) : Fast.applyDeltaFast a d = applyDelta a d :=
  Fast.applyDeltaFast_eq a d

theorem driver_twin_read_with_delta_eq (a : Snap) (d : Delta) :
    Fast.readWithDeltaFast a d = a.readWithDelta d := Fast.readWithDeltaFast_eq a d

-- non-vacuity: a pair over both sides of the signed-key boundary with an item removed, one
-- changed with wrapping difference, one added, one untouched; pre-agreed size for type 13
example :
    let a : RawSnap := ⟨[(keyOf 32769 7, [5]), (keyOf 0 16384, [1, 2, 3, 4]), (keyOf 13 1, [2147483647, 0])]⟩
    let b : RawSnap := ⟨[(keyOf 0 16384, [1, 2, 3, 4]), (keyOf 13 1, [-2147483648, 7]), (keyOf 14 3, [1, 1])]⟩
    a.WF ∧ b.WF ∧ SizesAgree a b ∧
      SizesOk (fun t => if t = 13 ∨ t = 14 then some 2 else none) b.items := by decide

example :
    (createDelta ⟨[(keyOf 13 1, [2147483647, 0])]⟩ ⟨[(keyOf 13 1, [-2147483648, 7])]⟩) =
      some ⟨[], [(keyOf 13 1, [1, 7])]⟩ := by decide

end Tw.Props.C09
