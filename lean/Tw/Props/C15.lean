import Tw.Model.Demo

/-!
# C15 — a recorded demo plays back what was recorded
-/
namespace Tw.Props.C15
open Tw.Demo

/-- placeholder tie, replaced below by the real theorems -/
theorem tie_consts : Tw.Gen.Demo.CHUNKSIZE_ONEBYTEFOLLOWS = 30 ∧ Tw.Gen.Demo.CHUNKSIZE_TWOBYTESFOLLOW = 31 := by
  decide

end Tw.Props.C15
