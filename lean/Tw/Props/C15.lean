import Tw.Model.Demo
import Tw.Proofs.Demo
import Tw.Model.DemoHl
import Tw.Proofs.DemoHl
import Tw.Proofs.DemoHistory
import Tw.Proofs.DemoTotal
import Tw.Proofs.DemoNoPanic
import Tw.Gen.Demo

/-!
# C15 — a recorded demo plays back what was recorded

Property theorems only (helper lemmas and the specification vocabulary — `HuffmanRoundTrip`,
`HeaderArgs.wf`, `HeaderArgs.info`, `Chunk.inRange`, `ChunkHeader.inRange` — live in
`Tw/Proofs/Demo.lean`).  The model is `Tw/Model/Demo.lean`; it is tied to `demo/src/format.rs`,
`writer.rs`, `reader.rs` by the `demo` correspondence domain (real `Writer` into memory, real `Reader`
back, plus a malformed stream) and by the ties below.

A file is a `List UInt8`; an `i32` is an `Int` satisfying `inI32`; `WResult.panic` is a Rust panic
(the writer's way of refusing), `readFile … = none` a header the reader refuses.

The Huffman round trip of the built-in table (`HuffmanRoundTrip` in the helper lemmas) is discharged
by C07 (`Tw.Huffman.decompress_compress` with the kernel-checked `wellFormed_table`):
`Tw.DemoHl.huffmanRoundTrip`.  No theorem below carries a Huffman hypothesis.
-/
namespace Tw.Props.C15
open Tw.Demo
open Tw.Packer (inI32)
open Tw.DemoHl Tw.Snap

/-! ## Ties to the source -/

/-- The flag and mask constants of `format.rs` are the ones in `doc/demo.md` (the bit-field lemmas of
`Proofs/Demo.lean` are re-checked against the regenerated values on every run; this theorem names
them). -/
theorem tie_consts :
    Tw.Gen.Demo.MAX_SNAPSHOT_SIZE = 65536
    ∧ Tw.Gen.Demo.CHUNKTYPEFLAG_TICKMARKER = 0x80 ∧ Tw.Gen.Demo.CHUNKTICKFLAG_KEYFRAME = 0x40
    ∧ Tw.Gen.Demo.CHUNKTICKFLAG_INLINETICK = 0x20 ∧ Tw.Gen.Demo.CHUNKTICKMASK_TICK_V3 = 0x3f
    ∧ Tw.Gen.Demo.CHUNKTICKMASK_TICK_V5 = 0x1f ∧ Tw.Gen.Demo.CHUNKMASK_TYPE = 0x60
    ∧ Tw.Gen.Demo.CHUNKMASK_SIZE = 0x1f ∧ Tw.Gen.Demo.CHUNKTYPE_UNKNOWN = 0
    ∧ Tw.Gen.Demo.CHUNKTYPE_SNAPSHOT = 0x20 ∧ Tw.Gen.Demo.CHUNKTYPE_MESSAGE = 0x40
    ∧ Tw.Gen.Demo.CHUNKTYPE_SNAPSHOTDELTA = 0x60 ∧ Tw.Gen.Demo.CHUNKSIZE_ONEBYTEFOLLOWS = 30
    ∧ Tw.Gen.Demo.CHUNKSIZE_TWOBYTESFOLLOW = 31 := by decide

/-- The comparisons of the chunk header codec that are not named constants, in a normal form that a
behaviour-preserving rewrite keeps (right-hand sides resolved to numbers, `x < n` as `x <= n-1`,
`size.try_u8()` as `size <= 255`): the reader's over-long tests (`size <= 29` in the one-byte form,
`size <= 254` in the two-byte form), the writer's branches (`size <= 29` inline, `size <= 255` one byte,
else two bytes; what is or-ed into the kind flag: the size, 30, 31), `TickMarker::new` (assertion
`tick > p`; inline iff `!keyframe` and `tick.checked_sub(p) <= max_tick_delta`), the versions and their
inline-delta limits, the writer's versions. -/
theorem tie_codec :
    Tw.Gen.Demo.read_overlong_le = [29, 254]
    ∧ Tw.Gen.Demo.write_size_le = [29, 255]
    ∧ Tw.Gen.Demo.write_size_marks = [-1, 30, 31]
    ∧ Tw.Gen.Demo.tick_marker_asserts = ["tick>p"]
    ∧ Tw.Gen.Demo.tick_inline_test = (true, true, 0)
    ∧ Tw.Gen.Demo.versions = [("V3", 3), ("V4", 4), ("V5", 5), ("V6Ddnet", 6)]
    ∧ Tw.Gen.Demo.max_tick_delta = [("V3", "CHUNKTICKMASK_TICK_V3"), ("V4", "CHUNKTICKMASK_TICK_V3"),
        ("V5", "CHUNKTICKMASK_TICK_V5"), ("V6Ddnet", "CHUNKTICKMASK_TICK_V5")]
    ∧ Tw.Gen.Demo.WRITER_VERSION = "V5" ∧ Tw.Gen.Demo.WRITER_VERSION_DDNET = "V6Ddnet" := by decide

/-- The file header layout declared through `binrw`: field order and types, big-endian, the
version conditions of the optional blocks, the assertions, the magic strings and the digest
extension UUID. -/
theorem tie_header :
    Tw.Gen.Demo.fields_HeaderStart = [("version", "Version"), ("header", "Header"),
        ("timeline_markers", "TimelineMarkers"), ("map_sha256", "Option<MapSha256>"), ("map", "Vec<u8>")]
    ∧ Tw.Gen.Demo.fields_Header = [("net_version", "CappedString<64>"), ("map_name", "CappedString<64>"),
        ("map_size", "i32"), ("map_crc", "u32"), ("kind", "DemoKind"), ("length", "i32"),
        ("timestamp", "CappedString<20>")]
    ∧ Tw.Gen.Demo.fields_TimelineMarkers = [("amount", "i32"), ("markers", "[i32; 64]")]
    ∧ Tw.Gen.Demo.fields_MapSha256 = [("_uuid", "[u8; 16]"), ("sha_256", "[u8; 32]")]
    ∧ Tw.Gen.Demo.header_conditions = [("timeline_markers", "version >= Version::V4"),
        ("map_sha256", "version == Version::V6Ddnet")]
    ∧ Tw.Gen.Demo.header_asserts = ["map_size >= 0", "length >= 0", "amount >= 0", "amount <= 64",
        "_uuid == SHA_256_EXTENSION"]
    ∧ Tw.Gen.Demo.header_big_endian = true
    ∧ Tw.Gen.Demo.from_raw_assert = "raw.len()<N"
    ∧ Tw.Gen.Demo.MAGIC = [84, 87, 68, 69, 77, 79, 0]
    ∧ Tw.Gen.Demo.KIND_CLIENT = [99, 108, 105, 101, 110, 116, 0, 0]
    ∧ Tw.Gen.Demo.KIND_SERVER = [115, 101, 114, 118, 101, 114, 0, 0]
    ∧ Tw.Gen.Demo.SHA_256_EXTENSION.length = 16 := by decide

/-- The payload pipeline and the limits of writer and reader: 4-byte little-endian groups, plain
`compress`, the writer's assertions/`expect`s, the reader's tick test `previous >= t`. -/
theorem tie_pipeline :
    Tw.Gen.Demo.lits_write_message = [4, 0, 0, 1, 2, 3] ∧ Tw.Gen.Demo.write_message_le = true
    ∧ Tw.Gen.Demo.writer_compress_plain = true
    ∧ Tw.Gen.Demo.lits_read_chunk = [4] ∧ Tw.Gen.Demo.read_chunk_le = true
    ∧ Tw.Gen.Demo.read_tick_test = ">="
    ∧ Tw.Gen.Demo.writer_asserts = ["new: length >= 0", "write_chunk_impl: data.len() <= MAX_SNAPSHOT_SIZE",
        "write_chunk_impl: expect too long compression", "write_message: msg.len() <= MAX_SNAPSHOT_SIZE",
        "write_message: expect overlong message"] := by decide

/-! ## (1) the chunk header codec -/

/-- Encoding and decoding of chunk headers are inverse for every in-range value — an inline tick
delta `≤ 31` without key-frame flag, an absolute `i32` tick with either flag, every data kind with
every size `< 65536` (all three size encodings) — in both file versions the writer produces and in
front of any continuation `rest`, which is returned untouched; the only warning is the one for the
`Unknown` kind. -/
theorem chunk_header_roundtrip (v : Version) (hv : v.num ≥ 5) (h : ChunkHeader) (bs rest : List UInt8)
    (hr : h.inRange) (hw : h.write = some bs) :
    readChunkHeader v (bs ++ rest) = .ok h rest h.readWarnings :=
  readChunkHeader_write v hv h bs rest hr hw

/-- The header encoder is defined (does not hit its assertions) on every data header, on every
absolute tick, and on the inline deltas `≤ 31` without the key-frame flag — exactly what
`TickMarker::new` produces. -/
theorem chunk_header_write_defined (k : DataKind) (n : Nat) (t : Int) (kf : Bool) (d : Nat) (hd : d ≤ 31) :
    (∃ bs, (ChunkHeader.data k n).write = some bs)
    ∧ (∃ bs, (ChunkHeader.tick (.absolute t) kf).write = some bs)
    ∧ (∃ bs, (ChunkHeader.tick (.delta d) false).write = some bs) := by
  refine ⟨data_header_writes k n, ⟨_, rfl⟩, ?_⟩
  have : d ≤ writerVersion.maxTickDelta := by
    simpa [writerVersion, Version.maxTickDelta, Tw.Gen.Demo.CHUNKTICKMASK_TICK_V5] using hd
  simp [ChunkHeader.write, this]

/-! ## (2) the file header -/

/-- The header written by `Writer::new` is read back field by field — version 6 exactly when a
digest was given, the strings, map size and checksum, kind, length, no timeline markers, the digest,
the map bytes — without a warning, and the reader is positioned at the first chunk (`rest`). -/
theorem header_roundtrip (a : HeaderArgs) (hwf : a.wf) (hdr rest : List UInt8)
    (henc : encodeHeader a = some hdr) :
    readHeader (hdr ++ rest) = some (a.info, rest, []) :=
  readHeader_encode a hwf hdr rest henc

/-- `Writer::new` accepts exactly: strings shorter than their capacity (63/63/19 bytes), a map
shorter than 2 GiB and a non-negative length; otherwise it panics. -/
theorem new_accepts_iff (a : HeaderArgs) :
    (Writer.new a).isSome ↔ (a.netVersion.length < 64 ∧ a.mapName.length < 64 ∧ a.timestamp.length < 20
        ∧ a.map.length < 2147483648 ∧ a.length ≥ 0) :=
  Tw.Demo.new_accepts_iff a

/-! ## (3) what was recorded is what is played back -/

/-- One accepted chunk, written in any writer state, is read back (messages zero-padded to a
multiple of four bytes) by a reader whose current tick is the writer's previous tick, without a
warning, leaving the reader at the following bytes with the writer's new tick. -/
theorem chunk_roundtrip (w w' : Writer) (c : Chunk) (hc : c.inRange)
    (h : w.writeChunk c = (w', .ok)) :
    ∃ enc, w'.file = w.file ++ enc ∧ 1 ≤ enc.length ∧
      ∀ (v : Version) (rest : List UInt8), v.num ≥ 5 →
        Reader.readChunk { data := enc ++ rest, version := v, currentTick := w.prevTick } =
          ({ data := rest, version := v, currentTick := w'.prevTick }, .chunk c.padded, []) :=
  writeChunk_ok huffmanRoundTrip w w' c hc h

/-- **Round trip.** For every header the writer accepts and every chunk sequence `cs` all of whose
`write_*` calls return `Ok` — whatever the tick gaps (inline or absolute markers), key-frame flags,
payload sizes (any of the three size encodings) and message lengths — reading the written file
returns the header fields, exactly `cs` with messages zero-padded to a multiple of four, reaches the
end of the file without an error and raises no warning. -/
theorem roundtrip (a : HeaderArgs) (ha : a.wf) (cs : List Chunk)
    (hcs : ∀ c ∈ cs, c.inRange) (w0 w : Writer) (hnew : Writer.new a = some w0)
    (hw : w0.writeAll cs = (w, .ok)) :
    readFile w.file = some (a.info, cs.map Chunk.padded, [], none) :=
  readFile_written huffmanRoundTrip a ha cs hcs w0 w hnew hw

/-- The messages come back zero-padded to the next multiple of four: same bytes, then fewer than
four zeros. -/
theorem padded_message (d : List UInt8) :
    ∃ k, k < 4 ∧ pad4 d = d ++ List.replicate k 0 ∧ (pad4 d).length % 4 = 0 := by
  fun_induction pad4 d
  · exact ⟨0, by decide, rfl, rfl⟩
  · exact ⟨3, by decide, by simp [List.replicate], by simp⟩
  · exact ⟨2, by decide, by simp [List.replicate], by simp⟩
  · exact ⟨1, by decide, by simp [List.replicate], by simp⟩
  · rename_i a b c d rest ih
    obtain ⟨k, hk, he, hl⟩ := ih
    refine ⟨k, hk, ?_, ?_⟩
    · simp only [List.cons_append, he]
    · simp only [List.length_cons]; omega

/-! ## (4) what the writer refuses, and that it refuses cleanly -/

/-- `write_tick` with a tick that does not exceed the previous one is refused (assertion of
`TickMarker::new`), the writer is unchanged … -/
theorem writeTick_refuses (w : Writer) (kf : Bool) (t p : Int) (hp : w.prevTick = some p) (h : t ≤ p) :
    w.writeTick kf t = (w, .panic "TickMarker::new: tick > p") :=
  Tw.Demo.writeTick_refuses w kf t p hp h

/-- … and every strictly increasing tick is accepted, whatever the gap and the key-frame flag (no
other assertion of the tick path can fail): the file grows, the previous tick is updated. -/
theorem writeTick_accepts (w : Writer) (kf : Bool) (t : Int) (h : ∀ p, w.prevTick = some p → p < t) :
    ∃ hdr, w.writeTick kf t = ({ file := w.file ++ hdr, prevTick := some t }, .ok) :=
  Tw.Demo.writeTick_accepts w kf t h

/-- A snapshot / delta payload is accepted exactly when it fits the reader's buffer (`≤ 65536`
bytes) and its compressed form fits the 16-bit size field (`≤ 65535` bytes). -/
theorem writeData_accepts_iff (w : Writer) (k : DataKind) (d : List UInt8) :
    (w.writeData k d).2 = .ok ↔
      d.length ≤ Tw.Gen.Demo.MAX_SNAPSHOT_SIZE ∧ (Tw.Huffman.compress table false d).length ≤ 65535 :=
  Tw.Demo.writeData_accepts_iff w k d

/-- A refused call leaves the writer — the file in particular — exactly as it was: the recording
stays usable. -/
theorem refusal_leaves_writer_unchanged (w w' : Writer) (c : Chunk) (s : String)
    (h : w.writeChunk c = (w', .panic s)) : w' = w :=
  writeChunk_refusal_unchanged w w' c s h

/-! ## (5) the high-level writer and reader (typed level)

The model (`Tw/Model/DemoHl.lean`) is the writer **as repaired** (D12, D21, D28, see `notes/demo.md`);
objects are `(type id, id, fields)`, messages their encoded bytes (the typed codecs are C14's
subject).  `DemoWriter.Inv` is the invariant of the reachable writer states. -/

/-- Ties for the high-level writer: key frame iff none yet or `tick - last_keyframe > 250`, refusal
iff `tick <= last_tick`, initial `last_tick = -1`, `write_msg` clears its buffer on entry,
`write_snap` clears, packs, and only then writes the tick marker and the data chunk, every builder
comes from a clone of the last written snap, and the DDNet object sizes. -/
theorem tie_highlevel :
    Tw.Gen.Demo.keyframe_test = (">", 250) ∧ Tw.Gen.Demo.low_tick_test = "<="
    ∧ Tw.Gen.Demo.initial_last_tick = -1 ∧ Tw.Gen.Demo.write_msg_clears_on_entry = true
    ∧ Tw.Gen.Demo.write_snap_order = ["clear", "pack", "tick", "data"]
    ∧ Tw.Gen.Demo.write_snap_builder_sources = ["self.snap.clone().recycle()",
        "self.snap.clone().recycle()", "self.snap.clone().recycle()"]
    ∧ Tw.Gen.Demo.hl_prechecks = ["write_snap: !fits_chunk", "write_msg: !fits_message"]
    ∧ Tw.Gen.Demo.fits_chunk_cond = "data.len() <= MAX_SNAPSHOT_SIZE && HUFFMAN.compressed_len(data) <= u16::MAX.usize()"
    ∧ Tw.Gen.Demo.fits_message_cond = "msg.len() <= MAX_SNAPSHOT_SIZE && self.pack_message(msg).is_ok() && Self::fits_chunk(&self.buffer2)"
    ∧ Tw.Gen.Demo.ddnet_obj_sizes = [(1, 10), (2, 6), (3, 5), (4, 4), (5, 3), (6, 8), (7, 4), (8, 15),
        (9, 22), (10, 5), (11, 17), (12, 3), (13, 2), (14, 2), (15, 2), (16, 2), (17, 3), (18, 3), (19, 3),
        (20, 3)] := by decide

/-- A tick number that does not strictly increase is refused with `TooLowTickNumber` — no panic —
and the writer is unchanged … -/
theorem writeSnap_refuses_low_tick (objSize : Nat → Option Nat) (w : DemoWriter) (tick : Int)
    (items : List Item) (h : tick ≤ w.lastTick) :
    w.writeSnap objSize tick items = (w, .err .tooLowTickNumber) :=
  writeSnap_low_tick objSize w tick items h

/-- … and so is it after every other refusal (`SnapBuilder(..)`, `TooLargeSnap`, `TooLongNetMsg`):
a refused call leaves the writer — file, tick state, last snapshot, builder — exactly as it was, so
later calls behave as if it had not happened. -/
theorem refused_call_leaves_writer_unchanged (objSize : Nat → Option Nat) (w w' : DemoWriter) (hinv : w.Inv)
    (e : WriteError) :
    (∀ tick items, w.writeSnap objSize tick items = (w', .err e) → w' = w)
    ∧ (∀ msg, w.writeMsg msg = (w', .err e) → w' = w) :=
  ⟨fun tick items h => writeSnap_err_unchanged objSize w w' hinv tick items e h,
   fun msg h => writeMsg_err_unchanged w w' msg e h⟩

/-- The invariant holds initially and after every accepted call with valid objects. -/
theorem writer_invariant (objSize : Nat → Option Nat) :
    (∀ (a : HeaderArgs) (w : DemoWriter), DemoWriter.new a = some w → w.Inv)
    ∧ (∀ (w w' : DemoWriter) (tick : Int) (items : List Item), w.Inv → (∀ it ∈ items, it.valid) →
        w.writeSnap objSize tick items = (w', .ok) → w'.Inv)
    ∧ (∀ (w w' : DemoWriter) (msg : List UInt8), w.Inv → w.writeMsg msg = (w', .ok) → w'.Inv) :=
  ⟨new_inv, fun w w' tick items hi hv h => writeSnap_preserves_inv objSize w w' hi tick items hv h,
   fun w w' msg hi h => writeMsg_preserves_inv w w' msg hi h⟩

/-- An accepted `write_snap` advances the tick state: the tick is recorded, and it is recorded as
the last key frame exactly when none had been written or more than 250 ticks have passed. -/
theorem accepted_snap_ticks (objSize : Nat → Option Nat) (w w' : DemoWriter) (tick : Int) (items : List Item)
    (h : w.writeSnap objSize tick items = (w', .ok)) :
    w.lastTick < tick ∧ w'.lastTick = tick
    ∧ w'.lastKeyframe = (if w.isKeyframe tick then some tick else w.lastKeyframe)
    ∧ (w.isKeyframe tick = true ↔ (w.lastKeyframe = none ∨ ∃ k, w.lastKeyframe = some k ∧ tick - k > 250)) := by
  obtain ⟨hlt, b, b', bs, inner1, _, _, _, _, _, _, hw'⟩ := writeSnap_ok_inv objSize w w' tick items h
  refine ⟨hlt, by rw [hw'], by rw [hw'], ?_⟩
  unfold DemoWriter.isKeyframe
  cases hk : w.lastKeyframe with
  | none => simp
  | some k => simp [keyframeInterval, Tw.Gen.Demo.keyframe_test]

/-- **Key frame.** The bytes an accepted key-frame `write_snap` appends are read back by the
high-level reader (whatever snapshot it holds) as `Tick(tick)` followed by a snapshot chunk that
reports exactly the objects of the snapshot the writer built, which becomes the reader's snapshot;
no warning. -/
theorem keyframe_roundtrip (objSize : Nat → Option Nat) (w w' : DemoWriter)
    (hinv : w.Inv) (tick : Int) (ht : inI32 tick) (items : List Item) (hv : ∀ it ∈ items, it.valid)
    (hk : w.isKeyframe tick = true) (h : w.writeSnap objSize tick items = (w', .ok)) :
    ∃ enc, w'.inner.file = w.inner.file ++ enc ∧ 2 ≤ enc.length ∧
      ∀ (v : Version) (rest : List UInt8) (s0 : Snap), v.num ≥ 5 →
        ∃ r1, DemoReader.nextChunk objSize
            { raw := { data := enc ++ rest, version := v, currentTick := w.inner.prevTick }, snap := s0 } =
              (r1, .chunk (.tick tick), []) ∧
          DemoReader.nextChunk objSize r1 =
            match snapItems w'.snap with
            | some its => ({ raw := { data := rest, version := v, currentTick := w'.inner.prevTick },
                             snap := w'.snap }, .chunk (.snapshot its), [])
            | none => (r1, .error .panic, []) :=
  keyframe_step huffmanRoundTrip objSize w w' hinv tick ht items hv hk h

/-- **Delta.** The bytes an accepted delta `write_snap` appends are read back by a reader that holds
the writer's previous snapshot as `Tick(tick)` followed by a snapshot chunk with exactly the objects
of the writer's new snapshot.  No hypothesis on item sizes: that the call was accepted (`Delta::create`
and `Delta::write` did not panic) already implies that they agree. -/
theorem delta_roundtrip (objSize : Nat → Option Nat) (w w' : DemoWriter)
    (hinv : w.Inv) (tick : Int) (ht : inI32 tick) (items : List Item) (hv : ∀ it ∈ items, it.valid)
    (hk : w.isKeyframe tick = false) (h : w.writeSnap objSize tick items = (w', .ok)) :
    ∃ enc, w'.inner.file = w.inner.file ++ enc ∧ 2 ≤ enc.length ∧
      ∀ (v : Version) (rest : List UInt8), v.num ≥ 5 →
        ∃ r1, DemoReader.nextChunk objSize
            { raw := { data := enc ++ rest, version := v, currentTick := w.inner.prevTick }, snap := w.snap } =
              (r1, .chunk (.tick tick), []) ∧
          DemoReader.nextChunk objSize r1 =
            match snapItems w'.snap with
            | some its => ({ raw := { data := rest, version := v, currentTick := w'.inner.prevTick },
                             snap := w'.snap }, .chunk (.snapshot its), [])
            | none => (r1, .error .panic, []) :=
  delta_step' objSize w w' hinv tick ht items hv hk h

/-- The objects of the snapshot an accepted `write_snap` builds — the ones the reader reports by the
two theorems above — are exactly the objects handed in: same members, whatever the order of the
iterator, for ordinal and UUID types alike. -/
theorem accepted_snapshot_objects (objSize : Nat → Option Nat) (w w' : DemoWriter) (hinv : w.Inv2) (tick : Int)
    (items : List Item) (hv : ∀ it ∈ items, it.valid)
    (h : w.writeSnap objSize tick items = (w', .ok)) :
    ∃ its, snapItems w'.snap = some its ∧ ∀ it, it ∈ its ↔ it ∈ items :=
  accepted_snap_items objSize w w' hinv tick items hv h

/-- **Message.** An accepted `write_msg` is read back as the same bytes zero-padded to a multiple of
four; snapshot and tick state of writer and reader are untouched. -/
theorem message_roundtrip (objSize : Nat → Option Nat) (w w' : DemoWriter)
    (msg : List UInt8) (h : w.writeMsg msg = (w', .ok)) :
    w'.snap = w.snap ∧ w'.builder = w.builder ∧ w'.lastTick = w.lastTick ∧ w'.lastKeyframe = w.lastKeyframe ∧
    ∃ enc, w'.inner.file = w.inner.file ++ enc ∧ 1 ≤ enc.length ∧
      ∀ (v : Version) (rest : List UInt8) (s0 : Snap), v.num ≥ 5 →
        DemoReader.nextChunk objSize
            { raw := { data := enc ++ rest, version := v, currentTick := w.inner.prevTick }, snap := s0 } =
          ({ raw := { data := rest, version := v, currentTick := w'.inner.prevTick }, snap := s0 },
            .chunk (.message (pad4 msg)), []) :=
  msg_step huffmanRoundTrip objSize w w' msg h

/-- The full typed-level statement of C15: for every header the writer accepts and every history of
valid calls none of which panics, the high-level reader reports the header fields and, in order, for
each accepted `write_snap` its tick and exactly the object set handed in, for each accepted
`write_msg` its bytes zero-padded; refused calls leave no trace; the end of the file is reached
without error or warning. -/
def C15_full : Prop :=
  ∀ (objSize : Nat → Option Nat) (a : HeaderArgs) (w0 w : DemoWriter) (ops : List Op)
    (rs : List HResult), a.wf → DemoWriter.new a = some w0 → (∀ op ∈ ops, op.valid) →
    w0.run objSize ops = (w, rs) → (∀ r ∈ rs, ∀ s, r ≠ .panic s) →
    ∃ cs, readFileHl objSize w.inner.file = some (a.info, cs, [], none) ∧ chunksAgree cs (expectedChunks ops rs)

/-- **The typed-level round trip over whole histories** (induction over the history with the
invariant "the reader holds the writer's last snapshot and tick"; key frames and deltas by the
per-call theorems, object sets by `accepted_snapshot_objects`). -/
theorem typed_roundtrip : C15_full :=
  fun objSize a w0 w ops rs ha hnew hval hrun hnp =>
    Tw.DemoHl.typed_roundtrip objSize a w0 w ops rs ha hnew hval hrun hnp

/-- **`write_snap` cannot panic on typed objects** — objects whose number of fields is fixed by their
`(type, id)` (`Typed size`), with an object-size table that agrees (`ObjSizeAgrees`, true for the
DDNet table: `ddnet_table_agrees`) — in any reachable writer state (`Inv3`: the builders of
consecutive snapshots form a recycle chain, so a UUID type keeps its number (repair of D28) and
`Delta::create` sees agreeing sizes; the low-level writer's last tick is at most `last_tick`; payload
limits are checked first).  An accepted call keeps the invariant. -/
theorem writeSnap_never_panics_typed (size : TypeId → Nat → Nat) (objSize : Nat → Option Nat)
    (ho : ObjSizeAgrees size objSize) (w : DemoWriter) (hinv : w.Inv3 size) (tick : Int) (items : List Item)
    (hv : ∀ it ∈ items, it.valid) (hty : Typed size items) :
    (∀ s, (w.writeSnap objSize tick items).2 ≠ .panic s) ∧
    ((w.writeSnap objSize tick items).2 = .ok → (w.writeSnap objSize tick items).1.Inv3 size) :=
  writeSnap_typed size objSize ho w hinv tick items hv hty

/-- **The typed-level round trip without a no-panic hypothesis**: for every header the writer accepts
and every history of valid calls on typed objects — any `i32` ticks in any order, any object sets,
any messages — no call panics, and the reader reports the header fields and, in order, exactly the
accepted calls (ticks, object sets, padded messages) without error or warning. -/
theorem typed_roundtrip_never_panics (size : TypeId → Nat → Nat) (objSize : Nat → Option Nat)
    (ho : ObjSizeAgrees size objSize) (a : HeaderArgs) (w0 w : DemoWriter) (ops : List Op)
    (rs : List HResult) (ha : a.wf) (hnew : DemoWriter.new a = some w0) (hval : ∀ op ∈ ops, op.valid)
    (hty : ∀ op ∈ ops, op.typed size) (hrun : w0.run objSize ops = (w, rs)) :
    (∀ r ∈ rs, ∀ s, r ≠ .panic s) ∧
    ∃ cs, readFileHl objSize w.inner.file = some (a.info, cs, [], none)
      ∧ chunksAgree cs (expectedChunks ops rs) :=
  typed_roundtrip_no_panic size objSize ho a w0 w ops rs ha hnew hval hty hrun

/-- The DDNet object-size table satisfies `ObjSizeAgrees` for every size function that follows it on
the ordinal types it lists (all of them in `1..0x3fff`). -/
theorem ddnet_table_agrees (size : TypeId → Nat → Nat)
    (h : ∀ t n, (t, n) ∈ Tw.Gen.Demo.ddnet_obj_sizes → ∀ id, size (.ordinal t) id = n) :
    ObjSizeAgrees size ddnetObjSize :=
  ddnet_objSizeAgrees size h

/-- Since the repair of D29, `write_msg` never panics: a message that does not fit into a chunk
(encoded, packed or compressed size) is refused with `TooLongNetMsg` before anything is written. -/
theorem writeMsg_never_panics (w : DemoWriter) (msg : List UInt8) (s : String) :
    (w.writeMsg msg).2 ≠ .panic s :=
  writeMsg_no_panic w msg s

/-- … for instance the 60 000-byte message of `0x80` bytes that used to panic with "overlong
message" (15 000 integers of five bytes each). -/
theorem large_message_refused (w : DemoWriter) :
    w.writeMsg (List.replicate (4 * 15000) 128) = (w, .err .tooLongNetMsg) := by
  have h1 : ¬ (List.replicate (4 * 15000) (128 : UInt8)).length > Tw.Gen.Demo.MAX_SNAPSHOT_SIZE := by
    rw [List.length_replicate]; decide
  have h2 : ¬ fitsMessage (List.replicate (4 * 15000) 128) := by
    intro h
    have h2 := h.2.1
    rw [msgInts_replicate, packInts_replicate_length] at h2
    have : (Tw.Packer.writeInt (leWord 128 128 128 128)).length = 5 := by decide
    rw [this] at h2
    revert h2; decide
  simp only [DemoWriter.writeMsg, h1, if_false, h2, not_false_eq_true, if_true]

/-! ## (6) the readers are total on arbitrary bytes -/

/-- The low-level reader on **arbitrary** file bytes: it refuses the header, or returns chunks,
warnings and at most one of its own errors; the fuel of the model's loops (`read_int` loop of the
message branch, Huffman decoder, `read_chunk` loop) always suffices (`diverge` is impossible), and a
returned chunk has used at least one byte of the file.  (The model of `Reader` has no panic outcome:
its only slice index, `self.raw[..size]`, is bounded by the 16-bit size field.) -/
theorem reader_total (file : List UInt8) (r : Reader) :
    (∀ h cs ws, readFile file ≠ some (h, cs, ws, some .diverge))
    ∧ (∀ r' ws, r.readChunk ≠ (r', .error .diverge, ws))
    ∧ (∀ r' c ws, r.readChunk = (r', .chunk c, ws) → r'.data.length < r.data.length) :=
  ⟨readFile_no_diverge file, (readChunk_total r).1, (readChunk_total r).2⟩

/-- The high-level reader on **arbitrary** file bytes never panics (`Snap::read`, `Delta::read`,
`read_with_delta`, the object iteration) and never runs out of fuel. -/
theorem demo_reader_total (objSize : Nat → Option Nat) (file : List UInt8) (h : HeaderInfo) (cs : List HChunk)
    (ws : List HWarning) :
    readFileHl objSize file ≠ some (h, cs, ws, some .panic)
    ∧ readFileHl objSize file ≠ some (h, cs, ws, some (.inner .diverge)) :=
  readFileHl_total objSize file h cs ws

/-! ## non-vacuity -/

/-- header arguments satisfying `wf` that the writer accepts -/
example : exampleArgs.wf ∧ (Writer.new exampleArgs).isSome := by
  constructor
  · refine ⟨?_, ?_, ?_, ?_, ?_, ?_⟩ <;> simp [exampleArgs, inI32]
  · rw [new_accepts_iff]; simp [exampleArgs]

/-- the hypotheses of the typed theorems are satisfiable: a size function that follows the DDNet
table, and a typed object set with an ordinal and a UUID type -/
example : ObjSizeAgrees (fun tid _ => match tid with
    | .ordinal o => (ddnetObjSize o).getD 0
    | .uuid _ => 2) ddnetObjSize := by
  apply ddnet_table_agrees
  intro t n hm id
  have : ∀ p ∈ Tw.Gen.Demo.ddnet_obj_sizes, (ddnetObjSize p.1).getD 0 = p.2 := by decide
  exact this (t, n) hm

example : Typed (fun tid _ => match tid with
    | .ordinal o => (ddnetObjSize o).getD 0
    | .uuid _ => 2) [⟨.ordinal 4, 2, [10, 20, 1, 0]⟩, ⟨.uuid 0x22ca938d13803e2b9e7bd2558ea6be11, 6, [-5, 0]⟩] := by
  intro it hit
  simp only [List.mem_cons, List.mem_nil_iff, or_false] at hit
  rcases hit with rfl | rfl
  · refine ⟨by decide, ?_⟩
    intro o ho; injection ho with ho; subst ho; decide
  · refine ⟨rfl, ?_⟩
    intro o ho; cases ho

/-- in-range headers of each shape -/
example : (ChunkHeader.tick (.delta 31) false).inRange ∧ (ChunkHeader.tick (.absolute (-5)) true).inRange
    ∧ (ChunkHeader.data .message 65535).inRange := by
  refine ⟨⟨by omega, rfl⟩, ?_, ?_⟩
  · show inI32 (-5); unfold inI32; omega
  · show 65535 < 65536; omega

/-- a tick sequence with inline and absolute markers is accepted -/
example : (Writer.writeAll { file := [], prevTick := none }
    [.tick 5 true, .tick 36 false, .tick 37 false, .tick 1000037 false]).2 = .ok := by decide

end Tw.Props.C15
