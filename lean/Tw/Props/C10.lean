import Tw.Model.Snap
import Tw.Gen.Snap

namespace Tw.Props.C10
open Tw.Snap

/-- Tie to the source: limits and type-id constants the model uses. -/
theorem tie_consts :
    maxSize = 65536 ∧ maxItems = 1024 ∧ typeIdEx = 0 ∧ offsetExt = 16384 := by decide

end Tw.Props.C10
