import Tw.Model.Snap
import Tw.Gen.Snap
import Tw.Proofs.SnapRaw
import Tw.Proofs.SnapExt

/-!
# C10 — a snapshot survives serialization, including UUID-typed items

Model: `Tw/Model/Snap.lean` (`Builder.addItem`, `Snap.recycle`, `buildFromRaw`,
`Snap.readFromInts` / `readBytes` / `readWithDelta`, `Snap.item` / `items` / `crc`).  Every copy of
a builder-made snapshot obtained through the integer form, the byte form or a delta is *equal* to
the original as a model value (raw items and UUID registry), hence indistinguishable through every
operation.  Before the fix of D6 (`build_from_raw` stored the constant 0 as type number) the
registry of the copy differed; `uuid_lookup_on_copy` is the former counterexample.
-/
namespace Tw.Props.C10
open Tw.Snap

theorem tie_consts :
    maxSize = 65536 ∧ maxItems = 1024 ∧ typeIdEx = 0 ∧ offsetExt = 16384 := by decide

/-- Tie to the source: `0 < ordinal` / `0x8000` / `+= 1` of `Builder::add_item`, the range bound,
the 256 and the `+ 1` of `Snap::recycle`, the four words of a UUID. -/
theorem tie_literals :
    Tw.Gen.Snap.lits_add_item = [16384, 32768] ∧ Tw.Gen.Snap.lits_recycle = [256, 16384, 32768] ∧
    Tw.Gen.Snap.lits_raw_type_id = [16384] ∧ Tw.Gen.Snap.lits_uuid_to_item_data = [4] ∧
    Tw.Gen.Snap.lits_item_data_to_uuid = [4, 16] := by decide

/-- The builder states reachable through the public API: `Builder::new()`, `add_item` with a
`u16` id, `i32` data and an ordinal or UUID type (whatever it returns, unless it panics), and
`recycle` of the finished snapshot (or of any copy — they are equal, see below). -/
inductive Reachable : Builder → Prop
  | new : Reachable Builder.new
  | add {b b' : Builder} {tid : TypeId} {id : Nat} {data : List Int} {r : Option BuilderError} :
      Reachable b → tid.Valid → id < 65536 → (∀ x ∈ data, I32 x) →
      b.addItem tid id data = some (b', r) → Reachable b'
  | recycle {b b' : Builder} : Reachable b → b.snap.recycle = some b' → Reachable b'

theorem reachable_inv {b : Builder} (h : Reachable b) : b.Inv := by
  induction h with
  | new => exact Builder.new_inv
  | add _ htid hid hd ha ih => exact Builder.addItem_inv ih htid hid hd ha
  | recycle _ hr ih =>
    obtain ⟨b'', h1, h2, _, _⟩ := Builder.recycle_inv ih
    rw [hr] at h1
    injection h1 with h1
    rw [h1]
    exact h2

/-- Integer wire form: a builder-made snapshot written by `write_to_ints` and read by
`read_from_ints` is the same snapshot (raw items *and* UUID registry), and no warning is emitted. -/
theorem roundtrip_ints {b : Builder} (h : Reachable b) :
    ∃ xs, b.snap.raw.writeInts = some xs ∧ Snap.readFromInts xs = .ok (b.snap, []) := by
  have hinv := reachable_inv h
  refine ⟨wireInts b.snap.raw, writeInts_of_WF hinv.ok.raw_wf, ?_⟩
  unfold Snap.readFromInts
  rw [readFromInts_wireInts hinv.ok.raw_wf]
  simp only [buildFromRaw_of_extOk hinv.ok, List.append_nil]

/-- Byte wire form (`write` with a packer, `read`). -/
theorem roundtrip_bytes {b : Builder} (h : Reachable b) :
    ∃ xs, b.snap.raw.writeInts = some xs ∧ Snap.readBytes (packInts xs) = .ok (b.snap, []) := by
  have hinv := reachable_inv h
  refine ⟨wireInts b.snap.raw, writeInts_of_WF hinv.ok.raw_wf, ?_⟩
  unfold Snap.readBytes
  rw [readBytes_wireInts hinv.ok.raw_wf]
  simp only [buildFromRaw_of_extOk hinv.ok, List.append_nil]

/-- Delta: a builder-made snapshot obtained by `read_with_delta` from any well-formed base with
agreeing item sizes (D15) is again the same snapshot. -/
theorem roundtrip_delta_partial {b : Builder} (h : Reachable b) {a : Snap} (ha : a.raw.WF)
    (hag : SizesAgree a.raw b.snap.raw) :
    ∃ d, createDelta a.raw b.snap.raw = some d ∧ a.readWithDelta d = .ok (b.snap, []) := by
  have hinv := reachable_inv h
  obtain ⟨d, hd, hap⟩ := applyDelta_createDelta ha hinv.ok.raw_wf hag
  refine ⟨d, hd, ?_⟩
  unfold Snap.readWithDelta
  rw [hap]
  simp only [buildFromRaw_of_extOk hinv.ok, List.append_nil]

/-- Consequently the copy is indistinguishable through the public API: the same item set is
enumerated, looking up any item by ordinal or UUID type and id returns the same data, the checksum
is equal.  (Stated for any reader result equal to the original, which the three theorems above
establish for the integer form, the byte form and deltas.) -/
theorem copy_indistinguishable {s s' : Snap} {ws : List Warning} {r : Res (Snap × List Warning)}
    (hr : r = .ok (s', ws)) (heq : r = .ok (s, [])) :
    s'.items = s.items ∧ (∀ tid id, s'.item tid id = s.item tid id) ∧ s'.crc = s.crc ∧
    s'.recycle = s.recycle ∧ ws = [] := by
  rw [hr] at heq
  injection heq with heq
  injection heq with h1 h2
  subst h1 h2
  exact ⟨rfl, fun _ _ => rfl, rfl, rfl, rfl⟩

/-- The copy can be recycled: `recycle` succeeds, the new builder still knows every UUID type with
its number, the registry items are back in place, and the next fresh number is larger than all of
them (so a new UUID type cannot collide with a known one). -/
theorem recycle_keeps_types {b : Builder} (h : Reachable b) :
    ∃ b', b.snap.recycle = some b' ∧ Reachable b' ∧ b'.snap.ext = b.snap.ext ∧
      (∀ u t, mfind u b.snap.ext = some t →
        t < b'.nextTypeId ∧ mfind (keyOf typeIdEx t) b'.snap.raw.items = some (uuidToData u)) := by
  obtain ⟨b', h1, h2, h3, h4⟩ := Builder.recycle_inv (reachable_inv h)
  refine ⟨b', h1, Reachable.recycle h h1, h3, ?_⟩
  intro u t hu
  rw [← h3] at hu
  exact ⟨(h2.ext_range u t hu).2, (h2.ok.ext_reg u t hu).2.2⟩

/-- A UUID type keeps its number across recycle: adding an item of a known UUID type to the
recycled builder uses the old number (no new registry item). -/
theorem known_type_reused {b b' : Builder} {u : Int} {t id : Nat} {data : List Int}
    (hr : b.snap.recycle = some b') (hb : Reachable b) (hu : mfind u b.snap.ext = some t) :
    b'.addItem (.uuid u) id data =
      match b'.snap.raw.addItem (keyOf t id) data with
      | .error e => some (b', some e)
      | .ok raw => some ({ b' with snap := { b'.snap with raw := raw } }, none) := by
  obtain ⟨b'', h1, _, h3, _⟩ := Builder.recycle_inv (reachable_inv hb)
  rw [hr] at h1
  injection h1 with h1
  subst h1
  rw [← h3] at hu
  simp only [Builder.addItem, hu]
  cases b'.snap.raw.addItem (keyOf t id) data <;> rfl

/-- Target reuse is behaviour-neutral in the model: the result of `read_with_delta` (and of the two
wire readers) does not depend on what the target `Snap` held before.  (True by construction — the
model clears the target first, as the code does; the implementation is held to it by the oracle
`C10+C11/target-reuse-differs`, which repeats every read into used targets.) -/
theorem target_reuse_neutral (t t' a : Snap) (d : Delta) (data : List Int) (bs : List UInt8) :
    Snap.readWithDeltaInto t a d = Snap.readWithDeltaInto t' a d ∧
    Snap.readFromIntsInto t data = Snap.readFromIntsInto t' data ∧
    Snap.readBytesInto t bs = Snap.readBytesInto t' bs := ⟨rfl, rfl, rfl⟩

/-- The former counterexample (D6): one UUID-typed item, written to integers and read back; the
lookup by UUID on the copy finds the item. -/
theorem uuid_lookup_on_copy :
    let u : Int := 0x1a3fcc941e53461e912e21200882024b
    ∀ b, Builder.new.addItem (.uuid u) 1337 [4660, 22136] = some (b, none) →
      ∀ xs, b.snap.raw.writeInts = some xs →
        ∀ s ws, Snap.readFromInts xs = .ok (s, ws) → s.item (.uuid u) 1337 = some (some [4660, 22136]) := by
  intro u b hb xs hx s ws hs
  have hv : (TypeId.uuid u).Valid := (by decide : IsUuid u)
  have hreach : Reachable b := Reachable.add Reachable.new hv (by decide) (by decide) hb
  obtain ⟨xs', h1, h2⟩ := roundtrip_ints hreach
  rw [hx] at h1
  injection h1 with h1
  subst h1
  rw [hs] at h2
  injection h2 with h2
  injection h2 with h3 _
  subst h3
  have : b = (Builder.new.addItem (.uuid u) 1337 [4660, 22136]).get!.1 := by rw [hb]; rfl
  rw [this]
  decide

-- non-vacuity: ordinal and UUID types interleaved, a UUID type used twice
example : ∃ b1 b2 b3,
    Builder.new.addItem (.ordinal 5) 1 [1, 2] = some (b1, none) ∧
    b1.addItem (.uuid 0x1a3fcc941e53461e912e21200882024b) 1337 [4660, 22136] = some (b2, none) ∧
    b2.addItem (.uuid 0x1a3fcc941e53461e912e21200882024b) 7 [] = some (b3, none) ∧
    b3.snap.raw.items.length = 4 ∧ b3.nextTypeId = 16385 := by
  refine ⟨_, _, _, rfl, rfl, rfl, ?_, ?_⟩ <;> decide

end Tw.Props.C10
