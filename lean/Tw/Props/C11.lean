import Tw.Model.Snap
import Tw.Gen.Snap
import Tw.Proofs.SnapRaw
import Tw.Proofs.SnapTotal
import Tw.Proofs.SnapAccepted
import Tw.Proofs.SnapDeltaWF

/-!
# C11 — snapshot and delta parsers are total and enforce their limits

Model: `Tw/Model/Snap.lean`.  "Never panics" = the model function never returns its `panic`
outcome (every Rust panic site of the modelled code is such an outcome; the correspondence run maps a
caught Rust panic to the same outcome).  "Never loops" = the two loops whose trip count depends on
the input take the input length as fuel, and the fuel is proved sufficient.  A Rust `i32` is an
`Int` satisfying `I32`; byte inputs need no hypothesis.

Before the fix of D19 `apply_delta_total` was false (`delta_size_mismatch_is_error` is the former
panic witness); D20 concerned `recycle`/`add_item` on parsed snapshots (fixed, see notes).
-/
namespace Tw.Props.C11
open Tw.Snap

theorem tie_consts :
    maxSize = 65536 ∧ maxItems = 1024 ∧ typeIdEx = 0 ∧ offsetExt = 16384 := by decide

/-- Tie to the source: the literals of `read_from_ints` (`% 4`, `/ 4`, `< 0`, first offset `0`),
of `serialized_ints_size` and of `prepare_item_vacant`. -/
theorem tie_literals :
    Tw.Gen.Snap.lits_read_from_ints = [4] ∧
    Tw.Gen.Snap.lits_serialized_ints_size = [2] ∧ Tw.Gen.Snap.lits_prepare_item_vacant = [1024, 65536] := by
  decide

/-- what "inside the limits" means for an accepted snapshot -/
theorem wf_limits {s : RawSnap} (h : s.WF) :
    s.items.length ≤ 1024 ∧ 4 * (2 + s.items.length + s.items.length + dataLen s.items) ≤ 65536 :=
  ⟨h.2.2.1, h.2.2.2⟩

/-- Reading a snapshot from any integer sequence ends with a value or an error, never a panic;
every accepted snapshot holds at most 1024 items and 64 KiB, with sorted distinct keys. -/
theorem read_snapshot_ints_total (data : List Int) (hI : ∀ x ∈ data, I32 x) :
    (∀ p, Snap.readFromInts data ≠ .panic p) ∧
    (∀ s ws, Snap.readFromInts data = .ok (s, ws) → s.raw.WF ∧ s.raw.items.length ≤ 1024 ∧ s.raw.size ≤ 65536) := by
  have h := snap_readFromInts_total data hI
  exact ⟨h.1, fun s ws hs => ⟨h.2 s ws hs, (h.2 s ws hs).2.2.1, (h.2 s ws hs).2.2.2⟩⟩

/-- The same for any byte sequence. -/
theorem read_snapshot_bytes_total (bs : List UInt8) :
    (∀ p, Snap.readBytes bs ≠ .panic p) ∧
    (∀ s ws, Snap.readBytes bs = .ok (s, ws) → s.raw.WF ∧ s.raw.items.length ≤ 1024 ∧ s.raw.size ≤ 65536) := by
  have h := snap_readBytes_total bs
  exact ⟨h.1, fun s ws hs => ⟨h.2 s ws hs, (h.2 s ws hs).2.2.1, (h.2 s ws hs).2.2.2⟩⟩

/-- The byte-decoding loop of `RawSnap::read` is bounded by the input length: the fuel `bs.length`
is never what stops it, and it produces at most one integer per input byte. -/
theorem decode_loop_bounded (bs : List UInt8) (fuel : Nat) (h : bs.length ≤ fuel) :
    decodeInts fuel bs = decodeInts bs.length bs := decodeInts_fuel fuel bs h

/-- Reading a delta from any integer or byte sequence, with any object-size table, never panics;
in particular the update loop never runs out of its fuel (= the size of the remaining input). -/
theorem read_delta_total (objSize : Nat → Option Nat) (src : Src) : ∀ p, readDelta objSize src ≠ .panic p :=
  readDelta_not_panic objSize src

theorem read_delta_fuel_suffices (objSize : Nat → Option Nat) (deleted : List Int) (fuel : Nat) (src : Src)
    (upd : Items) (bl num : Nat) (ws : List Warning) (h : src.size ≤ fuel) :
    ∀ p, readUpdates objSize deleted fuel src upd bl num ws ≠ .panic p :=
  readUpdates_not_panic objSize deleted fuel src upd bl num ws h

/-- An accepted delta has a sorted update map with `i32` keys and data. -/
theorem read_delta_accepts_wf (objSize : Nat → Option Nat) {src : Src} {d : Delta} {ws : List Warning}
    (hs : src.AllI32) (h : readDelta objSize src = .ok (d, ws)) :
    Sorted d.updated ∧ ∀ p ∈ d.updated, I32 p.1 ∧ ∀ v ∈ p.2, I32 v :=
  readDelta_I32 objSize hs h

/-- What `Delta::read` accepts (from fewer than 2^31 integers / bytes) is a well-formed delta in
the sense of C09's `Delta.WF` — sorted set of deleted `i32` keys, sorted map of `i32` updates,
sizes that fit — up to the one thing the reader only warns about: a key both deleted and updated.
If `DeleteUpdate` was not warned, it *is* `Delta.WF` (so C09's wire round trip applies to it). -/
theorem read_delta_accepts_delta_wf (objSize : Nat → Option Nat) {src : Src} {d : Delta} {ws : List Warning}
    (hs : src.AllI32) (hsize : src.size < 2147483648) (h : readDelta objSize src = .ok (d, ws)) :
    SortedSet d.deleted ∧ (∀ k ∈ d.deleted, I32 k) ∧ Sorted d.updated ∧
    (∀ p ∈ d.updated, I32 p.1 ∧ ∀ x ∈ p.2, I32 x) ∧
    d.deleted.length < 2147483648 ∧ d.updated.length < 2147483648 ∧ dataLen d.updated < 2147483648 ∧
    (Warning.deleteUpdate ∉ ws → d.WF) :=
  readDelta_accepts_WF objSize hs hsize h

/-- Applying any delta whatsoever to any accepted snapshot never panics … -/
theorem apply_delta_total {a : Snap} (ha : a.raw.WF) (d : Delta) : ∀ p, a.readWithDelta d ≠ .panic p :=
  snap_readWithDelta_not_panic ha.1 d

/-- … and what it accepts is again inside the limits. -/
theorem apply_delta_accepts_wf {a s : RawSnap} {d : Delta} {ws : List Warning} (ha : a.WF)
    (hd : ∀ p ∈ d.updated, I32 p.1 ∧ ∀ v ∈ p.2, I32 v) (h : applyDelta a d = .ok (s, ws)) :
    s.WF ∧ s.items.length ≤ 1024 ∧ s.size ≤ 65536 :=
  ⟨applyDelta_WF ha hd h, (applyDelta_WF ha hd h).2.2.1, (applyDelta_WF ha hd h).2.2.2⟩

/-- Every accepted (= well-formed) raw snapshot can be written out — neither assertion of
`write_impl` fires — and read back, from integers and from bytes, to the same snapshot. -/
theorem accepted_rewritable {s : RawSnap} (h : s.WF) :
    ∃ xs, s.writeInts = some xs ∧ RawSnap.readFromInts xs = .ok (s, []) ∧
      RawSnap.readBytes (packInts xs) = .ok (s, []) :=
  ⟨wireInts s, writeInts_of_WF h, readFromInts_wireInts h, readBytes_wireInts h⟩

/-- The same at the `Snap` level: the registry of the re-read snapshot is the one of the first read
(`build_from_raw` depends on the raw items only; warnings such as `ExcessUuidItemData` may repeat). -/
theorem accepted_snap_rewritable {data : List Int} (hI : ∀ x ∈ data, I32 x) {s : Snap} {ws : List Warning}
    (h : Snap.readFromInts data = .ok (s, ws)) :
    ∃ xs ws', s.raw.writeInts = some xs ∧ Snap.readFromInts xs = .ok (s, ws') := by
  have hwf := (snap_readFromInts_total data hI).2 s ws h
  unfold Snap.readFromInts at h
  cases hr : RawSnap.readFromInts data with
  | panic q => simp [hr] at h
  | err e => simp [hr] at h
  | ok r =>
    obtain ⟨raw, ws1⟩ := r
    simp only [hr] at h
    cases hb : buildFromRaw raw with
    | panic q => simp [hb] at h
    | err e => simp [hb] at h
    | ok r2 =>
      obtain ⟨s2, ws2⟩ := r2
      simp [hb] at h
      obtain ⟨h1, h2⟩ := h
      subst h1
      have hraw := buildFromRaw_raw hb
      refine ⟨wireInts s2.raw, ws2, writeInts_of_WF hwf, ?_⟩
      unfold Snap.readFromInts
      rw [readFromInts_wireInts hwf, hraw]
      simp only [hb, List.nil_append]

/-- Other operations on accepted values: `Delta::create` between accepted snapshots with agreeing
sizes does not panic (without them it does: D15, C09). -/
theorem create_delta_total_partial (a b : RawSnap) (hag : SizesAgree a b) : createDelta a b ≠ none := by
  intro h
  exact ((createDelta_eq_none_iff a b).mp h) hag

/-- Follow-up operations on an accepted snapshot (`Accepted` is what `build_from_raw` establishes,
see the three theorems below): enumerating the items never panics; looking up an item by a valid
ordinal or any UUID never panics; `recycle` never panics (since the fixes of D6 and D20), keeps the
UUID types, and no `add_item` of a UUID-typed item on the recycled builder can trip an assertion. -/
theorem accepted_followups_total {s : Snap} (hs : Accepted s) :
    s.items ≠ none ∧
    (∀ o id, 0 < o → o < offsetExt → s.item (.ordinal o) id ≠ none) ∧
    (∀ u id, s.item (.uuid u) id ≠ none) ∧
    (∃ b, s.recycle = some b ∧ b.snap.ext = s.ext ∧
      ∀ u id data, b.addItem (.uuid u) id data ≠ none) := by
  refine ⟨items_ne_none hs, ?_, ?_, ?_⟩
  · intro o id h1 h2
    exact item_ne_none s (.ordinal o) id ⟨h1, h2⟩
  · intro u id
    exact item_ne_none s (.uuid u) id trivial
  · obtain ⟨b, hb, h1, _, h3⟩ := recycle_ne_none hs
    refine ⟨b, hb, h3, ?_⟩
    intro u id data
    simp only [Builder.addItem]
    cases mfind u b.snap.ext with
    | some t =>
      simp only
      cases b.snap.raw.addItem (keyOf t id) data <;> simp
    | none =>
      simp only [h1, not_true_eq_false, if_false]
      split
      · simp
      · cases b.snap.raw.addItem (keyOf typeIdEx b.nextTypeId) (uuidToData u) with
        | error e => simp
        | ok raw1 =>
          simp only
          cases raw1.addItem (keyOf b.nextTypeId id) data <;> simp

/-- A snapshot accepted from integers is `Accepted`, and it is never larger than its input
(items + data words + the two header words ≤ number of input integers): the reader's allocations
are bounded by the input. -/
theorem accepted_from_ints {data : List Int} (hI : ∀ x ∈ data, I32 x) {s : Snap} {ws : List Warning}
    (h : Snap.readFromInts data = .ok (s, ws)) :
    Accepted s ∧ s.raw.items.length + dataLen s.raw.items + 2 ≤ data.length :=
  accepted_of_readFromInts hI h

/-- The same from bytes (the bound is in bytes: at most one integer per byte). -/
theorem accepted_from_bytes {bs : List UInt8} {s : Snap} {ws : List Warning}
    (h : Snap.readBytes bs = .ok (s, ws)) :
    Accepted s ∧ s.raw.items.length + dataLen s.raw.items + 2 ≤ bs.length :=
  accepted_of_readBytes h

/-- And a snapshot obtained by applying an accepted delta to an accepted snapshot. -/
theorem accepted_from_delta {a s : Snap} {d : Delta} {ws : List Warning} (ha : a.raw.WF)
    (hd : ∀ p ∈ d.updated, I32 p.1 ∧ ∀ v ∈ p.2, I32 v) (h : a.readWithDelta d = .ok (s, ws)) : Accepted s :=
  accepted_of_readWithDelta ha hd h

/-- An accepted delta is never larger than its input either: three header words, one word per
deleted key, two words per updated item plus its data words fit into the input size (integers, or
bytes) — `Delta::read` only ever pushes what it has read. -/
theorem accepted_delta_bounded (objSize : Nat → Option Nat) {src : Src} {d : Delta} {ws : List Warning}
    (h : readDelta objSize src = .ok (d, ws)) :
    3 + d.deleted.length + 2 * d.updated.length + dataLen d.updated ≤ src.size :=
  readDelta_alloc objSize h

/-- `Snap::recycle`'s numbering loop cannot overflow for *any* item list (since the fix of D20):
the counter stays `≤ 0x8000`, so `next_type_id + 256` fits a `u16`. -/
theorem recycle_numbering_total (m : Items) (n : Nat) (h : n ≤ 32768) :
    ∃ n', recycleNext m n = some n' ∧ n' ≤ 32768 ∧ (offsetExt ≤ n → offsetExt ≤ n') :=
  recycleNext_total m n h

/-- The former panic witness of D19 (nine-integer delta with an explicit size 3 for an item stored
with size 2) is an error now. -/
theorem delta_size_mismatch_is_error :
    ∃ d, readDelta (fun _ => none) (.ints [0, 1, 0, 5, 1, 3, 7, 8, 9]) = .ok (d, []) ∧
      applyDelta ⟨[(keyOf 5 1, [1, 2])]⟩ d = .err .deltaDifferingSizes := by
  refine ⟨⟨[], [(keyOf 5 1, [7, 8, 9])]⟩, ?_, ?_⟩ <;> decide

/-! Every error variant of `snap::Error` is reachable (the eighteen variants). -/

example : RawSnap.readFromInts [] = .err .unexpectedEnd := by decide
example : RawSnap.readFromInts [-1, 0] = .err .intOutOfRange := by decide
example : RawSnap.readFromInts [0, 1] = .err .offsetsUnpacking := by decide
example : RawSnap.readFromInts [4, 1, 4, 0] = .err .invalidOffset := by decide
example : RawSnap.readFromInts [8, 0] = .err .itemsUnpacking := by decide
example : RawSnap.readFromInts [16, 2, 0, 8, 5, 1, 5, 2] = .err .duplicateKey := by decide
example : Snap.readFromInts [40, 2, 0, 20, 16384, 1, 2, 3, 4, 16385, 1, 2, 3, 4] = .err .duplicateUuidType := by
  decide
example : Snap.readFromInts [8, 1, 0, 16384, 1] = .err .invalidUuidType := by decide
example : Snap.readFromInts [8, 1, 0, 1073741825, 5] = .err .missingUuidType := by decide
-- the two limit errors (any 1025th item; a single item of 16381 integers = 65540 bytes)
example (s : RawSnap) (k : Int) (h : s.items.length = 1024) (hk : mfind k s.items = none) :
    s.addItem k [] = .error .tooManyItems := by
  simp [RawSnap.addItem, hk, vacantCheck, h, maxItems_eq]
example (d : List Int) (h : d.length = 16381) : RawSnap.empty.addItem 5 d = .error .tooLongSnap := by
  simp [RawSnap.addItem, RawSnap.empty, mfind, vacantCheck, serializedSize, dataLen, maxItems_eq, maxSize_eq, h]
example : readDelta (fun _ => none) (.ints []) = .err .unexpectedEnd := by decide
example : readDelta (fun _ => none) (.bytes [0x40]) = .err .intOutOfRange := by decide
example : readDelta (fun _ => none) (.ints [1, 0, 0]) = .err .deletedItemsUnpacking := by decide
example : readDelta (fun _ => none) (.ints [0, 1, 0, 5]) = .err .itemDiffsUnpacking := by decide
example : readDelta (fun _ => none) (.ints [0, 1, 0, -1, 0]) = .err .typeIdRange := by decide
example : readDelta (fun _ => none) (.ints [0, 1, 0, 5, 65536]) = .err .idRange := by decide
example : readDelta (fun _ => none) (.ints [0, 1, 0, 5, 1, -1]) = .err .negativeSize := by decide
example : readDelta (fun t => if t = 1 then some 1 else some 4294967295) (.ints [0, 2, 0, 1, 0, 7, 2, 0])
    = .err .tooLongDiff := by decide
example : applyDelta ⟨[(keyOf 5 1, [1, 2])]⟩ ⟨[], [(keyOf 5 1, [7, 8, 9])]⟩ = .err .deltaDifferingSizes := by
  decide

end Tw.Props.C11
