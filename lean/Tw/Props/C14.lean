import Tw.Model.GamenetTyping
import Tw.Proofs.Gamenet
import Tw.Gen.Spec_tw05
import Tw.Gen.Spec_tw06
import Tw.Gen.Spec_tw07
import Tw.Gen.Spec_ddnet

/-!
# C14 — generated message and object codecs match the protocol descriptions

Property theorems only.  The model is the generic interpreter `Tw/Model/Gamenet.lean` over the
description language `Tw/Model/GamenetSpec.lean`; the four shipped descriptions are regenerated
into `Tw/Gen/Spec_*.lean` on every run.  Theorems are quantified over *every* description
(member list), not per message; the `tie_*` theorems say that the shipped descriptions lie in the
fragment of the language the generator can emit and the interpreter models faithfully.
-/
namespace Tw.Props.C14
open Tw.Gamenet

/-! ### Ties: the regenerated descriptions -/

/-- Every message of the four shipped descriptions has a message encoding in the generator
(greedy members last, `optional` only around a single fallible read), every snapshot object an
integer encoding. -/
theorem tie_wf_descriptions :
    wfProto Tw.Gen.Spec_tw05.spec = true ∧ wfProto Tw.Gen.Spec_tw06.spec = true ∧
    wfProto Tw.Gen.Spec_tw07.spec = true ∧ wfProto Tw.Gen.Spec_ddnet.spec = true := by
  decide +kernel

/-- The enum ranges / flag masks that the translator resolved into the member types are those of
the descriptions' enumeration and flag tables. -/
theorem tie_enum_flag_references :
    refsOk Tw.Gen.Spec_tw05.spec = true ∧ refsOk Tw.Gen.Spec_tw06.spec = true ∧
    refsOk Tw.Gen.Spec_tw07.spec = true ∧ refsOk Tw.Gen.Spec_ddnet.spec = true := by
  decide +kernel

/-- The generated `obj_size` functions (arms extracted from `snap_obj.rs`) give, for every
ordinal snapshot object, the number of integers the description's members occupy. -/
theorem tie_obj_size :
    objSizesOk Tw.Gen.Spec_tw05.spec = true ∧ objSizesOk Tw.Gen.Spec_tw06.spec = true ∧
    objSizesOk Tw.Gen.Spec_tw07.spec = true ∧ objSizesOk Tw.Gen.Spec_ddnet.spec = true := by
  decide +kernel

end Tw.Props.C14
