import Tw.Model.GamenetTyping
import Tw.Proofs.Gamenet
import Tw.Proofs.GamenetCanon
import Tw.Proofs.GamenetCap
import Tw.Proofs.GamenetObj
import Tw.Gen.Spec_tw05
import Tw.Gen.Spec_tw06
import Tw.Gen.Spec_tw07
import Tw.Gen.Spec_ddnet
import Tw.Gen.GamenetMsg

/-!
# C14 — generated message and object codecs match the protocol descriptions

Property theorems only (helper lemmas: `Tw/Proofs/Gamenet.lean`).  The model is the generic
interpreter `Tw/Model/Gamenet.lean` over the description language `Tw/Model/GamenetSpec.lean`; the
four shipped descriptions are regenerated into `Tw/Gen/Spec_*.lean` on every run.  The theorems are
quantified over *every* description (member list `ms : ML`), not stated per message; the `tie_*`
theorems say that the shipped descriptions lie in the fragment of the language that the generator
can emit and the interpreter models faithfully (`wfMs` / `wfOs`).

Predicates (`Tw/Model/GamenetTyping.lean`, all decidable, `Bool`-valued):
`wfMs ms` the generator has a message codec for `ms` (greedy members last, `optional` around a
single read); `wtMs ms v` the value satisfies every described constraint; `absentOk v` the absent
optional members of `v` are the trailing ones.
-/
namespace Tw.Props.C14
open Tw.Gamenet
open Tw.Packer (Warning inI32 writeInt)

/-! ### Ties: the regenerated descriptions -/

/-- Every message of the four shipped descriptions has a message encoding in the generator
(greedy members last, `optional` only around a single fallible read), every snapshot object an
integer encoding. -/
theorem tie_wf_descriptions :
    wfProto Tw.Gen.Spec_tw05.spec = true ∧ wfProto Tw.Gen.Spec_tw06.spec = true ∧
    wfProto Tw.Gen.Spec_tw07.spec = true ∧ wfProto Tw.Gen.Spec_ddnet.spec = true := by
  decide +kernel

/-- The enum ranges / flag masks that the translator resolved into the member types are those of
the descriptions' enumeration and flag tables. -/
theorem tie_enum_flag_references :
    refsOk Tw.Gen.Spec_tw05.spec = true ∧ refsOk Tw.Gen.Spec_tw06.spec = true ∧
    refsOk Tw.Gen.Spec_tw07.spec = true ∧ refsOk Tw.Gen.Spec_ddnet.spec = true := by
  decide +kernel

/-- The generated `obj_size` functions (arms extracted from `snap_obj.rs`) give, for every
ordinal snapshot object, the number of integers the description's members occupy. -/
theorem tie_obj_size :
    objSizesOk Tw.Gen.Spec_tw05.spec = true ∧ objSizesOk Tw.Gen.Spec_tw06.spec = true ∧
    objSizesOk Tw.Gen.Spec_tw07.spec = true ∧ objSizesOk Tw.Gen.Spec_ddnet.spec = true := by
  decide +kernel

/-- Message and object identifiers of the shipped descriptions are ones `encode_id` accepts, each
identifies its description (dispatch finds exactly it), connless ids are 8 bytes. -/
theorem tie_identifiers :
    idsOk Tw.Gen.Spec_tw05.spec = true ∧ idsOk Tw.Gen.Spec_tw06.spec = true ∧
    idsOk Tw.Gen.Spec_tw07.spec = true ∧ idsOk Tw.Gen.Spec_ddnet.spec = true := by
  decide +kernel

/-- Tie to the generated Rust: the arms of `System::decode_msg`, `Game::decode_msg`,
`SnapObj::decode_obj` and `Connless::decode_connless` of all four crates (extracted from the
sources in order, with the values of the `pub const` identifiers they match on: ordinals, UUIDs,
8-byte connless headers) are exactly the descriptions' messages / objects with their identifiers,
each decoded by the struct of its name. -/
theorem tie_dispatch_arms :
    (dispatchOk Tw.Gen.Spec_tw05.rustSystem Tw.Gen.Spec_tw05.spec.system ∧
     dispatchOk Tw.Gen.Spec_tw05.rustGame Tw.Gen.Spec_tw05.spec.game ∧
     dispatchOk Tw.Gen.Spec_tw05.rustObjects Tw.Gen.Spec_tw05.spec.objects ∧
     connlessDispatchOk Tw.Gen.Spec_tw05.rustConnless Tw.Gen.Spec_tw05.spec.connless) ∧
    (dispatchOk Tw.Gen.Spec_tw06.rustSystem Tw.Gen.Spec_tw06.spec.system ∧
     dispatchOk Tw.Gen.Spec_tw06.rustGame Tw.Gen.Spec_tw06.spec.game ∧
     dispatchOk Tw.Gen.Spec_tw06.rustObjects Tw.Gen.Spec_tw06.spec.objects ∧
     connlessDispatchOk Tw.Gen.Spec_tw06.rustConnless Tw.Gen.Spec_tw06.spec.connless) ∧
    (dispatchOk Tw.Gen.Spec_tw07.rustSystem Tw.Gen.Spec_tw07.spec.system ∧
     dispatchOk Tw.Gen.Spec_tw07.rustGame Tw.Gen.Spec_tw07.spec.game ∧
     dispatchOk Tw.Gen.Spec_tw07.rustObjects Tw.Gen.Spec_tw07.spec.objects ∧
     connlessDispatchOk Tw.Gen.Spec_tw07.rustConnless Tw.Gen.Spec_tw07.spec.connless) ∧
    (dispatchOk Tw.Gen.Spec_ddnet.rustSystem Tw.Gen.Spec_ddnet.spec.system ∧
     dispatchOk Tw.Gen.Spec_ddnet.rustGame Tw.Gen.Spec_ddnet.spec.game ∧
     dispatchOk Tw.Gen.Spec_ddnet.rustObjects Tw.Gen.Spec_ddnet.spec.objects ∧
     connlessDispatchOk Tw.Gen.Spec_ddnet.rustConnless Tw.Gen.Spec_ddnet.spec.connless) := by
  decide +kernel

/-- Tie to `gamenet/common/src/msg.rs`: the integer literals of `SystemOrGame::decode_id`
(`id & 1 != 0`, `id >> 1`, `msg != 0`) and `encode_id` (`i != 0`, `=> 0`, `1 << 31`, `== 0`,
`iid << 1`) are the ones `decodeId` / `encodeId` were written against. -/
theorem tie_message_id_literals :
    Tw.Gen.GamenetMsg.lits_decode_id = [1, 0, 1, 0] ∧
    Tw.Gen.GamenetMsg.lits_encode_id = [0, 0, 1, 31, 0, 1] := by decide

/-! ### Messages (system, game, connless): one statement for every description -/

/-- *Canonical bytes decode without warnings to the value they were built from.*  For every
description the generator can emit and every value it admits: `encode` succeeds and `decode` of
the result gives the value back with no warning. -/
theorem encode_decode_roundtrip (ms : ML) (v : VL) (hwf : wfMs ms = true) (hwt : wtMs ms v = true)
    (hab : absentOk v = true) :
    ∃ bs, encStruct ms v = .ok bs ∧ decodeMembers ms bs = .ok v [] :=
  decodeMembers_encStruct ms v hwf hwt hab

/-- Canonical bytes of a description: built by the encoding from a value the description admits. -/
def Canonical (ms : ML) (bs : List UInt8) : Prop :=
  ∃ v, wtMs ms v = true ∧ absentOk v = true ∧ encStruct ms v = .ok bs

/-- *… and re-encode to the same bytes*: whatever canonical bytes decode to is written back as
exactly those bytes (and there was no warning). -/
theorem canonical_reencodes (ms : ML) (bs : List UInt8) (v : VL) (ws : List Warning) (hwf : wfMs ms = true)
    (hc : Canonical ms bs) (hd : decodeMembers ms bs = .ok v ws) : ws = [] ∧ encStruct ms v = .ok bs := by
  obtain ⟨v', hwt, hab, he⟩ := hc
  obtain ⟨bs', he', hd'⟩ := decodeMembers_encStruct ms v' hwf hwt hab
  rw [he] at he'
  cases he'
  rw [hd] at hd'
  cases hd'
  exact ⟨rfl, he⟩

/-- *Exactly the described layout*: for every description without `optional` and without
`int32_string` members, a byte string that decodes **without any warning** is the canonical
encoding of the value it decodes to — `encode` writes back exactly the input.  (Together with
`encode_decode_roundtrip`: "decodes without warning" ⇔ "is the encoding of an admitted value".)
Both exclusions are necessary, see the two examples below. -/
theorem clean_decode_is_canonical (ms : ML) (bs : List UInt8) (v : VL) (hno : noOptMs ms = true)
    (hni : noIntStrMs ms = true) (hd : decodeMembers ms bs = .ok v []) : encStruct ms v = .ok bs :=
  clean_decode_canonical ms bs v hno hni hd

/-- `"+5"` and `"5"` both decode silently to 5 (`int32_string` uses `str::parse`) … -/
example : decodeMembers (.cons .int32String .nil) [43, 53, 0] = .ok (.cons (.int 5) .nil) [] ∧
    encStruct (.cons .int32String .nil) (.cons (.int 5) .nil) = .ok [53, 0] := by decide
/-- … and an unreadable trailing optional member is silently absent. -/
example : decodeMembers Tw.Gen.Spec_tw06.sys_info.members [48, 0, 120, 121] = .ok (.cons (.bytes [48]) (.cons .none .nil)) [] ∧
    encStruct Tw.Gen.Spec_tw06.sys_info.members (.cons (.bytes [48]) (.cons .none .nil)) = .ok [48, 0] := by decide

/-- How many of the shipped system / game / connless descriptions the hypotheses of
`clean_decode_is_canonical` cover: (covered, all) per protocol. -/
theorem tie_clean_canonical_coverage :
    cleanCanonCount Tw.Gen.Spec_tw05.spec = (43, 43) ∧ cleanCanonCount Tw.Gen.Spec_tw06.spec = (52, 56) ∧
    cleanCanonCount Tw.Gen.Spec_tw07.spec = (73, 74) ∧ cleanCanonCount Tw.Gen.Spec_ddnet.spec = (101, 107) := by
  decide +kernel

/-- *Whatever decodes can be written back* (the statement that failed before the fix of D24):
for every description whose optional members are its trailing members, every byte string that
`decode` accepts — canonical or not, with or without warnings — yields a value that `encode`
accepts, and the bytes written decode to the same value without warnings. -/
theorem decoded_message_reencodes (ms : ML) (bs : List UInt8) (v : VL) (ws : List Warning)
    (hwf : wfMs ms = true) (hol : optsLast ms = true) (hd : decodeMembers ms bs = .ok v ws) :
    ∃ bs', encStruct ms v = .ok bs' ∧ decodeMembers ms bs' = .ok v [] :=
  decoded_reencodes ms bs v ws hwf hol hd

/-- In every shipped message description the optional members are the trailing ones. -/
theorem tie_optionals_last :
    optsLastProto Tw.Gen.Spec_tw05.spec = true ∧ optsLastProto Tw.Gen.Spec_tw06.spec = true ∧
    optsLastProto Tw.Gen.Spec_tw07.spec = true ∧ optsLastProto Tw.Gen.Spec_ddnet.spec = true := by
  decide +kernel

/-- *Small buffers.*  `encStructCap cap` executes the generated `encode` step by step (asserts,
then one write per member) against a buffer of `cap` bytes.  For every value that `encode` can
write at all: it is written completely, byte for byte the same, into every buffer that is large
enough, and refused with `CapacityError` — never a panic — by every buffer that is too small. -/
theorem encode_respects_capacity (cap : Nat) (ms : ML) (v : VL) (bs : List UInt8)
    (h : encStruct ms v = .ok bs) :
    encStructCap cap ms v = if bs.length ≤ cap then .ok bs else .capacity :=
  encStructCap_of_ok cap ms v bs h

/-- … the same for `System::encode` / `Game::encode` including the id. -/
theorem message_encode_respects_capacity (cap : Nat) (sys : Bool) (s : Spec) (v : VL) (bs : List UInt8)
    (h : encodeMsg sys s v = .ok bs) :
    encodeMsgCap cap sys s v = if bs.length ≤ cap then .ok bs else .capacity :=
  encodeMsgCap_of_ok cap sys s v bs h

example : encodeMsgCap 4 true Tw.Gen.Spec_tw06.sys_info (.cons (.bytes [48, 46, 54]) (.cons .none .nil)) = .capacity ∧
    encodeMsgCap 5 true Tw.Gen.Spec_tw06.sys_info (.cons (.bytes [48, 46, 54]) (.cons .none .nil)) = .ok [3, 48, 46, 54, 0] := by
  decide

/-- The same with message ids: `System::encode` / `Game::encode`, then `msg::decode` dispatching on
the id (`ordinal << 1 | sys`, or 0 and a UUID). -/
theorem message_roundtrip (p : ProtoSpec) (sys : Bool) (s : Spec) (v : VL)
    (hfind : findSpec s.id (if sys then p.system else p.game) = some s) (hid : idOk s.id = true)
    (hwf : wfMs s.members = true) (hwt : wtMs s.members v = true) (hab : absentOk v = true) :
    ∃ bs, encodeMsg sys s v = .ok bs ∧ decodeMsg p bs = .ok sys s v [] :=
  decodeMsg_encodeMsg p sys s v hfind hid hwf hwt hab

theorem connless_roundtrip (p : ProtoSpec) (s : ConnlessSpec) (v : VL)
    (hfind : findConnless s.id p.connless = some s) (hid : s.id.length = 8)
    (hwf : wfMs s.members = true) (hwt : wtMs s.members v = true) (hab : absentOk v = true) :
    ∃ bs, encodeConnless s v = .ok bs ∧ decodeConnless p bs = .ok s v [] :=
  decodeConnless_encodeConnless p s v hfind hid hwf hwt hab

/-- Message ids: every ordinal in `1 .. 2^30 - 1` and every UUID survives `encode_id` / `decode_id`
with its system flag. -/
theorem message_id_roundtrip (sys : Bool) (id : Ident) (h : idOk id = true) (rest : List UInt8) :
    ∃ bs, encodeId sys id = .ok bs ∧ decodeId (bs ++ rest) = .ok (sys, id) rest [] :=
  decodeId_encodeId sys id h rest

/-- *Every described constraint is enforced*: whatever `decode` accepts — with or without
warnings, for any description whatsoever — satisfies the description (ranges, enum membership,
booleans, control characters, string termination, sizes). -/
theorem decoded_is_welltyped (ms : ML) (bs : List UInt8) (v : VL) (ws : List Warning)
    (hd : decodeMembers ms bs = .ok v ws) : wtMs ms v = true := by
  unfold decodeMembers at hd
  split at hd
  · rename_i vs r ws' h
    simp at hd
    rw [← hd.1]
    exact decMs_wt ms bs vs r ws' h
  · simp at hd
  · simp at hd

/-- *Violations are rejected*, constraint by constraint: an integer outside its range, … -/
theorem range_violation_rejected (min max : Option Int) (x : Int) (hi : inI32 x) (h : checkRange min max x = false)
    (rest : List UInt8) : decM (.int32 min max) (writeInt x ++ rest) = .err .intOutOfRange rest [] :=
  Tw.Gamenet.range_violation_rejected min max x hi h rest

/-- … a value that is not a member of the enumeration, … -/
theorem enum_violation_rejected (name : String) (lo : Int) (n : Nat) (x : Int) (hi : inI32 x) (h : inEnum lo n x = false)
    (rest : List UInt8) : decM (.enum name lo n) (writeInt x ++ rest) = .err .intOutOfRange rest [] :=
  Tw.Gamenet.enum_violation_rejected name lo n x hi h rest

/-- … a boolean other than 0 and 1, … -/
theorem bool_violation_rejected (x : Int) (hi : inI32 x) (h : x ≠ 0 ∧ x ≠ 1) (rest : List UInt8) :
    decM .boolean (writeInt x ++ rest) = .err .intOutOfRange rest [] :=
  Tw.Gamenet.bool_violation_rejected x hi h rest

/-- … a control character where the description forbids them, … -/
theorem control_character_rejected (s : List UInt8) (hn : hasNul s = false) (hc : hasControl s = true)
    (rest : List UInt8) : decM (.string true) (s ++ 0 :: rest) = .err .controlCharacters rest [] :=
  Tw.Gamenet.control_character_rejected s hn hc rest

/-- … a string without terminator; … -/
theorem unterminated_string_rejected (strict : Bool) (s : List UInt8) (hn : hasNul s = false) :
    decM (.string strict) s = .err .unexpectedEnd [] [] :=
  Tw.Gamenet.unterminated_string_rejected strict s hn

/-- … and the error of a member is the error of the message. -/
theorem member_error_rejects (t : MT) (ms : ML) (inp : List UInt8) (e : Err) (r : List UInt8) (ws : List Warning)
    (h : decM t inp = .err e r ws) : decodeMembers (.cons t ms) inp = .err e ws :=
  Tw.Gamenet.member_error_rejects t ms inp e r ws h

/-- *Decoding arbitrary bytes never panics* (the `unwrap`s and slice indexings of the generated
decoders — `Sha256::from_slice(..).unwrap()`, `s[0], s[1]`, the `transmute` assertion of
`AddrPacked` — are modelled as explicit `panic` outcomes; none is reachable), for every
description and every byte string. -/
theorem decode_never_panics (ms : ML) (bs : List UInt8) (site : String) :
    decodeMembers ms bs ≠ .panic site := by
  unfold decodeMembers
  split
  · simp
  · simp
  · rename_i s h; exact absurd h (decMs_noPanic ms bs s)

/-- … including the id and the dispatch. -/
theorem decodeMsg_never_panics (p : ProtoSpec) (bs : List UInt8) (site : String) :
    decodeMsg p bs ≠ .panic site := by
  intro hm
  unfold decodeMsg at hm
  split at hm
  · rename_i s h; exact absurd h (decodeId_noPanic bs s)
  · simp at hm
  · split at hm
    · simp at hm
    · split at hm
      · simp at hm
      · simp at hm
      · rename_i s h
        exact absurd h (decode_never_panics _ _ s)

-- non-vacuity: the hypotheses are met by shipped descriptions and concrete values
example : wfMs Tw.Gen.Spec_tw06.sys_info.members = true ∧
    wtMs Tw.Gen.Spec_tw06.sys_info.members (.cons (.bytes [48, 46, 54]) (.cons .none .nil)) = true ∧
    absentOk (.cons (.bytes [48, 46, 54]) (.cons .none .nil)) = true := by decide
/-- the message that D24 was about: `Info` without password now encodes, and decodes back -/
example : encodeMsg true Tw.Gen.Spec_tw06.sys_info (.cons (.bytes [48, 46, 54]) (.cons .none .nil))
    = .ok [3, 48, 46, 54, 0] := by decide
example : decodeMembers Tw.Gen.Spec_tw06.sys_info.members [48, 46, 54, 0]
    = .ok (.cons (.bytes [48, 46, 54]) (.cons .none .nil)) [] := by decide
example : checkRange (some (-1)) (some 15) 16 = false ∧ inI32 16 := by decide
example : Canonical Tw.Gen.Spec_tw06.sys_info.members [48, 46, 54, 0] :=
  ⟨.cons (.bytes [48, 46, 54]) (.cons .none .nil), by decide, by decide, by decide⟩

/-! ### Snapshot objects -/

/-- Every described constraint of a snapshot object is enforced by its integer decoder. -/
theorem decoded_object_is_welltyped (ms : ML) (inp : List Int) (v : VL) (ex : Bool)
    (hi : ∀ x ∈ inp, inI32 x) (hd : decodeObjMembers ms inp = .ok v ex) : wtMs ms v = true := by
  unfold decodeObjMembers at hd
  split at hd
  · rename_i vs r h
    simp at hd
    rw [← hd.1]
    exact decOs_wt ms inp vs r hi h
  · simp at hd

/-- A snapshot object decoder accepts exactly `int_size` integers without "excess data": what it
consumes is the size that `obj_size` reports for the type (`tie_obj_size`). -/
theorem decoded_object_consumes_obj_size (ms : ML) (inp : List Int) (v : VL) (hwf : wfOs ms = true)
    (hd : decodeObjMembers ms inp = .ok v false) : inp.length = intSize ms := by
  unfold decodeObjMembers at hd
  split at hd
  · rename_i vs r h
    simp at hd
    have := decOs_len ms inp vs r hwf h
    have hr : r = [] := by cases r <;> simp_all
    subst hr
    simpa using this
  · simp at hd

/-- The full statement for snapshot objects ("re-exposed as the same words"): the words an object
was decoded from are what `encode` returns.  It does not hold for objects with boolean members
(open finding D25, `obj_bool_witness`). -/
def C14_full : Prop :=
  ∀ (ms : ML) (inp : List Int), wfOs ms = true → ms ≠ .nil → (∀ x ∈ inp, inI32 x) →
    (∃ v, decodeObjMembers ms inp = .ok v false) → encodedWords ms inp = some (inp.map some)

/-- *Snapshot objects are re-exposed as the same words* — proved for every object description
without boolean members (every field of the `#[repr(C)]` struct is then four bytes wide): the
words returned by `encode` are exactly the words the object was decoded from.  The excluding
hypothesis `noBool ms` is the negation of the classifier of the open finding D25. -/
theorem object_words_reexposed_partial (ms : ML) (inp : List Int) (hwf : wfOs ms = true)
    (hnb : noBool ms = true) (hne : ms ≠ .nil) (hi : ∀ x ∈ inp, inI32 x)
    (hd : ∃ v, decodeObjMembers ms inp = .ok v false) : encodedWords ms inp = some (inp.map some) :=
  encodedWords_noBool ms inp hwf hnb hne hi hd

/-- The other direction, value → words → value: every value an object description (without
boolean members) admits is exposed by `encode` as words that `decode` turns back into exactly that
value, with no excess data. -/
theorem object_encode_decode_roundtrip_partial (ms : ML) (v : VL) (hwf : wfOs ms = true)
    (hnb : noBool ms = true) (hne : ms ≠ .nil) (hwt : wtMs ms v = true) :
    ∃ ints, encodeObj ms v = .ok (ints.map some) ∧ (∀ x ∈ ints, inI32 x) ∧
      decodeObjMembers ms ints = .ok v false :=
  encodeObj_decodeObj ms v hwf hnb hne hwt

/-- Which shipped snapshot objects the hypothesis excludes: exactly the four of D25. -/
theorem tie_objects_with_bool :
    ((Tw.Gen.Spec_tw05.spec.objects.filter fun s => !noBool s.members).map (·.name)) = [] ∧
    ((Tw.Gen.Spec_tw06.spec.objects.filter fun s => !noBool s.members).map (·.name)) = [] ∧
    ((Tw.Gen.Spec_tw07.spec.objects.filter fun s => !noBool s.members).map (·.name))
      = ["player_input", "de_client_info", "damage"] ∧
    ((Tw.Gen.Spec_ddnet.spec.objects.filter fun s => !noBool s.members).map (·.name))
      = ["ddnet_spectator_info"] := by
  decide +kernel

example : wfOs Tw.Gen.Spec_tw06.obj_character.members = true ∧ noBool Tw.Gen.Spec_tw06.obj_character.members = true ∧
    (∃ v, decodeObjMembers Tw.Gen.Spec_tw06.obj_projectile.members [1, 2, 3, 4, 5, 6] = .ok v false) := by
  refine ⟨by decide, by decide, ?_⟩
  exact ⟨.cons (.int 1) (.cons (.int 2) (.cons (.int 3) (.cons (.int 4) (.cons (.int 5) (.cons (.int 6) .nil))))), by decide⟩

/-- D25 in the model: the 0.7 object `DeClientInfo` decodes 58 zero words, `encode` returns 54
words, two of them containing padding bytes. -/
theorem obj_bool_witness :
    wfOs Tw.Gen.Spec_tw07.obj_de_client_info.members = true ∧
    decodeObjMembers Tw.Gen.Spec_tw07.obj_de_client_info.members (List.replicate 58 0) ≠ .err .unexpectedEnd ∧
    (encodedWords Tw.Gen.Spec_tw07.obj_de_client_info.members (List.replicate 58 0)).map
      (fun ws => (ws.length, ws.count none)) = some (54, 2) := by
  decide +kernel

end Tw.Props.C14
