import Tw.Model.Packet6

/-!
# C06 — the packet reader is total and stays inside its buffers
-/
namespace Tw.Props.C06
open Tw.Packet

/-- Tie: sizes the 0.6 reader model depends on. -/
theorem tie_sizes6 :
    Tw.Gen.Packet6.MAX_PACKETSIZE = 1400 ∧ Tw.Gen.Packet6.HEADER_SIZE = 3 ∧
    Tw.Gen.Packet6.PADDING_SIZE_CONNLESS = 3 ∧ Tw.Gen.Packet6.TOKEN_SIZE = 4 ∧
    Tw.Gen.Packet6.CHUNK_HEADER_SIZE = 2 ∧ Tw.Gen.Packet6.CHUNK_HEADER_SIZE_VITAL = 3 := by decide

end Tw.Props.C06
