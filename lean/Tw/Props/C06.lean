import Tw.Model.Packet6
import Tw.Model.Packet7
import Tw.Proofs.Packet6Read
import Tw.Proofs.Packet7Read

/-!
# C06 — the packet reader is total and stays inside its buffers

Property theorems only; helper lemmas are in `Tw/Proofs/Packet*.lean`.  Models: `Tw/Model/Packet6.lean`
(`net/src/protocol.rs`), `Tw/Model/Packet7.lean` (`net/src/protocol7.rs`), `Tw/Model/PacketCommon.lean`
(`ChunksIter`).  Every `assert!`/`unwrap`/`expect` of the modelled functions is an explicit `panic`
outcome of the model; `is_initial`, `needs_decompression` and `ChunksIter::next_warn` have no such site
and are total functions into `Bool` / `Option Chunk` by construction (the correspondence harness runs
the real functions under `catch_unwind`).

Hypotheses about the Huffman table (proved by C07 for the built-in table, connected after merge):
* `HuffmanTerminates t` — `Tw.Huffman.decompress_terminates _ Tw.Huffman.wellFormed_table`
  (`Tw.Props.C07.decompress_total`);
* `HuffmanBounded t` — `Tw.Huffman.decompress_bound` (`Tw.Props.C07.decompress_within_capacity`);
* `HuffmanRoundTrip t` — `Tw.Huffman.decompress_compress _ Tw.Huffman.wellFormed_table false`
  (`Tw.Props.C07.roundtrip`).
-/
namespace Tw.Props.C06
open Tw.Packet

/-- the Huffman decoder never runs out of fuel (C07: `decompress_terminates`) -/
def HuffmanTerminates (t : Tw.Huffman.Table) : Prop :=
  ∀ input cap, Tw.Huffman.decompress t input cap ≠ .diverge

/-- Tie: sizes the reader models depend on. -/
theorem tie_sizes :
    Tw.Gen.Packet6.MAX_PACKETSIZE = 1400 ∧ Tw.Gen.Packet6.HEADER_SIZE = 3 ∧
    Tw.Gen.Packet6.PADDING_SIZE_CONNLESS = 3 ∧ Tw.Gen.Packet6.TOKEN_SIZE = 4 ∧
    Tw.Gen.Packet6.CHUNK_HEADER_SIZE = 2 ∧ Tw.Gen.Packet6.CHUNK_HEADER_SIZE_VITAL = 3 ∧
    Tw.Gen.Packet6.READ_PAYLOAD_LIMIT = 1397 ∧ Tw.Gen.Packet6.CONNLESS_WRITE_LIMIT = 1394 ∧
    Tw.Gen.Packet7.MAX_PACKETSIZE = 1400 ∧ Tw.Gen.Packet7.HEADER_SIZE = 7 ∧
    Tw.Gen.Packet7.HEADER_SIZE_CONNLESS = 9 ∧ Tw.Gen.Packet7.TOKEN_REQUEST_PACKET_SIZE = 519 ∧
    Tw.Gen.Packet7.CHUNK_HEADER_SIZE = 2 ∧ Tw.Gen.Packet7.CHUNK_HEADER_SIZE_VITAL = 3 ∧
    Tw.Gen.Packet7.READ_PAYLOAD_LIMIT = 1393 ∧ Tw.Gen.Packet7.CONNLESS_WRITE_LIMIT = 1391 := by decide

/-- Tie: the literals of the functions the reader models were written against (lengths `4`, `3`, `1 + 4`
of `has_token_heuristic`, the `0xff` padding test, …), in source order. -/
theorem tie_reader_literals :
    Tw.Gen.Packet6.lits_has_token_heuristic = [4, 0, 4, 1, 4, 0, 4, 3, 0, 3, 1, 1, 1, 0] ∧
    Tw.Gen.Packet6.lits_read_impl = [0, 255, 3, 255, 0, 0, 0, 1, 2, 3, 0, 0, 0, 0, 0, 0, 0, 1, 1, 0, 0] ∧
    Tw.Gen.Packet6.lits_is_initial = [0] ∧ Tw.Gen.Packet6.lits_needs_decompression = [0, 0] ∧
    Tw.Gen.Packet6.lits_next_warn = [0, 0, 0, 1] ∧ Tw.Gen.Packet6.lits_read_chunk_header = [0] ∧
    Tw.Gen.Packet7.lits_read_impl = [0, 0, 0, 0, 0, 0, 0, 0, 0, 4, 4, 0, 1, 2, 3, 0, 0, 1, 1, 0, 0] ∧
    Tw.Gen.Packet7.lits_needs_decompression = [0, 0] ∧
    Tw.Gen.Packet7.lits_next_warn = [0, 0, 0, 1] ∧ Tw.Gen.Packet7.lits_read_chunk_header = [0] := by decide

/-! ## no panic, no divergence -/

/-- 0.6 `Packet::read` never panics: for every byte string, every token hint and every scratch buffer
of at least `MAX_PACKETSIZE` bytes (the precondition the code asserts). -/
theorem v6_read_never_panics (t : Tw.Huffman.Table) (bytes : List UInt8) (hint : Option Bool) (cap : Nat)
    (hcap : Tw.Gen.Packet6.MAX_PACKETSIZE ≤ cap) (site : String) :
    Tw.Packet6.read t bytes hint (some cap) ≠ .panic site :=
  Tw.Packet6.read_ne_panic t bytes hint cap hcap site

/-- 0.6 `Packet::read_panic_on_decompression` never panics on its documented precondition: the
datagram is not a compressed packet. -/
theorem v6_read_panic_on_decompression_never_panics (t : Tw.Huffman.Table) (bytes : List UInt8)
    (hint : Option Bool) (hn : Tw.Packet6.needsDecompression bytes = false) (site : String) :
    Tw.Packet6.read t bytes hint none ≠ .panic site :=
  Tw.Packet6.read_nobuf_ne_panic t bytes hint hn site

/-- 0.6: the reader returns (never loops): the only loop outside the chunk iterator is the Huffman
decoder, which terminates for a well-formed table. -/
theorem v6_read_terminates (t : Tw.Huffman.Table) (ht : HuffmanTerminates t) (bytes : List UInt8)
    (hint : Option Bool) (buffer : Option Nat) :
    Tw.Packet6.read t bytes hint buffer ≠ .diverge :=
  Tw.Packet6.read_ne_diverge t bytes hint buffer ht

/-- 0.6 `Packet::decompress_if_needed` never panics (buffer of at least `MAX_PACKETSIZE` bytes). -/
theorem v6_decompress_if_needed_never_panics (t : Tw.Huffman.Table) (bytes : List UInt8) (cap : Nat)
    (hcap : Tw.Gen.Packet6.MAX_PACKETSIZE ≤ cap) (site : String) :
    Tw.Packet6.decompressIfNeeded t bytes cap ≠ .panic site :=
  Tw.Packet6.decompressIfNeeded_ne_panic t bytes cap hcap site

/-- 0.7 `Packet::read` never panics. -/
theorem v7_read_never_panics (t : Tw.Huffman.Table) (bytes : List UInt8) (cap : Nat)
    (hcap : Tw.Gen.Packet7.MAX_PACKETSIZE ≤ cap) (site : String) :
    Tw.Packet7.read t bytes (some cap) ≠ .panic site :=
  Tw.Packet7.read_ne_panic t bytes cap hcap site

theorem v7_read_panic_on_decompression_never_panics (t : Tw.Huffman.Table) (bytes : List UInt8)
    (hn : Tw.Packet7.needsDecompression bytes = false) (site : String) :
    Tw.Packet7.read t bytes none ≠ .panic site :=
  Tw.Packet7.read_nobuf_ne_panic t bytes hn site

theorem v7_read_terminates (t : Tw.Huffman.Table) (ht : HuffmanTerminates t) (bytes : List UInt8)
    (buffer : Option Nat) :
    Tw.Packet7.read t bytes buffer ≠ .diverge :=
  Tw.Packet7.read_ne_diverge t bytes buffer ht

theorem v7_decompress_if_needed_never_panics (t : Tw.Huffman.Table) (bytes : List UInt8) (cap : Nat)
    (hcap : Tw.Gen.Packet7.MAX_PACKETSIZE ≤ cap) (site : String) :
    Tw.Packet7.decompressIfNeeded t bytes cap ≠ .panic site :=
  Tw.Packet7.decompressIfNeeded_ne_panic t bytes cap hcap site

-- non-vacuity: the precondition of the `read_panic_on_decompression` theorems is met by an
-- uncompressed packet and the statement computes; below the buffer precondition the model panics
example : Tw.Packet6.needsDecompression [0x10, 0, 0, 4] = false := by decide
example : Tw.Packet6.needsDecompression [0x80, 0, 0] = true := by decide
example : ∃ s, Tw.Packet6.read #[] [0x10, 0, 0, 4] none (some 1399) = .panic s := ⟨_, rfl⟩

end Tw.Props.C06
