import Tw.Model.Packet6
import Tw.Model.Packet7
import Tw.Proofs.Packet6Read
import Tw.Proofs.Packet7Read
import Tw.Proofs.Packet6Bounds
import Tw.Proofs.Packet7Bounds
import Tw.Proofs.PacketIterInst
import Tw.Proofs.PacketFast
import Tw.Proofs.PacketTwoStep
import Tw.Proofs.Packet6TwoStepValue
import Tw.Proofs.Packet7TwoStepValue
import Tw.Proofs.Huffman
import Tw.Proofs.HuffmanTable

/-!
# C06 — the packet reader is total and stays inside its buffers

Property theorems only; helper lemmas are in `Tw/Proofs/Packet*.lean`.  Models: `Tw/Model/Packet6.lean`
(`net/src/protocol.rs`), `Tw/Model/Packet7.lean` (`net/src/protocol7.rs`), `Tw/Model/PacketCommon.lean`
(`ChunksIter`).  Every `assert!`/`unwrap`/`expect` of the modelled functions is an explicit `panic`
outcome of the model; `is_initial`, `needs_decompression` and `ChunksIter::next_warn` have no such site
and are total functions into `Bool` / `Option Chunk` by construction (the correspondence harness runs
the real functions under `catch_unwind`).

Hypotheses about the Huffman table (proved by C07; instantiated for the built-in table in the last section):
* `HuffmanTerminates t` — `Tw.Huffman.decompress_terminates _ Tw.Huffman.wellFormed_table`
  (`Tw.Props.C07.decompress_total`);
* `HuffmanBounded t` — `Tw.Huffman.decompress_bound` (`Tw.Props.C07.decompress_within_capacity`);
* `HuffmanRoundTrip t` — `Tw.Huffman.decompress_compress _ Tw.Huffman.wellFormed_table false`
  (`Tw.Props.C07.roundtrip`).
-/
namespace Tw.Props.C06
open Tw.Packet

/-- the Huffman decoder never runs out of fuel (C07: `decompress_terminates`) -/
def HuffmanTerminates (t : Tw.Huffman.Table) : Prop :=
  ∀ input cap, Tw.Huffman.decompress t input cap ≠ .diverge

/-- Tie: sizes the reader models depend on. -/
theorem tie_sizes :
    Tw.Gen.Packet6.MAX_PACKETSIZE = 1400 ∧ Tw.Gen.Packet6.HEADER_SIZE = 3 ∧
    Tw.Gen.Packet6.PADDING_SIZE_CONNLESS = 3 ∧ Tw.Gen.Packet6.TOKEN_SIZE = 4 ∧
    Tw.Gen.Packet6.CHUNK_HEADER_SIZE = 2 ∧ Tw.Gen.Packet6.CHUNK_HEADER_SIZE_VITAL = 3 ∧
    Tw.Gen.Packet6.READ_PAYLOAD_LIMIT = 1397 ∧ Tw.Gen.Packet6.CONNLESS_WRITE_LIMIT = 1394 ∧
    Tw.Gen.Packet7.MAX_PACKETSIZE = 1400 ∧ Tw.Gen.Packet7.HEADER_SIZE = 7 ∧
    Tw.Gen.Packet7.HEADER_SIZE_CONNLESS = 9 ∧ Tw.Gen.Packet7.TOKEN_REQUEST_PACKET_SIZE = 519 ∧
    Tw.Gen.Packet7.CHUNK_HEADER_SIZE = 2 ∧ Tw.Gen.Packet7.CHUNK_HEADER_SIZE_VITAL = 3 ∧
    Tw.Gen.Packet7.READ_PAYLOAD_LIMIT = 1393 ∧ Tw.Gen.Packet7.CONNLESS_WRITE_LIMIT = 1391 := by decide

/-- Tie: the numbers the reader models were written against, per function as the *set* of distinct numbers
> 1 it mentions (integer and byte literals, named constants resolved to their values, `.len()` of
byte-string constants, private helper functions followed; sorted).  E.g. `has_token_heuristic` knows 2
(`CTRLMSG_CONNECTACCEPT`), 3 (`nul != 3`, `[0..3]`) and 4 (`CTRLMSG_CLOSE`, `TOKEN_SIZE`, the magic's
length, the ambiguous payload length); `read_impl` additionally `0xff`, 127, 8, 1400.  Behaviour-preserving
restructurings (a helper `nul_position`, `starts_with` for a manual comparison, `MAGIC.len()` for `4`) keep
these sets; a new or changed number breaks the tie.  Masks and shifts of the header codecs stay pinned
position by position (`tie_masks6/7` in C05), sizes in `tie_sizes`. -/
theorem tie_reader_literals :
    Tw.Gen.Packet6.nums_has_token_heuristic = [2, 3, 4] ∧
    Tw.Gen.Packet6.nums_read_impl = [2, 3, 4, 8, 127, 255, 1400] ∧
    Tw.Gen.Packet6.nums_is_initial = [2, 3, 4, 1400] ∧ Tw.Gen.Packet6.nums_needs_decompression = [2, 8, 1400] ∧
    Tw.Gen.Packet6.nums_decompress_impl = [2, 8, 1400] ∧
    Tw.Gen.Packet6.nums_next_warn = [2] ∧ Tw.Gen.Packet6.nums_read_chunk_header = [] ∧
    Tw.Gen.Packet7.nums_read_impl = [2, 3, 4, 5, 7, 8, 127, 519, 1400] ∧
    Tw.Gen.Packet7.nums_needs_decompression = [4, 8, 1400] ∧ Tw.Gen.Packet7.nums_decompress_impl = [4, 8, 1400] ∧
    Tw.Gen.Packet7.nums_next_warn = [2] ∧ Tw.Gen.Packet7.nums_read_chunk_header = [] := by decide

/-- Tie: the buffer size the doc comments of `Packet::read` (both files) ask the caller for is the one the
code asserts and the theorems below assume (`MAX_PACKETSIZE`).  Before the doc repair the comments said
`MAX_PAYLOAD` (1390): a caller following them panicked on every call. -/
theorem tie_documented_buffer_size :
    Tw.Gen.Packet6.READ_BUFFER_DOCUMENTED = Tw.Gen.Packet6.MAX_PACKETSIZE ∧
    Tw.Gen.Packet7.READ_BUFFER_DOCUMENTED = Tw.Gen.Packet7.MAX_PACKETSIZE := by decide

/-! ## no panic, no divergence -/

/-- 0.6 `Packet::read` never panics: for every byte string, every token hint and every scratch buffer
of at least `MAX_PACKETSIZE` bytes (the precondition the code asserts). -/
theorem v6_read_never_panics (t : Tw.Huffman.Table) (bytes : List UInt8) (hint : Option Bool) (cap : Nat)
    (hcap : Tw.Gen.Packet6.MAX_PACKETSIZE ≤ cap) (site : String) :
    Tw.Packet6.read t bytes hint (some cap) ≠ .panic site :=
  Tw.Packet6.read_ne_panic t bytes hint cap hcap site

/-- 0.6 `Packet::read_panic_on_decompression` never panics on its documented precondition: the
datagram is not a compressed packet. -/
theorem v6_read_panic_on_decompression_never_panics (t : Tw.Huffman.Table) (bytes : List UInt8)
    (hint : Option Bool) (hn : Tw.Packet6.needsDecompression bytes = false) (site : String) :
    Tw.Packet6.read t bytes hint none ≠ .panic site :=
  Tw.Packet6.read_nobuf_ne_panic t bytes hint hn site

/-- 0.6: the reader returns (never loops): the only loop outside the chunk iterator is the Huffman
decoder, which terminates for a well-formed table. -/
theorem v6_read_terminates (t : Tw.Huffman.Table) (ht : HuffmanTerminates t) (bytes : List UInt8)
    (hint : Option Bool) (buffer : Option Nat) :
    Tw.Packet6.read t bytes hint buffer ≠ .diverge :=
  Tw.Packet6.read_ne_diverge t bytes hint buffer ht

/-- 0.6 `Packet::decompress_if_needed` never panics (buffer of at least `MAX_PACKETSIZE` bytes). -/
theorem v6_decompress_if_needed_never_panics (t : Tw.Huffman.Table) (bytes : List UInt8) (cap : Nat)
    (hcap : Tw.Gen.Packet6.MAX_PACKETSIZE ≤ cap) (site : String) :
    Tw.Packet6.decompressIfNeeded t bytes cap ≠ .panic site :=
  Tw.Packet6.decompressIfNeeded_ne_panic t bytes cap hcap site

/-- 0.7 `Packet::read` never panics. -/
theorem v7_read_never_panics (t : Tw.Huffman.Table) (bytes : List UInt8) (cap : Nat)
    (hcap : Tw.Gen.Packet7.MAX_PACKETSIZE ≤ cap) (site : String) :
    Tw.Packet7.read t bytes (some cap) ≠ .panic site :=
  Tw.Packet7.read_ne_panic t bytes cap hcap site

theorem v7_read_panic_on_decompression_never_panics (t : Tw.Huffman.Table) (bytes : List UInt8)
    (hn : Tw.Packet7.needsDecompression bytes = false) (site : String) :
    Tw.Packet7.read t bytes none ≠ .panic site :=
  Tw.Packet7.read_nobuf_ne_panic t bytes hn site

theorem v7_read_terminates (t : Tw.Huffman.Table) (ht : HuffmanTerminates t) (bytes : List UInt8)
    (buffer : Option Nat) :
    Tw.Packet7.read t bytes buffer ≠ .diverge :=
  Tw.Packet7.read_ne_diverge t bytes buffer ht

theorem v7_decompress_if_needed_never_panics (t : Tw.Huffman.Table) (bytes : List UInt8) (cap : Nat)
    (hcap : Tw.Gen.Packet7.MAX_PACKETSIZE ≤ cap) (site : String) :
    Tw.Packet7.decompressIfNeeded t bytes cap ≠ .panic site :=
  Tw.Packet7.decompressIfNeeded_ne_panic t bytes cap hcap site

/-- the two-step path `decompress_if_needed` → `read_panic_on_decompression` (callers without a scratch
buffer for `read`, e.g. a dissector): whenever `decompress_if_needed` succeeds — it decompressed into `s`,
or reports that nothing had to be done — the second step meets its precondition (`s` carries the header
with the compression flag cleared: `needsDecompression s = false`) and never panics.  That the two-step
result equals `Packet::read` of the datagram is checked on the implementation by the oracle
`C06/two-step-read-differs` on every generated datagram. -/
theorem v6_two_step_never_panics (t : Tw.Huffman.Table) (bytes : List UInt8) (cap : Nat) (hint : Option Bool)
    (site : String) :
    (∀ s, Tw.Packet6.decompressIfNeeded t bytes cap = .ok true s →
      Tw.Packet6.needsDecompression s = false ∧ Tw.Packet6.read t s hint none ≠ .panic site) ∧
    (Tw.Packet6.decompressIfNeeded t bytes cap = .ok false [] → Tw.Gen.Packet6.MAX_PACKETSIZE ≤ cap →
      Tw.Packet6.read t bytes hint none ≠ .panic site) :=
  ⟨fun s h => ⟨Tw.Packet6.din_output_not_compressed t bytes cap s h, Tw.Packet6.two_step_ne_panic t bytes cap s h hint site⟩,
   fun h hcap => Tw.Packet6.two_step_ne_panic_plain t bytes cap h hcap hint site⟩

theorem v7_two_step_never_panics (t : Tw.Huffman.Table) (bytes : List UInt8) (cap : Nat) (site : String) :
    (∀ s, Tw.Packet7.decompressIfNeeded t bytes cap = .ok true s →
      Tw.Packet7.needsDecompression s = false ∧ Tw.Packet7.read t s none ≠ .panic site) ∧
    (Tw.Packet7.decompressIfNeeded t bytes cap = .ok false [] → Tw.Gen.Packet7.MAX_PACKETSIZE ≤ cap →
      Tw.Packet7.read t bytes none ≠ .panic site) :=
  ⟨fun s h => ⟨Tw.Packet7.din_output_not_compressed t bytes cap s h, Tw.Packet7.two_step_ne_panic t bytes cap s h site⟩,
   fun h hcap => Tw.Packet7.two_step_ne_panic_plain t bytes cap h hcap site⟩

/-- **0.6 two-step path returns what `Packet::read` returns.**  `ReadResult.value` is the packet or the
error of a result (warnings, slice location and scratch contents dropped: the header the first step writes
has lost `PacketHeaderPadding`/`ControlFlags`).  If `decompress_if_needed` decompressed the datagram into
`s`, not longer than a packet (always so with the documented `MAX_PACKETSIZE` buffer), then
`read_panic_on_decompression s` and `Packet::read bytes` have the same value; if nothing had to be
decompressed the two calls agree completely. -/
theorem v6_two_step_equals_read (t : Tw.Huffman.Table) (bytes : List UInt8) (cap : Nat) (hint : Option Bool) :
    (∀ s, Tw.Packet6.decompressIfNeeded t bytes cap = .ok true s → s.length ≤ Tw.Gen.Packet6.MAX_PACKETSIZE →
      (Tw.Packet6.read t s hint none).value = (Tw.Packet6.read t bytes hint (some cap)).value) ∧
    (Tw.Gen.Packet6.MAX_PACKETSIZE ≤ cap → Tw.Packet6.needsDecompression bytes = false →
      Tw.Packet6.read t bytes hint none = Tw.Packet6.read t bytes hint (some cap)) :=
  ⟨fun s h hs => Tw.Packet6.two_step_value t bytes cap s h hs hint,
   fun hcap hn => Tw.Packet6.read_none_eq_of_not_compressed t bytes hint cap hcap hn⟩

/-- with a buffer larger than a packet the first step can produce more than `MAX_PACKETSIZE` bytes; then
both paths refuse, under different names (`TooLong` / `Compression`) -/
theorem v6_two_step_oversized (t : Tw.Huffman.Table) (bytes : List UInt8) (cap : Nat) (s : List UInt8)
    (h : Tw.Packet6.decompressIfNeeded t bytes cap = .ok true s) (hs : s.length > Tw.Gen.Packet6.MAX_PACKETSIZE)
    (hint : Option Bool) :
    (Tw.Packet6.read t s hint none).value = some (.error .tooLong) ∧
    (Tw.Packet6.read t bytes hint (some cap)).value = some (.error .compression) :=
  Tw.Packet6.two_step_too_long t bytes cap s h hs hint

/-- **0.7 two-step path returns what `Packet::read` returns**, under the explicit hypothesis `hT`: the
token-request length rule (`tooShortRequest tok len`: header token `TOKEN_NONE` and `len < 519`) gives the
same verdict for the length of the datagram and for the length of the decompressed `s`. -/
theorem v7_two_step_equals_read (t : Tw.Huffman.Table) (bytes : List UInt8) (cap : Nat) (s : List UInt8)
    (h : Tw.Packet7.decompressIfNeeded t bytes cap = .ok true s) (hs : s.length ≤ Tw.Gen.Packet7.MAX_PACKETSIZE)
    (hT : Tw.Packet7.tooShortRequest (Tw.Packet7.headerOf bytes).1.token bytes.length ↔
      Tw.Packet7.tooShortRequest (Tw.Packet7.headerOf bytes).1.token s.length) :
    (Tw.Packet7.read t s none).value = (Tw.Packet7.read t bytes (some cap)).value :=
  Tw.Packet7.two_step_value t bytes cap s h hs hT

/-- **witness that `hT` is needed** (built-in table): the 76-byte datagram `14 00 00 ff ff ff ff` +
Huffman(`05 01 02 03 04 00…00`, 512 bytes) — a *compressed* token request — is refused by `Packet::read`
(`ControlTokenRequestTooShort`: the 519-byte anti-amplification rule looks at the wire length), but
`decompress_if_needed` expands it to exactly 519 bytes which `read_panic_on_decompression` accepts as
`Token(01020304)`.  This is a difference between two ways of *reading*; C06's re-writability clause is not
violated (the accepted value is written as a 519-byte request and read back unchanged,
`v7_accepted_is_rewritable`), so it is documented (notes/packet.md) rather than recorded as a C06 finding. -/
theorem v7_two_step_token_request_witness :
    ∃ s, Tw.Packet7.decompressIfNeeded Tw.Gen.Huffman.table
        (Tw.Packet7.compressedTokenRequest Tw.Gen.Huffman.table ⟨1, 2, 3, 4⟩) Tw.Gen.Packet7.MAX_PACKETSIZE = .ok true s ∧
      s.length = Tw.Gen.Packet7.TOKEN_REQUEST_PACKET_SIZE ∧
      (Tw.Packet7.read Tw.Gen.Huffman.table (Tw.Packet7.compressedTokenRequest Tw.Gen.Huffman.table ⟨1, 2, 3, 4⟩)
        (some Tw.Gen.Packet7.MAX_PACKETSIZE)).value = some (.error .controlTokenRequestTooShort) ∧
      (Tw.Packet7.read Tw.Gen.Huffman.table s none).value =
        some (.ok (.connected 0 Tw.Packet7.tokenNone (.control (.token ⟨1, 2, 3, 4⟩)))) := by
  refine Tw.Packet7.two_step_token_request_witness Tw.Gen.Huffman.table
    (fun xs cap h => Tw.Huffman.decompress_compress _ Tw.Huffman.wellFormed_table false xs cap h) ⟨1, 2, 3, 4⟩
    (by decide) ?_
  rw [Tw.Huffman.compress_length_false]
  decide +kernel

/-! ## every returned slice lies inside the input or the scratch buffer -/

/-- 0.6: for every accepted datagram the byte-slice field of the result (connless payload, chunk
payload, close reason) is exactly `length` bytes at offset `loc.off` of the buffer `loc.src` names
(`Tw.Packet6.ReadOk.Located`: `loc.off + length ≤ buffer.length` and the bytes agree), packets
without a slice field have no location, and at most `cap` bytes of the scratch buffer are used.
`HuffmanBounded` is C07's `decompress_bound` (table-independent). -/
theorem v6_read_slices_inside_buffers (t : Tw.Huffman.Table) (hb : Tw.Packet6.HuffmanBounded t)
    (bytes : List UInt8) (hint : Option Bool) (cap : Nat) (r : Tw.Packet6.ReadOk)
    (hr : Tw.Packet6.read t bytes hint (some cap) = .ok r) :
    r.Located bytes ∧ r.scratch.length ≤ cap :=
  Tw.Packet6.read_located t hb bytes hint cap r hr

theorem v7_read_slices_inside_buffers (t : Tw.Huffman.Table) (hb : Tw.Packet7.HuffmanBounded t)
    (bytes : List UInt8) (cap : Nat) (r : Tw.Packet7.ReadOk)
    (hr : Tw.Packet7.read t bytes (some cap) = .ok r) :
    r.Located bytes ∧ r.scratch.length ≤ cap :=
  Tw.Packet7.read_located t hb bytes cap r hr

/-- `ChunksIter` (both protocols): iterating any payload with any chunk count, every returned chunk's
data is exactly the `data.length` bytes at offset `off` of the payload and lies inside it
(`Chunk.Located`), and the iteration ends: each `Some` strictly shortens the remaining data, so the
fuel `payload.length + 1` of `Iter.drain` is never exhausted (fourth component `false`). -/
theorem chunks_iter_inside_payload_and_terminates (payload : List UInt8) (nc : Nat) :
    ((∀ ch ∈ ((Iter.new payload nc).drain Tw.Packet6.codec).1, ch.Located payload) ∧
      ((Iter.new payload nc).drain Tw.Packet6.codec).2.2.2 = false) ∧
    ((∀ ch ∈ ((Iter.new payload nc).drain Tw.Packet7.codec).1, ch.Located payload) ∧
      ((Iter.new payload nc).drain Tw.Packet7.codec).2.2.2 = false) :=
  ⟨Iter.drain_spec _ codec6_sane payload nc, Iter.drain_spec _ codec7_sane payload nc⟩

/-- one call of `next_warn` that returns a chunk strictly shortens the remaining data (progress) -/
theorem chunks_iter_progress (payload : List UInt8) (it : Iter) (hinv : it.Inv payload) (ch : Chunk)
    (ws : List Warning) (it' : Iter) :
    (it.next Tw.Packet6.codec = (some ch, ws, it') → it'.data.length < it.data.length ∧ ch.Located payload) ∧
    (it.next Tw.Packet7.codec = (some ch, ws, it') → it'.data.length < it.data.length ∧ ch.Located payload) :=
  ⟨fun h => let x := Iter.next_some _ codec6_sane payload it hinv ch ws it' h; ⟨x.2.1, x.2.2.1⟩,
   fun h => let x := Iter.next_some _ codec7_sane payload it hinv ch ws it' h; ⟨x.2.1, x.2.2.1⟩⟩

/-! ## whatever the reader accepts can be written again and is read back as the same value -/

/-- **0.6 re-writability**, full statement (no length band is excluded since the repair of D17): for
every byte string, hint and buffer mode, if `Packet::read` returns a packet (with whatever warnings)
then `Packet::write` of that value into any buffer of at least `MAX_PACKETSIZE` bytes succeeds and
`Packet::read` of the written bytes, told the value's token mode, returns the same value with
`expectedWarnings` (nothing, or `ChunksNoChunks` for an empty chunk packet without resend request). -/
theorem v6_accepted_is_rewritable (t : Tw.Huffman.Table) (hrt : Tw.Packet6.HuffmanRoundTrip t)
    (bytes : List UInt8) (hint : Option Bool) (buffer : Option Nat) (r : Tw.Packet6.ReadOk)
    (hr : Tw.Packet6.read t bytes hint buffer = .ok r) (cap scap : Nat)
    (hcap : Tw.Gen.Packet6.MAX_PACKETSIZE ≤ cap) (hs : Tw.Gen.Packet6.MAX_PACKETSIZE ≤ scap) :
    ∃ bs, Tw.Packet6.write t r.pkt cap = .ok bs ∧ bs.length ≤ Tw.Gen.Packet6.MAX_PACKETSIZE ∧
      ∃ r', Tw.Packet6.read t bs (some r.pkt.hasToken) (some scap) = .ok r' ∧ r'.pkt = r.pkt ∧
        r'.warns = Tw.Packet6.expectedWarnings r.pkt :=
  Tw.Packet6.read_rewritable t hrt bytes hint buffer r hr cap scap hcap hs

/-- **0.7 re-writability**, full statement (holds since the repairs of D17 and D25). -/
theorem v7_accepted_is_rewritable (t : Tw.Huffman.Table) (hrt : Tw.Packet7.HuffmanRoundTrip t)
    (bytes : List UInt8) (buffer : Option Nat) (r : Tw.Packet7.ReadOk)
    (hr : Tw.Packet7.read t bytes buffer = .ok r) (cap scap : Nat)
    (hcap : Tw.Gen.Packet7.MAX_PACKETSIZE ≤ cap) (hs : Tw.Gen.Packet7.MAX_PACKETSIZE ≤ scap) :
    ∃ bs, Tw.Packet7.write t r.pkt cap = .ok bs ∧ bs.length ≤ Tw.Gen.Packet7.MAX_PACKETSIZE ∧
      ∃ r', Tw.Packet7.read t bs (some scap) = .ok r' ∧ r'.pkt = r.pkt ∧
        r'.warns = Tw.Packet7.expectedWarnings r.pkt :=
  Tw.Packet7.read_rewritable t hrt bytes buffer r hr cap scap hcap hs

/-- the reader only returns values the writer's preconditions admit (the core of re-writability) -/
theorem accepted_is_valid (t : Tw.Huffman.Table) :
    (∀ bytes hint buffer r, Tw.Packet6.read t bytes hint buffer = .ok r → Tw.Packet6.Valid r.pkt) ∧
    (∀ bytes buffer r, Tw.Packet7.read t bytes buffer = .ok r → Tw.Packet7.Valid r.pkt) :=
  ⟨fun bytes hint buffer r h => Tw.Packet6.read_valid t bytes hint buffer r h,
   fun bytes buffer r h => Tw.Packet7.read_valid t bytes buffer r h⟩

-- non-vacuity: a connless datagram in the former D17 band (payload 1394 bytes) is accepted …
example : Tw.Packet6.read #[] (List.replicate 6 255 ++ List.replicate 1394 0) none (some 1400) =
    .ok { pkt := .connless (List.replicate 1394 0), warns := [], loc := some { src := .input, off := 6 },
          scratch := [] } :=
  Tw.Packet6.read_connless_eq _ _ _ 1400 (by decide) (by rw [List.length_replicate]; decide)
-- … and a small control packet computes
example : Tw.Packet6.read #[] [0x10, 0, 0, 4, 0x68, 0x69, 0] (some false) (some 1400) =
    .ok { pkt := .connected 0 none (.control (.close [0x68, 0x69])), warns := [],
          loc := some { src := .input, off := 4 }, scratch := [] } := by decide

-- non-vacuity: the precondition of the `read_panic_on_decompression` theorems is met by an
-- uncompressed packet and the statement computes; below the buffer precondition the model panics
example : Tw.Packet6.needsDecompression [0x10, 0, 0, 4] = false := by decide
example : Tw.Packet6.needsDecompression [0x80, 0, 0] = true := by decide
example : ∃ s, Tw.Packet6.read #[] [0x10, 0, 0, 4] none (some 1399) = .panic s := ⟨_, rfl⟩

/-! ## the drivers' evaluation of the reader

The correspondence drivers evaluate `readWith (Tw.Huffman.decompressFast table)` (the decoder carries the
remaining capacity instead of measuring the output per byte); these theorems make that the model's
`read` / `decompressIfNeeded`. -/

theorem v6_driver_evaluates_read (t : Tw.Huffman.Table) (bytes : List UInt8) (hint : Option Bool)
    (buffer : Option Nat) (cap : Nat) :
    Tw.Packet6.readWith (Tw.Huffman.decompressFast t) bytes hint buffer = Tw.Packet6.read t bytes hint buffer ∧
    Tw.Packet6.decompressIfNeededWith (Tw.Huffman.decompressFast t) bytes cap =
      Tw.Packet6.decompressIfNeeded t bytes cap :=
  ⟨Tw.Packet6.readWith_fast t bytes hint buffer, Tw.Packet6.decompressIfNeededWith_fast t bytes cap⟩

theorem v7_driver_evaluates_read (t : Tw.Huffman.Table) (bytes : List UInt8) (buffer : Option Nat) (cap : Nat) :
    Tw.Packet7.readWith (Tw.Huffman.decompressFast t) bytes buffer = Tw.Packet7.read t bytes buffer ∧
    Tw.Packet7.decompressIfNeededWith (Tw.Huffman.decompressFast t) bytes cap =
      Tw.Packet7.decompressIfNeeded t bytes cap :=
  ⟨Tw.Packet7.readWith_fast t bytes buffer, Tw.Packet7.decompressIfNeededWith_fast t bytes cap⟩

/-! ## C06 for the built-in table, without any hypothesis about the Huffman codec

`Tw.Huffman.wellFormed_table` (kernel `decide` on the regenerated table), `decompress_terminates`,
`decompress_bound`, `decompress_compress` of C07 discharge the three hypotheses. -/

theorem huffmanTerminates_table : HuffmanTerminates Tw.Gen.Huffman.table :=
  fun input cap => Tw.Huffman.decompress_terminates _ Tw.Huffman.wellFormed_table input cap

/-- **0.6, real table: the reader is total** — for every byte string, every hint and every scratch
buffer of at least `MAX_PACKETSIZE` bytes `Packet::read` returns `ok` or `err`: it neither panics nor
diverges. -/
theorem v6_read_total_table (bytes : List UInt8) (hint : Option Bool) (cap : Nat)
    (hcap : Tw.Gen.Packet6.MAX_PACKETSIZE ≤ cap) :
    (∃ r, Tw.Packet6.read Tw.Gen.Huffman.table bytes hint (some cap) = .ok r) ∨
    (∃ e ws, Tw.Packet6.read Tw.Gen.Huffman.table bytes hint (some cap) = .err e ws) := by
  have h1 := v6_read_never_panics Tw.Gen.Huffman.table bytes hint cap hcap
  have h2 := v6_read_terminates Tw.Gen.Huffman.table huffmanTerminates_table bytes hint (some cap)
  cases h : Tw.Packet6.read Tw.Gen.Huffman.table bytes hint (some cap) with
  | ok r => exact Or.inl ⟨r, rfl⟩
  | err e ws => exact Or.inr ⟨e, ws, rfl⟩
  | panic s => exact absurd h (h1 s)
  | diverge => exact absurd h h2

theorem v7_read_total_table (bytes : List UInt8) (cap : Nat) (hcap : Tw.Gen.Packet7.MAX_PACKETSIZE ≤ cap) :
    (∃ r, Tw.Packet7.read Tw.Gen.Huffman.table bytes (some cap) = .ok r) ∨
    (∃ e ws, Tw.Packet7.read Tw.Gen.Huffman.table bytes (some cap) = .err e ws) := by
  have h1 := v7_read_never_panics Tw.Gen.Huffman.table bytes cap hcap
  have h2 := v7_read_terminates Tw.Gen.Huffman.table huffmanTerminates_table bytes (some cap)
  cases h : Tw.Packet7.read Tw.Gen.Huffman.table bytes (some cap) with
  | ok r => exact Or.inl ⟨r, rfl⟩
  | err e ws => exact Or.inr ⟨e, ws, rfl⟩
  | panic s => exact absurd h (h1 s)
  | diverge => exact absurd h h2

/-- **0.6, real table: slices stay inside the buffers.** -/
theorem v6_read_slices_inside_buffers_table (bytes : List UInt8) (hint : Option Bool) (cap : Nat)
    (r : Tw.Packet6.ReadOk) (hr : Tw.Packet6.read Tw.Gen.Huffman.table bytes hint (some cap) = .ok r) :
    r.Located bytes ∧ r.scratch.length ≤ cap :=
  v6_read_slices_inside_buffers _ (fun i c o h => Tw.Huffman.decompress_bound _ i c o h) bytes hint cap r hr

theorem v7_read_slices_inside_buffers_table (bytes : List UInt8) (cap : Nat)
    (r : Tw.Packet7.ReadOk) (hr : Tw.Packet7.read Tw.Gen.Huffman.table bytes (some cap) = .ok r) :
    r.Located bytes ∧ r.scratch.length ≤ cap :=
  v7_read_slices_inside_buffers _ (fun i c o h => Tw.Huffman.decompress_bound _ i c o h) bytes cap r hr

/-- **0.6, real table: whatever the reader accepts can be written again and is read back unchanged.** -/
theorem v6_accepted_is_rewritable_table (bytes : List UInt8) (hint : Option Bool) (buffer : Option Nat)
    (r : Tw.Packet6.ReadOk) (hr : Tw.Packet6.read Tw.Gen.Huffman.table bytes hint buffer = .ok r)
    (cap scap : Nat) (hcap : Tw.Gen.Packet6.MAX_PACKETSIZE ≤ cap) (hs : Tw.Gen.Packet6.MAX_PACKETSIZE ≤ scap) :
    ∃ bs, Tw.Packet6.write Tw.Gen.Huffman.table r.pkt cap = .ok bs ∧ bs.length ≤ Tw.Gen.Packet6.MAX_PACKETSIZE ∧
      ∃ r', Tw.Packet6.read Tw.Gen.Huffman.table bs (some r.pkt.hasToken) (some scap) = .ok r' ∧
        r'.pkt = r.pkt ∧ r'.warns = Tw.Packet6.expectedWarnings r.pkt :=
  v6_accepted_is_rewritable _
    (fun xs c h => Tw.Huffman.decompress_compress _ Tw.Huffman.wellFormed_table false xs c h)
    bytes hint buffer r hr cap scap hcap hs

theorem v7_accepted_is_rewritable_table (bytes : List UInt8) (buffer : Option Nat)
    (r : Tw.Packet7.ReadOk) (hr : Tw.Packet7.read Tw.Gen.Huffman.table bytes buffer = .ok r)
    (cap scap : Nat) (hcap : Tw.Gen.Packet7.MAX_PACKETSIZE ≤ cap) (hs : Tw.Gen.Packet7.MAX_PACKETSIZE ≤ scap) :
    ∃ bs, Tw.Packet7.write Tw.Gen.Huffman.table r.pkt cap = .ok bs ∧ bs.length ≤ Tw.Gen.Packet7.MAX_PACKETSIZE ∧
      ∃ r', Tw.Packet7.read Tw.Gen.Huffman.table bs (some scap) = .ok r' ∧
        r'.pkt = r.pkt ∧ r'.warns = Tw.Packet7.expectedWarnings r.pkt :=
  v7_accepted_is_rewritable _
    (fun xs c h => Tw.Huffman.decompress_compress _ Tw.Huffman.wellFormed_table false xs c h)
    bytes buffer r hr cap scap hcap hs

end Tw.Props.C06
