import Tw.Model.Conn6
import Tw.Model.Conn7
import Tw.Proofs.Conn6
import Tw.Proofs.Conn7
import Tw.Proofs.ConnSeq
import Tw.Proofs.ConnWire6
import Tw.Proofs.ConnWire7
import Tw.Proofs.ConnTok7
import Tw.Proofs.RsConn
import Tw.Proofs.RsConn7

/-!
# C04 — everything the connection layer sends is well-formed; bad sends are refused

Model: `Tw/Model/Conn.lean` (shared online core), `Conn6.lean`, `Conn7.lean`, on *structured*
packets.  "Well-formed" at this level is `Packet.valid`: the datagram fits `MAX_PACKETSIZE` even
uncompressed, the header chunk count equals the number of chunks and is at most 255, every chunk
payload has a length the chunk header can express, an empty chunk packet carries the resend request
flag (no `ChunksNoChunks` warning), response tokens are not `TOKEN_NONE`.  That a valid structured
packet is written to bytes the reader parses back without warning is proved here by composing with the
packet codec's round trip (C05): `conn6_wire_roundtrip`, `conn6_wire_chunks`, `conn6_schedule_wire` and
the 0.7 counterparts (`Tw/Proofs/ConnWire6.lean`, `ConnWire7.lean`: the chunk iterator inverts the chunk
writer on the connection's chunk lists).  The chunk payloads are carried through the model as the very byte lists that were queued.

Schedules are arbitrary lists of calls, each with its own clock value and random draws; the only
hypothesis is `runPermitted`: each call is permitted by the API in the state it is made in.
-/
namespace Tw.Props.C04
open Tw.Conn

/-! ## Ties to the regenerated constants -/

/-- the constants shared by the two protocol files agree (the shared core uses the 0.6 names) -/
theorem tie_shared_constants :
    Tw.Gen.Conn.P6.MAX_PAYLOAD = Tw.Gen.Conn.P7.MAX_PAYLOAD ∧
    Tw.Gen.Conn.P6.MAX_PACKETSIZE = Tw.Gen.Conn.P7.MAX_PACKETSIZE ∧
    Tw.Gen.Conn.P6.CHUNK_HEADER_SIZE = Tw.Gen.Conn.P7.CHUNK_HEADER_SIZE ∧
    Tw.Gen.Conn.P6.CHUNK_HEADER_SIZE_VITAL = Tw.Gen.Conn.P7.CHUNK_HEADER_SIZE_VITAL ∧
    Tw.Gen.Conn.P6.SEQUENCE_MODULUS = Tw.Gen.Conn.P7.SEQUENCE_MODULUS ∧
    Tw.Gen.Conn.C6.arrayCap = Tw.Gen.Conn.C7.arrayCap ∧
    Tw.Gen.Conn.C6.resendTimeoutMs = Tw.Gen.Conn.C7.resendTimeoutMs ∧
    Tw.Gen.Conn.C6.sendTimeoutMs = Tw.Gen.Conn.C7.sendTimeoutMs := by decide

/-- the arithmetic side conditions the size proofs rest on: a full packet plus headers (and the 0.6
token) is exactly `MAX_PACKETSIZE`; the scratch buffers are large enough; `can_fit_chunk` tests the
chunk counter against `u8::MAX` (no integer literal in its body) -/
theorem tie_sizes :
    Tw.Gen.Conn.P6.HEADER_SIZE + (Tw.Gen.Conn.P6.MAX_PAYLOAD + Tw.Gen.Conn.P6.CHUNK_HEADER_SIZE_VITAL)
      + Tw.Gen.Conn.P6.TOKEN_SIZE = Tw.Gen.Conn.P6.MAX_PACKETSIZE ∧
    Tw.Gen.Conn.P7.HEADER_SIZE + (Tw.Gen.Conn.P7.MAX_PAYLOAD + Tw.Gen.Conn.P7.CHUNK_HEADER_SIZE_VITAL)
      = Tw.Gen.Conn.P7.MAX_PACKETSIZE ∧
    Tw.Gen.Conn.P6.MAX_PAYLOAD + Tw.Gen.Conn.P6.CHUNK_HEADER_SIZE_VITAL ≤ Tw.Gen.Conn.C6.arrayCap ∧
    Tw.Gen.Conn.P6.connlessMax + Tw.Gen.Conn.P6.HEADER_SIZE + Tw.Gen.Conn.P6.PADDING_SIZE_CONNLESS
      ≤ Tw.Gen.Conn.P6.MAX_PACKETSIZE ∧
    Tw.Gen.Conn.P7.connlessMax + Tw.Gen.Conn.P7.HEADER_SIZE_CONNLESS ≤ Tw.Gen.Conn.P7.MAX_PACKETSIZE ∧
    Tw.Gen.Conn.C6.lits_can_fit_chunk = [] ∧ Tw.Gen.Conn.C7.lits_can_fit_chunk = [] := by decide

/-! ## What `valid` means -/

/-- 0.6: a valid datagram is at most 1400 bytes; a chunk packet's count equals its number of chunks,
is at most 255, and every chunk payload is shorter than 1024 bytes -/
theorem valid6_spec (p : Tw.Conn6.Packet) (h : p.valid = true) :
    p.wireSize ≤ 1400 ∧
    ∀ ack tok rr n cs, p = .chunks ack tok rr n cs →
      n = cs.length ∧ cs.length ≤ 255 ∧ (∀ c ∈ cs, c.data.length < 1024) ∧ (n ≠ 0 ∨ rr = true) := by
  refine ⟨Tw.Conn6.valid_wire h, ?_⟩
  intro ack tok rr n cs hp
  subst hp
  simp only [Tw.Conn6.Packet.valid, Bool.and_eq_true, decide_eq_true_eq, List.all_eq_true,
    Bool.or_eq_true] at h
  refine ⟨h.1.1.1.2, h.1.1.2, ?_, h.2⟩
  intro c hc
  have := Tw.Conn6.cfg_ok _ (h.1.2 c hc)
  have h6 : (2 : Nat) ^ Tw.Gen.Conn.P6.CHUNK_SIZE_BITS = 1024 := rfl
  simp only [Tw.Conn6.cfg, h6] at this
  exact this

/-- 0.7: the same with payloads of at most 1390 bytes; response tokens are not `TOKEN_NONE` -/
theorem valid7_spec (p : Tw.Conn7.Packet) (h : p.valid = true) :
    p.wireSize ≤ 1400 ∧ p.writeOk = true ∧
    ∀ ack tok rr n cs, p = .chunks ack tok rr n cs →
      n = cs.length ∧ cs.length ≤ 255 ∧ (∀ c ∈ cs, c.data.length ≤ 1390) ∧ (n ≠ 0 ∨ rr = true) := by
  refine ⟨(Tw.Conn7.valid_wire h).1, (Tw.Conn7.valid_wire h).2, ?_⟩
  intro ack tok rr n cs hp
  subst hp
  simp only [Tw.Conn7.Packet.valid, Bool.and_eq_true, decide_eq_true_eq, List.all_eq_true,
    Bool.or_eq_true] at h
  refine ⟨h.1.1.1.2, h.1.1.2, ?_, h.2⟩
  intro c hc
  exact Tw.Conn7.cfg.accepts_le (h.1.2 c hc)

/-! ## No valid call panics, everything sent is valid (all schedules) -/

/-- **0.6, with and without token.**  From a fresh connection, every schedule of permitted calls runs
to completion — no call evaluates to a panic or a hang — and every datagram handed to the send
callback is valid. -/
theorem conn6_no_panic_all_valid (sched : List (Tw.Conn6.Env × Tw.Conn6.Op))
    (h : Tw.Conn6.runPermitted .new sched = true) :
    ∃ c outs, Tw.Conn6.run .new sched = .ok (c, outs) ∧ ∀ out ∈ outs, ∀ p ∈ out.sent, p.valid = true := by
  obtain ⟨c, outs, he, _, hv⟩ := Tw.Conn6.run_good sched .new Tw.Conn6.Conn.new_inv h
  exact ⟨c, outs, he, hv⟩

/-- the same from a connection created by `Connection::new_accept_token` -/
theorem conn6_accept_no_panic_all_valid (env : Tw.Conn6.Env) (tok : Nat)
    (sched : List (Tw.Conn6.Env × Tw.Conn6.Op))
    (h : Tw.Conn6.runPermitted (.newAcceptToken env tok) sched = true) :
    ∃ c outs, Tw.Conn6.run (.newAcceptToken env tok) sched = .ok (c, outs) ∧
      ∀ out ∈ outs, ∀ p ∈ out.sent, p.valid = true := by
  obtain ⟨c, outs, he, _, hv⟩ :=
    Tw.Conn6.run_good sched _ (Tw.Conn6.inv_online (Online.new_inv Tw.Conn6.cfg)) h
  exact ⟨c, outs, he, hv⟩

/-- **0.7.** -/
theorem conn7_no_panic_all_valid (sched : List (Tw.Conn7.Env × Tw.Conn7.Op))
    (h : Tw.Conn7.runPermitted .new sched = true) :
    ∃ c outs, Tw.Conn7.run .new sched = .ok (c, outs) ∧ ∀ out ∈ outs, ∀ p ∈ out.sent, p.valid = true := by
  obtain ⟨c, outs, he, _, hv⟩ := Tw.Conn7.run_good sched .new Tw.Conn7.Conn.new_inv h
  exact ⟨c, outs, he, hv⟩

/-! ## Bad sends are refused and leave the connection untouched; good ones are queued verbatim -/

/-- which payload lengths `send` accepts: below 1024 bytes in 0.6 (the 10-bit chunk size field), up to
`MAX_PAYLOAD` = 1390 in 0.7 -/
theorem accepts_iff (n : Nat) :
    (Tw.Conn6.cfg.accepts n = true ↔ n < 1024) ∧ (Tw.Conn7.cfg.accepts n = true ↔ n ≤ 1390) := by
  have h7 : Tw.Gen.Conn.P7.CHUNK_SIZE_BITS = 12 := rfl
  constructor
  · have h6 : (2 : Nat) ^ Tw.Gen.Conn.P6.CHUNK_SIZE_BITS = 1024 := rfl
    simp [Cfg.accepts, Tw.Conn6.cfg, maxPayload_eq, h6]; omega
  · simp [Cfg.accepts, Tw.Conn7.cfg, maxPayload_eq]

/-- `send` with an over-long payload returns `TooLongData`, sends nothing and returns the same
connection (both variants; any state satisfying the invariant, e.g. every reachable one) -/
theorem send_too_long_inert (cfg : Cfg) (o : Online) (now : Nat) (data : Bytes) (vital : Bool)
    (h : cfg.accepts data.length = false) : o.send cfg now data vital = .ok (o, .tooLongData, []) := by
  simp [Online.send, h]

/-- an accepted payload never fails and ends up, bit-identical, as the last queued chunk; if it did
not fit, exactly the previously queued packet is sent first -/
theorem send_queues_verbatim (cfg : Cfg) (hc : cfg.Ok) (o : Online) (hinv : o.Inv cfg) (now : Nat)
    (data : Bytes) (vital : Bool) (h : cfg.accepts data.length = true) :
    ∃ o' fl, o.send cfg now data vital = .ok (o', .ok, fl) ∧
      (∃ v, o'.packet.chunks.getLast? = some ⟨v, data⟩ ∧ v.isSome = vital) ∧
      (fl = [] ∨ fl = [⟨o.ack, o.requestResend, o.packet.numChunks, o.packet.chunks⟩]) := by
  rcases Online.send_spec hc hinv now data vital with ⟨h0, _⟩ | ⟨_, he⟩
  · rw [h] at h0; cases h0
  · refine ⟨_, _, he, ?_, ?_⟩
    · cases vital <;> simp [Online.queued]
    · by_cases hf : o.packet.canFit data.length vital = true
      · left; simp [hf]
      · simp only [hf, Bool.false_eq_true, if_false]
        unfold Online.flush
        split
        · left; rfl
        · right; rfl

/-- `flush` hands over exactly the queued chunks, in order, with the matching count -/
theorem flush_emits_queue (o : Online) :
    o.flush.2 = [] ∨ o.flush.2 = [⟨o.ack, o.requestResend, o.packet.numChunks, o.packet.chunks⟩] := by
  unfold Online.flush
  split
  · left; rfl
  · right; rfl

/-- the packet invariant behind all of this holds in every state a permitted schedule reaches
(0.6; the 0.7 statement is `Tw.Conn7.run_good`) -/
theorem conn6_invariant (sched : List (Tw.Conn6.Env × Tw.Conn6.Op))
    (h : Tw.Conn6.runPermitted .new sched = true) :
    ∃ c outs, Tw.Conn6.run .new sched = .ok (c, outs) ∧
      ∀ t o, c.state = .online t o →
        o.packet.numChunks = o.packet.chunks.length ∧ o.packet.chunks.length ≤ 255 ∧
        o.packet.size ≤ 1390 + 3 ∧ o.packetNonvital.chunks = o.packet.chunks.filter nonvital := by
  obtain ⟨c, outs, he, hinv, _⟩ := Tw.Conn6.run_good sched .new Tw.Conn6.Conn.new_inv h
  refine ⟨c, outs, he, ?_⟩
  intro t o hs
  have := hinv t o hs
  exact ⟨this.pn, this.cnt, this.size, this.nv⟩

/-! ## Sequence numbers stay in range; composition with the packet codec (C05) -/

/-- every ack and every chunk sequence number in every datagram sent, over every schedule (permitted
or not) that runs, is below `SEQUENCE_MODULUS` — with `valid` this is the packet writer's full
precondition -/
theorem conn6_all_sent_in_range (sched : List (Tw.Conn6.Env × Tw.Conn6.Op)) (c : Tw.Conn6.Conn)
    (outs : List Tw.Conn6.Out) (h : Tw.Conn6.run .new sched = .ok (c, outs)) :
    ∀ out ∈ outs, ∀ p ∈ out.sent, p.seqOk :=
  (Tw.Conn6.run_seq sched .new c outs Tw.Conn6.Conn.new_seqInv h).2

theorem conn7_all_sent_in_range (sched : List (Tw.Conn7.Env × Tw.Conn7.Op)) (c : Tw.Conn7.Conn)
    (outs : List Tw.Conn7.Out) (h : Tw.Conn7.run .new sched = .ok (c, outs)) :
    ∀ out ∈ outs, ∀ p ∈ out.sent, p.seqOk :=
  (Tw.Conn7.run_seq sched .new c outs Tw.Conn7.Conn.new_seqInv h).2

/-- **C04 ∘ C05 (0.6), per packet**: a structured packet that is `valid` and in range is written by
the packet model's `Packet::write` (into the connection's `MAX_PACKETSIZE` buffer) to at most
`MAX_PACKETSIZE` bytes which `Packet::read` — told whether the connection uses a token — parses back
to the same packet **without a single warning**, whichever way the compression choice went.
(`HuffmanRoundTrip t` is C07's theorem for the built-in table.) -/
theorem conn6_wire_roundtrip (t : Tw.Huffman.Table) (hrt : Tw.Packet6.HuffmanRoundTrip t)
    (p : Tw.Conn6.Packet) (hv : p.valid = true) (hs : p.seqOk) :
    ∃ bs, Tw.Packet6.write t (Tw.Wire6.toWire p) Tw.Gen.Packet6.MAX_PACKETSIZE = .ok bs ∧
      bs.length ≤ Tw.Gen.Packet6.MAX_PACKETSIZE ∧
      ∃ r, Tw.Packet6.read t bs (some (Tw.Wire6.toWire p).hasToken) (some Tw.Gen.Packet6.MAX_PACKETSIZE) = .ok r ∧
        r.pkt = Tw.Wire6.toWire p ∧ r.warns = [] := by
  obtain ⟨hval, hw⟩ := Tw.Wire6.toWire_valid p hv hs (Tw.Wire6.closeOk_of_valid p hv)
  obtain ⟨bs, h1, h2, r, h3, h4, h5⟩ :=
    Tw.Packet6.write_read_roundtrip t hrt (Tw.Wire6.toWire p) hval _ _ (Nat.le_refl _) (Nat.le_refl _)
  exact ⟨bs, h1, h2, r, h3, h4, by rw [h5, hw]⟩

/-- … and the chunk iterator over the payload of a chunk packet yields exactly the queued chunks —
the header count equals their number, every payload is bit-identical, vital / sequence / resend flag
are preserved — again without a warning -/
theorem conn6_wire_chunks (ack : Nat) (tok : Option Nat) (rr : Bool) (n : Nat) (cs : List Chunk)
    (hv : (Tw.Conn6.Packet.chunks ack tok rr n cs).valid = true) (hs : (Tw.Conn6.Packet.chunks ack tok rr n cs).seqOk) :
    n = cs.length ∧
    ∃ chs it, Tw.Packet.Iter.drain Tw.Packet6.codec (Tw.Packet.Iter.new (Tw.Wire6.encChunks cs) n) = (chs, [], it, false) ∧
      chs.map Tw.Wire6.proj = cs.map Tw.Wire6.projC := by
  have hn : n = cs.length := (valid6_spec _ hv).2 ack tok rr n cs rfl |>.1
  refine ⟨hn, ?_⟩
  rw [hn]
  exact Tw.Wire6.drain_encChunks cs (Tw.Wire6.chunkEnc_of_valid hv hs)

/-- the bytes of one queued chunk are what the code's `write_chunk` appends to the packet buffer -/
theorem conn6_write_chunk_bytes (c : Chunk) (cap : Nat) (acc : List UInt8) (hl : c.data.length < 1024)
    (hs : ∀ s r, c.vital = some (s, r) → s < 1024) (hcap : acc.length + (Tw.Wire6.encChunk c).length ≤ cap) :
    Tw.Packet6.writeChunk c.data c.vital cap acc = .ok (acc ++ Tw.Wire6.encChunk c) :=
  Tw.Wire6.writeChunk_enc c cap acc hl hs hcap

/-- **C04 ∘ C05 (0.6), over schedules**: for every schedule of permitted calls from a fresh
connection, every datagram handed to the send callback is — on the byte level of the packet model —
at most 1400 bytes long and parsed back by the library's reader to the same packet without a warning -/
theorem conn6_schedule_wire (t : Tw.Huffman.Table) (hrt : Tw.Packet6.HuffmanRoundTrip t)
    (sched : List (Tw.Conn6.Env × Tw.Conn6.Op)) (h : Tw.Conn6.runPermitted .new sched = true) :
    ∃ c outs, Tw.Conn6.run .new sched = .ok (c, outs) ∧ ∀ out ∈ outs, ∀ p ∈ out.sent,
      ∃ bs, Tw.Packet6.write t (Tw.Wire6.toWire p) Tw.Gen.Packet6.MAX_PACKETSIZE = .ok bs ∧ bs.length ≤ 1400 ∧
        ∃ r, Tw.Packet6.read t bs (some (Tw.Wire6.toWire p).hasToken) (some Tw.Gen.Packet6.MAX_PACKETSIZE) = .ok r ∧
          r.pkt = Tw.Wire6.toWire p ∧ r.warns = [] := by
  obtain ⟨c, outs, he, hv⟩ := conn6_no_panic_all_valid sched h
  refine ⟨c, outs, he, ?_⟩
  intro out ho p hp
  exact conn6_wire_roundtrip t hrt p (hv out ho p hp) (conn6_all_sent_in_range sched c outs he out ho p hp)

/-- **C04 ∘ C05 (0.7), per packet** (response tokens of `Connect` / `Token` packets are 32-bit values —
the model's tokens are natural numbers, `Wire7.tokRange`) -/
theorem conn7_wire_roundtrip (t : Tw.Huffman.Table) (hrt : Tw.Packet7.HuffmanRoundTrip t)
    (p : Tw.Conn7.Packet) (hv : p.valid = true) (hs : p.seqOk) (ht : Tw.Wire7.tokRange p) :
    ∃ bs, Tw.Packet7.write t (Tw.Wire7.toWire p) Tw.Gen.Packet7.MAX_PACKETSIZE = .ok bs ∧
      bs.length ≤ Tw.Gen.Packet7.MAX_PACKETSIZE ∧
      ∃ r, Tw.Packet7.read t bs (some Tw.Gen.Packet7.MAX_PACKETSIZE) = .ok r ∧
        r.pkt = Tw.Wire7.toWire p ∧ r.warns = [] := by
  obtain ⟨hval, hw⟩ := Tw.Wire7.toWire_valid p hv hs ht
  obtain ⟨bs, h1, h2, r, h3, h4, h5⟩ :=
    Tw.Packet7.write_read_roundtrip t hrt (Tw.Wire7.toWire p) hval _ _ (Nat.le_refl _) (Nat.le_refl _)
  exact ⟨bs, h1, h2, r, h3, h4, by rw [h5, hw]⟩

theorem conn7_wire_chunks (ack tok : Nat) (rr : Bool) (n : Nat) (cs : List Chunk)
    (hv : (Tw.Conn7.Packet.chunks ack tok rr n cs).valid = true) (hs : (Tw.Conn7.Packet.chunks ack tok rr n cs).seqOk) :
    n = cs.length ∧
    ∃ chs it, Tw.Packet.Iter.drain Tw.Packet7.codec (Tw.Packet.Iter.new (Tw.Wire7.encChunks cs) n) = (chs, [], it, false) ∧
      chs.map Tw.Wire7.proj = cs.map Tw.Wire7.projC := by
  have hn : n = cs.length := (valid7_spec _ hv).2.2 ack tok rr n cs rfl |>.1
  refine ⟨hn, ?_⟩
  rw [hn]
  exact Tw.Wire7.drain_encChunks cs (Tw.Wire7.chunkEnc_of_valid hv hs)

/-- **C04 ∘ C05 (0.7), over schedules**: for every schedule of permitted calls from a fresh connection
whose random draws are 32-bit values (`secure_random` fills four bytes; the model's draws are natural
numbers — `Env.drawsOk`, token-range invariant `Tw/Proofs/ConnTok7.lean` by builder `connc01`), every
datagram handed to the send callback is written to at most 1400 bytes that the reader parses back
to the same packet without a warning -/
theorem conn7_schedule_wire (t : Tw.Huffman.Table) (hrt : Tw.Packet7.HuffmanRoundTrip t)
    (sched : List (Tw.Conn7.Env × Tw.Conn7.Op)) (h : Tw.Conn7.runPermitted .new sched = true)
    (hd : ∀ eo ∈ sched, eo.1.drawsOk) :
    ∃ c outs, Tw.Conn7.run .new sched = .ok (c, outs) ∧ ∀ out ∈ outs, ∀ p ∈ out.sent,
      ∃ bs, Tw.Packet7.write t (Tw.Wire7.toWire p) Tw.Gen.Packet7.MAX_PACKETSIZE = .ok bs ∧ bs.length ≤ 1400 ∧
        ∃ r, Tw.Packet7.read t bs (some Tw.Gen.Packet7.MAX_PACKETSIZE) = .ok r ∧
          r.pkt = Tw.Wire7.toWire p ∧ r.warns = [] := by
  obtain ⟨c, outs, he, hv⟩ := conn7_no_panic_all_valid sched h
  refine ⟨c, outs, he, ?_⟩
  intro out ho p hp
  exact conn7_wire_roundtrip t hrt p (hv out ho p hp) (conn7_all_sent_in_range sched c outs he out ho p hp)
    (Tw.Conn7.conn7_all_sent_tokRange sched c outs hd he out ho p hp)

-- the byte form of the chunk the repository's own tests send (`\x40\x01\x01\x42`: vital, sequence 1, one byte)
example : Tw.Wire6.encChunks [⟨some (1, false), [0x42]⟩] = [0x40, 0x01, 0x01, 0x42] := by decide
example : Tw.Wire7.encChunks [⟨some (1, false), [0x42]⟩] = [0x40, 0x01, 0x01, 0x42] := by decide
example : (Tw.Conn6.Packet.chunks 5 (some 0x12345678) false 1 [⟨some (1, false), [0x42]⟩]).valid = true := by decide

/-! ## Non-vacuity: concrete permitted schedules, and the statement computes -/

/-- a client: connect, accept, queue 300 empty non-vital chunks (more than a `u8` counts — the input
that made the unrepaired code overflow), a 1023-byte vital chunk, flush, tick, disconnect -/
def demo6 : List (Tw.Conn6.Env × Tw.Conn6.Op) :=
  [({ now := 0 }, .connect),
   ({ now := 1 }, .feed fun _ => some (.control 0 (some 0x12345678) .connectAccept))] ++
  (List.replicate 300 ({ now := 2 }, Tw.Conn6.Op.send [] false)) ++
  [({ now := 3 }, .send (List.replicate 1023 7) true),
   ({ now := 4 }, .send (List.replicate 1024 7) true),
   ({ now := 5 }, .flush),
   ({ now := 2000000 }, .tick),
   ({ now := 2000001 }, .disconnect [98, 121, 101])]

example : Tw.Conn6.runPermitted .new
    ((demo6.map fun eo => ({ eo.1 with draws := [1] }, eo.2))) = true := by decide +kernel

def demo7 : List (Tw.Conn7.Env × Tw.Conn7.Op) :=
  [({ now := 0, draws := [0xffffffff, 5] }, .connect),
   ({ now := 1, draws := [1] }, .feed (some (.control 0 5 (.token 9)))),
   ({ now := 2, draws := [1] }, .feed (some (.control 0 5 .accept))),
   ({ now := 3 }, .send (List.replicate 1390 7) true),
   ({ now := 4 }, .send (List.replicate 1391 7) true),
   ({ now := 1500000 }, .tick),
   ({ now := 1500001 }, .disconnect [])]

example : Tw.Conn7.runPermitted .new demo7 = true := by decide +kernel

/-! ## Function-level tie: `can_fit_chunk` / `chunk_header_size`, translated by `tools/rs2lean`

`Tw.Gen.RsConn.*` is regenerated from `net/src/connection.rs` / `protocol.rs` on every run. -/

theorem tie_rs_chunk_header_size (vital : Bool) :
    Tw.Gen.RsConn.chunk_header_size vital = .ok (chunkHeaderSize vital) :=
  Tw.RsConn.chunk_header_size_eq vital

/-- representation map: the model's `PacketContents` with `numChunks = num_chunks` and
`size = data.len()`; the `usize` sums do not overflow for lengths that exist; `num_chunks` is a
`u8` in the Rust (`hu8`) -/
theorem tie_rs_can_fit_chunk (p : Tw.Gen.RsConn.PacketContents) (data : List UInt8) (vital : Bool)
    (q : PacketContents) (hn : q.numChunks = p.num_chunks) (hs : q.size = p.data.length)
    (hlen : p.data.length + 3 + data.length < 2 ^ 64) (hu8 : p.num_chunks < 256) :
    Tw.Gen.RsConn.PacketContents.can_fit_chunk p data vital = .ok (q.canFit data.length vital) :=
  Tw.RsConn.can_fit_chunk_eq p data vital q hn hs hlen hu8

example : (PacketContents.empty).numChunks = (⟨0, []⟩ : Tw.Gen.RsConn.PacketContents).num_chunks ∧
    (PacketContents.empty).size = (⟨0, []⟩ : Tw.Gen.RsConn.PacketContents).data.length := by decide

/-! The same for the 0.7 twins of `net/src/connection7.rs` / `protocol7.rs` (`Tw.Gen.RsConn7.*`). -/

theorem tie_rs7_chunk_header_size (vital : Bool) :
    Tw.Gen.RsConn7.chunk_header_size vital = .ok (chunkHeaderSize vital) :=
  Tw.RsConn7.chunk_header_size_eq vital

theorem tie_rs7_can_fit_chunk (p : Tw.Gen.RsConn7.PacketContents) (data : List UInt8) (vital : Bool)
    (q : PacketContents) (hn : q.numChunks = p.num_chunks) (hs : q.size = p.data.length)
    (hlen : p.data.length + 3 + data.length < 2 ^ 64) (hu8 : p.num_chunks < 256) :
    Tw.Gen.RsConn7.PacketContents.can_fit_chunk p data vital = .ok (q.canFit data.length vital) :=
  Tw.RsConn7.can_fit_chunk_eq p data vital q hn hs hlen hu8

end Tw.Props.C04
