import Tw.Proofs.NetLazy
import Tw.Proofs.NetC01Final
import Tw.Proofs.NetC01Total
import Tw.Proofs.NetFault

/-!
# C20 — the multi-peer endpoint keeps peers isolated

Model: `Tw.Net` (`net/src/net.rs` over the 0.6 connection model `Tw.Conn6`).  Specification side:
`Tw.Net.refStep` / `refRun` (`Model/NetRef.lean`): one address, one slot, one independent `Conn6`
connection driven by the projected history.  Hypothesis of the property: no address has two live
peers at once, i.e. `Net::connect` is not called for an address that has a peer (`histOk`); nothing
else can give an address a second peer (that is part of `invariant_along_histories`).
-/
namespace Tw.Props.C20
open Tw.Net Tw.Conn Tw.Time
open Tw.Conn6 (Env Packet TOKEN_NONE)

/-! ## ties to the source literals -/

/-- the canned packets `Net::accept` feeds: the token-less one is a prefix of the other, which adds
`TKEN` and the "no token yet" token -/
theorem tie_connect_packets :
    Tw.Gen.Net.CONNECT_PACKET = Tw.Gen.Net.CONNECT_PACKET_NO_TOKEN ++ [84, 75, 69, 78] ++ Tw.Gen.Conn.P6.TOKEN_NONE
    ∧ cannedToken = TOKEN_NONE := by decide

/-- the peer id counter: starts at 0, steps by 1, wraps at 2^32 -/
theorem tie_peer_id_counter :
    Tw.Gen.Net.firstPeerId = 0 ∧ Tw.Gen.Net.peerIdStep = 1 ∧ idMod = 4294967296 := by decide

/-! ## invariants, by induction over histories -/

/-- **Live peer ids are pairwise distinct and no address has two peers**, after every history of
endpoint operations that respects the hypothesis, from a fresh endpoint (server or client). -/
theorem invariant_along_histories (acc : Bool) (h : History) (net' : Net) (outs : List (Ret × Out))
    (hok : histOk (Net.new acc) h = true) (hr : run (Net.new acc) h = .ok (net', outs)) :
    (pids net'.peers).Nodup ∧ (addrs net'.peers).Nodup := by
  have key : ∀ (h : History) (net net' : Net) (outs : List (Ret × Out)), PInv net.peers →
      histOk net h = true → run net h = .ok (net', outs) → PInv net'.peers := by
    intro h
    induction h with
    | nil => intro net net' outs hi _ hr; simp [run] at hr; rw [← hr.1]; exact hi
    | cons x xs ih =>
      obtain ⟨env, op⟩ := x
      intro net net' outs hi hok hr
      simp only [run] at hr
      simp only [histOk, Bool.and_eq_true] at hok
      cases hst : step env net op with
      | error f => simp [hst] at hr
      | ok v =>
        obtain ⟨net1, r, o⟩ := v
        simp only [hst] at hr hok
        cases hrest : run net1 xs with
        | error f => simp [hrest] at hr
        | ok w =>
          obtain ⟨net2, outs2⟩ := w
          simp only [hrest, Except.ok.injEq, Prod.mk.injEq] at hr
          rw [← hr.1]
          exact ih net1 net2 outs2 (step_sim hi hok.1 hst).1 hok.2 hrest
  have := key h (Net.new acc) net' outs ⟨by simp [Net.new, pids], by simp [Net.new, addrs]⟩ hok hr
  exact ⟨this.pid, this.addr⟩

/-- one step keeps the invariant (the induction step of the theorem above, for any state) -/
theorem invariant_step (env : Env) (net net' : Net) (op : Op) (r : Ret) (o : Out)
    (hi : PInv net.peers) (hok : opOk net op = true) (hs : step env net op = .ok (net', r, o)) :
    PInv net'.peers := (step_sim hi hok hs).1

/-- **Lookup correctness of the linear map**: under the invariant, the peer `pid_from_addr` finds
for an address is the peer `peers[pid]` finds for its id, and vice versa. -/
theorem lookup_correct (ps : Peers) (hi : PInv ps) (a pid : Nat) (p : Peer) :
    slot ps a = some (pid, p) ↔ (lookup ps pid = some p ∧ p.addr = a) := by
  constructor
  · intro h; exact ⟨slot_lookup hi h, (slot_mem h).2⟩
  · rintro ⟨h, rfl⟩; exact lookup_slot hi h

/-- `pid_from_addr` is the id in the address's slot -/
theorem pid_from_addr_correct (ps : Peers) (a : Nat) : pidFromAddr ps a = (slot ps a).map (·.1) :=
  pidFromAddr_eq ps a

/-- a fresh peer never gets an id that is in use -/
theorem fresh_id_not_live (net net1 : Net) (addr pid : Nat) (tok : Bool)
    (h : newPeer net addr tok = .ok (net1, pid)) : lookup net.peers pid = none := (newPeer_ok h).2.1

/-! ## isolation: one step -/

/-- **Isolation, one call.**  In a state satisfying the invariant, a call that returns acts on the
slot of *every* address `a` as follows: if the call concerns `a` (datagram from `a`, `connect` /
`send_connless` to `a`, API call on the id of `a`'s peer, tick) then the new slot, the return value
and everything the call emitted for `a` are exactly what the single-address reference computes from
`a`'s old slot alone; otherwise `a`'s slot is unchanged and nothing at all is emitted for `a`. -/
theorem isolation_step (env : Env) (net net' : Net) (op : Op) (r : Ret) (o : Out) (a : Nat)
    (hi : PInv net.peers) (hok : opOk net op = true) (hs : step env net op = .ok (net', r, o)) :
    match projOp net a op with
    | some lop => refStep net.acceptConnections a env (slot net.peers a) lop = .ok (slot net'.peers a, r, o.for a)
    | none => slot net'.peers a = slot net.peers a ∧ o.for a = {} :=
  (step_sim hi hok hs).2.2 a

/-- **Datagrams (and events, warnings) go only to the address the call concerns.** -/
theorem datagrams_only_to_concerned (env : Env) (net net' : Net) (op : Op) (r : Ret) (o : Out)
    (hi : PInv net.peers) (hok : opOk net op = true) (hs : step env net op = .ok (net', r, o))
    (b : Nat) (pkt : Packet) (hm : (b, pkt) ∈ o.sent) : (projOp net b op).isSome = true := by
  have := (step_sim hi hok hs).2.2 b
  unfold StepFor at this
  cases hp : projOp net b op with
  | some lop => rfl
  | none =>
    simp only [hp] at this
    have hf : (o.for b).sent = [] := by rw [this.2]
    simp only [Out.for, List.filter_eq_nil_iff] at hf
    have := hf (b, pkt) hm
    simp at this

/-- **No failure of its own.**  A call of the endpoint panics or fails to return only if it names
a peer id that is not live (`peers[pid]`: "invalid pid"), or the single-address reference fails in
exactly the same way on the projected call (its connection's own panic sites, the state assertions
of `accept` / `reject` / `disconnect`, the id allocator with all 2^32 ids in use).  (Before the
repair of D22 `Net::accept` could panic where the reference does not: `d22_legacy_witness`.) -/
theorem failures_are_the_references (env : Env) (net : Net) (op : Op) (f : Fail)
    (hi : PInv net.peers) (hok : opOk net op = true) (hs : step env net op = .error f) :
    invalidPid net op = true ∨
      ∃ a lop, projOp net a op = some lop ∧
        refStep net.acceptConnections a env (slot net.peers a) lop = .error f :=
  step_err hi hok hs

/-- **`accept` of a pending peer always succeeds** (given a usable random source when the client
asked for a token): it sends exactly one datagram — `ConnectAccept`, to the peer's address — and
the peer's connection is then `Pending` with the 500 ms timer armed.  In particular the endpoint's
own assertions in `Net::accept` cannot fire for a peer that was announced by `Connect(pid)` and not
yet accepted or rejected, whatever datagrams arrived in between (`pending_peer_not_answered`). -/
theorem accept_of_pending_peer_succeeds (env : Env) (net : Net) (pid : Nat) (p : Peer)
    (hi : PInv net.peers) (hl : lookup net.peers pid = some p) (hp : p.conn.state = .unconnected)
    (hd : p.token = true → Tw.Conn6.tokenRandom env.draws ≠ none) :
    ∃ net' t, step env net (.accept pid) =
        .ok (net', .unit, { sent := [(p.addr, Packet.control 0 t .connectAccept)] }) ∧
      slot net'.peers p.addr = some (pid, { p with conn := ⟨.pending t, Timeout.after env.now sendUs⟩ }) ∧
      (p.token = false → t = none) ∧ (p.token = true → t = Tw.Conn6.tokenRandom env.draws) :=
  accept_pending hi hl hp hd

/-! ## isolation: histories (the refinement) -/

/-- **Refinement.**  For every history `h` that respects the hypothesis, from any state satisfying
the invariant, and every address `a`: the endpoint's trace restricted to `a` (`runFor`: per call the
return value if the call concerns `a`, and the datagrams / events / warnings tagged `a`) is the
trace of the independent single-address reference on the projected history `h|a`, and the
reference ends in `a`'s slot (in particular with the same connection state, hence the same
per-peer deadline `Conn.needsTick`). -/
theorem refinement (a : Nat) (h : History) (net net' : Net) (tr : List (Ret × Out))
    (hi : PInv net.peers) (hok : histOk net h = true) (hr : runFor a net h = .ok (net', tr)) :
    refRun net.acceptConnections a (slot net.peers a) (projHist a net h) = .ok (slot net'.peers a, tr) :=
  (run_sim a h net net' tr hi hok hr).2

/-- the refinement from a fresh endpoint -/
theorem refinement_from_new (acc : Bool) (a : Nat) (h : History) (net' : Net) (tr : List (Ret × Out))
    (hok : histOk (Net.new acc) h = true) (hr : runFor a (Net.new acc) h = .ok (net', tr)) :
    refRun acc a none (projHist a (Net.new acc) h) = .ok (slot net'.peers a, tr) :=
  (run_sim a h (Net.new acc) net' tr ⟨by simp [Net.new, pids], by simp [Net.new, addrs]⟩ hok hr).2

/-- `runFor a` is the run of the endpoint with every output restricted to `a`: same final state,
and the outputs are the `Out.for a` parts of the real outputs -/
theorem runFor_is_restriction (a : Nat) (h : History) (net net' : Net) (outs : List (Ret × Out))
    (hr : run net h = .ok (net', outs)) :
    ∃ tr, runFor a net h = .ok (net', tr) ∧ tr.map (·.2) = outs.map (fun ro => ro.2.for a) := by
  induction h generalizing net net' outs with
  | nil => simp [run] at hr; obtain ⟨h1, h2⟩ := hr; subst h1 h2; exact ⟨[], by simp [runFor], rfl⟩
  | cons x xs ih =>
    obtain ⟨env, op⟩ := x
    simp only [run] at hr
    cases hst : step env net op with
    | error f => simp [hst] at hr
    | ok v =>
      obtain ⟨net1, r, o⟩ := v
      simp only [hst] at hr
      cases hrest : run net1 xs with
      | error f => simp [hrest] at hr
      | ok w =>
        obtain ⟨net2, outs2⟩ := w
        simp only [hrest, Except.ok.injEq, Prod.mk.injEq] at hr
        obtain ⟨tr, h1, h2⟩ := ih net1 net2 outs2 hrest
        refine ⟨_, by simp only [runFor, hst, h1]; rw [hr.1], ?_⟩
        rw [← hr.2]; simp [h2]

/-! ## results that are not drained -/

/-- **A `ReceivePacket` that is dropped half-way** (the application pulled `k` events): everything
`Net::feed` does — the connection's state including the advanced `ack`, the removal of the peer on a
`Disconnect`, the datagrams sent, the warnings — is done, exactly as if the result had been drained;
the application has seen a prefix of the events and the rest is lost to it (vital chunks among them
are acknowledged and will not be resent: draining is the application's obligation, H3 of C01). -/
theorem undrained_receive_packet (env : Env) (net net' : Net) (a : Nat) (rd : Option Bool → Option Packet)
    (k : Nat) (r : Ret) (o' : Out) (h : stepLazy env net (.feed a rd) (some k) = .ok (net', r, o')) :
    ∃ o, step env net (.feed a rd) = .ok (net', r, o) ∧ o'.sent = o.sent ∧ o'.warns = o.warns ∧
      o'.events = o.events.take k := by
  simp only [stepLazy] at h
  cases hs : step env net (.feed a rd) with
  | error f => simp [hs] at h
  | ok v =>
    obtain ⟨n, r0, o⟩ := v
    simp only [hs, Except.ok.injEq, Prod.mk.injEq] at h
    obtain ⟨h1, h2, h3⟩ := h
    subst h1 h2 h3
    exact ⟨o, rfl, rfl, rfl, rfl⟩

/-- **A `Tick` that is never polled does nothing** (no peer ticks, nothing is sent, no deadline
moves); polled at least once it is the drained tick, because the first `next()` runs through all
peers when `Callback::send` cannot fail. -/
theorem unpolled_tick (env : Env) (net : Net) (k : Nat) :
    stepLazy env net .tick (some 0) = .ok (net, .unit, {}) ∧
    stepLazy env net .tick (some (k + 1)) = step env net .tick ∧
    stepLazy env net .tick none = step env net .tick := ⟨rfl, rfl, rfl⟩

/-- **Histories with partly consumed results**: same final state, same datagrams, same warnings as
the drained history (unpolled ticks removed); the events the application saw are a sub-sequence of
the drained run's.  So every theorem of this file about `run` / `runFor` (`refinement`,
`invariant_along_histories`, …) speaks about such applications too, through `drainedHist`. -/
theorem lazy_histories (lh : LHistory) (net net' : Net) (outs' : List (Ret × Out))
    (h : runLazy net lh = .ok (net', outs')) :
    ∃ outs, run net (drainedHist lh) = .ok (net', outs) ∧ allSent outs' = allSent outs ∧
      allWarns outs' = allWarns outs ∧ (allEvents outs').Sublist (allEvents outs) :=
  runLazy_drained lh net net' outs' h

/-! ## unknown addresses -/

/-- **From an address without a peer, only a connect request on an accepting endpoint creates a
(pending) peer; a connless payload is delivered; everything else yields one warning and nothing
else.  Nothing is ever sent.** -/
theorem unknown_address (env : Env) (net net' : Net) (a : Nat) (rd : Option Bool → Option Packet)
    (r : Ret) (o : Out) (hi : PInv net.peers) (hs : slot net.peers a = none)
    (hf : feed env net a rd = .ok (net', r, o)) :
    o.sent = [] ∧
    ((∃ ack tok pid, rd none = some (.control ack tok .connect) ∧ net.acceptConnections = true ∧
        lookup net.peers pid = none ∧ net'.peers = net.peers ++ [(pid, Peer.new a tok.isSome)] ∧
        o.events = [(a, .connect pid)] ∧ o.warns = []) ∨
     (∃ d, rd none = some (.connless d) ∧ net' = net ∧ o.events = [(a, .connless a none d)] ∧ o.warns = []) ∨
     (∃ w, net' = net ∧ o.events = [] ∧ o.warns = [(a, .connless a w)])) := by
  have _ := hi
  unfold feed at hf
  rw [pidFromAddr_eq, hs] at hf
  simp only [Option.map_none] at hf
  unfold feedUnknown at hf
  split at hf
  · simp only [Except.ok.injEq, Prod.mk.injEq] at hf
    obtain ⟨h1, _, h3⟩ := hf
    subst h1 h3
    exact ⟨rfl, Or.inr (Or.inr ⟨.read, rfl, rfl, rfl⟩)⟩
  · rename_i d hrd
    simp only [Except.ok.injEq, Prod.mk.injEq] at hf
    obtain ⟨h1, _, h3⟩ := hf
    subst h1 h3
    exact ⟨rfl, Or.inr (Or.inl ⟨d, hrd, rfl, rfl, rfl⟩)⟩
  · rename_i ack tok hrd
    simp only [Bool.false_eq_true, if_false] at hf
    split at hf
    · rename_i hacc
      split at hf
      · simp at hf
      · rename_i net1 pid hnp
        simp only [Except.ok.injEq, Prod.mk.injEq] at hf
        obtain ⟨h1, _, h3⟩ := hf
        subst h1 h3
        obtain ⟨_, hlk, hps, _⟩ := newPeer_ok hnp
        exact ⟨rfl, Or.inl ⟨ack, tok, pid, hrd, hacc, hlk, hps, rfl, rfl⟩⟩
    · simp only [Except.ok.injEq, Prod.mk.injEq] at hf
      obtain ⟨h1, _, h3⟩ := hf
      subst h1 h3
      exact ⟨rfl, Or.inr (Or.inr ⟨.unexpected, rfl, rfl, rfl⟩)⟩
  · simp only [Except.ok.injEq, Prod.mk.injEq] at hf
    obtain ⟨h1, _, h3⟩ := hf
    subst h1 h3
    exact ⟨rfl, Or.inr (Or.inr ⟨.unexpected, rfl, rfl, rfl⟩)⟩

/-- **A peer that is pending acceptance is never answered**: while its connection is still
`Unconnected`, a datagram from its address sends nothing, leaves the peer table alone and creates
no second peer (the repaired D22). -/
theorem pending_peer_not_answered (env : Env) (net net' : Net) (a pid : Nat) (p : Peer)
    (rd : Option Bool → Option Packet) (r : Ret) (o : Out) (hi : PInv net.peers)
    (hs : slot net.peers a = some (pid, p)) (hp : p.conn.state = .unconnected)
    (hf : feed env net a rd = .ok (net', r, o)) : o.sent = [] ∧ net' = net := by
  unfold feed at hf
  rw [pidFromAddr_eq, hs] at hf
  simp only [Option.map_some, slot_lookup hi hs, hp, if_true] at hf
  unfold feedUnknown at hf
  split at hf
  · simp only [Except.ok.injEq, Prod.mk.injEq] at hf; exact ⟨by rw [← hf.2.2], hf.1.symm⟩
  · simp only [Except.ok.injEq, Prod.mk.injEq] at hf; exact ⟨by rw [← hf.2.2], hf.1.symm⟩
  · simp only [if_true, Except.ok.injEq, Prod.mk.injEq] at hf; exact ⟨by rw [← hf.2.2], hf.1.symm⟩
  · simp only [Except.ok.injEq, Prod.mk.injEq] at hf; exact ⟨by rw [← hf.2.2], hf.1.symm⟩

/-- … nor does it do anything on a tick: the connection of a peer that was announced and not yet
accepted is untouched and sends nothing, and its deadline is inactive.  Together with
`pending_peer_not_answered`, `unknown_address` (a new peer starts as `Peer.new`) and
`isolation_step` (calls for other addresses do not touch the slot): nothing is sent to a client
before the application accepts or rejects it. -/
theorem pending_peer_silent_on_tick (env : Env) (net net' : Net) (r : Ret) (o : Out) (a pid : Nat)
    (tok : Bool) (hi : PInv net.peers) (hs : slot net.peers a = some (pid, Peer.new a tok))
    (ht : step env net .tick = .ok (net', r, o)) :
    slot net'.peers a = some (pid, Peer.new a tok) ∧ o.for a = {} ∧
      (Peer.new a tok).conn.needsTick = .inactive :=
  ⟨(pending_silent_on_tick hi hs ht).1, (pending_silent_on_tick hi hs ht).2, rfl⟩

/-- **Nothing is sent to a client between `Connect(pid)` and the application's decision.**  From
a state in which `a`'s peer has just been announced (`Peer.new`, the state `unknown_address` creates),
along every history respecting the hypothesis that contains no API call on `pid` and no
`send_connless` to `a` — whatever datagrams arrive from `a` or anybody else, whatever happens to
other peers, however many ticks — the peer stays exactly as announced and not a single datagram is
addressed to `a`. -/
theorem silent_until_decided (a pid : Nat) (tok : Bool) (h : History) (net net' : Net)
    (outs : List (Ret × Out)) (hi : PInv net.peers) (hok : histOk net h = true)
    (hs : slot net.peers a = some (pid, Peer.new a tok))
    (hq : ∀ x ∈ h, quietFor a pid x.2 = true) (hr : run net h = .ok (net', outs)) :
    slot net'.peers a = some (pid, Peer.new a tok) ∧ ∀ ro ∈ outs, ∀ pkt, (a, pkt) ∉ ro.2.sent := by
  obtain ⟨h1, h2⟩ := pending_run a pid tok h net net' outs hi hok hs hq hr
  refine ⟨h1, fun ro hro pkt hm => ?_⟩
  have := h2 ro hro
  simp only [Out.for, List.filter_eq_nil_iff] at this
  have := this (a, pkt) hm
  simp at this

/-! ## a peer is gone after it was disconnected by either side -/

/-- after `disconnect` / `reject` / `ignore` the peer id is absent and its address unknown again -/
theorem gone_after_close (env : Env) (net net' : Net) (pid : Nat) (p : Peer) (reason : Bytes)
    (r : Ret) (o : Out) (hi : PInv net.peers) (hl : lookup net.peers pid = some p)
    (hs : step env net (.disconnect pid reason) = .ok (net', r, o) ∨
          step env net (.reject pid reason) = .ok (net', r, o) ∨
          step env net (.ignore pid) = .ok (net', r, o)) :
    lookup net'.peers pid = none ∧ slot net'.peers p.addr = none := by
  have key : ∀ f, removePeer net pid f = .ok (net', r, o) →
      lookup net'.peers pid = none ∧ slot net'.peers p.addr = none := by
    intro f h
    obtain ⟨p', hl', _, hgone, _, _, h3⟩ := removePeer_sim hi h
    rw [hl] at hl'
    cases hl'
    have := h3 p.addr
    simp only [if_true, slotRemove, lookup_slot hi hl] at this
    split at this
    · simp at this
    · simp only [Except.ok.injEq, Prod.mk.injEq] at this
      exact ⟨hgone, this.1.symm⟩
  rcases hs with h | h | h
  · exact key _ h
  · exact key _ h
  · exact key (fun _ => .ok {}) h

/-- after the endpoint reported `Disconnect(pid, _)` the peer id is absent and the address unknown -/
theorem gone_after_disconnect_event (env : Env) (net net' : Net) (a pid : Nat)
    (rd : Option Bool → Option Packet) (reason : Bytes) (r : Ret) (o : Out) (hi : PInv net.peers)
    (hf : feed env net a rd = .ok (net', r, o)) (he : (a, NEvent.disconnect pid reason) ∈ o.events) :
    lookup net'.peers pid = none ∧ slot net'.peers a = none := by
  obtain ⟨hi', _, hoth, href⟩ := feed_sim hi hf
  have hmem : (a, NEvent.disconnect pid reason) ∈ (o.for a).events :=
    List.mem_filter.2 ⟨he, by simp⟩
  obtain ⟨hnone, p, hs⟩ := ref_dgram_disconnect href hmem
  exact ⟨lookup_none_of_slot_emptied hi hi' hs hnone (fun b hb => (hoth b hb).1), hnone⟩

/-! ## the deadline -/

/-- **`Net::needs_tick` is the minimum over the peers**: not later than any peer's deadline, and
equal to one of them (inactive when there is no peer). -/
theorem needs_tick_is_min (net : Net) :
    (∀ e ∈ net.peers, Timeout.le net.needsTick e.2.conn.needsTick = true) ∧
    ((net.peers = [] ∧ net.needsTick = .inactive) ∨ ∃ e ∈ net.peers, net.needsTick = e.2.conn.needsTick) :=
  ⟨needsTick_le net, needsTick_attained net⟩

/-! ## the id allocator -/

/-- `Peers::new_peer` returns (does not spin forever) whenever fewer than 2^32 peers are live -/
theorem new_peer_terminates (net : Net) (addr : Nat) (tok : Bool) (hn : net.nextPeerId < idMod)
    (hlen : net.peers.length < idMod) : ∃ net1 pid, newPeer net addr tok = .ok (net1, pid) :=
  newPeer_ok_of_room net addr tok hn hlen

/-- … in particular in every state reachable from a fresh endpoint -/
theorem new_peer_terminates_reachable (acc : Bool) (h : History) (net' : Net) (outs : List (Ret × Out))
    (hr : run (Net.new acc) h = .ok (net', outs)) (hlen : net'.peers.length < idMod)
    (addr : Nat) (tok : Bool) : ∃ net1 pid, newPeer net' addr tok = .ok (net1, pid) :=
  newPeer_ok_of_room net' addr tok
    (run_next_lt h (Net.new acc) net' outs (by show Tw.Gen.Net.firstPeerId < idMod; decide) hr) hlen

/-! ## composition with C01: reliable delivery through the endpoint -/

/-- **C20 ∘ C01.**  One endpoint, one remote 0.6 connection at address `addr`, C01's adversarial
network between them (any datagram either side ever sent to the other is delivered at any time, any
number of times, in any order, or never), while the endpoint serves any other addresses and peers
in any interleaving (`Tw.NetC01`, `Model/NetC01.lean`; scope: the first peer `addr` ever gets; no
datagram with source `addr` that the remote did not send).  If the image of the schedule in the
two-connection world of C01 is admissible there (C01's H1/H2: fewer than 512 unacknowledged vital
chunks, no datagram delayed across 1024 sequence numbers), then

* the vital chunks the endpoint handed to its application for the peer at `addr` are a **prefix of
  what the remote's connection submitted** — nothing skipped, duplicated, reordered or altered —,
* the vital chunks the remote's connection delivered are a prefix of what `Net::send` accepted for
  that peer, and
* the ghost history C01 speaks about is the endpoint's real history of datagrams to `addr`.

Proof: the per-address simulation of this file (`isolation_step` through `step_sim` / `feed_sim`)
identifies the endpoint's peer with the connection `b` of C01's world move by move — `Net::accept`
with the delivery of the client's own connect request, which is the canned packet because every
connect request a connection writes is `control 0 TOKEN_NONE connect` —, then `C01_conn6`. -/
theorem vital_chunks_through_net (tl acc : Bool) (addr : Nat) (sched : List Tw.NetC01.NMove)
    (w : Tw.NetC01.NW tl)
    (hrun : Tw.NetC01.nwRun addr (Tw.NetC01.NW.init tl acc) sched = some w)
    (hok : Tw.NetC01.nwOk addr (Tw.NetC01.NW.init tl acc) sched = true)
    (hadm : Tw.NetSim.admissible (Tw.NetSim.World.init (Tw.NetSim.proto6 tl))
      (Tw.NetC01.ghostSched addr (Tw.NetC01.NW.init tl acc) sched) = true) :
    w.netVital <+: w.g.a.submittedVital ∧ w.g.a.deliveredVital <+: Tw.NetSim.vitalOf w.netSub ∧
      w.netOut = w.g.b.out.map (·.pkt) :=
  Tw.NetC01.net_c01 tl acc addr sched w hrun hok hadm

/-- the coupling behind it, for any run: the connection object of the endpoint's peer at `addr` *is*
the connection `b` of the ghost world, and the ghost's logs are the endpoint's -/
theorem net_peer_is_c01_connection (tl acc : Bool) (addr : Nat) (sched : List Tw.NetC01.NMove)
    (w : Tw.NetC01.NW tl)
    (hrun : Tw.NetC01.nwRun addr (Tw.NetC01.NW.init tl acc) sched = some w)
    (hok : Tw.NetC01.nwOk addr (Tw.NetC01.NW.init tl acc) sched = true) :
    (∀ pid p, slot w.net.peers addr = some (pid, p) → p.conn = w.g.b.conn) ∧
      w.netVital = w.g.b.deliveredVital ∧ w.netSub = w.g.b.submitted ∧
      Tw.NetSim.run (Tw.NetSim.World.init (Tw.NetSim.proto6 tl))
        (Tw.NetC01.ghostSched addr (Tw.NetC01.NW.init tl acc) sched) = some w.g := by
  have hc := Tw.NetC01.coup_run sched _ w (Tw.NetC01.coup_init tl acc addr) hok hrun
  exact ⟨fun pid p h => (hc.conn pid p h).1, hc.vital, hc.sub, Tw.NetC01.ghost_run sched _ w hrun⟩

/-- the ghost world never ends a run of the composite world: in a coupled state a move fails only
if the endpoint's own call fails (or its datagram does not exist / the call is outside the world's
alphabet), or the address would get a second peer, or it is a move of the remote (whose own call or
delivery may fail) -/
theorem composite_run_ends_for_real_reasons (tl : Bool) (addr : Nat) (w : Tw.NetC01.NW tl)
    (m : Tw.NetC01.NMove) (hc : Tw.NetC01.Coup addr w)
    (hok : ∀ d op, m = .net d op → opOk w.net op = true) (h : Tw.NetC01.nwStep addr w m = none) :
    Tw.NetC01.realStep tl addr w m = none ∨
      (∃ net1 r o, Tw.NetC01.realStep tl addr w m = some (net1, r, o) ∧
        (Tw.NetC01.created addr w net1 && w.born) = true) ∨
      ((∃ d c, m = .remCall d c) ∨ ∃ i d alt, m = .toRemote i d alt) :=
  Tw.NetC01.nwStep_none hc hok h

example : (Tw.NetC01.nwRun 1 (Tw.NetC01.NW.init false true) Tw.NetC01.demoRun).map Tw.NetC01.summary =
    some ([[7], [8]], [([5], true)], [[7], [8]], [[5]]) := by rfl
example : Tw.NetC01.nwOk 1 (Tw.NetC01.NW.init false true) Tw.NetC01.demoRun = true := by decide
example : Tw.NetSim.admissible (Tw.NetSim.World.init (Tw.NetSim.proto6 false))
    (Tw.NetC01.ghostSched 1 (Tw.NetC01.NW.init false true) Tw.NetC01.demoRun) = true := by decide

/-! ## non-vacuity, and the history of D22 -/

example : histOk (Net.new true) exampleHistory = true := by decide
example : finalPeers (run (Net.new true) exampleHistory) = some ([2], [3]) := by decide
example : PInv (Net.new true).peers := ⟨by simp [Net.new, pids], by simp [Net.new, addrs]⟩

example : ∀ x ∈ exampleHistory.take 2, quietFor 1 0 x.2 = true := by decide

/-- **D22 (repaired), witness in the model of the old code**: with `Net::feed` as it was, the
history "connect request, the client's retransmission, accept" answers the retransmission (a
datagram is sent although the application has not accepted the peer) and `Net::accept` then
panics.  With the repaired `feed` the same history runs (`exampleHistory` starts with it). -/
theorem d22_legacy_witness :
    ∃ net1 net2 o1 o2,
      legacyStep { now := 0 } (Net.new true) (.feed 1 (connectReq true)) = .ok (net1, .unit, o1) ∧
      legacyStep { now := 0, draws := [0x01020304] } net1 (.feed 1 (connectReq true)) = .ok (net2, .unit, o2) ∧
      o2.sent ≠ [] ∧
      legacyStep { now := 0, draws := [0x01020304] } net2 (.accept 0) =
        .error (.panic "accept: assert is_unconnected") := by
  refine ⟨_, _, _, _, rfl, rfl, by decide, by decide⟩

/-! ## `Callback::send` fails (`Model/NetFault.lean`: `stepF`, armed faults per destination) -/

/-- **A peer is gone after the application ended it, whatever the callback answered**: after
`disconnect` / `reject` / `ignore` under any armed send faults — in particular when the `send` of the
close datagram returns `Err` — the peer id is absent and the address is unknown again. -/
theorem gone_after_close_even_if_send_fails (env : Env) (net net' : Net) (arms arms' : Arms)
    (pid : Nat) (p : Peer) (reason : Bytes) (r : Ret) (o : Out) (x : List (Nat × Packet))
    (hi : PInv net.peers) (hl : lookup net.peers pid = some p)
    (hs : stepF env net arms (.disconnect pid reason) = .ok (net', r, o, x, arms') ∨
          stepF env net arms (.reject pid reason) = .ok (net', r, o, x, arms') ∨
          stepF env net arms (.ignore pid) = .ok (net', r, o, x, arms')) :
    lookup net'.peers pid = none ∧ slot net'.peers p.addr = none := by
  rcases hs with h | h | h
  · obtain ⟨o0, h0⟩ := stepF_state env net net' arms arms' _ r o x
      (fun a => (fromResend_close env net pid reason a).1) h
    exact gone_after_close env net net' pid p reason r o0 hi hl (.inl h0)
  · obtain ⟨o0, h0⟩ := stepF_state env net net' arms arms' _ r o x
      (fun a => (fromResend_close env net pid reason a).2.1) h
    exact gone_after_close env net net' pid p reason r o0 hi hl (.inr (.inl h0))
  · obtain ⟨o0, h0⟩ := stepF_state env net net' arms arms' _ r o x
      (fun a => (fromResend_close env net pid reason a).2.2) h
    exact gone_after_close env net net' pid p reason r o0 hi hl (.inr (.inr h0))

/-- **A failed send changes nothing but the datagram**: a call that does not run the retransmission
loop (every call except `tick` with a due retransmission and `feed` of a resend request) ends, under
any armed send faults, in exactly the state and with the return value of the same call with an
infallible `send`. -/
theorem failed_send_is_a_lost_datagram (env : Env) (net net' : Net) (arms arms' : Arms) (op : Op)
    (r : Ret) (o : Out) (x : List (Nat × Packet)) (hc : ∀ a, fromResend env net op a = false)
    (h : stepF env net arms op = .ok (net', r, o, x, arms')) :
    ∃ o0, step env net op = .ok (net', r, o0) :=
  stepF_state env net net' arms arms' op r o x hc h

/-- non-vacuity: a pending peer at address 1 is rejected while the next `send` to 1 fails — the close
datagram is not sent (it is the reported failure), the armed fault is used up, no peer is left -/
example :
    (match step { now := 0 } (Net.new true) (.feed 1 (connectReq true)) with
     | .ok (net1, _, _) =>
       (match stepF { now := 0 } net1 [(1, 1)] (.reject 0 [98]) with
        | .ok (net2, _, o, x, arms) => net2.peers.isEmpty && o.sent.isEmpty && x.length == 1 && arms.isEmpty
        | .error _ => false)
     | .error _ => false) = true := by decide

end Tw.Props.C20
