import Tw.Model.Net

/-! # C20 — the multi-peer endpoint keeps peers isolated -/
namespace Tw.Props.C20
open Tw.Net Tw.Conn6

/-- the canned packets `Net::accept` feeds: the token-less one is a prefix of the other, which adds
`TKEN` and the "no token yet" token -/
theorem tie_connect_packets :
    Tw.Gen.Net.CONNECT_PACKET = Tw.Gen.Net.CONNECT_PACKET_NO_TOKEN ++ [84, 75, 69, 78] ++ Tw.Gen.Conn.P6.TOKEN_NONE
    ∧ cannedToken = TOKEN_NONE := by decide

end Tw.Props.C20
