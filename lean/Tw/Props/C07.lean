import Tw.Model.Huffman
import Tw.Proofs.Huffman
import Tw.Proofs.HuffmanDec
import Tw.Proofs.HuffmanTable
import Tw.Proofs.HuffmanRefC
import Tw.Proofs.HuffmanRefD
import Tw.Proofs.HuffmanStream
import Tw.Model.HuffmanFreq
import Tw.Proofs.HuffmanFreq
import Tw.Proofs.HuffmanFreqInner
import Tw.Proofs.HuffmanFreqLeaf
import Tw.Proofs.HuffmanRefTree
import Tw.Gen.Huffman

/-!
# C07 — the Huffman codec is lossless, bounded and agrees with the reference

Property theorems only.  Model: `Tw/Model/Huffman.lean` (spec-form compressor, bit-serial
decompressor), `Tw/Model/HuffmanStream.lean` (the compressor in the form of the Rust code),
`Tw/Model/HuffmanRef.lean` (the C++ reference), `Tw/Model/HuffmanFreq.lean` (`from_frequencies`).
The model is tied to `huffman/src/lib.rs` by the `huffman` correspondence domain and by the
regenerated table / literal ties below.  All general theorems are for an arbitrary table `t` with
`WellFormed t` (decidable); the built-in table satisfies it (`table_wellFormed`).
-/
namespace Tw.Props.C07
open Tw.Huffman

/-! ## ties to the source -/

/-- The constants of `huffman/src/lib.rs` are the ones the model was written against. -/
theorem tie_consts :
    Tw.Gen.Huffman.EOF = EOF ∧ Tw.Gen.Huffman.NUM_SYMBOLS = NUM_SYMBOLS
      ∧ Tw.Gen.Huffman.NUM_NODES = NUM_NODES ∧ Tw.Gen.Huffman.ROOT_IDX = ROOT_IDX
      ∧ Tw.Gen.Huffman.numNodesInSource = NUM_NODES := by decide

/-- The integer constants of `to_symbol_repr` / `to_node` (mask `0xff`, shifts 16 and 8, limit 24, the
child indices 0 and 1), of the compressor (byte width 8, increments, `EOF`) and of the decompressor
(`ROOT_IDX`, `EOF`, the zero byte that continues a finished input), as sorted sets of the significant numbers (0 and 1 dropped) with file-level
constants resolved and closures / new private helpers counted once per call site — insensitive to
reordering, renaming and to the extraction of a repeated statement, sensitive to any changed, added or
removed constant. -/
theorem tie_literals :
    Tw.Gen.Huffman.lits_to_symbol_repr = [8, 16, 255]
      ∧ Tw.Gen.Huffman.lits_to_node = [8, 16, 24]
      ∧ Tw.Gen.Huffman.lits_compress_impl_unsafe = [8, 256]
      ∧ Tw.Gen.Huffman.lits_decompress_unsafe = [256, 512] := by decide

/-- The built-in table (regenerated from `huffman/src/instances/teeworlds.rs` on every run) is
well-formed: 513 entries; every inner node's children have smaller indices and differ; every
symbol's stored `(bits, len)` has `0 < len ≤ 24`, `bits < 2^len`, and walking those bits from the
root reaches exactly that leaf without meeting a leaf earlier.  Kernel-evaluated. -/
theorem table_wellFormed : WellFormed Tw.Gen.Huffman.table := wellFormed_table

/-! ## (1) lossless -/

/-- Decompressing what was compressed returns the original bytes, for the compact form
(`bug = false`) and the reference-compatible form (`bug = true`), into every buffer that can hold
the original. -/
theorem roundtrip (t : Table) (h : WellFormed t) (bug : Bool) (xs : List UInt8) (cap : Nat)
    (hcap : xs.length ≤ cap) : decompress t (compress t bug xs) cap = .ok xs :=
  decompress_compress t h bug xs cap hcap

/-- … in particular for the built-in table. -/
theorem roundtrip_builtin (bug : Bool) (xs : List UInt8) :
    decompress Tw.Gen.Huffman.table (compress Tw.Gen.Huffman.table bug xs) xs.length = .ok xs :=
  decompress_compress _ wellFormed_table bug xs _ (Nat.le_refl _)

/-- The `Vec` API (`libtw2_huffman::decompress(&compress(xs))`, which reserves `8 * input.len()`
bytes and turns both errors into `InvalidInput`) returns the original for every input. -/
theorem roundtrip_vec (t : Table) (h : WellFormed t) (bug : Bool) (xs : List UInt8) :
    decompressVec t (compress t bug xs) = some xs := decompressVec_compress t h bug xs

/-- `InvalidInput` from the `Vec` API means exactly: the decoded bytes do not fit into `8 * len`
(a runaway decompression); there is no other failure. -/
theorem decompressVec_invalid_iff (t : Table) (h : WellFormed t) (input : List UInt8) :
    decompressVec t input = none ↔ decompress t input (8 * input.length) = .capacity :=
  decompressVec_none_iff t h input

/-! ## (2) the predicted length is exact -/

theorem compressedLen_exact (t : Table) (xs : List UInt8) :
    (compress t false xs).length = compressedLen t xs := compress_length_false t xs

theorem compressedLenBug_exact (t : Table) (xs : List UInt8) :
    (compress t true xs).length = compressedLenBug t xs := compress_length_true t xs

theorem compressedLen_differ_by_at_most_one (t : Table) (xs : List UInt8) :
    compressedLen t xs ≤ compressedLenBug t xs ∧ compressedLenBug t xs ≤ compressedLen t xs + 1 :=
  compressedLen_le_bug t xs

/-- the reference-compatible form is the compact form plus one zero byte exactly when the bit stream
fills its last byte -/
theorem compress_bug_is_compress_plus_zero (t : Table) (xs : List UInt8) :
    compress t true xs =
      compress t false xs ++ (if (compress t false xs).length * 8 = compressedBitLen t xs then [0] else []) :=
  compress_bug_eq t xs

/-- `compress_into_vec` (the public `compress`) reserves `3 * len + 3` bytes and unwraps the result:
the reservation always suffices, so it never panics. -/
theorem compress_vec_never_panics (t : Table) (h : WellFormed t) (xs : List UInt8) :
    compressInto t false xs (3 * xs.length + 3) = some (compress t false xs) := by
  have := compressedLen_le_vec t h xs
  simp only [compressInto, compress_length_false]
  rw [if_pos this]

/-- compression into a buffer succeeds exactly when the predicted length fits -/
theorem compressInto_iff (t : Table) (xs : List UInt8) (cap : Nat) :
    (compressInto t false xs cap = some (compress t false xs) ↔ compressedLen t xs ≤ cap)
      ∧ (compressInto t true xs cap = some (compress t true xs) ↔ compressedLenBug t xs ≤ cap) := by
  simp only [compressInto, compress_length_false, compress_length_true]
  constructor <;> (split <;> simp_all)

/-- The compressor in the form of the Rust code (`compress_impl_unsafe`: one `u8` under construction,
first partial byte / whole bytes / remainder per symbol, every `output.next().ok_or(())?`) computes
exactly the spec form used above: the same bytes when they fit into `cap`, the capacity error
otherwise, and none of its `u8`/`u32` overflow sites is reached. -/
theorem streaming_compressor_eq_spec (t : Table) (h : WellFormed t) (bug : Bool) (xs : List UInt8)
    (cap : Nat) :
    compressStreamInto t bug xs cap =
      if (compress t bug xs).length ≤ cap then .ok (compress t bug xs) else .capacity :=
  compressStreamInto_eq t h bug xs cap

theorem streaming_compressor_no_panic (t : Table) (h : WellFormed t) (bug : Bool) (xs : List UInt8)
    (cap : Nat) : compressStreamInto t bug xs cap ≠ .panic := by
  rw [compressStreamInto_eq t h bug xs cap]; split <;> simp

/-! ## (3) the decoder is total and bounded -/

/-- On every input and for every capacity the decoder terminates within its fuel (the model's
`diverge` outcome is impossible) … -/
theorem decompress_total (t : Table) (h : WellFormed t) (input : List UInt8) (cap : Nat) :
    decompress t input cap ≠ .diverge := decompress_terminates t h input cap

/-- … never produces more than `cap` bytes (for any table) … -/
theorem decompress_within_capacity (t : Table) (input : List UInt8) (cap : Nat) (out : List UInt8)
    (h : decompress t input cap = .ok out) : out.length ≤ cap := decompress_bound t input cap out h

/-- … its result at a smaller capacity is the result at a larger one, cut down: the same bytes if
they fit, the capacity error otherwise … -/
theorem decompress_capacity_cut (t : Table) (h : WellFormed t) (input : List UInt8) (cap' cap : Nat)
    (hc : cap' ≤ cap) : decompress t input cap' = (decompress t input cap).trunc cap' :=
  decompress_trunc t h input cap' cap hc

/-- … and it reports the capacity error exactly when the decoded bytes do not fit: every
successful decoding of this input (at whatever capacity) is longer than `cap`. -/
theorem decompress_capacity_iff (t : Table) (h : WellFormed t) (input : List UInt8) (cap : Nat) :
    decompress t input cap = .capacity ↔
      ∀ cap' out, decompress t input cap' = .ok out → cap < out.length :=
  Tw.Huffman.decompress_capacity_iff t h input cap

/-- `decompressFast` (the remaining capacity carried along instead of `out.length` at every byte) is a
faster evaluation of the same function, for every table, input and capacity — for drivers whose sweeps
are dominated by runaway decodings into large buffers. -/
theorem decompressFast_is_decompress (t : Table) (input : List UInt8) (cap : Nat) :
    decompressFast t input cap = decompress t input cap := decompressFast_eq t input cap

/-! ## (4) agreement with the C++ reference (`huffman.cpp`, modelled in `Tw/Model/HuffmanRef.lean`) -/

/-- The reference-compatible output is byte-identical to what `CHuffman::Compress` writes (32-bit
bit buffer, final byte written unconditionally), for every input. -/
theorem compress_bug_eq_reference (t : Table) (h : WellFormed t) (xs : List UInt8) :
    compress t true xs = refCompress t xs := (refCompress_eq_compress_bug t h xs).symm

/-- … also as a function of the buffer size (the reference returns -1 iff the bytes do not fit). -/
theorem compress_bug_into_eq_reference (t : Table) (h : WellFormed t) (xs : List UInt8) (cap : Nat) :
    compressInto t true xs cap = refCompressInto t xs cap := by
  simp only [compressInto, refCompressInto, refCompress_eq_compress_bug t h xs]

/-- Whenever `CHuffman::Decompress` (10-bit lookup table, 32-bit bit buffer whose `unsigned
Bitcount` wraps around at the end of the input, "no more bits" error below the table) decodes an
input successfully into a buffer of `cap` bytes, this decoder returns the same bytes.  `LutOk t`
(decidable) says that a symbol the lookup table finds has `m_NumBits` equal to the depth at which it
was found; `fuel` bounds the iterations of the reference's loop (running out of it is not `ok`). -/
theorem reference_decodes_implies_same (t : Table) (h : WellFormed t) (hl : LutOk t) (fuel : Nat)
    (input : List UInt8) (cap : Nat) (out : List UInt8)
    (hr : refDecompress t fuel input cap = .ok out) : decompress t input cap = .ok out :=
  refDecompress_agrees t h hl fuel input cap out hr

/-- The built-in table satisfies `LutOk` (kernel-evaluated over all 1024 table entries). -/
theorem table_lutOk : LutOk Tw.Gen.Huffman.table := lutOk_table

/-- The converse fails — the reference rejects truncated streams this decoder completes with zero
bits (doc/huffman.md) — so the implication above is all the property asks for: concretely, the
documentation's example without its last byte. -/
theorem reference_is_stricter_witness :
    refDecompress Tw.Gen.Huffman.table 9 [0xb1, 0x08, 0x2a, 0x6e] 7 = .error
      ∧ decompress Tw.Gen.Huffman.table [0xb1, 0x08, 0x2a, 0x6e] 7 = .ok [0, 1, 0, 2, 0, 0x80, 0] := by
  decide +kernel

/-! ## tables built from arbitrary frequency vectors -/

/-- The full statement for `Huffman::from_frequencies`: every vector of 256 `u32` frequencies yields a
table (to which all of the above then applies, see `fromFrequencies_tables_partial`).  **Not
provable**: `from_frequencies` panics when the Huffman tree is deeper than 24 (open finding D16,
e.g. all-zero frequencies — model and implementation both `panic` on the replay in
`corpus/huffman/finding-d16.txt`; `C07_full_witness`). -/
def C07_full : Prop :=
  ∀ f : List Nat, f.length = 256 → (∀ x ∈ f, x < 2 ^ 32) →
    ∃ t, fromFrequencies f = .ok t ∧ WellFormed t ∧ LutOk t

/-- The counterexample in the model (D16): on the all-zero frequency vector every merge has
frequency 0, the stable sort keeps the newest parent last, the tree is a chain of depth 256 and the
25th push onto the 24-entry stack is the `ArrayVec` capacity panic.  Proved symbolically (the kernel
cannot evaluate 256 sorts of 257 elements in reasonable time). -/
theorem fromFrequencies_allzero_witness :
    fromFrequencies (List.replicate 256 0)
      = .panic "stack.push: ArrayVec capacity (code longer than 24 bits)" :=
  fromFrequencies_zero_panics

/-- … hence the full statement is false in the model (as it is in the implementation). -/
theorem C07_full_witness : ¬ C07_full := by
  intro hfull
  obtain ⟨t, ht, _⟩ := hfull (List.replicate 256 0) (List.length_replicate ..) (by
    intro x hx
    have : x = 0 := List.eq_of_mem_replicate hx
    subst this; decide)
  rw [fromFrequencies_zero_panics] at ht
  cases ht

/-- **Every table `Huffman::from_frequencies` returns is well-formed** (whenever it returns, i.e. does
not hit D16): the merge loop builds a forest whose inner nodes have two different children with
smaller indices, in which every node but the root is the child of exactly one inner node; the
iterative traversal (explicit stack, direction bits) is the recursive one and writes into every
symbol's entry the code of the path from the root to that symbol, of length 1..24; paths are unique,
so the reference's lookup table is consistent with the stored lengths. -/
theorem fromFrequencies_wellFormed (f : List Nat) (t : Table) (hok : fromFrequencies f = .ok t) :
    WellFormed t ∧ LutOk t :=
  ⟨Tw.Huffman.fromFrequencies_wellFormed f t hok, Tw.Huffman.fromFrequencies_lutOk f t hok⟩

/-- Hence the whole property for tables built from arbitrary frequency vectors, under exactly the
hypothesis that excludes D16 (`from_frequencies` returns): lossless in both output forms, the
streaming (Rust-form) compressor computes the spec form, the decoder is total, bounded and
capacity-exact, `compress_bug` is byte-identical to the reference's `Compress`, and whatever the
reference's `Decompress` decodes this decoder decodes to the same bytes. -/
theorem fromFrequencies_tables_partial (f : List Nat) (t : Table) (hok : fromFrequencies f = .ok t) :
    (∀ bug xs cap, xs.length ≤ cap → decompress t (compress t bug xs) cap = .ok xs)
    ∧ (∀ bug xs cap, compressStreamInto t bug xs cap =
        if (compress t bug xs).length ≤ cap then .ok (compress t bug xs) else .capacity)
    ∧ (∀ input cap, decompress t input cap ≠ .diverge)
    ∧ (∀ input cap out, decompress t input cap = .ok out → out.length ≤ cap)
    ∧ (∀ input cap' cap, cap' ≤ cap → decompress t input cap' = (decompress t input cap).trunc cap')
    ∧ (∀ xs, compress t true xs = refCompress t xs)
    ∧ (∀ fuel input cap out, refDecompress t fuel input cap = .ok out →
        decompress t input cap = .ok out) :=
  have h := Tw.Huffman.fromFrequencies_wellFormed f t hok
  have hl := Tw.Huffman.fromFrequencies_lutOk f t hok
  ⟨fun bug xs cap hc => decompress_compress t h bug xs cap hc,
   fun bug xs cap => compressStreamInto_eq t h bug xs cap,
   fun input cap => decompress_terminates t h input cap,
   fun input cap out ho => decompress_bound t input cap out ho,
   fun input cap' cap hc => decompress_trunc t h input cap' cap hc,
   fun xs => (refCompress_eq_compress_bug t h xs).symm,
   fun fuel input cap out hr => refDecompress_agrees t h hl fuel input cap out hr⟩

/-! ## the reference's own tree (`ConstructTree`, `Setbits_r`; model `refConstruct`) -/

/-- For every frequency vector on which the reference's `int` arithmetic cannot overflow
(`Σ f + 1 < 2^31`) and `from_frequencies` returns, the table it returns **is** the reference's tree
(same inner nodes, every symbol the same `(bits, length)`); with the theorems of section (4) the codec
is then byte-compatible with the reference for that table, not only for the built-in one.  The
hypothesis is exactly the negation of the classifier of finding D16b. -/
theorem fromFrequencies_is_reference_tree_partial (f : List Nat) (t : Table)
    (hok : fromFrequencies f = .ok t) (hsum : f.sum + 1 < 2147483648) :
    (refConstruct f).toTable = t := fromFrequencies_eq_refConstruct f t hok hsum

/-- the shipped frequencies (regenerated from `huffman/data/frequencies`) satisfy the hypothesis -/
theorem shipped_frequencies_in_int_range : Tw.Gen.Huffman.frequencies.sum + 1 < 2147483648 := by
  decide +kernel

/-- the full statement without the hypothesis — false: D16b -/
def C07_reference_tree_full : Prop :=
  ∀ (f : List Nat) (t : Table), f.length = 256 → (∀ x ∈ f, x < 2 ^ 32) →
    fromFrequencies f = .ok t → (refConstruct f).toTable = t

/-- **D16b in the model**: byte 0 with frequency `2^32 - 1` (−1 in the reference's `int`), every other
byte 2.  The Rust merges EOF with byte 255 first, the reference merges byte 0 with EOF; whatever table
`from_frequencies` returns, it is not the reference's tree. -/
theorem reference_tree_signed_frequency_witness (t : Table)
    (hok : fromFrequencies d16bFreqs = .ok t) : (refConstruct d16bFreqs).toTable ≠ t :=
  d16b_witness t hok

theorem reference_tree_first_merge_witness :
    node (rustForest d16bFreqs) 257 = (256, 255)
      ∧ node (refConstruct d16bFreqs).nodes 257 = (0, 256) := d16b_first_merge

/-! ## non-vacuity -/

example : decompress Tw.Gen.Huffman.table [0xb1, 0x08, 0x2a, 0x6e, 0x00] 7
    = .ok [0, 1, 0, 2, 0, 0x80, 0] := by decide +kernel
example : compress Tw.Gen.Huffman.table true [0, 1, 0, 2, 0, 0x80, 0] = [0xb1, 0x08, 0x2a, 0x6e, 0x00] := by
  decide +kernel
example : decompress Tw.Gen.Huffman.table [0xb1, 0x08, 0x2a, 0x6e, 0x00] 6 = .capacity := by
  decide +kernel
example : decompress Tw.Gen.Huffman.table [0xff, 0xff] 100 = .capacity := by decide +kernel
example : refDecompress Tw.Gen.Huffman.table 9 [0xb1, 0x08, 0x2a, 0x6e, 0x00] 7
    = .ok [0, 1, 0, 2, 0, 0x80, 0] := by decide +kernel

end Tw.Props.C07
