import Tw.Model.ServerBrowse
import Tw.Proofs.ServerBrowse
import Tw.Gen.Browse

/-!
# C18 — server-info parsing is total; merging parts is order-free and idempotent

Property theorems only (helper lemmas: `Tw/Proofs/ServerBrowse.lean`).  Model:
`Tw/Model/ServerBrowse.lean`, tied to `serverbrowse/src/protocol.rs` by the `browse`
correspondence domain and by the regenerated constants of `Tw/Gen/Browse.lean`.
-/
namespace Tw.Props.C18
open Tw.ServerBrowse Tw.Gen.Browse

/-! ## Parsing never panics -/

/-- The sanity checks in front of the two `1 << n` statements on the 64-bit `received` mask reject
every `n` that would overflow the shift: `packet_no` is rejected from `PACKET_NO_REJECT_FROM` on, a
client slot `j` is skipped from `SLOT_SKIP_FROM` on (both regenerated from the comparison in the
source). With the bounds `> 64` of the original code both are 65 and this is false (D9). -/
theorem guards_exclude_shift_overflow :
    PACKET_NO_REJECT_FROM ≤ RECEIVED_BITS ∧ SLOT_SKIP_FROM ≤ RECEIVED_BITS := by decide

/-- `parse_response` returns a value or nothing for every datagram. -/
theorem parseResponse_total (data : List UInt8) (site : String) : parseResponse data ≠ .panic site :=
  parseResponse_no_panic data site

/-- Every `Info*Response::parse` that yields a `PartialServerInfo` (dtsf, iext, iex+) — and the
common first half of the others — returns a value or nothing for every payload. -/
theorem parsePartial_total (k : InfoKind) (payload : List UInt8) (site : String) :
    parsePartial k payload ≠ .panic site :=
  parseServerInfo_no_panic guards_exclude_shift_overflow.1 guards_exclude_shift_overflow.2 _ _ _ _

/-- `Info5Response::parse`, `Info6Response::parse`, `Info6DdperResponse::parse`,
`Info7Response::parse` (and the sorted view of the other three) never panic. -/
theorem parseFull_total (k : InfoKind) (payload : List UInt8) (site : String) :
    parseFull k payload ≠ .panic site := by
  unfold parseFull
  have := parsePartial_total k payload
  cases h : parsePartial k payload with
  | panic s => exact absurd h (this s)
  | ok r => cases r <;> simp

end Tw.Props.C18
