import Tw.Model.ServerBrowse
import Tw.Proofs.ServerBrowse
import Tw.Proofs.ServerBrowseOrder
import Tw.Proofs.ServerBrowseMerge
import Tw.Proofs.ServerBrowseRepaired
import Tw.Proofs.ServerBrowseEncode
import Tw.Proofs.ServerBrowseLists
import Tw.Gen.Browse

/-!
# C18 — server-info parsing is total; merging parts is order-free and idempotent

Property theorems only (helper lemmas: `Tw/Proofs/ServerBrowse.lean`).  Model:
`Tw/Model/ServerBrowse.lean`, tied to `serverbrowse/src/protocol.rs` by the `browse`
correspondence domain and by the regenerated constants of `Tw/Gen/Browse.lean`.
-/
namespace Tw.Props.C18
open Tw.ServerBrowse Tw.Gen.Browse

/-! ## Parsing never panics -/

/-- The sanity checks in front of the two `1 << n` statements on the 64-bit `received` mask reject
every `n` that would overflow the shift: `packet_no` is rejected from `PACKET_NO_REJECT_FROM` on, a
client slot `j` is skipped from `SLOT_SKIP_FROM` on (both regenerated from the comparison in the
source). With the bounds `> 64` of the original code both are 65 and this is false (D9). -/
theorem guards_exclude_shift_overflow :
    PACKET_NO_REJECT_FROM ≤ RECEIVED_BITS ∧ SLOT_SKIP_FROM ≤ RECEIVED_BITS := by decide

/-- `parse_response` returns a value or nothing for every datagram. -/
theorem parseResponse_total (data : List UInt8) (site : String) : parseResponse data ≠ .panic site :=
  parseResponse_no_panic data site

/-! ### The thirteen response kinds are each recognised (with any payload, any tokens) -/

/-- `List5`, `List6`, `Info5`, `Info6`, `Info6Ddper`, `Info664`, `Info6Ex`, `Info6ExMore`, `Count`:
the nine 14-byte headers -/
theorem kinds_header6 (payload : List UInt8) :
    parseResponse (bytesOf LIST_5 ++ payload) = .ok (some (.list5 (parseList5 payload.length payload))) ∧
    parseResponse (bytesOf LIST_6 ++ payload) = .ok (some (.list6 (parseList6 payload.length payload))) ∧
    parseResponse (bytesOf INFO_5 ++ payload) = .ok (some (.info .info5 payload)) ∧
    parseResponse (bytesOf INFO_6 ++ payload) = .ok (some (.info .info6 payload)) ∧
    parseResponse (bytesOf INFO_6_DDPER ++ payload) = .ok (some (.info .info6Ddper payload)) ∧
    parseResponse (bytesOf INFO_6_64 ++ payload) = .ok (some (.info .info664 payload)) ∧
    parseResponse (bytesOf INFO_6_EX ++ payload) = .ok (some (.info .info6Ex payload)) ∧
    parseResponse (bytesOf INFO_6_EX_MORE ++ payload) = .ok (some (.info .info6ExMore payload)) ∧
    parseResponse (bytesOf COUNT ++ payload) = .ok ((parseCount payload).map .count) :=
  recognise_header6 payload

/-- `List7`, `Info7`, `Count7`: `0x21`, our token, their token (any bytes), `ff ff ff ff`, the tag -/
theorem kinds_header7 (a b c d e f g h : UInt8) (payload : List UInt8) :
    parseResponse (0x21 :: a :: b :: c :: d :: e :: f :: g :: h :: (bytesOf (LIST_7.drop 9) ++ payload))
      = .ok (some (.list7 [a, b, c, d] [e, f, g, h] (parseList6 payload.length payload))) ∧
    parseResponse (0x21 :: a :: b :: c :: d :: e :: f :: g :: h :: (bytesOf (INFO_7.drop 9) ++ payload))
      = .ok (some (.info7 [a, b, c, d] [e, f, g, h] payload)) ∧
    parseResponse (0x21 :: a :: b :: c :: d :: e :: f :: g :: h :: (bytesOf (COUNT_7.drop 9) ++ payload))
      = .ok ((parseCount payload).map (.count7 [a, b, c, d] [e, f, g, h])) :=
  recognise_header7 a b c d e f g h payload

/-- `Token7` -/
theorem kind_token7 (a b c d : UInt8) (payload : List UInt8) :
    parseResponse (0x04 :: 0 :: 0 :: a :: b :: c :: d :: 0x05 :: payload)
      = .ok ((parseToken7 payload).map (.token7 [a, b, c, d])) :=
  recognise_token7 a b c d payload

/-! ### Master-server payloads: address lists, counts, tokens -/

/-- A 0.5 list has one address per complete 6-byte record (a trailing partial record is dropped);
each record is an IPv4 address and a little-endian port. The model's fuel always suffices. -/
theorem list5_records (payload : List UInt8) :
    (parseList5 payload.length payload).length = payload.length / 6 ∧
    ∀ (fuel : Nat) (a b c d p0 p1 : UInt8) (rest : List UInt8),
      parseList5 (fuel + 1) (a :: b :: c :: d :: p0 :: p1 :: rest)
        = { v4 := true, ip := [a, b, c, d], port := p0.toNat + 256 * p1.toNat } :: parseList5 fuel rest :=
  ⟨parseList5_length _ _ (Nat.div_le_self _ _), fun _ _ _ _ _ _ _ _ => rfl⟩

/-- A 0.6 / 0.7 list has one address per complete 18-byte record: 16 address bytes and a big-endian
port; an address with the IPv4-mapping prefix `00×10 ff ff` is handed out as IPv4. -/
theorem list6_records (payload : List UInt8) :
    (parseList6 payload.length payload).length = payload.length / 18 ∧
    (∀ (fuel : Nat) (ip : List UInt8), ip.length = 16 → ∀ (p0 p1 : UInt8) (rest : List UInt8),
      parseList6 (fuel + 1) (ip ++ p0 :: p1 :: rest) = unpackAddr6 ip p0 p1 :: parseList6 fuel rest) ∧
    ∀ (ip : List UInt8) (p0 p1 : UInt8),
      (unpackAddr6 ip p0 p1).port = 256 * p0.toNat + p1.toNat ∧
      ((unpackAddr6 ip p0 p1).v4 = true ↔ ip.take 12 = bytesOf IPV4_MAPPING) ∧
      (ip.take 12 = bytesOf IPV4_MAPPING → (unpackAddr6 ip p0 p1).ip = ip.drop 12) ∧
      (ip.take 12 ≠ bytesOf IPV4_MAPPING → (unpackAddr6 ip p0 p1).ip = ip) :=
  ⟨parseList6_length _ _ (Nat.div_le_self _ _), fun f ip h p0 p1 rest => parseList6_record f ip h p0 p1 rest,
    unpackAddr6_spec⟩

/-- `parse_count`: nothing for fewer than two bytes, else the big-endian `u16` of the first two;
`parse_token7`: nothing for fewer than four bytes, else the first four. -/
theorem count_and_token (bs : List UInt8) :
    ((bs.length < 2 → parseCount bs = none) ∧
      ∀ a b rest, bs = a :: b :: rest → parseCount bs = some (256 * a.toNat + b.toNat)) ∧
    ((bs.length < 4 → parseToken7 bs = none) ∧
      ∀ a b c d rest, bs = a :: b :: c :: d :: rest → parseToken7 bs = some [a, b, c, d]) :=
  ⟨parseCount_spec bs, parseToken7_spec bs⟩

/-- Tie: the protocol constants the recognition and the address decoding depend on (regenerated
from the source; a changed tag or mapping prefix makes this stop checking). -/
theorem tie_protocol_constants :
    IPV4_MAPPING = [0, 0, 0, 0, 0, 0, 0, 0, 0, 0, 255, 255] ∧
    LIST_5.drop 10 = [108, 105, 115, 116] ∧ LIST_6.drop 10 = [108, 105, 115, 50] ∧ COUNT.drop 10 = [115, 105, 122, 50] ∧
    INFO_5.drop 10 = [105, 110, 102, 50] ∧ INFO_6.drop 10 = [105, 110, 102, 51] ∧
    INFO_6_DDPER = [100, 112, 0, 0, 0, 0, 255, 255, 255, 255, 105, 110, 102, 51] ∧
    INFO_6_64.drop 10 = [100, 116, 115, 102] ∧ INFO_6_EX.drop 10 = [105, 101, 120, 116] ∧
    INFO_6_EX_MORE.drop 10 = [105, 101, 120, 43] ∧
    TOKEN_7 = [4, 0, 0, 255, 255, 255, 255, 5] ∧
    LIST_7.drop 13 = [108, 105, 115, 50] ∧ COUNT_7.drop 13 = [115, 105, 122, 50] ∧ INFO_7.drop 13 = [105, 110, 102, 51] ∧
    LIST_5.take 10 = List.replicate 10 255 ∧ LIST_7.take 13 = 33 :: List.replicate 12 255 ∧
    PACKETFLAG_CONNLESS = 64 := by decide

/-- Every `Info*Response::parse` that yields a `PartialServerInfo` (dtsf, iext, iex+) — and the
common first half of the others — returns a value or nothing for every payload. -/
theorem parsePartial_total (k : InfoKind) (payload : List UInt8) (site : String) :
    parsePartial k payload ≠ .panic site :=
  parseServerInfo_no_panic guards_exclude_shift_overflow.1 guards_exclude_shift_overflow.2 _ _ _ _

/-- `Info5Response::parse`, `Info6Response::parse`, `Info6DdperResponse::parse`,
`Info7Response::parse` (and the sorted view of the other three) never panic. -/
theorem parseFull_total (k : InfoKind) (payload : List UInt8) (site : String) :
    parseFull k payload ≠ .panic site := by
  unfold parseFull
  have := parsePartial_total k payload
  cases h : parsePartial k payload with
  | panic s => exact absurd h (this s)
  | ok r => cases r <;> simp

/-- The fuel `parse_server_info`'s client loop is run with in the model (`payload.length + 1`) always
suffices: with any larger fuel the result is the same, i.e. the loop ends because the input is used
up (every iteration consumes at least the NUL of the client name), never because of the bound. -/
theorem client_loop_fuel_suffices (k : InfoKind) (ver : Version) (extra j : Nat) (bs : List UInt8)
    (acc : List ClientInfo) (recv : Nat) :
    parseClients k.reader ver (bs.length + 1 + extra) j bs acc recv
      = parseClients k.reader ver (bs.length + 1) j bs acc recv :=
  parseClients_fuel k.reader_consuming ver _ _ j bs acc recv (by omega) (by omega)

/-- What the count sanity check guarantees for every info any `Info*Response::parse` hands out:
`0 ≤ players ≤ clients ≤ max_clients`, `0 ≤ max_players ≤ max_clients`, `max_clients` within the
maximum of the version (16 / 16 / 16 / 64 / — / 64). -/
theorem parsed_counts_sane (k : InfoKind) (payload : List UInt8) (p : PartialInfo)
    (h : parsePartial k payload = .ok (some p)) :
    CountsSane p.info ∧ p.info.infoVersion = k.received.version :=
  parseServerInfo_sane h

/-- The `received` masks the parser builds (the mechanism the merge relies on): bit 0 for the main
packet of an extended info, bit `n` (1 ≤ n ≤ 63) for an `iex+` packet with packet number `n`, the
bits of the kept clients' slots — none beyond slot 63 — for a legacy 64-player packet, nothing for
the single-packet kinds. These are exactly the masks `Family.part` gives the parts. -/
theorem parsed_mask_shape (k : InfoKind) (payload : List UInt8) (p : PartialInfo)
    (h : parsePartial k payload = .ok (some p)) :
    match k with
    | .info6Ex => p.received = 1
    | .info6ExMore => ∃ n, PACKET_NO_MIN ≤ n ∧ n < PACKET_NO_REJECT_FROM ∧ p.received = 1 <<< n
    | .info664 => ∃ off n, p.received = rangeMask off n ∧ p.info.clients.length = n ∧ (n = 0 ∨ off + n ≤ RECEIVED_BITS)
    | _ => p.received = 0 :=
  parsePartial_mask (by decide) k payload p h

/-! ## Ties to the source for literals the model writes itself -/

/-- `parse_response`: first bytes `0x04` / `0x21`, header lengths 8 / 17, the masked ranges
`[3,7)`, `[1,9)`, `[0,6)` / `[2,6)`; `parse_count` (big endian), `parse_token7` (4 bytes). -/
theorem tie_parse_response :
    lits_parse_response = [4, 0, 8, 8, 8, 3, 7, 3, 7, 255, 33, 17, 0, 17, 17, 17, 1, 5, 5, 9, 1, 9, 255, 0, 0,
      2, 6, 6, 6, 255, 2, 6, 0] ∧
    lits_parse_count = [2, 2, 0, 8, 1] ∧ lits_parse_token7 = [4, 0, 1, 2, 3] ∧
    TOKEN_7.length = 8 ∧ LIST_7.length = 17 ∧ INFO_7.length = 17 ∧ COUNT_7.length = 17 ∧ HEADER_LEN = 14 := by
  decide

/-- the two shift statements are the ones the model has panic branches for -/
theorem tie_shift_sites : SHIFT_OPERANDS = ["packet_no", "j"] ∧ RECEIVED_BITS = 64 := by decide

/-- `get_info` requires the main packet of an extended info (second `fix:` commit) -/
theorem tie_get_info_requires_main : GET_INFO_REQUIRES_MAIN = true := by decide

/-- `merge` still never writes `self.received` (D10, open): when this stops being true the model
of `merge` and `C18_merge_partial` have to be revisited -/
theorem tie_merge_never_updates_received : MERGE_UPDATES_RECEIVED = false := by decide

/-! ## Sorting -/

/-- `clients.sort()` returns a sorted arrangement of exactly the clients it was given … -/
theorem sort_sorted_perm (l : List ClientInfo) :
    (sortClients l).Perm l ∧ (sortClients l).Pairwise (fun a b => a.le b = true) :=
  ⟨sortClients_perm l, sortClients_sorted l⟩

/-- … which does not depend on the order in which they were collected. -/
theorem sort_order_free {l₁ l₂ : List ClientInfo} (h : l₁.Perm l₂) : sortClients l₁ = sortClients l₂ :=
  sortClients_eq_of_perm h

/-- the derived `Ord` of `ClientInfo` is a total order whose equivalence is equality -/
theorem client_order_total (a b d : ClientInfo) :
    (a.le b = true ∨ b.le a = true) ∧ (a.le b = true → b.le a = true → a = b) ∧
    (a.le b = true → b.le d = true → a.le d = true) :=
  ⟨ClientInfo.le_total a b, ClientInfo.le_antisymm, ClientInfo.le_trans⟩

/-! ## Merging -/

/-- **Full statement (not a theorem on the current tree: D10).** For all the parts of one
well-formed 64-player legacy or extended info (`Family`), every non-empty sequence of part indices
— any order, any repetition — folded with `merge` from its first element gives a `get_info` result
that depends only on the set of parts: the complete info (header, every announced client exactly
once, sorted) when every part occurs, nothing otherwise. -/
def C18_merge_full : Prop :=
  ∀ (f : Family), f.WellFormed → ∀ (seq : List Nat), seq ≠ [] → (∀ i ∈ seq, i < f.size) →
    f.result seq = if f.Covers seq then some f.completeInfo else none

/-- The full statement for repetition-free sequences (`seq.Nodup` is exactly the negation of the
classifier of the open finding D10). -/
theorem C18_merge_partial (f : Family) (hwf : f.WellFormed) (seq : List Nat) (hne : seq ≠ [])
    (hr : ∀ i ∈ seq, i < f.size) (hnd : seq.Nodup) :
    f.result seq = if f.Covers seq then some f.completeInfo else none :=
  f.result_nodup hwf tie_get_info_requires_main seq hne hr hnd

/-- Order-freeness, spelled out: two repetition-free orderings of the same parts give the same
`get_info` result. -/
theorem merge_order_free_partial (f : Family) (hwf : f.WellFormed) (s₁ s₂ : List Nat) (hne : s₁ ≠ [])
    (hr : ∀ i ∈ s₁, i < f.size) (hnd : s₁.Nodup) (hp : s₁.Perm s₂) :
    f.result s₁ = f.result s₂ := by
  have hne2 : s₂ ≠ [] := fun e => hne (List.perm_nil.1 (e ▸ hp))
  have hr2 : ∀ i ∈ s₂, i < f.size := fun i hi => hr i (hp.symm.subset hi)
  have hnd2 : s₂.Nodup := hp.nodup_iff.1 hnd
  rw [C18_merge_partial f hwf s₁ hne hr hnd, C18_merge_partial f hwf s₂ hne2 hr2 hnd2]
  have : f.Covers s₁ ↔ f.Covers s₂ :=
    ⟨fun h i hi => hp.subset (h i hi), fun h i hi => hp.symm.subset (h i hi)⟩
  by_cases h : f.Covers s₁
  · rw [if_pos h, if_pos (this.1 h)]
  · rw [if_neg h, if_neg (fun h2 => h (this.2 h2))]

/-- The complete info lists every client of every part exactly once, in sorted order. -/
theorem complete_lists_each_once (f : Family) :
    f.completeInfo.clients.Perm ((List.range f.size).flatMap f.chunk) ∧
    f.completeInfo.clients.Pairwise (fun a b => a.le b = true) :=
  ⟨sortClients_perm _, sortClients_sorted _⟩

/-- A merge that is refused changes nothing. -/
theorem merge_error_leaves_accumulator (s o : PartialInfo) (e : MergeError) (h : (merge s o).2 = some e) :
    (merge s o).1 = s := by
  unfold merge at h ⊢
  repeat' split
  all_goals first | rfl | simp_all

/-- Idempotence as far as the code has it: a part whose mask is contained in the accumulator's
mask is recognised ("we already have that server info") and leaves the accumulator untouched. -/
theorem merge_known_part_is_noop (s o : PartialInfo) (htok : s.info.token = o.info.token)
    (hver : s.info.infoVersion = o.info.infoVersion)
    (hmulti : s.info.infoVersion = .v664 ∨ s.info.infoVersion = .v6Ex)
    (hold : s.received &&& o.received = o.received) : merge s o = (s, none) :=
  merge_known htok hver hmulti hold

/-- `take_info` hands out exactly what `get_info` reports and then resets the accumulator (mask all
ones, default info); when `get_info` reports nothing it changes nothing but the order of nothing. -/
theorem takeInfo_spec (s : PartialInfo) :
    (takeInfo s).2 = (getInfo s).2 ∧
    ((getInfo s).2.isSome → (takeInfo s).1 = { info := {}, received := 2 ^ RECEIVED_BITS - 1 }) ∧
    ((getInfo s).2 = none → (takeInfo s).1 = s) := by
  unfold takeInfo
  cases h : getInfo s with
  | mk s' r =>
    cases r with
    | none =>
      refine ⟨rfl, by simp, fun _ => ?_⟩
      unfold getInfo at h
      split at h
      · simp only [Prod.mk.injEq] at h; exact h.1.symm
      · split at h
        · simp only [Prod.mk.injEq] at h; exact h.1.symm
        · simp at h
    | some i => exact ⟨rfl, fun _ => rfl, by simp⟩

/-- D10 in the model: the main packet of an extended info announcing two clients, then its `iex+`
packet twice — every part has been received, but the result is not the complete info (the second
copy was appended again, three clients ≠ two announced). Same for the legacy version. The byte
strings are those of `corpus/browse/finding-d10-merge-repeat.txt`. -/
theorem C18_merge_witness : ¬ C18_merge_full := by
  intro h
  have := h witnessEx (by decide) [0, 1, 1] (by decide) (by decide)
  revert this
  decide

theorem C18_merge_witness_legacy :
    witnessLegacy.WellFormed ∧ witnessLegacy.Covers [0, 1, 1] ∧ witnessLegacy.result [0, 1, 1] = none := by
  decide

/-- Worse, a repetition can make an incomplete set look complete: of an extended info announcing
three clients in three packets, the main packet and packet 1 twice give three collected clients, so
`get_info` reports a "complete" info that lists client `b` twice and lacks client `c`. -/
theorem C18_merge_witness_false_complete :
    witnessEx3.WellFormed ∧ ¬ witnessEx3.Covers [0, 1, 1] ∧
    witnessEx3.result [0, 1, 1] = some (witnessEx3.hdr.withClients [clientA, clientB, clientB]) := by
  decide

/-- Only the accumulator's own mask is ever consulted, so repeating the part the accumulator
started from (or the main packet) is recognised and harmless. -/
theorem repeated_first_part_is_harmless :
    witnessEx.result [0, 0, 1] = some witnessEx.completeInfo ∧
    witnessLegacy.result [0, 0, 1, 0] = some witnessLegacy.completeInfo := by
  decide

/-! ## Round trip through a reference encoder

`encInfo` / `encMore` (in `Proofs/ServerBrowseEncode.lean`) write an info the way a server does:
decimal texts (`%d`) or varints, NUL-terminated strings, fields in wire order per version.  They are
specification-level (the library has no writer for these packets).  `HeadOk` / `ClientOk` say that
every field is representable (NUL-free valid UTF-8 within the capacity, integers in `i32`, counts
passing the receiver's sanity check, `u32` crc, non-negative size, flags 0/1 where the wire only
carries `is_player`). -/

/-- Every representable info of a normal kind (all but `iex+`) parses back to itself, with the mask
of its clients' slots (`iext`: bit 0; `dtsf`: slots `offset ..`; others: none). -/
theorem roundtrip_normal (k : InfoKind) (hk : k ≠ .info6ExMore) (i : ServerInfo) (offset : Nat)
    (h : HeadOk k i offset) (hc : ∀ c ∈ i.clients, ClientOk k c)
    (hslots : k = .info664 → offset + i.clients.length ≤ RECEIVED_BITS) :
    parsePartial k (encInfo k i offset) = .ok (some { info := i, received := maskFor k offset i.clients.length }) :=
  parsePartial_encInfo (by decide) k hk i offset h hc hslots

/-- … an `iex+` packet with packet number 1..63 to the default info carrying its clients and the bit
of its number … -/
theorem roundtrip_more (token : Int) (htok : Tw.Packer.inI32 token) (no : Nat) (hlo : 1 ≤ no) (hhi : no < 64)
    (cs : List ClientInfo) (hc : ∀ c ∈ cs, ClientOk .info6ExMore c) :
    parsePartial .info6ExMore (encMore token no cs)
      = .ok (some { info := (moreHdr token).withClients cs, received := 1 <<< no }) :=
  parsePartial_encMore (by decide) (by decide) token htok no hlo hhi cs hc

/-- … and the single-packet parsers (`Info5/6/6Ddper/7Response::parse`) return the info with its
clients sorted. -/
theorem roundtrip_full (k : InfoKind) (hk : k ≠ .info6ExMore) (i : ServerInfo) (offset : Nat)
    (h : HeadOk k i offset) (hc : ∀ c ∈ i.clients, ClientOk k c)
    (hslots : k = .info664 → offset + i.clients.length ≤ RECEIVED_BITS) :
    parseFull k (encInfo k i offset) = .ok (some { i with clients := sortClients i.clients }) :=
  parseFull_encInfo (by decide) k hk i offset h hc hslots

/-- The accumulator values `Family.part i` that the merge theorems talk about are exactly what the
parser returns for the datagrams of a well-formed, representable family — for all families, not
only the concrete ones below. -/
theorem roundtrip_family_parts (f : Family) (hwf : f.WellFormed) (henc : f.Encodable) (i : Nat) (hi : i < f.size) :
    parsePartial (f.kind i) (f.encodePart i) = .ok (some (f.part i)) :=
  f.parse_encodePart (by decide) (by decide) (by decide) hwf henc i hi

/-- The executable checker (`representableB`, the one the `e` requests of the correspondence run use)
is sound: whatever it accepts round-trips. -/
theorem roundtrip_checked (k : InfoKind) (i : ServerInfo) (offset : Nat) (h : representableB k i offset = true) :
    parsePartial k (encInfo k i offset) = .ok (some { info := i, received := maskFor k offset i.clients.length }) ∧
    parseFull k (encInfo k i offset) = .ok (some { i with clients := sortClients i.clients }) := by
  obtain ⟨hk, hh, hc, hs⟩ := representableB_sound h
  exact ⟨roundtrip_normal k hk i offset hh hc hs, roundtrip_full k hk i offset hh hc hs⟩

theorem roundtrip_checked_more (token : Int) (no : Nat) (cs : List ClientInfo)
    (h : representableMoreB token no cs = true) :
    parsePartial .info6ExMore (encMore token no cs)
      = .ok (some { info := (moreHdr token).withClients cs, received := 1 <<< no }) := by
  obtain ⟨ht, hlo, hhi, hc⟩ := representableMoreB_sound h
  exact roundtrip_more token ht no hlo hhi cs hc

/-- **General encodability**: every well-formed family whose header and clients pass the executable
test is `Encodable`; hence for all of them the parts `Family.part i` of the merge theorems are what
the parser returns for the family's datagrams. -/
theorem roundtrip_family_checked (f : Family) (hwf : f.WellFormed) (h : f.representableB = true)
    (i : Nat) (hi : i < f.size) :
    parsePartial (f.kind i) (f.encodePart i) = .ok (some (f.part i)) :=
  roundtrip_family_parts f hwf (f.encodable_of_representableB hwf h) i hi

example : witnessEx.representableB = true ∧ witnessLegacy.representableB = true ∧ witnessEx3.representableB = true ∧
    representableB .info7 witnessV7 0 = true := by decide

-- non-vacuity: both concrete families are representable, and their encodings are byte for byte the
-- payloads of `corpus/browse/finding-d10-merge-repeat.txt`
example : witnessEx.Encodable ∧ witnessLegacy.Encodable := ⟨witnessEx_encodable, witnessLegacy_encodable⟩
example : witnessEx.encodePart 0 = witnessExMainBytes ∧ witnessEx.encodePart 1 = witnessExMoreBytes ∧
    witnessLegacy.encodePart 0 = witnessLegacy0Bytes ∧ witnessLegacy.encodePart 1 = witnessLegacy1Bytes := by decide
-- the reference encoder reproduces the payload of the repository's own test `parse_info_v7`
example : encInfo .info7 witnessV7 0 = witnessV7Bytes ∧
    parseFull .info7 witnessV7Bytes = .ok (some { witnessV7 with clients := sortClients witnessV7.clients }) := by decide
example : decimal (-2147483648) = [45, 50, 49, 52, 55, 52, 56, 51, 54, 52, 56] ∧ decimal 0 = [48] := by decide

/-! ### The hypothetical repair of D10 (statements about `mergeRepaired`, NOT about the code)

`mergeRepaired` is `merge` plus the statement `self.received |= other.received` after the swap. The
repository does not contain it (it would make the shipped test `parse_info_v6_ex` fail, see the D10
record); these theorems only show that the missing mask update is the *only* obstacle to the full
property. -/

/-- `mergeRepaired` differs from the modelled `merge` in nothing but the mask of the accumulator -/
theorem mergeRepaired_differs_only_in_mask (s o : PartialInfo) :
    (mergeRepaired s o).1.info = (merge s o).1.info ∧ (mergeRepaired s o).2 = (merge s o).2 := by
  unfold mergeRepaired merge
  repeat' split
  all_goals first | exact ⟨rfl, rfl⟩ | simp_all

/-- With the mask update the full statement `C18_merge_full` holds (stated for `resultRepaired`, the
fold of `mergeRepaired`): any order, any repetition, the result depends only on the set of parts. -/
theorem C18_merge_full_holds_for_repaired_merge (f : Family) (hwf : f.WellFormed) (seq : List Nat)
    (hne : seq ≠ []) (hr : ∀ i ∈ seq, i < f.size) :
    f.resultRepaired seq = if f.Covers seq then some f.completeInfo else none :=
  f.resultRepaired_spec hwf tie_get_info_requires_main seq hne hr

example : witnessEx.resultRepaired [0, 1, 1] = some witnessEx.completeInfo ∧
    witnessLegacy.resultRepaired [1, 0, 1, 1, 0] = some witnessLegacy.completeInfo ∧
    witnessEx3.resultRepaired [0, 1, 1] = none := by decide

-- non-vacuity: the hypotheses of `C18_merge_partial` are met by both concrete families, whose parts
-- are what the parser returns for the datagrams of the corpus file, and the statement computes
example : witnessEx.WellFormed ∧ witnessLegacy.WellFormed := by decide
example : witnessEx.result [1, 0] = some witnessEx.completeInfo ∧ witnessEx.result [1] = none ∧
    witnessEx.result [0] = none := by decide
example : parsePartial .info6Ex witnessExMainBytes = .ok (some (witnessEx.part 0)) ∧
    parsePartial .info6ExMore witnessExMoreBytes = .ok (some (witnessEx.part 1)) := by decide
example : parsePartial .info664 witnessLegacy0Bytes = .ok (some (witnessLegacy.part 0)) ∧
    parsePartial .info664 witnessLegacy1Bytes = .ok (some (witnessLegacy.part 1)) := by decide

end Tw.Props.C18
