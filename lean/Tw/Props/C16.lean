import Tw.Model.Datafile
import Tw.Model.Inflate
import Tw.Proofs.Datafile

/-!
# C16 — datafile and map readers are total; accepted files are fully traversable

Property theorems only (helper lemmas: `Tw/Proofs/Datafile.lean`).  The model
`Tw/Model/Datafile.lean` follows `datafile/src/raw.rs` + `format.rs` *after* the two D13 repairs
(see `notes/datafile.md`); it is tied to the code by the `datafile` correspondence domain.
Every overflow check, assertion, `assert_usize` and slice index of the code is an explicit
`Outcome.panic` in the model, so "`≠ .panic`" is the statement "does not panic" and the `ViewOk` /
range conclusions are the statement "does not read out of bounds".
-/
namespace Tw.Props.C16
open Tw.Datafile

/-- **Totality of opening.**  For every byte string, `Reader::new` (header read, header checks,
table reads, `check`) returns a reader or an error; none of its arithmetic steps, assertions or
slice indexes can fail. -/
theorem reader_new_never_panics (bytes : List UInt8) (site : String) :
    Reader.new bytes ≠ .panic site := by
  rcases new_spec bytes with ⟨e, he⟩ | ⟨r, hr, _⟩
  · rw [he]; simp
  · rw [hr]; simp

/-- The header arithmetic (`calculate_total_size` with the < 2 GiB rule, `calculate_size_field`,
`calculate_swaplen_field`) cannot overflow once `HeaderRest::check` has passed. -/
theorem header_check_never_panics (h : Header) (hr : h.checkRest = true) (site : String) :
    h.checkSizeAndSwaplen ≠ .panic site := by
  rcases Header.checkSizeAndSwaplen_cases h hr with he | ⟨hc, he, _⟩
  · rw [he]; simp
  · rw [he]; simp

/-- An accepted file is below 2 GiB and completely present: the whole data section lies inside
the file, and every table has the length the header announces. -/
theorem accepted_shape (bytes : List UInt8) (r : Reader) (h : Reader.new bytes = .ok r) :
    r.itemTypes.length = r.numItemTypes.toNat ∧ r.itemOffsets.length = r.numItems.toNat
      ∧ r.dataOffsets.length = r.numData.toNat ∧ 4 * r.itemsRaw.length = r.sizeItems.toNat
      ∧ r.sizeData.toNat ≤ r.dataRegion.length
      ∧ (∀ uds, r.uncompSizes = some uds → uds.length = r.numData.toNat) := by
  rcases new_spec bytes with ⟨e, he⟩ | ⟨r', hr, inv, hd⟩
  · rw [he] at h; cases h
  · rw [hr] at h; cases h
    exact ⟨inv.typesLen, inv.offsLen, inv.doffsLen, inv.rawLen, hd, inv.udsLen⟩

/-- `num_items()`, `num_data()`, `num_item_types()` (`assert_usize`) on an accepted file. -/
theorem accepted_counts (bytes : List UInt8) (r : Reader) (h : Reader.new bytes = .ok r) :
    r.numItemsU = .ok r.numItems.toNat ∧ r.numDataU = .ok r.numData.toNat
      ∧ r.numItemTypesU = .ok r.numItemTypes.toNat := by
  rcases new_spec bytes with ⟨e, he⟩ | ⟨r', hr, inv, _⟩
  · rw [he] at h; cases h
  · rw [hr] at h; cases h
    have := inv.ni; have := inv.nd; have := inv.nit
    refine ⟨?_, ?_, ?_⟩
    · unfold Reader.numItemsU; rw [if_neg (by omega)]
    · unfold Reader.numDataU; rw [if_neg (by omega)]
    · unfold Reader.numItemTypesU; rw [if_neg (by omega)]

/-- **`item(index)` for every in-range index**: no panic, and the returned slice is
`items_raw[off .. off + len]` with `off + len ≤ items_raw.len()`. -/
theorem accepted_item (bytes : List UInt8) (r : Reader) (h : Reader.new bytes = .ok r)
    (k : Nat) (hk : k < r.numItems.toNat) :
    ∃ v, r.item k = .ok v ∧ v.off + v.len ≤ r.itemsRaw.length
      ∧ v.data = (r.itemsRaw.drop v.off).take v.len ∧ v.data.length = v.len
      ∧ v.typeId < 65536 ∧ v.id < 65536 := by
  rcases new_spec bytes with ⟨e, he⟩ | ⟨r', hr, inv, _⟩
  · rw [he] at h; cases h
  · rw [hr] at h; cases h
    obtain ⟨v, hv, hvok⟩ := item_ok inv hk
    exact ⟨v, hv, hvok⟩

/-- `item_header(index)` (used by `check` itself and by `item`) for every in-range index. -/
theorem accepted_item_header (bytes : List UInt8) (r : Reader) (h : Reader.new bytes = .ok r)
    (k : Nat) (hk : k < r.numItems.toNat) :
    ∃ w size, r.itemHeader k = .ok (w, size) ∧ 0 ≤ size ∧ size % 4 = 0 := by
  rcases new_spec bytes with ⟨e, he⟩ | ⟨r', hr, inv, _⟩
  · rw [he] at h; cases h
  · rw [hr] at h; cases h
    obtain ⟨o, a, size, _, _, _, hh, _, hs, hs4, _⟩ := inv.items k hk
    exact ⟨a, size, hh, hs, by omega⟩

/-- **`item_type_indices(type_id)` for every `u16`** (indeed every number): no panic, and the
range is a sub-range of `0 .. num_items`. -/
theorem accepted_item_type_indices (bytes : List UInt8) (r : Reader)
    (h : Reader.new bytes = .ok r) (typeId : Nat) :
    ∃ a b, r.itemTypeIndices typeId = .ok (a, b) ∧ a ≤ b ∧ b ≤ r.numItems.toNat := by
  rcases new_spec bytes with ⟨e, he⟩ | ⟨r', hr, inv, _⟩
  · rw [he] at h; cases h
  · rw [hr] at h; cases h
    obtain ⟨a, b, e, h1, h2, _⟩ := itemTypeIndicesIn_ok r.numItems r.itemTypes typeId inv.types
    exact ⟨a, b, e, h1, h2⟩

/-- Every item inside the range `item_type_indices(type_id)` returns carries that type id (the
fourth block of `check`); this is what the map reader's `assert!(raw.type_id == …)` relies on. -/
theorem accepted_type_range_items_have_type (bytes : List UInt8) (r : Reader)
    (h : Reader.new bytes = .ok r) (typeId a b k : Nat)
    (hr : r.itemTypeIndices typeId = .ok (a, b)) (hk1 : a ≤ k) (hk2 : k < b) :
    ∃ v, r.item k = .ok v ∧ v.typeId = typeId := by
  rcases new_spec bytes with ⟨e, he⟩ | ⟨r', hr', inv, _⟩
  · rw [he] at h; cases h
  · rw [hr'] at h; cases h
    obtain ⟨a', b', e, h1, h2, h3⟩ := itemTypeIndicesIn_ok r.numItems r.itemTypes typeId inv.types
    unfold Reader.itemTypeIndices at hr
    rw [e] at hr
    cases hr
    rcases h3 with h0 | ⟨t, ht, hty, ha, hb⟩
    · cases h0; omega
    · obtain ⟨w, size, hh, hw⟩ := inv.typeIds t ht k (by omega) (by omega)
      obtain ⟨v, hv, _⟩ := item_ok inv (k := k) (by omega)
      refine ⟨v, hv, ?_⟩
      -- `item` reads the same header word
      unfold Reader.item at hv
      rw [hh] at hv
      simp only at hv
      repeat (split at hv; · simp at hv)
      cases hv
      simp only
      unfold headerTypeId at hw
      rw [← hty]
      have : 0 ≤ w % 4294967296 := by omega
      omega

/-- **`item_type(index)`** for every index below `num_item_types`. -/
theorem accepted_item_type (bytes : List UInt8) (r : Reader) (h : Reader.new bytes = .ok r)
    (k : Nat) (hk : k < r.numItemTypes.toNat) : ∃ t, r.itemType k = .ok t ∧ t < 65536 := by
  rcases new_spec bytes with ⟨e, he⟩ | ⟨r', hr, inv, _⟩
  · rw [he] at h; cases h
  · rw [hr] at h; cases h
    exact itemType_ok inv hk

/-- **`find_item(type_id, item_id)` for every pair**: no panic; a returned item lies inside
`items_raw` and has the requested id. -/
theorem accepted_find_item (bytes : List UInt8) (r : Reader) (h : Reader.new bytes = .ok r)
    (typeId itemId : Nat) :
    ∃ res, r.findItem typeId itemId = .ok res
      ∧ ∀ v, res = some v → v.off + v.len ≤ r.itemsRaw.length ∧ v.id = itemId := by
  rcases new_spec bytes with ⟨e, he⟩ | ⟨r', hr, inv, _⟩
  · rw [he] at h; cases h
  · rw [hr] at h; cases h
    obtain ⟨res, hres, hv⟩ := findItem_ok inv typeId itemId
    exact ⟨res, hres, fun v h => ⟨(hv v h).1.1, (hv v h).2⟩⟩

/-- **`data_size_file(index)`** (the `assert!(start <= end)`) for every data index; the stored
block lies inside the data section. -/
theorem accepted_data_size_file (bytes : List UInt8) (r : Reader) (h : Reader.new bytes = .ok r)
    (k : Nat) (hk : k < r.numData.toNat) :
    ∃ off n, r.dataOffsets[k]? = some off ∧ 0 ≤ off ∧ r.dataSizeFile k = .ok n
      ∧ off.toNat + n ≤ r.sizeData.toNat := by
  rcases new_spec bytes with ⟨e, he⟩ | ⟨r', hr, inv, _⟩
  · rw [he] at h; cases h
  · rw [hr] at h; cases h
    exact dataSizeFile_ok inv hk

/-- **`read_data(index)` for every data index**, for any zlib that honours its contract
(`inflate destLen src` produces at most `destLen` bytes): an error or the data, never a panic or
an out-of-bounds write; a version-3 block is exactly the bytes `off .. off + n` of the data
section; a version-4 block has exactly the length the size table announces. -/
theorem accepted_read_data (bytes : List UInt8) (r : Reader) (h : Reader.new bytes = .ok r)
    (inflate : Nat → List UInt8 → Option (List UInt8))
    (hz : ∀ n src out, inflate n src = some out → out.length ≤ n)
    (k : Nat) (hk : k < r.numData.toNat) :
    (∃ e, r.readData inflate k = .err e)
      ∨ ∃ out, r.readData inflate k = .ok out
          ∧ (r.uncompSizes = none → ∃ off n, r.dataOffsets[k]? = some off ∧ 0 ≤ off
                ∧ off.toNat + n ≤ r.sizeData.toNat ∧ out = (r.dataRegion.drop off.toNat).take n
                ∧ out.length = n)
          ∧ (∀ uds, r.uncompSizes = some uds → ∃ u, uds[k]? = some u ∧ 0 ≤ u ∧ out.length = u.toNat) := by
  rcases new_spec bytes with ⟨e, he⟩ | ⟨r', hr, inv, _⟩
  · rw [he] at h; cases h
  · rw [hr] at h; cases h
    exact readData_ok inv inflate hz hk

/-- The zlib stand-in used by the driver satisfies the contract assumed of `uncompress` above. -/
theorem driver_inflate_contract (destLen : Nat) (src out : List UInt8)
    (h : Tw.Inflate.inflate destLen src = some out) : out.length ≤ destLen :=
  Tw.Inflate.inflate_le destLen src out h

/-- D13 regression, in the model: the two files that made the unrepaired `Reader::new` panic are
now rejected as `Malformed`. -/
theorem d13_witnesses_rejected :
    (Reader.new [68, 65, 84, 65, 3, 0, 0, 0, 32, 0, 0, 0, 32, 0, 0, 0, 1, 0, 0, 0, 0, 0, 0, 0, 0, 0, 0, 0,
        0, 0, 0, 0, 0, 0, 0, 0, 0, 0, 0, 0, 0, 0, 0, 128, 0, 0, 0, 0]).isErr .malformed = true
    ∧ (Reader.new [68, 65, 84, 65, 3, 0, 0, 0, 68, 0, 0, 0, 68, 0, 0, 0, 1, 0, 0, 0, 2, 0, 0, 0, 0, 0, 0, 0,
        28, 0, 0, 0, 0, 0, 0, 0, 0, 0, 0, 0, 0, 0, 0, 0, 2, 0, 0, 0, 0, 0, 0, 0, 14, 0, 0, 0,
        0, 0, 0, 0, 6, 0, 0, 0, 1, 2, 3, 4, 5, 6, 1, 0, 0, 0, 6, 0, 0, 0, 1, 2, 3, 4, 5, 6]).isErr .malformed = true := by
  constructor <;> decide

/-- non-vacuity: a version-3 file with one type, two items and one data block is accepted -/
example : (Reader.new (writeDf 3 id [⟨4, 0, [7]⟩, ⟨4, 1, []⟩] [[1, 2, 3]])).isOk = true := by decide

/-- non-vacuity: a version-4 file (identity "compression") is accepted -/
example : (Reader.new (writeDf 4 id [⟨0, 0, [1]⟩, ⟨5, 2, [-1, 2]⟩] [[9], []])).isOk = true := by decide

end Tw.Props.C16
