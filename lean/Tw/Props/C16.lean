import Tw.Model.Datafile
import Tw.Model.Inflate

/-!
# C16 — datafile and map readers are total; accepted files are fully traversable
-/
namespace Tw.Props.C16
open Tw.Datafile

/-- The zlib stand-in used by the driver satisfies the contract the accessor theorems assume of
`uncompress`: it never produces more than the destination holds. -/
theorem driver_inflate_contract (destLen : Nat) (src out : List UInt8)
    (h : Tw.Inflate.inflate destLen src = some out) : out.length ≤ destLen :=
  Tw.Inflate.inflate_le destLen src out h

end Tw.Props.C16
