import Tw.Model.Datafile
import Tw.Model.Inflate
import Tw.Proofs.Datafile
import Tw.Proofs.DatafileWriter
import Tw.Model.Map
import Tw.Proofs.Map
import Tw.Proofs.MapWriter
import Tw.Gen.MapItems
import Tw.Gen.Datafile

/-!
# C16 — datafile and map readers are total; accepted files are fully traversable

Property theorems only (helper lemmas: `Tw/Proofs/Datafile.lean`).  The model
`Tw/Model/Datafile.lean` follows `datafile/src/raw.rs` + `format.rs` *after* the two D13 repairs
(see `notes/datafile.md`); it is tied to the code by the `datafile` correspondence domain.
Every overflow check, assertion, `assert_usize` and slice index of the code is an explicit
`Outcome.panic` in the model, so "`≠ .panic`" is the statement "does not panic" and the `ViewOk` /
range conclusions are the statement "does not read out of bounds".
-/
namespace Tw.Props.C16
open Tw.Datafile

/-- **Totality of opening.**  For every byte string, `Reader::new` (header read, header checks,
table reads, `check`) returns a reader or an error; none of its arithmetic steps, assertions or
slice indexes can fail. -/
theorem reader_new_never_panics (bytes : List UInt8) (site : String) :
    Reader.new bytes ≠ .panic site := by
  rcases new_spec bytes with ⟨e, he⟩ | ⟨r, hr, _⟩
  · rw [he]; simp
  · rw [hr]; simp

/-- The header arithmetic (`calculate_total_size` with the < 2 GiB rule, `calculate_size_field`,
`calculate_swaplen_field`) cannot overflow once `HeaderRest::check` has passed. -/
theorem header_check_never_panics (h : Header) (hr : h.checkRest = true) (site : String) :
    h.checkSizeAndSwaplen ≠ .panic site := by
  rcases Header.checkSizeAndSwaplen_cases h hr with he | ⟨hc, he, _⟩
  · rw [he]; simp
  · rw [he]; simp

/-- An accepted file is below 2 GiB and completely present: the whole data section lies inside
the file, and every table has the length the header announces. -/
theorem accepted_shape (bytes : List UInt8) (r : Reader) (h : Reader.new bytes = .ok r) :
    r.itemTypes.length = r.numItemTypes.toNat ∧ r.itemOffsets.length = r.numItems.toNat
      ∧ r.dataOffsets.length = r.numData.toNat ∧ 4 * r.itemsRaw.length = r.sizeItems.toNat
      ∧ r.sizeData.toNat ≤ r.dataRegion.length
      ∧ (∀ uds, r.uncompSizes = some uds → uds.length = r.numData.toNat) := by
  rcases new_spec bytes with ⟨e, he⟩ | ⟨r', hr, inv, hd⟩
  · rw [he] at h; cases h
  · rw [hr] at h; cases h
    exact ⟨inv.typesLen, inv.offsLen, inv.doffsLen, inv.rawLen, hd, inv.udsLen⟩

/-- `num_items()`, `num_data()`, `num_item_types()` (`assert_usize`) on an accepted file. -/
theorem accepted_counts (bytes : List UInt8) (r : Reader) (h : Reader.new bytes = .ok r) :
    r.numItemsU = .ok r.numItems.toNat ∧ r.numDataU = .ok r.numData.toNat
      ∧ r.numItemTypesU = .ok r.numItemTypes.toNat := by
  rcases new_spec bytes with ⟨e, he⟩ | ⟨r', hr, inv, _⟩
  · rw [he] at h; cases h
  · rw [hr] at h; cases h
    have := inv.ni; have := inv.nd; have := inv.nit
    refine ⟨?_, ?_, ?_⟩
    · unfold Reader.numItemsU; rw [if_neg (by omega)]
    · unfold Reader.numDataU; rw [if_neg (by omega)]
    · unfold Reader.numItemTypesU; rw [if_neg (by omega)]

/-- **`item(index)` for every in-range index**: no panic, and the returned slice is
`items_raw[off .. off + len]` with `off + len ≤ items_raw.len()`. -/
theorem accepted_item (bytes : List UInt8) (r : Reader) (h : Reader.new bytes = .ok r)
    (k : Nat) (hk : k < r.numItems.toNat) :
    ∃ v, r.item k = .ok v ∧ v.off + v.len ≤ r.itemsRaw.length
      ∧ v.data = (r.itemsRaw.drop v.off).take v.len ∧ v.data.length = v.len
      ∧ v.typeId < 65536 ∧ v.id < 65536 := by
  rcases new_spec bytes with ⟨e, he⟩ | ⟨r', hr, inv, _⟩
  · rw [he] at h; cases h
  · rw [hr] at h; cases h
    obtain ⟨v, hv, hvok⟩ := item_ok inv hk
    exact ⟨v, hv, hvok⟩

/-- `item_header(index)` (used by `check` itself and by `item`) for every in-range index. -/
theorem accepted_item_header (bytes : List UInt8) (r : Reader) (h : Reader.new bytes = .ok r)
    (k : Nat) (hk : k < r.numItems.toNat) :
    ∃ w size, r.itemHeader k = .ok (w, size) ∧ 0 ≤ size ∧ size % 4 = 0 := by
  rcases new_spec bytes with ⟨e, he⟩ | ⟨r', hr, inv, _⟩
  · rw [he] at h; cases h
  · rw [hr] at h; cases h
    obtain ⟨o, a, size, _, _, _, hh, _, hs, hs4, _⟩ := inv.items k hk
    exact ⟨a, size, hh, hs, by omega⟩

/-- **`item_type_indices(type_id)` for every `u16`** (indeed every number): no panic, and the
range is a sub-range of `0 .. num_items`. -/
theorem accepted_item_type_indices (bytes : List UInt8) (r : Reader)
    (h : Reader.new bytes = .ok r) (typeId : Nat) :
    ∃ a b, r.itemTypeIndices typeId = .ok (a, b) ∧ a ≤ b ∧ b ≤ r.numItems.toNat := by
  rcases new_spec bytes with ⟨e, he⟩ | ⟨r', hr, inv, _⟩
  · rw [he] at h; cases h
  · rw [hr] at h; cases h
    obtain ⟨a, b, e, h1, h2, _⟩ := itemTypeIndicesIn_ok r.numItems r.itemTypes typeId inv.types
    exact ⟨a, b, e, h1, h2⟩

/-- Every item inside the range `item_type_indices(type_id)` returns carries that type id (the
fourth block of `check`); this is what the map reader's `assert!(raw.type_id == …)` relies on. -/
theorem accepted_type_range_items_have_type (bytes : List UInt8) (r : Reader)
    (h : Reader.new bytes = .ok r) (typeId a b k : Nat)
    (hr : r.itemTypeIndices typeId = .ok (a, b)) (hk1 : a ≤ k) (hk2 : k < b) :
    ∃ v, r.item k = .ok v ∧ v.typeId = typeId := by
  rcases new_spec bytes with ⟨e, he⟩ | ⟨r', hr', inv, _⟩
  · rw [he] at h; cases h
  · rw [hr'] at h; cases h
    obtain ⟨v, hv, _, hty⟩ := item_of_type_range inv hr hk1 hk2
    exact ⟨v, hv, hty⟩

/-- **`item_type(index)`** for every index below `num_item_types`. -/
theorem accepted_item_type (bytes : List UInt8) (r : Reader) (h : Reader.new bytes = .ok r)
    (k : Nat) (hk : k < r.numItemTypes.toNat) : ∃ t, r.itemType k = .ok t ∧ t < 65536 := by
  rcases new_spec bytes with ⟨e, he⟩ | ⟨r', hr, inv, _⟩
  · rw [he] at h; cases h
  · rw [hr] at h; cases h
    exact itemType_ok inv hk

/-- **`find_item(type_id, item_id)` for every pair**: no panic; a returned item lies inside
`items_raw` and has the requested id. -/
theorem accepted_find_item (bytes : List UInt8) (r : Reader) (h : Reader.new bytes = .ok r)
    (typeId itemId : Nat) :
    ∃ res, r.findItem typeId itemId = .ok res
      ∧ ∀ v, res = some v → v.off + v.len ≤ r.itemsRaw.length ∧ v.id = itemId := by
  rcases new_spec bytes with ⟨e, he⟩ | ⟨r', hr, inv, _⟩
  · rw [he] at h; cases h
  · rw [hr] at h; cases h
    obtain ⟨res, hres, hv⟩ := findItem_ok inv typeId itemId
    exact ⟨res, hres, fun v h => ⟨(hv v h).1.1, (hv v h).2⟩⟩

/-- **`data_size_file(index)`** (the `assert!(start <= end)`) for every data index; the stored
block lies inside the data section. -/
theorem accepted_data_size_file (bytes : List UInt8) (r : Reader) (h : Reader.new bytes = .ok r)
    (k : Nat) (hk : k < r.numData.toNat) :
    ∃ off n, r.dataOffsets[k]? = some off ∧ 0 ≤ off ∧ r.dataSizeFile k = .ok n
      ∧ off.toNat + n ≤ r.sizeData.toNat := by
  rcases new_spec bytes with ⟨e, he⟩ | ⟨r', hr, inv, _⟩
  · rw [he] at h; cases h
  · rw [hr] at h; cases h
    exact dataSizeFile_ok inv hk

/-- **`read_data(index)` for every data index**, for any zlib that honours its contract
(`inflate destLen src` produces at most `destLen` bytes): an error or the data, never a panic or
an out-of-bounds write; a version-3 block is exactly the bytes `off .. off + n` of the data
section; a version-4 block has exactly the length the size table announces. -/
theorem accepted_read_data (bytes : List UInt8) (r : Reader) (h : Reader.new bytes = .ok r)
    (inflate : Nat → List UInt8 → Option (List UInt8))
    (hz : ∀ n src out, inflate n src = some out → out.length ≤ n)
    (k : Nat) (hk : k < r.numData.toNat) :
    (∃ e, r.readData inflate k = .err e)
      ∨ ∃ out, r.readData inflate k = .ok out
          ∧ (r.uncompSizes = none → ∃ off n, r.dataOffsets[k]? = some off ∧ 0 ≤ off
                ∧ off.toNat + n ≤ r.sizeData.toNat ∧ out = (r.dataRegion.drop off.toNat).take n
                ∧ out.length = n)
          ∧ (∀ uds, r.uncompSizes = some uds → ∃ u, uds[k]? = some u ∧ 0 ≤ u ∧ out.length = u.toNat) := by
  rcases new_spec bytes with ⟨e, he⟩ | ⟨r', hr, inv, _⟩
  · rw [he] at h; cases h
  · rw [hr] at h; cases h
    exact readData_ok inv inflate hz hk

/-- The zlib stand-in used by the driver satisfies the contract assumed of `uncompress` above. -/
theorem driver_inflate_contract (destLen : Nat) (src out : List UInt8)
    (h : Tw.Inflate.inflate destLen src = some out) : out.length ≤ destLen :=
  Tw.Inflate.inflate_le destLen src out h

/-- D13 regression, in the model: the two files that made the unrepaired `Reader::new` panic are
now rejected as `Malformed`. -/
theorem d13_witnesses_rejected :
    (Reader.new [68, 65, 84, 65, 3, 0, 0, 0, 32, 0, 0, 0, 32, 0, 0, 0, 1, 0, 0, 0, 0, 0, 0, 0, 0, 0, 0, 0,
        0, 0, 0, 0, 0, 0, 0, 0, 0, 0, 0, 0, 0, 0, 0, 128, 0, 0, 0, 0]).isErr .malformed = true
    ∧ (Reader.new [68, 65, 84, 65, 3, 0, 0, 0, 68, 0, 0, 0, 68, 0, 0, 0, 1, 0, 0, 0, 2, 0, 0, 0, 0, 0, 0, 0,
        28, 0, 0, 0, 0, 0, 0, 0, 0, 0, 0, 0, 0, 0, 0, 0, 2, 0, 0, 0, 0, 0, 0, 0, 14, 0, 0, 0,
        0, 0, 0, 0, 6, 0, 0, 0, 1, 2, 3, 4, 5, 6, 1, 0, 0, 0, 6, 0, 0, 0, 1, 2, 3, 4, 5, 6]).isErr .malformed = true := by
  constructor <;> decide

/-- non-vacuity: a version-3 file with one type, two items and one data block is accepted -/
example : (Reader.new (writeDf 3 id [⟨4, 0, [7]⟩, ⟨4, 1, []⟩] [[1, 2, 3]])).isOk = true := by decide

/-- non-vacuity: a version-4 file (identity "compression") is accepted -/
example : (Reader.new (writeDf 4 id [⟨0, 0, [1]⟩, ⟨5, 2, [-1, 2]⟩] [[9], []])).isOk = true := by decide


/-! ## The file-backed reader (`datafile/src/file.rs`) -/

/-- **A datafile embedded in a larger file.**  `datafile::Reader::new(file)` with the file
positioned at byte `start` (`Reader::open` is `start = 0`) behaves exactly like the raw reader on
the bytes from `start` on: same acceptance, same tables, and `read_data` addresses the same data
region (after the repair of the seek base: position in the file = `datafile_start + seek_base +
offset`).  Hence every theorem of this file about `Reader.new` holds for the file-backed reader,
for every file content and every start position. -/
theorem file_open_at_offset_eq_raw (file : List UInt8) (start : Nat) :
    fileOpen file start = Reader.new (file.drop start) :=
  fileOpen_eq file start

/-- the `checked_sub(datafile_start).unwrap()` of `ensure_filesize` cannot fail, even for a file
positioned beyond its end -/
theorem file_open_never_panics (file : List UInt8) (start : Nat) (site : String) :
    fileOpen file start ≠ .panic site := by
  rw [fileOpen_eq]; exact reader_new_never_panics _ site

/-- **`debug_dump` is total** on every accepted file (debug logging enabled: `item_type` for
every type, `item` for every item of every type range, `read_data` for every data block), for a
zlib that honours its contract: the first `read_data` error or `Ok`, never a panic. -/
theorem accepted_debug_dump (bytes : List UInt8) (r : Reader) (h : Reader.new bytes = .ok r)
    (inflate : Nat → List UInt8 → Option (List UInt8))
    (hz : ∀ n src out, inflate n src = some out → out.length ≤ n) (site : String) :
    r.debugDump inflate ≠ .panic site := by
  rcases new_spec bytes with ⟨e, he⟩ | ⟨r', hr, inv, _⟩
  · rw [he] at h; cases h
  · rw [hr] at h; cases h
    exact debugDump_no_panic inv inflate hz site

/-! ## Callbacks that fail (`raw::CallbackError`) -/

/-- **I/O errors of the callbacks.**  If any of the callback calls of `Reader::new` (`read` ×5–6,
`set_seek_base`, `ensure_filesize`; `fails k` = the k-th call returns `Err(CallbackError)`) fails,
the result is `Error::Callback` or the format error that is detected before that call — never a
panic, and never a different reader: `newCb` is `new` or the callback's error.  With callbacks
that never fail it is `new`. -/
theorem callback_errors_new (bytes : List UInt8) (fails : Nat → Bool) :
    (Reader.newCb bytes fails = Reader.new bytes ∨ Reader.newCb bytes fails = .err .callback)
      ∧ (∀ site, Reader.newCb bytes fails ≠ .panic site)
      ∧ Reader.newCb bytes (fun _ => false) = Reader.new bytes :=
  ⟨newCb_cases bytes fails, newCb_never_panics bytes fails, newCb_never bytes⟩

/-- `read_data` with a failing `seek_read` or `alloc_data_buffer`: the callback's error or the
result without failure; the reader (`&self`) is not modified, so a later call without failure
returns what it would have returned (`readDataCb … false false = readData …`). -/
theorem callback_errors_read_data (r : Reader) (inflate : Nat → List UInt8 → Option (List UInt8))
    (index : Nat) (failSeek failAlloc : Bool) :
    (r.readDataCb inflate index failSeek failAlloc = r.readData inflate index
        ∨ r.readDataCb inflate index failSeek failAlloc = .err .callback)
      ∧ r.readDataCb inflate index false false = r.readData inflate index :=
  ⟨readDataCb_cases r inflate index failSeek failAlloc, readDataCb_never r inflate index⟩

/-! ## Writer / reader round trip -/

/-- **Round trip, both format versions.**  For versions 3 and 4, any well-formed item list and any
data blocks (each at most `i32::MAX` bytes, the limit of the size table) whose file stays below
2 GiB, and any zlib pair with `inflate |x| (deflate x) = x`: `Reader::new` accepts the written
file, and the reader returns exactly the items (type id, id, data words, in order) and exactly
the data blocks that were stored. -/
theorem roundtrip (ver : Nat) (deflate : List UInt8 → List UInt8)
    (inflate : Nat → List UInt8 → Option (List UInt8)) (items : List Item) (datas : List (List UInt8))
    (hv : ver = 3 ∨ ver = 4) (hwf : ItemsWellFormed items)
    (htotal : (sizesOf ver deflate items datas).total ver ≤ 2147483647)
    (hlen : ∀ d ∈ datas, d.length ≤ 2147483647)
    (hz : ∀ x ∈ datas, inflate x.length (deflate x) = some x) :
    ∃ r, Reader.new (writeDf ver deflate items datas) = .ok r
      ∧ r.numItems = items.length ∧ r.numData = datas.length
      ∧ (∀ k (hk : k < items.length), ∃ v, r.item k = .ok v ∧ v.typeId = items[k].typeId
            ∧ v.id = items[k].id ∧ v.data = items[k].data)
      ∧ (∀ i (hi : i < datas.length), r.readData inflate i = .ok datas[i]) :=
  roundtrip_writtenReader ver deflate inflate items datas
    { version := hv
      ids := fun it h => ⟨(hwf.1 it h).1, (hwf.1 it h).2.1⟩
      words := fun it h => (hwf.1 it h).2.2
      sorted := hwf.2
      total := htotal
      dataLen := hlen } hz

/-- non-vacuity of the hypotheses of `roundtrip`: a three-type item list is well-formed, and the
identity pair satisfies the zlib hypothesis -/
example : ItemsWellFormed [⟨0, 0, [1]⟩, ⟨4, 0, [7, -1, 2147483647]⟩, ⟨4, 65535, []⟩, ⟨65535, 2, [-2147483648]⟩]
    ∧ (∀ x ∈ [[104, 105, 0], [], [255, 0, 1, 2, 3]], (fun (_ : Nat) (s : List UInt8) => some s) x.length (id x) = some x) := by
  refine ⟨⟨?_, ?_⟩, fun x _ => rfl⟩
  · simp [InI32]
  · simp

/-- The writer's header is accepted: for v ∈ {3,4} and *every* item/data set below 2 GiB,
`Header::read` on the written file yields the version, counts and sizes of what was written and
`check_size_and_swaplen` accepts `size`/`swaplen` as the non-crude variant with `expected_size` =
the writer's total (the first step of `roundtrip`, without the well-formedness hypotheses). -/
theorem writer_header_accepted' (ver : Nat) (hv : ver = 3 ∨ ver = 4)
    (deflate : List UInt8 → List UInt8) (items : List Item) (datas : List (List UInt8))
    (hmax : (sizesOf ver deflate items datas).total ver ≤ 2147483647) :
    ∃ h, Header.read (writeDf ver deflate items datas) = .ok h
      ∧ h.version = ver ∧ h.numItems = items.length ∧ h.numData = datas.length
      ∧ h.numItemTypes = (groupTypes items 0).length
      ∧ h.checkSizeAndSwaplen
          = .ok { expectedSize := ((sizesOf ver deflate items datas).total ver : Nat), crude := false } :=
  writer_header_accepted ver hv deflate items datas hmax

/-- bytes ↔ words: what the writer serialises is what the reader's table reads see -/
theorem words_bytes_roundtrip (ws : List Int) (h : ∀ w ∈ ws, InI32 w) (rest : List UInt8) :
    wordsOfBytes (bytesOfWords ws) = ws
      ∧ readExact (4 * ws.length) (bytesOfWords ws ++ rest) = some (bytesOfWords ws, rest) := by
  refine ⟨wordsOfBytes_bytesOfWords ws h, ?_⟩
  rw [← bytesOfWords_length]
  exact readExact_append _ _

/-- kernel-checked executable instances of `roundtrip` (identity "compression"): three item types,
empty and non-empty items and blocks, both versions -/
theorem roundtrip_instances :
    roundTripOk 3 id (fun _ s => some s)
        [⟨0, 0, [1]⟩, ⟨4, 0, [7, -1, 2147483647]⟩, ⟨4, 65535, []⟩, ⟨65535, 2, [-2147483648]⟩]
        [[104, 105, 0], [], [255, 0, 1, 2, 3]] = true
    ∧ roundTripOk 4 id (fun _ s => some s)
        [⟨0, 0, [1]⟩, ⟨4, 0, [7, -1, 2147483647]⟩, ⟨4, 65535, []⟩, ⟨65535, 2, [-2147483648]⟩]
        [[104, 105, 0], [], [255, 0, 1, 2, 3]] = true
    ∧ roundTripOk 3 id (fun _ s => some s) [] [] = true
    ∧ roundTripOk 4 id (fun _ s => some s) [] [] = true := by
  decide +kernel

/-! ## Map layer (`map/src/format.rs`, `map/src/reader.rs`) -/

section Map
open Tw.Map Tw.Gen.MapItems

/-- Tie to the source: the layout `(version, offset, ignore_version, len)` of every
`impl MapItem for …` in `map/src/format.rs`, as extracted on this run, is the table the `from_raw`
models were written against. -/
theorem tie_map_item_table :
    Tw.Gen.MapItems.all.map (fun p => (p.1, p.2.version, p.2.offset, p.2.ignoreVersion, p.2.len)) =
      [("MapItemCommonV0", 0, 0, true, 1), ("MapItemInfoV1ExtraRace", 1, 5, false, 1),
       ("MapItemEnvelopeV1Legacy", 1, 1, false, 4), ("MapItemLayerV1CommonV0", 0, 0, true, 1),
       ("MapItemVersionV1", 1, 1, false, 0), ("MapItemInfoV1", 1, 1, false, 4),
       ("MapItemInfoV2", 2, 5, true, 1), ("MapItemImageV1", 1, 1, false, 5),
       ("MapItemImageV2", 2, 6, false, 1), ("MapItemEnvelopeV1", 1, 1, false, 11),
       ("MapItemEnvelopeV2", 2, 12, false, 1), ("MapItemGroupV1", 1, 1, false, 6),
       ("MapItemGroupV2", 2, 7, false, 5), ("MapItemGroupV3", 3, 12, false, 3),
       ("MapItemLayerV1", 1, 1, true, 2), ("MapItemDdraceSoundV1", 1, 1, false, 4),
       ("MapItemLayerV1TilemapV1", 1, 1, false, 0), ("MapItemLayerV1TilemapV2", 2, 1, false, 11),
       ("MapItemLayerV1TilemapV3", 3, 12, false, 3), ("MapItemLayerV1QuadsV1", 1, 1, false, 3),
       ("MapItemLayerV1QuadsV2", 2, 4, false, 3), ("MapItemLayerV1DdraceSoundsV1", 1, 1, false, 6),
       ("MapItemLayerV1DdraceSoundsV2", 2, 7, false, 0)] := by decide

/-- Tie: the word position of every struct field the `from_raw` models read by number. -/
theorem tie_map_field_positions :
    fields_MapItemInfoV1 = [("author", 0), ("version", 1), ("credits", 2), ("license", 3)]
    ∧ fields_MapItemImageV1 = [("width", 0), ("height", 1), ("external", 2), ("name", 3), ("data", 4)]
    ∧ fields_MapItemGroupV1 = [("offset_x", 0), ("offset_y", 1), ("parallax_x", 2), ("parallax_y", 3),
        ("start_layer", 4), ("num_layers", 5)]
    ∧ fields_MapItemGroupV2 = [("use_clipping", 0), ("clip_x", 1), ("clip_y", 2), ("clip_w", 3), ("clip_h", 4)]
    ∧ fields_MapItemLayerV1 = [("type_", 0), ("flags", 1)]
    ∧ fields_MapItemLayerV1TilemapV2 = [("width", 0), ("height", 1), ("flags", 2), ("color_red", 3),
        ("color_green", 4), ("color_blue", 5), ("color_alpha", 6), ("color_env", 7),
        ("color_env_offset", 8), ("image", 9), ("data", 10)]
    ∧ fields_MapItemLayerV1QuadsV1 = [("num_quads", 0), ("data", 1), ("image", 2)]
    ∧ fields_MapItemLayerV1DdraceSoundsV1 = [("num_sources", 0), ("data", 1), ("sound", 2), ("name", 3)] := by
  decide

/-- Tie: item type numbers, flags and tile struct sizes used by the map model, and the datafile
constants and struct sizes used by the reader model. -/
theorem tie_constants :
    [MAP_ITEMTYPE_VERSION, MAP_ITEMTYPE_INFO, MAP_ITEMTYPE_IMAGE, MAP_ITEMTYPE_ENVELOPE,
      MAP_ITEMTYPE_GROUP, MAP_ITEMTYPE_LAYER, MAP_ITEMTYPE_ENVPOINTS, MAP_ITEMTYPE_DDRACE_SOUND]
      = [0, 1, 2, 3, 4, 5, 6, 7]
    ∧ [MAP_ITEMTYPE_LAYER_V1_TILEMAP, MAP_ITEMTYPE_LAYER_V1_QUADS, MAP_ITEMTYPE_LAYER_V1_DDRACE_SOUNDS,
        MAP_ITEMTYPE_LAYER_V1_DDRACE_SOUNDS_LEGACY] = [2, 3, 10, 9]
    ∧ [LAYERFLAG_DETAIL, LAYERFLAGS_ALL, TILELAYERFLAG_GAME, TILELAYERFLAG_TELEPORT, TILELAYERFLAG_SPEEDUP,
        TILELAYERFLAG_FRONT, TILELAYERFLAG_SWITCH, TILELAYERFLAG_TUNE] = [1, 1, 1, 2, 4, 8, 16, 32]
    ∧ [sizeOf_Tile, sizeOf_TeleTile, sizeOf_SpeedupTile, sizeOf_SwitchTile, sizeOf_TuneTile] = [4, 2, 6, 4, 2]
    ∧ lits_extra_offset = [2, 3, 0, 1, 2, 3, 4]
    ∧ (Tw.Gen.Datafile.VERSION3, Tw.Gen.Datafile.VERSION4, Tw.Gen.Datafile.ITEMTYPE_ID_RANGE) = (3, 4, 65536)
    ∧ Tw.Gen.Datafile.MAGIC = magicData ∧ Tw.Gen.Datafile.MAGIC_BIGENDIAN = magicAtad
    ∧ [Tw.Gen.Datafile.sizeOf_Header, Tw.Gen.Datafile.sizeOf_HeaderVersion, Tw.Gen.Datafile.sizeOf_ItemType,
        Tw.Gen.Datafile.sizeOf_ItemHeader] = [headerSize, 8, 12, 8]
    ∧ Tw.Gen.Datafile.headerRestFields
        = ["size", "swaplen", "num_item_types", "num_items", "num_data", "size_items", "size_data"] := by
  decide

/-- Tie: the comparisons of the datafile reader's validation code (`Reader::check` and whatever
helper it may be split into, the header checks of `format.rs`, `ensure_filesize` of `file.rs`) as a
sorted multiset of *shapes* `[!]<left><op><right>` — an operand is kept only if it is an integer
literal or an ALL_CAPS constant, `!` marks a comparison inside a negated group — and the fact that
the seek base of `file.rs` includes `datafile_start`.  An operator flip (`<` ↔ `<=`), a dropped
negation or another limit constant breaks this theorem even when no generated input separates
the versions; renaming, local `let`s, closures (`find`/`position`) and private helper functions
do not. -/
theorem tie_datafile_comparisons :
    Tw.Gen.Datafile.cmp_raw_validation
      = ["!0<=_", "!0<=_", "!_<=_", "!_<ITEMTYPE_ID_RANGE", "!_>_", "_!=0", "_!=_", "_!=_", "_!=_", "_!=_", "_!=_", "_<0", "_<0", "_<0", "_<0", "_==_", "_>_", "_>_", "_>_", "_>_"]
    ∧ Tw.Gen.Datafile.cmp_format_header
      = ["_!=0", "_!=MAGIC", "_!=MAGIC_BIGENDIAN", "_!=VERSION3", "_!=VERSION4", "_!=_", "_!=_", "_!=_", "_!=_", "_!=_", "_<0", "_<0", "_<0", "_<0", "_<0", "_<0", "_<0", "_<_", "_<_", "_>=4"]
    ∧ Tw.Gen.Datafile.cmp_file_ensure_filesize = ["_>=_"]
    ∧ Tw.Gen.Datafile.file_seek_base_uses_start = true := by
  decide

/-- Tie: comparison shapes of the map layer's validation code (`from_slice_rest`, the extra-race
`from_slice`/`offset`, `get_index_impl`, `get_index_opt`, every `from_raw`). -/
theorem tie_map_comparisons :
    Tw.Gen.MapItems.cmp_map_format
      = ["!_<=_", "!_<_", "_!=0", "_<=_", "_<_", "_<_", "_==0", "_==_"]
    ∧ Tw.Gen.MapItems.cmp_map_reader
      = ["!_<_", "_!=0", "_!=0", "_!=0", "_!=0", "_!=MAP_ITEMTYPE_LAYER_V1_DDRACE_SOUNDS", "_==-1", "_==-1", "_==0", "_==0", "_>_", "_>_"] := by
  decide

/-- **`MapItemExt::from_slice_rest` is total** for every layout and every slice (the two slice
operations and the size assertion cannot fail), and a found item is exactly the window
`slice[offset .. offset + len]`. -/
theorem map_from_slice_rest_total (sp : Spec) (slice : List Int) :
    (∀ site, fromSliceRest sp slice ≠ .panic site)
      ∧ ∀ item rest, fromSliceRest sp slice = .found item rest →
          sp.offset + sp.len ≤ slice.length ∧ item = (slice.drop sp.offset).take sp.len
            ∧ rest = slice.drop (sp.offset + sp.len) := by
  refine ⟨fun s => fromSliceRest_no_panic sp slice s, fun item rest h => ?_⟩
  obtain ⟨h1, h2, _, h4⟩ := fromSliceRest_found h
  exact ⟨h1, h2, h4⟩

/-- **`get_index` / `get_index_opt`**: a returned index lies in the range it was checked against. -/
theorem map_get_index_in_range (index : Int) (a b : Nat) (e : String) :
    (∀ i, getIndex index a b e = .ok i → a ≤ i ∧ i < b)
      ∧ (∀ i, getIndexOpt index a b e = .ok (some i) → a ≤ i ∧ i < b)
      ∧ (∀ s, getIndex index a b e ≠ .panic s) ∧ (∀ s, getIndexOpt index a b e ≠ .panic s) :=
  ⟨fun _ h => getIndex_ok h, fun _ h => getIndexOpt_ok h, fun s => getIndex_no_panic _ _ _ _ s,
    fun s => getIndexOpt_no_panic _ _ _ _ s⟩

/-- **`version()`, `check_version()`, `info()`** on every accepted datafile: no panic (the two
`unreachable!()`s are unreachable); the data indices of the info item are below `num_data`. -/
theorem map_version_info_total (bytes : List UInt8) (r : Reader) (h : Reader.new bytes = .ok r) :
    (∀ s, version r ≠ .panic s) ∧ (∀ s, checkVersion r ≠ .panic s) ∧ (∀ s, info r ≠ .panic s)
      ∧ ∀ i, info r = .ok i → ∀ d, d ∈ [i.author, i.version, i.credits, i.license, i.settings] →
          ∀ k, d = some k → k < r.numData.toNat := by
  rcases new_spec bytes with ⟨e, he⟩ | ⟨r', hr, inv, _⟩
  · rw [he] at h; cases h
  · rw [hr] at h; cases h
    refine ⟨version_no_panic inv, checkVersion_no_panic inv, (info_spec inv).1, ?_⟩
    intro i hi d hd k hk
    obtain ⟨h1, h2, h3, h4, h5⟩ := (info_spec inv).2 i hi
    simp only [List.mem_cons, List.mem_nil_iff, or_false] at hd
    rcases hd with rfl | rfl | rfl | rfl | rfl
    · exact (h1 k hk).2
    · exact (h2 k hk).2
    · exact (h3 k hk).2
    · exact (h4 k hk).2
    · exact (h5 k hk).2

/-- **`group(index)` for every index of `group_indices()`**: the type assertion holds, no panic,
and the group's `layer_indices` is a sub-range of the layer items. -/
theorem map_group_total (bytes : List UInt8) (r : Reader) (h : Reader.new bytes = .ok r)
    (ga gb k : Nat) (hg : typeRange r MAP_ITEMTYPE_GROUP = .ok (ga, gb)) (h1 : ga ≤ k) (h2 : k < gb) :
    (∀ s, group r k ≠ .panic s) ∧ ∃ la lb, typeRange r MAP_ITEMTYPE_LAYER = .ok (la, lb)
      ∧ ∀ g, group r k = .ok g → la ≤ g.layersStart ∧ g.layersStart ≤ g.layersEnd ∧ g.layersEnd ≤ lb := by
  rcases new_spec bytes with ⟨e, he⟩ | ⟨r', hr, inv, _⟩
  · rw [he] at h; cases h
  · rw [hr] at h; cases h
    obtain ⟨la, lb, hl, _, _⟩ := typeRange_ok inv MAP_ITEMTYPE_LAYER
    exact ⟨(group_spec inv hg hl h1 h2).1, la, lb, hl, (group_spec inv hg hl h1 h2).2⟩

/-- **`layer(index)` for every index of the layer range** (hence for every index a group
returns): the type assertion holds, no panic, and every data / image / envelope / sound index
of the layer is inside the corresponding range; tile layers have non-zero dimensions. -/
theorem map_layer_total (bytes : List UInt8) (r : Reader) (h : Reader.new bytes = .ok r)
    (la lb k : Nat) (hl : typeRange r MAP_ITEMTYPE_LAYER = .ok (la, lb)) (h1 : la ≤ k) (h2 : k < lb) :
    (∀ s, layer r k ≠ .panic s) ∧ ∀ l, layer r k = .ok l →
      ∃ ea eb ia ib sa sb, typeRange r MAP_ITEMTYPE_ENVELOPE = .ok (ea, eb)
        ∧ typeRange r MAP_ITEMTYPE_IMAGE = .ok (ia, ib)
        ∧ typeRange r MAP_ITEMTYPE_DDRACE_SOUND = .ok (sa, sb)
        ∧ l.InRange 0 r.numData.toNat ea eb ia ib sa sb := by
  rcases new_spec bytes with ⟨e, he⟩ | ⟨r', hr, inv, _⟩
  · rw [he] at h; cases h
  · rw [hr] at h; cases h
    exact layer_spec inv hl h1 h2

/-- **`image(index)` for every item index**: no panic; name and data index below `num_data`. -/
theorem map_image_total (bytes : List UInt8) (r : Reader) (h : Reader.new bytes = .ok r)
    (k : Nat) (hk : k < r.numItems.toNat) :
    (∀ s, image r k ≠ .panic s) ∧ ∀ x, image r k = .ok x →
      x.name < r.numData.toNat ∧ ∀ d, x.data = some d → d < r.numData.toNat := by
  rcases new_spec bytes with ⟨e, he⟩ | ⟨r', hr, inv, _⟩
  · rw [he] at h; cases h
  · rw [hr] at h; cases h
    refine ⟨(image_spec inv hk).1, fun x hx => ?_⟩
    obtain ⟨hn, hd⟩ := (image_spec inv hk).2 x hx
    exact ⟨hn, fun d hdd => (hd d hdd).2⟩

/-- **`game_layers()`**: no panic (both loops, every `group`/`layer` call inside them and the two
final `unwrap`s), and every data index it returns is below `num_data`. -/
theorem map_game_layers_total (bytes : List UInt8) (r : Reader) (h : Reader.new bytes = .ok r) :
    (∀ s, gameLayers r ≠ .panic s) ∧ ∀ gl, gameLayers r = .ok gl →
      gl.game < r.numData.toNat ∧ ∀ d, d ∈ [gl.teleport, gl.speedup, gl.front, gl.switch, gl.tune] →
        ∀ k, d = some k → k < r.numData.toNat := by
  rcases new_spec bytes with ⟨e, he⟩ | ⟨r', hr, inv, _⟩
  · rw [he] at h; cases h
  · rw [hr] at h; cases h
    refine ⟨(gameLayers_spec inv).1, fun gl hgl => ?_⟩
    obtain ⟨h0, h1, h2, h3, h4, h5⟩ := (gameLayers_spec inv).2 gl hgl
    refine ⟨h0, ?_⟩
    intro d hd k hk
    simp only [List.mem_cons, List.mem_nil_iff, or_false] at hd
    rcases hd with rfl | rfl | rfl | rfl | rfl
    · exact (h1 k hk).2
    · exact (h2 k hk).2
    · exact (h3 k hk).2
    · exact (h4 k hk).2
    · exact (h5 k hk).2

/-- **String, image-name, settings and tile accessors for every data index**, for any zlib that
honours its contract: errors or values, never a panic; a tile array has exactly
`height × width` elements of its struct size. -/
theorem map_data_accessors_total (bytes : List UInt8) (r : Reader) (h : Reader.new bytes = .ok r)
    (z : Zlib) (hz : ∀ n src out, z n src = some out → out.length ≤ n)
    (d : Nat) (hd : d < r.numData.toNat) :
    (∀ s, Tw.Map.string r z d ≠ .panic s) ∧ (∀ s, imageName r z d ≠ .panic s)
      ∧ (∀ s, settings r z d ≠ .panic s)
      ∧ (∀ size e s, tilesRaw r z d size e ≠ .panic s)
      ∧ (∀ width height size e, (∀ s, tiles r z d width height size e ≠ .panic s)
          ∧ ∀ raw, tiles r z d width height size e = .ok raw →
              raw.length % size = 0 ∧ height * width = raw.length / size) := by
  rcases new_spec bytes with ⟨e, he⟩ | ⟨r', hr, inv, _⟩
  · rw [he] at h; cases h
  · rw [hr] at h; cases h
    exact ⟨string_no_panic inv z hz hd, imageName_no_panic inv z hz hd, settings_no_panic inv z hz hd,
      fun size e => (tilesRaw_spec inv z hz hd size e).1,
      fun width height size e => tiles_spec inv z hz hd width height size e⟩

/-- **`SettingsIter` terminates** on every byte string: from any position inside the block,
`length - pos + 1` calls of `next` reach `None`; no call indexes outside the block. -/
theorem settings_iter_terminates (s : List UInt8) (pos : Nat) (hpos : pos ≤ s.length) :
    ∃ items, settingsAll s (s.length - pos + 1) pos = some (.ok items) :=
  settingsAll_terminates s _ pos hpos (Nat.le_refl _)

/-- non-vacuity: a settings block with two entries -/
example : settingsAll [97, 0, 98, 99, 0] 6 0 = some (.ok [[97], [98, 99]]) := by rfl

/-! ### Map round trip -/

/-- **Map round trip.**  For every well-formed map `m` (`WMap.Ok`: ids fit 16 bits, every index of
the info item, the images and the layers lies in the range the format demands, the groups' layer
counts add up, every word fits an `i32`, file below 2 GiB) and every zlib pair with
`inflate |x| (deflate x) = x`: the file `writeMap deflate m` (independent writer model: version,
info, images, envelopes, groups, layers of all kinds, sounds, data) is accepted, and the map reader
returns the map — version 1, the info item's indices, the group and image ranges, every image,
every group with its layer range, every layer (tile layers of every kind with colour, colour
envelope, image and data indices; quad layers; sound layers) and every data block. -/
theorem map_roundtrip (deflate : List UInt8 → List UInt8)
    (inflate : Nat → List UInt8 → Option (List UInt8)) (m : WMap) (ok : m.Ok deflate)
    (hz : ∀ x ∈ m.datas, inflate x.length (deflate x) = some x) :
    ∃ r, Reader.new (writeMap deflate m) = .ok r
      ∧ version r = .ok 1 ∧ checkVersion r = .ok ()
      ∧ info r = .ok { author := m.info.author, version := m.info.version, credits := m.info.credits,
                       license := m.info.license, settings := m.info.settings }
      ∧ typeRange r MAP_ITEMTYPE_GROUP = .ok (grpRange m)
      ∧ typeRange r MAP_ITEMTYPE_IMAGE = .ok (imgRange m)
      ∧ (∀ i (hi : i < m.images.length), image r (2 + i)
            = .ok { width := m.images[i].width, height := m.images[i].height, name := m.images[i].name,
                    data := m.images[i].data })
      ∧ (∀ i (hi : i < m.groups.length), group r (gBase m + i)
            = .ok { offsetX := m.groups[i].offsetX, offsetY := m.groups[i].offsetY,
                    parallaxX := m.groups[i].parallaxX, parallaxY := m.groups[i].parallaxY,
                    layersStart := (layRange m).1 + startOf m.groups i,
                    layersEnd := (layRange m).1 + startOf m.groups i + m.groups[i].numLayers,
                    clipping := m.groups[i].clipping, name := nameGet (nameW m.groups[i].name) })
      ∧ (∀ i (hi : i < m.layers.length), layer r (lBase m + i)
            = .ok (m.layers[i].read (envRange m).1 (imgRange m).1 (sndRange m).1))
      ∧ (∀ d (hd : d < m.datas.length), Tw.Map.readData r inflate d = .ok m.datas[d]) :=
  map_roundtrip_reader deflate inflate m ok hz

/-- **Strings and settings come back as stored.**  A data block `s ++ [0]` without inner NUL is
returned by `string` as `s`; a settings block that is the concatenation of NUL-terminated entries
is iterated by `SettingsIter` into exactly those entries. -/
theorem map_strings_settings_roundtrip (r : Reader) (z : Zlib) (d : Nat) :
    (∀ s : List UInt8, Tw.Map.readData r z d = .ok (s ++ [0]) → (∀ b ∈ s, b ≠ 0) →
        Tw.Map.string r z d = .ok s)
      ∧ ∀ ss : List (List UInt8), (∀ s ∈ ss, ∀ b ∈ s, b ≠ 0) →
          settingsAll ((ss.map (· ++ [0])).flatten) (ss.length + 1) 0 = some (.ok ss) := by
  refine ⟨fun s h hs => string_of_data h hs, fun ss hss => ?_⟩
  have := settingsAll_join ss hss [] (ss.length + 1) (Nat.le_refl _)
  simpa using this

/-- non-vacuity: a sample map with two groups, four layers (game, normal with colour envelope,
quads, teleport), two images and an envelope satisfies `WMap.Ok` -/
example : (sampleMap 1).Ok id := by
  refine ⟨by decide, by decide, by decide, ?_, ?_, ?_, by decide +kernel, by decide⟩
  · intro i hi
    have : i = 0 ∨ i = 1 := by simp [sampleMap] at hi; omega
    rcases this with rfl | rfl <;> simp [sampleMap, startOf, sampleTile]
  · intro l hl
    simp [sampleMap, sampleTile] at hl
    rcases hl with rfl | rfl | rfl | rfl <;>
      simp [WLayer.Ok, envRange, imgRange, sndRange, rangeOf, sampleMap, eBase, sBase, sampleTile] <;>
      constructor <;> simp [WTileKind.extraData]
  · intro it hit w hw
    simp [mapItems, sampleMap, sampleTile, enumFrom, groupStarts, versionItem, infoItem, imageItem, envelopeItem,
      groupItem, layerItem, layerRest, layerType, nameW, optIdx, zname, aname, WTileKind.flags, WTileKind.extra] at hit
    rcases hit with rfl | rfl | rfl | rfl | rfl | rfl | rfl | rfl | rfl | rfl | rfl <;>
      (simp [MAP_ITEMTYPE_LAYER_V1_TILEMAP, MAP_ITEMTYPE_LAYER_V1_QUADS, TILELAYERFLAG_GAME, TILELAYERFLAG_TELEPORT] at hw; unfold InI32; omega)

end Map

end Tw.Props.C16
