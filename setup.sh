#!/bin/sh
# Build the framework from files on disk only (offline): Lean library + driver, Rust harness.
set -e
cd "$(dirname "$0")"
export CARGO_NET_OFFLINE=true
python3 - <<'PY'
import sys, os
sys.path.insert(0, "tools")
import vlib
vlib.gen_sources()
ok, out = vlib.extract()
print(out)
if not ok:
    sys.exit(1)
mods = []
for p in vlib.all_props():
    mods += vlib.load_prop(p).get("lean_modules", ["Tw.Props." + p])
ok, out, s = vlib.lake_build(sorted(set(mods)) + ["twdrv"])
print(out[-3000:])
print("lean build: %.0fs ok=%s" % (s, ok))
if not ok:
    sys.exit(1)
ok, out, s, _ = vlib.cargo_build()
print(out[-3000:])
print("cargo build: %.0fs ok=%s" % (s, ok))
sys.exit(0 if ok else 1)
PY
