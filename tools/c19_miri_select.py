#!/usr/bin/env python3
"""Sample of a domain's quick-tier request lines for the Miri run (tools/c19_miri.sh).

usage: c19_miri_select.py <domain> [<twdrv>] < all-requests > sample

Stateless domains: at most K lines per operation token, short lines only, no hash-form sweeps, none
of the operations that need C/C++ code behind FFI (Miri cannot interpret foreign functions).
Stateful domains (`demo`): the first N whole sessions that qualify.
(An optional model-output filter `model_prefix` — keep only requests whose model answer starts with a
prefix — needs the driver binary; it is not used at present.)"""
import subprocess
import sys

CFG = {
    # hash-form sweeps are skipped everywhere (`hash` in the token) unless `keep_hash`
    "packer": {"k": 20, "maxlen": 240},
    # hc/hd/hrd: sweeps; rd/rc print what the C++ reference answers (a stand-in under Miri);
    # tiefreq/repr walk the whole table (9 minutes under Miri for the two requests)
    "huffman": {"k": 12, "maxlen": 240, "skip": {"hc", "hd", "hrd", "rd", "rc", "tiefreq", "repr"}},
    "packet6": {"k": 20, "maxlen": 240},
    "packet7": {"k": 10, "maxlen": 240},
    # pair/sweep consult the C++ snapshot reference
    "snap": {"k": 8, "maxlen": 420, "skip": {"pair", "sweep"}},
    # `hash` is an ordinary run whose events are hashed; sweep/all2 are bulk forms
    # `file` with a fragmentation other than `w` (whole) feeds the reader through a socket pair from a
    # second thread: Miri reports that blocking read as a deadlock; `file … w` reads a real temp file
    "teehist": {"k": 5, "maxlen": 1500, "skip": {"sweep", "all2"}, "keep_hash": True, "require_last": {"file": "w"}},
    "demo": {"sessions": 10, "maxlen": 500, "skip": {"sweep", "mutall"}, "session_start": "new", "maxlines": 120},
    # h*: hash-form sweeps
    "browse": {"k": 15, "maxlen": 600, "skip": {"mfh", "hc", "hs"}},
    "gamenet": {"k": 12, "maxlen": 600, "skip": {"hobjpos", "hbody"}},
    "recv": {"sessions": 8, "maxlen": 700, "session_start": "new", "maxlines": 150},
    "snapmgr": {"sessions": 5, "maxlen": 900, "session_start": "new", "maxlines": 150},
    "snapmgrc": {"sessions": 4, "maxlen": 900, "session_start": "new", "maxlines": 120},
    "conn6": {"sessions": 4, "maxlen": 900, "session_start": "new", "maxlines": 160},
    "conn7": {"sessions": 4, "maxlen": 900, "session_start": "new", "maxlines": 160},
    "net": {"sessions": 4, "maxlen": 900, "session_start": "new", "maxlines": 160},
    "demohl": {"sessions": 3, "maxlen": 900, "skip": {"mutall"}, "session_start": "new", "maxlines": 120},
    # zlib: harness-miri replaces the wrapper crate by a pure-Rust inflate for the whole graph
    "datafile": {"k": 30, "maxlen": 700, "skip": {"hsweep", "sweep"}},
    "map": {"k": 4, "maxlen": 1000, "skip": {"hsweep", "sweep"}},
}


def main():
    dom = sys.argv[1]
    drv = sys.argv[2] if len(sys.argv) > 2 else None
    cfg = CFG[dom]
    skip = cfg.get("skip", set())

    def ok(line):
        t = line.split()
        if not t or len(line) > cfg["maxlen"] or t[0] in skip:
            return False
        if "hash" in t[0] and not cfg.get("keep_hash"):
            return False
        if "only" in cfg and t[0] not in cfg["only"]:
            return False
        if t[0] in cfg.get("require_last", {}) and t[-1] != cfg["require_last"][t[0]]:
            return False
        return True

    lines = [l for l in sys.stdin if l.strip()]
    if "session_start" in cfg:
        sessions, cur = [], None
        for l in lines:
            if l.split()[0] == cfg["session_start"]:
                cur = []
                sessions.append(cur)
            if cur is not None:
                cur.append(l)
        out, n = [], 0
        for s in sessions:
            if n >= cfg["sessions"]:
                break
            if len(out) + len(s) > cfg["maxlines"]:
                continue
            if all(ok(l) for l in s) and len(s) >= 3:
                out += s
                n += 1
        sys.stdout.writelines(out)
        return
    cand = [l for l in lines if ok(l)]
    if "model_prefix" in cfg:
        cand = cand[:cfg["candidates"]]
        if not drv:
            sys.exit("datafile needs the driver binary")
        p = subprocess.run([drv, dom], input="".join(cand), stdout=subprocess.PIPE, text=True)
        outs = p.stdout.split("\n")
        cand = [l for l, o in zip(cand, outs) if o.startswith(cfg["model_prefix"])]
    seen = {}
    for l in cand:
        t = l.split()[0]
        if seen.get(t, 0) < cfg["k"]:
            seen[t] = seen.get(t, 0) + 1
            sys.stdout.write(l)


if __name__ == "__main__":
    main()
