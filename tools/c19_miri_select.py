#!/usr/bin/env python3
"""Stratified sample of a domain's quick-tier request lines for the Miri run: at most K lines per
operation token, short lines only, no hash-form sweeps.  usage: c19_miri_select.py <domain> <K> < all > sample"""
import sys

dom, k = sys.argv[1], int(sys.argv[2])
# huffman: hash sweeps, and the operations that print what the C++ reference answers (under Miri the
# reference is a stand-in)
SKIP = {"huffman": {"hc", "hd", "hrd", "rd", "rc"}, "packer": {"hashrange_wi", "hash_ri_len", "hash_ri_sweep5"}}
seen = {}
for line in sys.stdin:
    t = line.split()
    if not t or len(line) > 240 or "hash" in t[0] or t[0] in SKIP.get(dom, ()):
        continue
    n = seen.get(t[0], 0)
    if n < k:
        seen[t[0]] = n + 1
        sys.stdout.write(line)
