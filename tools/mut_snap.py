#!/usr/bin/env python3
"""Mutation hardening of the quick tier of domain `snap` (C09, C10, C11): each edit of the code
under test must produce a property-oracle failure (= a concrete replay), not only a
model/implementation disagreement.

usage: tools/mut_snap.py [name ...]     (default: all)   env: VERIF_REPO (default /tmp/rw/snap)

For each mutation: patch the repo worktree, rebuild the harness, run the quick request file
(generated once by the unmutated harness, corpus included) on the implementation, collect the oracle
tags, restore the file.  Prints one line per mutation: the tags hit and the first failing request."""
import collections
import os
import subprocess
import sys

V = os.path.dirname(os.path.dirname(os.path.abspath(__file__)))
REPO = os.environ.get("VERIF_REPO", "/tmp/rw/snap")
SNAP = "snapshot/src/snap.rs"
FMT = "snapshot/src/format.rs"
KNOWN = {"C09/create-panics-on-size-change"}

MUTS = collections.OrderedDict([
    # limits ------------------------------------------------------------------------------------
    ("item_limit_allows_1025", (SNAP, [("if num_items + 1 > MAX_SNAPSHOT_ITEMS {", "if num_items > MAX_SNAPSHOT_ITEMS {")],
                                "C11/limits")),
    ("item_limit_rejects_1024", (SNAP, [("if num_items + 1 > MAX_SNAPSHOT_ITEMS {", "if num_items + 1 >= MAX_SNAPSHOT_ITEMS {")],
                                 "builder-limit-mismatch")),
    ("size_limit_allows_65540", (SNAP, [("if RawSnap::serialized_ints_size(num_items + 1, offset + size) > MAX_SNAPSHOT_SIZE {",
                                         "if RawSnap::serialized_ints_size(num_items + 1, offset + size) > MAX_SNAPSHOT_SIZE + 4 {")],
                                 "C11/limits")),
    ("size_limit_rejects_65536", (SNAP, [("if RawSnap::serialized_ints_size(num_items + 1, offset + size) > MAX_SNAPSHOT_SIZE {",
                                          "if RawSnap::serialized_ints_size(num_items + 1, offset + size) >= MAX_SNAPSHOT_SIZE {")],
                                  "builder-limit-mismatch")),
    # allocation ----------------------------------------------------------------------------------
    ("reserve_announced_size", (SNAP, [("            for _ in 0..size {\n                self.buf\n                    .push(",
                                        "            self.buf.reserve(size.usize());\n            for _ in 0..size {\n                self.buf\n                    .push(")],
                                "C11/allocation-exceeds-input-multiple")),
    # arithmetic ----------------------------------------------------------------------------------
    ("create_checked_sub", (FMT, [("out[i] = to[i].wrapping_sub(from[i]);", "out[i] = to[i] - from[i];")], "C09/")),
    ("apply_checked_add", (FMT, [("out[i] = in_[i].wrapping_add(delta[i]);", "out[i] = in_[i] + delta[i];")], "C09/")),
    ("crc_checked_add", (SNAP, [("self.buf.iter().fold(0, |s, &a| s.wrapping_add(a))", "self.buf.iter().fold(0i32, |s, &a| s.saturating_add(a))")],
                         "crc-mismatch")),
    ("crc_wrong_range", (SNAP, [("self.buf.iter().fold(0, |s, &a| s.wrapping_add(a))", "self.buf.iter().skip(1).fold(0, |s, &a| s.wrapping_add(a))")],
                         "crc-mismatch")),
    # delta content -------------------------------------------------------------------------------
    ("deleted_keys_from_to", (SNAP, [("""        for RawItem {
            raw_type_id, id, ..
        } in from.items()
        {
            if to.item(raw_type_id, id).is_none() {""", """        for RawItem {
            raw_type_id, id, ..
        } in to.items()
        {
            if from.item(raw_type_id, id).is_none() {""")], "C09/delta-apply")),
    ("deleted_keys_never", (SNAP, [("            if to.item(raw_type_id, id).is_none() {\n                assert!(self.deleted_items.insert(",
                                    "            if from.item(raw_type_id, id).is_none() {\n                assert!(self.deleted_items.insert(")],
                            "C09/delta-apply")),
    ("size_written_for_preagreed_3", (SNAP, [("                Some(size) => assert!(size.usize() == data.len()),\n                None => write_int(data.len().assert_i32())?,",
                                              "                Some(size) if size != 3 => assert!(size.usize() == data.len()),\n                _ => write_int(data.len().assert_i32())?,")],
                                      "C09/delta-wire")),
    # key order -----------------------------------------------------------------------------------
    ("write_signed_key_order", (SNAP, [("keys.sort_unstable_by_key(|&k| k as u32);", "keys.sort_unstable();")], "wire-layout")),
    # registry ------------------------------------------------------------------------------------
    ("recycle_forgets_a_type", (SNAP, [("        for (&uuid, &raw_type_id) in &self.extended_types {\n            // It fit last time",
                                        "        for (&uuid, &raw_type_id) in self.extended_types.iter().skip(1) {\n            // It fit last time")],
                                "C10/")),
    ("recycle_forgets_mapping", (SNAP, [("        Builder {\n            snap: self,\n            next_type_id,\n        }",
                                         "        self.extended_types.pop_first();\n        Builder {\n            snap: self,\n            next_type_id,\n        }")],
                                 "C10/")),
    # the coordinator's seeded changes (seeded/C10-1, C10-2, C11-2: applied with `git apply`)
    ("seeded_C09_3_zero_preagreed_size_read_as_unset", (SNAP, "seeded/C09-3/patch.diff", "C09/delta-wire")),
    ("seeded_C10_3_stale_uuid_map_in_reused_target", (SNAP, "seeded/C10-3/patch.diff", "target-reuse-differs")),
    ("seeded_C10_1_recycle_numbers_after_greatest_uuid", (SNAP, "seeded/C10-1/patch.diff", "C10/recycle-then-add-fails")),
    ("seeded_C10_2_reader_rejects_1024_items", (SNAP, "seeded/C10-2/patch.diff", "C10/roundtrip-rejected")),
    ("seeded_C11_2_reserve_announced_size", (SNAP, "seeded/C11-2/patch.diff", "C11/allocation-exceeds-input-multiple")),
    ("d6_revert", (SNAP, [(".insert(uuid, key_to_id(item_key))", ".insert(uuid, raw_type_id)")], "C10/item-lookup-differs")),
    # reader validation ---------------------------------------------------------------------------
    ("offset_le_to_lt", (SNAP, [("                if offset <= prev_offset {", "                if offset < prev_offset {")], "C11/parser-panic")),
    ("offset_past_end_unchecked", (SNAP, [("                if offset > items_len {\n                    return Err(Error::InvalidOffset);\n                }\n", "")],
                                   "C11/parser-panic")),
    ("d19_revert", (SNAP, [("            if out.len() != diff.len() {\n                // The item was copied from `from` with a different size.\n                return Err(Error::DeltaDifferingSizes);\n            }\n", "")],
                    "C11/apply-panic")),
    ("d20_revert_recycle", (SNAP, [("if (OFFSET_EXTENDED_TYPE_ID..0x8000).contains(&id) && id < next_type_id + 256 {", "if id < next_type_id + 256 {")],
                            "C11/followup-panic")),
])


def sh(cmd, cwd=None):
    p = subprocess.run(cmd, cwd=cwd, stdout=subprocess.PIPE, stderr=subprocess.STDOUT, text=True)
    return p.returncode, p.stdout


def main():
    names = sys.argv[1:] or list(MUTS)
    hbin = os.path.join(V, "harness", "target", "debug", "tw-harness")
    run = os.path.join(V, "run")
    os.makedirs(run, exist_ok=True)
    req = os.path.join(run, "mut_snap.req")
    rc, out = sh(["cargo", "build", "--offline", "--quiet"], cwd=os.path.join(V, "harness"))
    assert rc == 0, out[-2000:]
    with open(req, "w") as f:
        for fn in sorted(os.listdir(os.path.join(V, "corpus", "snap"))):
            for l in open(os.path.join(V, "corpus", "snap", fn)):
                if l.strip() and not l.startswith("#"):
                    f.write(l)
        f.write(subprocess.run([hbin, "gen", "snap", "quick", "1"], stdout=subprocess.PIPE, text=True, check=True).stdout)
    lines = open(req).read().split("\n")
    bad = 0
    for name in names:
        rel, edits, want = MUTS[name]
        path = os.path.join(REPO, rel)
        src = open(path).read()
        if isinstance(edits, str):
            rc, out = sh(["git", "apply", os.path.join(V, edits)], cwd=REPO)
            assert rc == 0, "mutation %s: git apply failed: %s" % (name, out)
        else:
            new = src
            for a, b in edits:
                assert a in new, "mutation %s: text not found in %s: %r" % (name, rel, a[:60])
                new = new.replace(a, b, 1)
            open(path, "w").write(new)
        try:
            rc, out = sh(["cargo", "build", "--offline", "--quiet"], cwd=os.path.join(V, "harness"))
            if rc != 0:
                print("%-28s DOES NOT COMPILE\n%s" % (name, out[-1500:]))
                bad += 1
                continue
            p = subprocess.run([hbin, "run", "snap", req, os.path.join(run, "mut.impl"), os.path.join(run, "mut.oracle")],
                               stdout=subprocess.PIPE, stderr=subprocess.PIPE, text=True,
                               env=dict(os.environ, TW_HANG_SECS="120"))
            tags = collections.Counter()
            first = {}
            if os.path.exists(os.path.join(run, "mut.oracle")):
                for l in open(os.path.join(run, "mut.oracle")):
                    parts = l.split(" ", 3)
                    if len(parts) >= 3 and parts[0] == "FAIL" and parts[2] not in KNOWN:
                        tags[parts[2]] += 1
                        first.setdefault(parts[2], (int(parts[1]), parts[3].strip()[:110] if len(parts) > 3 else ""))
            hit = [t for t in tags if want in t]
            status = "ok  " if hit else "MISS"
            if not hit:
                bad += 1
            crash = "" if p.returncode == 0 else " [harness exit %d]" % p.returncode
            print("%-28s %s want~%s%s  tags: %s" % (name, status, want, crash, ", ".join("%s x%d" % kv for kv in tags.most_common(6)) or "-"))
            for t in hit[:1]:
                ln, msg = first[t]
                print("    replay: line %d: %s | %s" % (ln, lines[ln - 1][:100], msg))
        finally:
            open(path, "w").write(src)
    rc, out = sh(["cargo", "build", "--offline", "--quiet"], cwd=os.path.join(V, "harness"))
    print("restored; %d mutation(s) without an oracle replay" % bad)
    return 1 if bad else 0


if __name__ == "__main__":
    sys.exit(main())
