//! Function level: signature, locals, blocks, statements, control flow.
//! Expression rules are in `ops.rs`.

use super::{lean_ty, marker, path_last, render, Deferred, FnSig, ModCtx, Param, R};
use crate::config::FnTarget;
use crate::types::{int_ty, Infer, Ty, USIZE_BITS};
use std::collections::HashMap;
use syn::{Block, Expr, Pat, Stmt};

#[path = "ops.rs"]
mod ops;

#[derive(Clone, Debug)]
pub struct Local {
    pub lean: String,
    pub ty: Ty,
    pub mutable: bool,
}

#[derive(Clone, Debug)]
pub struct Val {
    pub code: String,
    pub ty: Ty,
}

impl Val {
    pub fn never() -> Val {
        Val { code: String::new(), ty: Ty::Never }
    }
    pub fn unit() -> Val {
        Val { code: "()".into(), ty: Ty::Unit }
    }
}

pub struct LoopInfo {
    /// `while`/`loop`: the flag that records a regular exit (as opposed to fuel exhaustion)
    pub exit_flag: Option<String>,
}

pub struct FnCtx<'b, 'a> {
    pub m: &'b ModCtx<'a>,
    pub inf: Infer,
    pub deferred: Vec<Deferred>,
    pub lines: Vec<(usize, String)>,
    pub indent: usize,
    pub scopes: Vec<HashMap<String, Local>>,
    pub names_used: HashMap<String, usize>,
    pub ntmp: usize,
    pub inouts: Vec<String>,
    pub fn_name: String,
    pub loops: Vec<LoopInfo>,
    pub fuel: Option<u64>,
    pub hints: HashMap<String, Ty>,
    pub self_ty: Option<String>,
    pub generics: HashMap<String, Ty>,
    pub ret_ty: Ty,
}

/// Rust type -> `Ty`.  `generics`: bounds of the generic parameters in scope.
pub fn convert_type(m: &ModCtx, t: &syn::Type, generics: &HashMap<String, Ty>, self_ty: Option<&str>) -> R<Ty> {
    use syn::Type as T;
    Ok(match t {
        T::Reference(r) => convert_type(m, &r.elem, generics, self_ty)?,
        T::Paren(p) => convert_type(m, &p.elem, generics, self_ty)?,
        T::Group(p) => convert_type(m, &p.elem, generics, self_ty)?,
        T::Tuple(tt) => {
            if tt.elems.is_empty() {
                Ty::Unit
            } else {
                Ty::Tuple(tt.elems.iter().map(|x| convert_type(m, x, generics, self_ty)).collect::<R<_>>()?)
            }
        }
        T::Slice(s) => {
            if is_u8(&s.elem) {
                Ty::Bytes(None)
            } else {
                return Err("only byte slices are supported".into());
            }
        }
        T::Array(a) => {
            if is_u8(&a.elem) {
                Ty::Bytes(None)
            } else {
                return Err("only byte arrays are supported".into());
            }
        }
        T::Path(tp) => {
            let seg = tp.path.segments.last().ok_or("empty type path")?;
            let name = seg.ident.to_string();
            if let Some(i) = int_ty(&name) {
                return Ok(i);
            }
            let targs: Vec<&syn::Type> = match &seg.arguments {
                syn::PathArguments::AngleBracketed(a) => a
                    .args
                    .iter()
                    .filter_map(|g| if let syn::GenericArgument::Type(t) = g { Some(t) } else { None })
                    .collect(),
                _ => vec![],
            };
            match name.as_str() {
                "bool" => Ty::Bool,
                "Self" => Ty::Named(self_ty.ok_or("`Self` outside an impl")?.to_string()),
                "Option" if targs.len() == 1 => Ty::Opt(Box::new(convert_type(m, targs[0], generics, self_ty)?)),
                "Result" if targs.len() == 2 => Ty::Res(
                    Box::new(convert_type(m, targs[0], generics, self_ty)?),
                    Box::new(convert_type(m, targs[1], generics, self_ty)?),
                ),
                "Vec" if targs.len() == 1 && is_u8(targs[0]) => Ty::Bytes(None),
                "ArrayVec" if targs.len() == 1 => match targs[0] {
                    T::Array(a) if is_u8(&a.elem) => {
                        let cap = m.const_eval(&a.len)?;
                        Ty::Bytes(Some(cap as u64))
                    }
                    _ => return Err("only ArrayVec<[u8; N]> is supported".into()),
                },
                "Iter" if targs.len() == 1 && is_u8(targs[0]) => Ty::ByteIter,
                "Ordering" => Ty::Ordering,
                _ => {
                    if let Some(g) = generics.get(&name) {
                        g.clone()
                    } else if m.structs.contains_key(&name) || m.enums.contains_key(&name) {
                        Ty::Named(name)
                    } else {
                        return Err(format!("type {} is not in the supported subset (add a gentype/maptype entry?)", name));
                    }
                }
            }
        }
        _ => return Err("unsupported type syntax".into()),
    })
}

fn is_u8(t: &syn::Type) -> bool {
    matches!(t, syn::Type::Path(p) if p.path.is_ident("u8"))
}

/// Bound of a generic parameter: `Warn<X>` -> warning sink, `FnMut(&[u8]) -> Result<(), E>` -> byte sink.
fn bound_type(m: &ModCtx, b: &syn::TypeParamBound, generics: &HashMap<String, Ty>, self_ty: Option<&str>) -> R<Option<Ty>> {
    if let syn::TypeParamBound::Trait(tb) = b {
        let seg = tb.path.segments.last().unwrap();
        match seg.ident.to_string().as_str() {
            "Warn" => {
                if let syn::PathArguments::AngleBracketed(a) = &seg.arguments {
                    if let Some(syn::GenericArgument::Type(t)) = a.args.first() {
                        return Ok(Some(Ty::WarnSink(Box::new(convert_type(m, t, generics, self_ty)?))));
                    }
                }
                return Err("Warn bound without a warning type".into());
            }
            "FnMut" | "Fn" | "FnOnce" => {
                if let syn::PathArguments::Parenthesized(p) = &seg.arguments {
                    let ok_in = p.inputs.len() == 1 && matches!(convert_type(m, &p.inputs[0], generics, self_ty), Ok(Ty::Bytes(_)));
                    if ok_in {
                        if let syn::ReturnType::Type(_, rt) = &p.output {
                            if let Ty::Res(a, e) = convert_type(m, rt, generics, self_ty)? {
                                if *a == Ty::Unit {
                                    return Ok(Some(Ty::ByteSink(e)));
                                }
                            }
                        }
                    }
                }
                return Err("only closures `FnMut(&[u8]) -> Result<(), E>` are supported".into());
            }
            _ => {}
        }
    }
    Ok(None)
}

pub fn translate_fn(m: &mut ModCtx, t: &FnTarget) -> R<String> {
    let (rel, imp, sig, block) = m.find_fn(t)?;
    let _ = imp;
    let self_ty = t.self_ty.clone();
    let lean_name = t.lean_name.clone().unwrap_or_else(|| match &self_ty {
        Some(s) => format!("{}.{}", s, t.name),
        None => t.name.clone(),
    });
    // generics: first the plain parameters, then the bounds (inline and `where`)
    let mut generics: HashMap<String, Ty> = HashMap::new();
    let mut type_params: Vec<String> = vec![];
    for g in &sig.generics.params {
        if let syn::GenericParam::Type(tp) = g {
            generics.insert(tp.ident.to_string(), Ty::Param(tp.ident.to_string()));
        }
    }
    let mut bounds: Vec<(String, Vec<syn::TypeParamBound>)> = vec![];
    for g in &sig.generics.params {
        if let syn::GenericParam::Type(tp) = g {
            bounds.push((tp.ident.to_string(), tp.bounds.iter().cloned().collect()));
        }
    }
    if let Some(w) = &sig.generics.where_clause {
        for p in &w.predicates {
            if let syn::WherePredicate::Type(pt) = p {
                if let syn::Type::Path(tp) = &pt.bounded_ty {
                    bounds.push((path_last(&tp.path), pt.bounds.iter().cloned().collect()));
                }
            }
        }
    }
    for (name, bs) in &bounds {
        for b in bs {
            if let Some(ty) = bound_type(m, b, &generics, self_ty.as_deref())? {
                generics.insert(name.clone(), ty);
            }
        }
    }
    for g in &sig.generics.params {
        if let syn::GenericParam::Type(tp) = g {
            if let Some(Ty::Param(p)) = generics.get(&tp.ident.to_string()) {
                type_params.push(p.clone());
            }
        }
    }
    // parameters
    let mut params: Vec<Param> = vec![];
    let mut has_self = false;
    for a in &sig.inputs {
        match a {
            syn::FnArg::Receiver(r) => {
                has_self = true;
                let st = self_ty.clone().ok_or("`self` outside an impl")?;
                if !m.structs.contains_key(&st) && !m.enums.contains_key(&st) {
                    return Err(format!("type {} needs a gentype/maptype entry", st));
                }
                params.push(Param { name: "self".into(), ty: Ty::Named(st), inout: r.reference.is_some() && r.mutability.is_some() });
            }
            syn::FnArg::Typed(pt) => {
                let name = match &*pt.pat {
                    Pat::Ident(pi) => pi.ident.to_string(),
                    _ => return Err("only identifier patterns are supported for parameters".into()),
                };
                let ty = convert_type(m, &pt.ty, &generics, self_ty.as_deref()).map_err(|e| format!("parameter {}: {}", name, e))?;
                let by_mut_ref = matches!(&*pt.ty, syn::Type::Reference(r) if r.mutability.is_some());
                let inout = by_mut_ref || matches!(ty, Ty::ByteSink(_));
                params.push(Param { name, ty, inout });
            }
        }
    }
    let ret = match &sig.output {
        syn::ReturnType::Default => Ty::Unit,
        syn::ReturnType::Type(_, t) => convert_type(m, t, &generics, self_ty.as_deref()).map_err(|e| format!("return type: {}", e))?,
    };
    let fsig = FnSig { lean: lean_name.clone(), params: params.clone(), ret: ret.clone(), type_params: type_params.clone(), has_self };
    // recursion is outside the subset: the signature is registered only after the body
    let mut hints = HashMap::new();
    for (n, ty) in &t.hints {
        hints.insert(n.clone(), int_ty(ty).or(if ty == "bool" { Some(Ty::Bool) } else { None }).ok_or(format!("hint {}: unknown type {}", n, ty))?);
    }
    let text;
    {
        let mut c = FnCtx {
            m,
            inf: Infer::default(),
            deferred: vec![],
            lines: vec![],
            indent: 1,
            scopes: vec![HashMap::new()],
            names_used: HashMap::new(),
            ntmp: 0,
            inouts: vec![],
            fn_name: match &self_ty {
                Some(s) => format!("{}::{}", s, t.name),
                None => t.name.clone(),
            },
            loops: vec![],
            fuel: t.fuel,
            hints,
            self_ty: self_ty.clone(),
            generics,
            ret_ty: ret.clone(),
        };
        let mut head = format!("/-- `fn {}` of {} -/\ndef {}", c.fn_name, rel, lean_name);
        for tp in &type_params {
            head += &format!(" {{{} : Type}}", tp);
        }
        for p in &params {
            head += &format!(" ({} : {})", p.name, lean_ty(c.m, &p.ty)?);
            c.names_used.insert(p.name.clone(), 1);
            c.scopes[0].insert(p.name.clone(), Local { lean: p.name.clone(), ty: p.ty.clone(), mutable: p.inout });
            if p.inout {
                c.inouts.push(p.name.clone());
                c.emit(format!("let mut {} := {}", p.name, p.name));
            }
        }
        let mut rt = vec![lean_ty(c.m, &ret)?];
        for p in params.iter().filter(|p| p.inout) {
            rt.push(lean_ty(c.m, &p.ty)?);
        }
        head += &format!(" :\n    Rs ({}) := do\n", rt.join(" × "));
        let v = c.block(&block, Some(&ret.clone()), true)?;
        if v.ty != Ty::Never {
            c.inf.unify(&v.ty, &ret).map_err(|e| format!("function result: {}", e))?;
            let r = c.ret_tuple(&v.code);
            c.emit(format!("return {}", r));
        }
        let mut body = String::new();
        for (ind, l) in &c.lines {
            body += &"  ".repeat(*ind);
            body += l;
            body.push('\n');
        }
        // resolve deferred fragments (may be nested: operands contain markers themselves)
        let mut guard = 0;
        while let Some(p) = body.find('\u{1}') {
            let q = body[p..].find('\u{2}').ok_or("internal: marker")? + p;
            let idx: usize = body[p + 1..q].parse().map_err(|_| "internal: marker index")?;
            let r = render(c.m, &c.inf, &c.deferred[idx])?;
            body.replace_range(p..=q, &r);
            guard += 1;
            if guard > 100000 {
                return Err("internal: marker loop".into());
            }
        }
        text = head + &body;
    }
    m.fns.insert((self_ty, t.name.clone()), fsig);
    Ok(text)
}

impl<'b, 'a> FnCtx<'b, 'a> {
    pub fn emit(&mut self, s: String) {
        self.lines.push((self.indent, s));
    }

    pub fn tmp(&mut self) -> String {
        self.ntmp += 1;
        format!("t{}", self.ntmp)
    }

    pub fn defer(&mut self, d: Deferred) -> String {
        self.deferred.push(d);
        marker(self.deferred.len() - 1)
    }

    pub fn lty(&mut self, t: &Ty) -> String {
        self.defer(Deferred::LeanTy(t.clone()))
    }

    pub fn site(&self, what: &str) -> String {
        format!("\"{}: {}\"", self.fn_name, what)
    }

    /// `(value, inout1, inout2, …)` — what a `return` of the function yields
    pub fn ret_tuple(&self, v: &str) -> String {
        if self.inouts.is_empty() {
            v.to_string()
        } else {
            format!("({}, {})", v, self.inouts.join(", "))
        }
    }

    pub fn lookup(&self, name: &str) -> Option<Local> {
        for s in self.scopes.iter().rev() {
            if let Some(l) = s.get(name) {
                return Some(l.clone());
            }
        }
        None
    }

    /// Declares a local; a name that is already in use in this function gets a suffix (Lean's
    /// `do` notation does not allow shadowing a mutable variable).
    pub fn declare(&mut self, name: &str, ty: Ty, mutable: bool) -> String {
        let n = self.names_used.entry(name.to_string()).or_insert(0);
        *n += 1;
        let lean = if *n == 1 { name.to_string() } else { format!("{}_{}", name, *n - 1) };
        let lean = if is_lean_keyword(&lean) { format!("{}_", lean) } else { lean };
        self.scopes.last_mut().unwrap().insert(name.to_string(), Local { lean: lean.clone(), ty, mutable });
        lean
    }

    /// Runs `f` with a fresh line buffer one level deeper; returns the lines it emitted.
    pub fn sub<T>(&mut self, f: impl FnOnce(&mut Self) -> R<T>) -> R<(Vec<(usize, String)>, T)> {
        let saved = std::mem::take(&mut self.lines);
        self.indent += 1;
        self.scopes.push(HashMap::new());
        let r = f(self);
        self.scopes.pop();
        self.indent -= 1;
        let mine = std::mem::replace(&mut self.lines, saved);
        Ok((mine, r?))
    }

    pub fn splice(&mut self, ls: Vec<(usize, String)>) {
        self.lines.extend(ls);
    }

    /// A block: statements, then the optional tail expression.  `want_value`: the tail value is used.
    pub fn block(&mut self, b: &Block, exp: Option<&Ty>, want_value: bool) -> R<Val> {
        self.scopes.push(HashMap::new());
        let r = self.block_inner(b, exp, want_value);
        self.scopes.pop();
        r
    }

    fn block_inner(&mut self, b: &Block, exp: Option<&Ty>, want_value: bool) -> R<Val> {
        let n = b.stmts.len();
        for (i, s) in b.stmts.iter().enumerate() {
            let last = i + 1 == n;
            match s {
                Stmt::Local(l) => self.local(l)?,
                // a function-local `const NAME: T = <expr>;` is an immutable binding of that type
                Stmt::Item(syn::Item::Const(c)) => {
                    let name = c.ident.to_string();
                    let ty = convert_type(self.m, &c.ty, &self.generics, self.self_ty.as_deref())?;
                    let v = self.expr_mode(&c.expr, Some(&ty), true)?;
                    self.inf.unify(&ty, &v.ty).map_err(|e| format!("const {}: {}", name, e))?;
                    let lean = self.declare(&name, ty.clone(), false);
                    let lt = self.lty(&ty);
                    self.emit(format!("let {} : {} := {}", lean, lt, v.code));
                }
                Stmt::Item(_) => return Err("items inside function bodies are not supported (only `const`)".into()),
                Stmt::Macro(sm) => {
                    let v = self.macro_call(&sm.mac, None)?;
                    if v.ty == Ty::Never {
                        return Ok(Val::never());
                    }
                }
                Stmt::Expr(e, semi) => {
                    if last && semi.is_none() {
                        let v = self.expr_mode(e, exp, want_value)?;
                        return Ok(v);
                    }
                    let v = self.expr_mode(e, None, false)?;
                    if v.ty == Ty::Never {
                        return Ok(Val::never());
                    }
                }
            }
        }
        Ok(Val::unit())
    }

    fn local(&mut self, l: &syn::Local) -> R<()> {
        let (pat, ann) = match &l.pat {
            Pat::Type(pt) => (&*pt.pat, Some(convert_type(self.m, &pt.ty, &self.generics, self.self_ty.as_deref())?)),
            p => (p, None),
        };
        if let Some(init) = &l.init {
            if init.diverge.is_some() {
                return Err("let-else is not supported".into());
            }
        }
        match pat {
            Pat::Ident(pi) => {
                let name = pi.ident.to_string();
                let mutable = pi.mutability.is_some();
                let ann = ann.or_else(|| self.hints.get(&name).cloned());
                match &l.init {
                    None => {
                        // deferred initialisation: a mutable variable with a placeholder value
                        let ty = ann.unwrap_or_else(|| self.inf.fresh(false));
                        let lean = self.declare(&name, ty.clone(), true);
                        let d = self.defer(Deferred::DefaultVal(ty.clone()));
                        let lt = self.lty(&ty);
                        self.emit(format!("let mut {} : {} := {}", lean, lt, d));
                    }
                    Some(init) => {
                        // moving a linear resource (`let mut f = f;`) is an alias
                        if let Expr::Path(p) = &*init.expr {
                            if let Some(id) = p.path.get_ident() {
                                if let Some(src) = self.lookup(&id.to_string()) {
                                    if matches!(self.inf.shallow(&src.ty), Ty::ByteSink(_) | Ty::WarnSink(_) | Ty::ByteIter) {
                                        self.scopes.last_mut().unwrap().insert(name, src);
                                        return Ok(());
                                    }
                                }
                            }
                        }
                        let v = self.expr_mode(&init.expr, ann.as_ref(), true)?;
                        if v.ty == Ty::Never {
                            return Ok(());
                        }
                        let ty = match ann {
                            Some(a) => {
                                self.inf.unify(&a, &v.ty).map_err(|e| format!("let {}: {}", name, e))?;
                                a
                            }
                            None => v.ty.clone(),
                        };
                        let lean = self.declare(&name, ty.clone(), mutable);
                        let lt = self.lty(&ty);
                        self.emit(format!("let {}{} : {} := {}", if mutable { "mut " } else { "" }, lean, lt, v.code));
                    }
                }
                Ok(())
            }
            Pat::Struct(ps) => {
                let init = l.init.as_ref().ok_or("struct pattern without initialiser")?;
                let sname = path_last(&ps.path);
                let sd = self.m.structs.get(&sname).cloned().ok_or(format!("unknown struct {} in pattern", sname))?;
                let v = self.expr_mode(&init.expr, Some(&Ty::Named(sname.clone())), true)?;
                self.inf.unify(&v.ty, &Ty::Named(sname.clone()))?;
                let t = self.tmp();
                self.emit(format!("let {} : {} := {}", t, sd.lean, v.code));
                for fp in &ps.fields {
                    let fname = match &fp.member {
                        syn::Member::Named(i) => i.to_string(),
                        _ => return Err("tuple struct pattern".into()),
                    };
                    let fty = sd.fields.iter().find(|(n, _)| *n == fname).ok_or(format!("struct {} has no field {}", sname, fname))?.1.clone();
                    match &*fp.pat {
                        Pat::Ident(pi) => {
                            let lean = self.declare(&pi.ident.to_string(), fty.clone(), pi.mutability.is_some());
                            let lt = self.lty(&fty);
                            self.emit(format!("let {}{} : {} := {}.{}", if pi.mutability.is_some() { "mut " } else { "" }, lean, lt, t, fname));
                        }
                        Pat::Wild(_) => {}
                        _ => return Err("nested patterns in a struct pattern are not supported".into()),
                    }
                }
                Ok(())
            }
            Pat::Wild(_) => {
                if let Some(init) = &l.init {
                    self.expr_mode(&init.expr, None, false)?;
                }
                Ok(())
            }
            _ => Err("unsupported `let` pattern".into()),
        }
    }

    /// Expression in statement (`want_value = false`) or value position.
    pub fn expr_mode(&mut self, e: &Expr, exp: Option<&Ty>, want_value: bool) -> R<Val> {
        match e {
            Expr::If(i) => self.if_expr(i, exp, want_value),
            Expr::Match(m) => self.match_expr(&m.expr, &m.arms, exp, want_value),
            Expr::Block(b) => self.block(&b.block, exp, want_value),
            Expr::ForLoop(f) => self.for_loop(f),
            Expr::While(w) => self.while_loop(Some(&w.cond), &w.body),
            Expr::Loop(l) => self.while_loop(None, &l.body),
            Expr::Paren(p) if !want_value => self.expr_mode(&p.expr, exp, want_value),
            _ => self.expr(e, exp),
        }
    }

    fn branch_lines(&mut self, mut ls: Vec<(usize, String)>, v: &Val, value: bool) -> Vec<(usize, String)> {
        if value && v.ty != Ty::Never {
            ls.push((self.indent + 1, format!("pure {}", v.code)));
        } else if ls.is_empty() || (!value && v.ty != Ty::Never && ends_with_match(&ls, self.indent + 1)) {
            // a nested `match` at the end of a branch would swallow the alternatives that follow
            ls.push((self.indent + 1, "pure ()".into()));
        }
        ls
    }

    fn if_expr(&mut self, i: &syn::ExprIf, exp: Option<&Ty>, want_value: bool) -> R<Val> {
        if let Expr::Let(l) = &*i.cond {
            // `if let PAT = e { A } else { B }`  is  `match e { PAT => A, _ => B }`
            let pat = &*l.pat;
            let scrut = &*l.expr;
            let then = &i.then_branch;
            let m: syn::ExprMatch = match &i.else_branch {
                Some((_, e)) => syn::parse_quote!(match #scrut { #pat => #then, _ => #e }),
                None => syn::parse_quote!(match #scrut { #pat => #then, _ => {} }),
            };
            return self.match_expr(&m.expr, &m.arms, exp, want_value);
        }
        let c = self.expr(&i.cond, Some(&Ty::Bool))?;
        self.inf.unify(&c.ty, &Ty::Bool).map_err(|e| format!("if condition: {}", e))?;
        let (l1, v1) = self.sub(|s| s.block(&i.then_branch, exp, want_value))?;
        let (l2, v2) = match &i.else_branch {
            Some((_, eb)) => self.sub(|s| {
                s.scopes.push(HashMap::new());
                let r = s.expr_mode(eb, exp, want_value);
                s.scopes.pop();
                r
            })?,
            None => (vec![], Val::unit()),
        };
        let ty = self.join(&v1, &v2).map_err(|e| format!("if branches: {}", e))?;
        let is_unit = matches!(self.inf.shallow(&ty), Ty::Unit | Ty::Never);
        if !want_value || is_unit {
            self.emit(format!("if {} then", c.code));
            let b1 = self.branch_lines(l1, &v1, false);
            self.splice(b1);
            if i.else_branch.is_some() {
                self.emit("else".into());
                let b2 = self.branch_lines(l2, &v2, false);
                self.splice(b2);
            }
            return Ok(if ty == Ty::Never { Val::never() } else { Val::unit() });
        }
        if l1.is_empty() && l2.is_empty() && v1.ty != Ty::Never && v2.ty != Ty::Never {
            return Ok(Val { code: format!("(if {} then {} else {})", c.code, v1.code, v2.code), ty });
        }
        let t = self.tmp();
        let lt = self.lty(&ty);
        self.emit(format!("let {} : {} ← if {} then", t, lt, c.code));
        self.indent += 1;
        let b1 = {
            let mut l = reindent(l1, 1);
            if v1.ty != Ty::Never {
                l.push((self.indent + 1, format!("pure {}", v1.code)));
            }
            l
        };
        self.splice(b1);
        self.emit("else".into());
        let b2 = {
            let mut l = reindent(l2, 1);
            if v2.ty != Ty::Never {
                l.push((self.indent + 1, format!("pure {}", v2.code)));
            }
            l
        };
        self.splice(b2);
        self.indent -= 1;
        Ok(Val { code: t, ty })
    }

    /// common type of two branch values (`Never` is neutral)
    pub fn join(&mut self, a: &Val, b: &Val) -> R<Ty> {
        if a.ty == Ty::Never {
            return Ok(b.ty.clone());
        }
        if b.ty == Ty::Never {
            return Ok(a.ty.clone());
        }
        self.inf.unify(&a.ty, &b.ty)?;
        Ok(a.ty.clone())
    }

    fn match_expr(&mut self, scrut: &Expr, arms: &[syn::Arm], exp: Option<&Ty>, want_value: bool) -> R<Val> {
        let s = self.expr(scrut, None)?;
        let sty = self.inf.shallow(&s.ty);
        let mut compiled: Vec<(String, Vec<(usize, String)>, Val)> = vec![];
        let mut ty = Ty::Never;
        for a in arms {
            if a.guard.is_some() {
                return Err("match guards are not supported".into());
            }
            let (ls, (pat, v)) = self.sub(|c| {
                let pat = c.pattern(&a.pat, &sty)?;
                let v = c.expr_mode(&a.body, exp, want_value)?;
                Ok((pat, v))
            })?;
            if v.ty != Ty::Never {
                if ty == Ty::Never {
                    ty = v.ty.clone();
                } else {
                    self.inf.unify(&ty, &v.ty).map_err(|e| format!("match arms: {}", e))?;
                }
            }
            compiled.push((pat, ls, v));
        }
        let is_unit = matches!(self.inf.shallow(&ty), Ty::Unit | Ty::Never);
        let value = want_value && !is_unit;
        let t = self.tmp();
        let extra = if value {
            let lt = self.lty(&ty);
            self.emit(format!("let {} : {} ← match {} with", t, lt, s.code));
            1
        } else {
            self.emit(format!("match {} with", s.code));
            0
        };
        self.indent += extra;
        for (pat, ls, v) in compiled {
            self.emit(format!("| {} =>", pat));
            let b = {
                let mut l = reindent(ls, extra);
                if value {
                    if v.ty != Ty::Never {
                        l.push((self.indent + 1, format!("pure {}", v.code)));
                    } else if ends_with_match(&l, self.indent + 1) {
                        return Err("a diverging `match` nested at the end of a match arm is not supported".into());
                    }
                } else if l.is_empty() || ends_with_match(&l, self.indent + 1) {
                    l.push((self.indent + 1, "pure ()".into()));
                }
                l
            };
            self.splice(b);
        }
        self.indent -= extra;
        Ok(if value {
            Val { code: t, ty }
        } else if ty == Ty::Never {
            Val::never()
        } else {
            Val::unit()
        })
    }

    /// Pattern of a match arm at scrutinee type `sty`; binds the pattern's variables.
    fn pattern(&mut self, p: &Pat, sty: &Ty) -> R<String> {
        match p {
            Pat::Wild(_) => Ok("_".into()),
            Pat::Lit(l) => match &l.lit {
                syn::Lit::Int(i) => {
                    let v = i.base10_parse::<i128>().map_err(|e| e.to_string())?;
                    Ok(format!("{}", v))
                }
                syn::Lit::Bool(b) => Ok(format!("{}", b.value)),
                _ => Err("unsupported literal pattern".into()),
            },
            Pat::Or(o) => {
                let v = o.cases.iter().map(|c| self.pattern(c, sty)).collect::<R<Vec<_>>>()?;
                Ok(v.join(" | "))
            }
            Pat::Ident(pi) if pi.subpat.is_none() => {
                let name = pi.ident.to_string();
                // an identifier pattern may be a unit variant / constant; only plain bindings are supported
                if name.chars().next().map(|c| c.is_uppercase()).unwrap_or(false) {
                    return self.path_pattern(&name, &name, sty);
                }
                let lean = self.declare(&name, sty.clone(), false);
                Ok(lean)
            }
            Pat::Path(pp) => {
                let last = path_last(&pp.path);
                let full = super::path_str(&pp.path);
                self.path_pattern(&last, &full, sty)
            }
            Pat::TupleStruct(ts) => {
                let last = path_last(&ts.path);
                let inner = |k: usize| -> R<&Pat> { ts.elems.iter().nth(k).ok_or_else(|| "pattern arity".to_string()) };
                match (last.as_str(), sty) {
                    ("Some", Ty::Opt(a)) => Ok(format!("some {}", self.pattern(inner(0)?, &a.clone())?)),
                    ("Ok", Ty::Res(a, _)) => Ok(format!("Except.ok {}", self.pattern(inner(0)?, &a.clone())?)),
                    ("Err", Ty::Res(_, e)) => Ok(format!("Except.error {}", self.pattern(inner(0)?, &e.clone())?)),
                    _ => Err(format!("unsupported pattern {}(…) at type {:?}", last, sty)),
                }
            }
            Pat::Reference(r) => self.pattern(&r.pat, sty),
            Pat::Paren(r) => self.pattern(&r.pat, sty),
            _ => Err("unsupported pattern".into()),
        }
    }

    fn path_pattern(&mut self, last: &str, full: &str, sty: &Ty) -> R<String> {
        match (last, sty) {
            ("None", Ty::Opt(_)) => Ok("none".into()),
            ("Less", Ty::Ordering) => Ok("Ordering.lt".into()),
            ("Equal", Ty::Ordering) => Ok("Ordering.eq".into()),
            ("Greater", Ty::Ordering) => Ok("Ordering.gt".into()),
            (_, Ty::Named(n)) => {
                if let Some(e) = self.m.enums.get(n) {
                    if e.variants.iter().any(|v| v == last) {
                        return Ok(self.m.variant_lean(e, last));
                    }
                }
                Err(format!("pattern {} does not name a variant of {}", full, n))
            }
            (_, Ty::Int { .. }) => match self.m.const_value(last)? {
                Some((v, _)) => Ok(format!("{}", v)),
                None => Err(format!("pattern {}: unknown constant", full)),
            },
            _ => Err(format!("unsupported pattern {} at type {:?}", full, sty)),
        }
    }

    fn for_loop(&mut self, f: &syn::ExprForLoop) -> R<Val> {
        let var = match &*f.pat {
            Pat::Ident(pi) => Some(pi.ident.to_string()),
            Pat::Wild(_) => None,
            _ => return Err("only `for <ident> in a..b` is supported".into()),
        };
        let range = match &*f.expr {
            Expr::Range(r) => r,
            Expr::Paren(p) => match &*p.expr {
                Expr::Range(r) => r,
                _ => return Err("only `for <ident> in a..b` is supported".into()),
            },
            _ => return Err("only `for <ident> in a..b` is supported".into()),
        };
        let (lo, hi) = match (&range.start, &range.end) {
            (Some(a), Some(b)) => (a, b),
            _ => return Err("open ranges are not supported".into()),
        };
        let a = self.expr(lo, None)?;
        let b0 = self.expr(hi, Some(&a.ty))?;
        self.inf.unify(&a.ty, &b0.ty).map_err(|e| format!("for range: {}", e))?;
        let b = match range.limits {
            syn::RangeLimits::HalfOpen(_) => b0.code.clone(),
            syn::RangeLimits::Closed(_) => {
                let one = self.defer(Deferred::Lit(1, a.ty.clone()));
                let act = self.defer(Deferred::Bin { op: "add", ty: a.ty.clone(), a: b0.code.clone(), b: one });
                let t = self.tmp();
                self.emit(format!("let {} ← {}", t, act));
                t
            }
        };
        let rng = self.defer(Deferred::Range { ty: a.ty.clone(), a: a.code.clone(), b });
        self.loops.push(LoopInfo { exit_flag: None });
        let elem_ty = a.ty.clone();
        let (ls, lean_var) = self.sub(|c| {
            let lv = match &var {
                Some(v) => c.declare(v, elem_ty.clone(), false),
                None => "_".into(),
            };
            let v = c.block(&f.body, Some(&Ty::Unit), false)?;
            let _ = v;
            Ok(lv)
        })?;
        self.loops.pop();
        self.emit(format!("for {} in {} do", lean_var, rng));
        let ls = if ls.is_empty() { vec![(self.indent + 1, "pure ()".to_string())] } else { ls };
        self.splice(ls);
        Ok(Val::unit())
    }

    /// `while c { … }` / `loop { … }`: a `for` over `RsSem.fuel n` (n+1 rounds) whose body first
    /// tests the condition; running out of fuel is a panic (`… fuel exhausted`), which the
    /// equivalence theorem has to rule out.
    fn while_loop(&mut self, cond: Option<&Expr>, body: &Block) -> R<Val> {
        let fuel = self.fuel.ok_or("`while`/`loop` needs a `fuel=<n>` option in the target table")?;
        self.ntmp += 1;
        let flag = format!("exited{}", self.ntmp);
        self.emit(format!("let mut {} : Bool := false", flag));
        self.loops.push(LoopInfo { exit_flag: Some(flag.clone()) });
        let flag2 = flag.clone();
        let (ls, _) = self.sub(|c| {
            if let Some(cond) = cond {
                let cv = c.expr(cond, Some(&Ty::Bool))?;
                c.inf.unify(&cv.ty, &Ty::Bool)?;
                c.emit(format!("if !{} then", cv.code));
                c.indent += 1;
                c.emit(format!("{} := true", flag2));
                c.emit("break".into());
                c.indent -= 1;
            }
            c.block(body, Some(&Ty::Unit), false)?;
            Ok(())
        })?;
        self.loops.pop();
        self.emit(format!("for _ in RsSem.fuel {} do", fuel));
        self.splice(ls);
        let site = self.site("loop fuel exhausted");
        self.emit(format!("RsSem.assert {} {}", flag, site));
        Ok(Val::unit())
    }
}

fn reindent(ls: Vec<(usize, String)>, by: usize) -> Vec<(usize, String)> {
    ls.into_iter().map(|(i, s)| (i + by, s)).collect()
}

/// Does the last top-level statement of these lines (at indentation `ind`) start a `match`?
fn ends_with_match(ls: &[(usize, String)], ind: usize) -> bool {
    for (i, s) in ls.iter().rev() {
        if *i <= ind {
            return s.starts_with("match ") || s.contains("← match ");
        }
    }
    false
}

fn is_lean_keyword(s: &str) -> bool {
    matches!(
        s,
        "at" | "from" | "have" | "show" | "end" | "open" | "then" | "do" | "fun" | "with" | "instance" | "where" | "theorem" | "def"
            | "by" | "local" | "section" | "namespace" | "variable" | "prefix" | "infix" | "notation" | "macro" | "syntax" | "using"
            | "calc" | "Type" | "Prop" | "Sort" | "mut" | "exists" | "forall" | "deriving" | "private" | "protected" | "import"
    )
}

#[allow(dead_code)]
pub fn usize_ty() -> Ty {
    Ty::Int { signed: false, bits: USIZE_BITS }
}
