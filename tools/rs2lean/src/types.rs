//! Type language of the translated subset and a small unification-based inference for locals and
//! integer literals (unresolved integer variables default to `i32`, as in Rust).

#[derive(Clone, Debug, PartialEq)]
pub enum Ty {
    Int { signed: bool, bits: u32 },
    Bool,
    Unit,
    /// struct or enum of the module (generated from the source or mapped to an existing Lean type)
    Named(String),
    /// generic type parameter without a recognised bound
    Param(String),
    /// `std::cmp::Ordering`
    Ordering,
    Opt(Box<Ty>),
    Res(Box<Ty>, Box<Ty>),
    Tuple(Vec<Ty>),
    /// byte sequence (`&[u8]`, `Vec<u8>`, `[u8; N]`, `ArrayVec<[u8; N]>` with its capacity)
    Bytes(Option<u64>),
    /// `slice::Iter<u8>`
    ByteIter,
    /// `W: Warn<X>`
    WarnSink(Box<Ty>),
    /// `F: FnMut(&[u8]) -> Result<(), E>`: an append-only output sink (modelled as infallible)
    ByteSink(Box<Ty>),
    Var(usize),
    /// type of a diverging expression
    Never,
}

pub const USIZE_BITS: u32 = 64;

pub fn int_ty(name: &str) -> Option<Ty> {
    let (signed, bits) = match name {
        "u8" => (false, 8),
        "u16" => (false, 16),
        "u32" => (false, 32),
        "u64" => (false, 64),
        "usize" => (false, USIZE_BITS),
        "i8" => (true, 8),
        "i16" => (true, 16),
        "i32" => (true, 32),
        "i64" => (true, 64),
        "isize" => (true, USIZE_BITS),
        _ => return None,
    };
    Some(Ty::Int { signed, bits })
}

#[derive(Clone, Debug)]
enum VarState {
    /// unbound; `int_only`: originates from an integer literal
    Free { int_only: bool },
    Bound(Ty),
}

#[derive(Default)]
pub struct Infer {
    vars: Vec<VarState>,
}

impl Infer {
    pub fn fresh(&mut self, int_only: bool) -> Ty {
        self.vars.push(VarState::Free { int_only });
        Ty::Var(self.vars.len() - 1)
    }

    /// Follows variable bindings at the top level only.
    pub fn shallow(&self, t: &Ty) -> Ty {
        let mut t = t.clone();
        loop {
            match t {
                Ty::Var(i) => match &self.vars[i] {
                    VarState::Bound(b) => t = b.clone(),
                    VarState::Free { .. } => return t,
                },
                _ => return t,
            }
        }
    }

    /// Fully resolved type; free integer variables become `i32` when `default_int`.
    pub fn resolve(&self, t: &Ty, default_int: bool) -> Result<Ty, String> {
        let t = self.shallow(t);
        Ok(match t {
            Ty::Var(i) => match &self.vars[i] {
                VarState::Free { int_only: true } if default_int => Ty::Int { signed: true, bits: 32 },
                _ => return Err("a local's type could not be inferred (add a `hint=<local>:<type>`)".into()),
            },
            Ty::Opt(a) => Ty::Opt(Box::new(self.resolve(&a, default_int)?)),
            Ty::Res(a, b) => Ty::Res(Box::new(self.resolve(&a, default_int)?), Box::new(self.resolve(&b, default_int)?)),
            Ty::Tuple(v) => Ty::Tuple(v.iter().map(|x| self.resolve(x, default_int)).collect::<Result<_, _>>()?),
            Ty::WarnSink(a) => Ty::WarnSink(Box::new(self.resolve(&a, default_int)?)),
            Ty::ByteSink(a) => Ty::ByteSink(Box::new(self.resolve(&a, default_int)?)),
            o => o,
        })
    }

    pub fn unify(&mut self, a: &Ty, b: &Ty) -> Result<(), String> {
        let a = self.shallow(a);
        let b = self.shallow(b);
        match (&a, &b) {
            (Ty::Never, _) | (_, Ty::Never) => Ok(()),
            (Ty::Var(i), Ty::Var(j)) if i == j => Ok(()),
            (Ty::Var(i), Ty::Var(j)) => {
                let ii = matches!(self.vars[*i], VarState::Free { int_only: true });
                let ij = matches!(self.vars[*j], VarState::Free { int_only: true });
                if ii && !ij {
                    self.vars[*j] = VarState::Bound(a.clone());
                } else {
                    let _ = ij;
                    self.vars[*i] = VarState::Bound(b.clone());
                }
                Ok(())
            }
            (Ty::Var(i), o) | (o, Ty::Var(i)) => {
                if let VarState::Free { int_only: true } = self.vars[*i] {
                    if !matches!(o, Ty::Int { .. }) {
                        return Err(format!("integer literal used at type {:?}", o));
                    }
                }
                self.vars[*i] = VarState::Bound(o.clone());
                Ok(())
            }
            (Ty::Opt(x), Ty::Opt(y)) => self.unify(x, y),
            (Ty::Res(x, e), Ty::Res(y, f)) => {
                self.unify(x, y)?;
                self.unify(e, f)
            }
            (Ty::Tuple(x), Ty::Tuple(y)) if x.len() == y.len() => {
                for (p, q) in x.iter().zip(y.iter()) {
                    self.unify(p, q)?;
                }
                Ok(())
            }
            (Ty::Bytes(_), Ty::Bytes(_)) => Ok(()),
            (Ty::WarnSink(x), Ty::WarnSink(y)) => self.unify(x, y),
            (Ty::ByteSink(x), Ty::ByteSink(y)) => self.unify(x, y),
            _ if a == b => Ok(()),
            _ => Err(format!("type mismatch: {:?} vs {:?}", a, b)),
        }
    }
}
