//! Expression rules: one match arm / helper per construct.

use super::super::{int_assoc_const, path_last, path_str, Deferred, R};
use super::{FnCtx, Val};
use crate::types::{int_ty, Ty, USIZE_BITS};
use syn::{BinOp, Expr, UnOp};

fn usize_t() -> Ty {
    Ty::Int { signed: false, bits: USIZE_BITS }
}

impl<'b, 'a> FnCtx<'b, 'a> {
    /// Binds the result of a fallible (monadic) action to a fresh temporary.
    fn bind(&mut self, action: String, ty: Ty) -> Val {
        let t = self.tmp();
        self.emit(format!("let {} ← {}", t, action));
        Val { code: t, ty }
    }

    pub fn expr(&mut self, e: &Expr, exp: Option<&Ty>) -> R<Val> {
        match e {
            Expr::Paren(p) => self.expr(&p.expr, exp),
            Expr::Group(p) => self.expr(&p.expr, exp),
            Expr::Reference(r) => self.expr(&r.expr, exp),
            Expr::Lit(l) => self.literal(&l.lit, exp),
            Expr::Path(p) => self.path_expr(&p.path, exp),
            Expr::Unary(u) => match u.op {
                UnOp::Deref(_) => self.expr(&u.expr, exp),
                UnOp::Not(_) => {
                    let a = self.expr(&u.expr, exp)?;
                    let code = self.defer(Deferred::Un { op: "not", ty: a.ty.clone(), a: a.code });
                    Ok(Val { code, ty: a.ty })
                }
                UnOp::Neg(_) => {
                    // a negated literal is a literal
                    if let Expr::Lit(syn::ExprLit { lit: syn::Lit::Int(i), .. }) = &*u.expr {
                        let v = i.base10_parse::<i128>().map_err(|e| e.to_string())?;
                        let ty = self.lit_type(i.suffix(), exp)?;
                        let code = self.defer(Deferred::Lit(-v, ty.clone()));
                        return Ok(Val { code, ty });
                    }
                    let a = self.expr(&u.expr, exp)?;
                    let act = self.defer(Deferred::Un { op: "neg", ty: a.ty.clone(), a: a.code });
                    Ok(self.bind(act, a.ty))
                }
                _ => Err("unsupported unary operator".into()),
            },
            Expr::Binary(b) => self.binary(b, exp),
            Expr::Cast(c) => {
                let to = super::convert_type(self.m, &c.ty, &self.generics, self.self_ty.as_deref())?;
                let a = self.expr(&c.expr, None)?;
                let code = self.defer(Deferred::Cast { from: a.ty, to: to.clone(), a: a.code });
                Ok(Val { code, ty: to })
            }
            Expr::Assign(a) => {
                let rhs_exp = self.place_type(&a.left)?;
                let v = self.expr_mode(&a.right, Some(&rhs_exp), true)?;
                if v.ty == Ty::Never {
                    return Ok(Val::never());
                }
                self.inf.unify(&rhs_exp, &v.ty).map_err(|e| format!("assignment: {}", e))?;
                self.assign(&a.left, v.code)?;
                Ok(Val::unit())
            }
            Expr::If(_) | Expr::Match(_) | Expr::Block(_) => self.expr_mode(e, exp, true),
            Expr::ForLoop(_) | Expr::While(_) | Expr::Loop(_) => self.expr_mode(e, exp, false),
            Expr::Break(b) => {
                if b.expr.is_some() || b.label.is_some() {
                    return Err("`break` with a value or label is not supported".into());
                }
                let flag = self.loops.last().ok_or("`break` outside a loop")?.exit_flag.clone();
                if let Some(f) = flag {
                    self.emit(format!("{} := true", f));
                }
                self.emit("break".into());
                Ok(Val::never())
            }
            Expr::Continue(c) => {
                if c.label.is_some() {
                    return Err("labelled `continue` is not supported".into());
                }
                self.loops.last().ok_or("`continue` outside a loop")?;
                self.emit("continue".into());
                Ok(Val::never())
            }
            Expr::Return(r) => {
                let rt = self.ret_ty.clone();
                let v = match &r.expr {
                    Some(e) => self.expr_mode(e, Some(&rt), true)?,
                    None => Val::unit(),
                };
                if v.ty != Ty::Never {
                    self.inf.unify(&rt, &v.ty).map_err(|e| format!("return: {}", e))?;
                    let t = self.ret_tuple(&v.code);
                    self.emit(format!("return {}", t));
                }
                Ok(Val::never())
            }
            Expr::Macro(m) => self.macro_call(&m.mac, exp),
            Expr::Field(f) => {
                let base = self.expr(&f.base, None)?;
                let fname = match &f.member {
                    syn::Member::Named(i) => i.to_string(),
                    syn::Member::Unnamed(i) => {
                        if let Ty::Tuple(ts) = self.inf.shallow(&base.ty) {
                            let k = i.index as usize;
                            let ty = ts.get(k).ok_or("tuple index")?.clone();
                            let code = tuple_proj(&base.code, k, ts.len());
                            return Ok(Val { code, ty });
                        }
                        return Err("tuple field on a non-tuple".into());
                    }
                };
                match self.inf.shallow(&base.ty) {
                    Ty::Named(n) => {
                        let sd = self.m.structs.get(&n).ok_or(format!("field access on non-struct {}", n))?;
                        let ty = sd.fields.iter().find(|(x, _)| *x == fname).ok_or(format!("struct {} has no field {}", n, fname))?.1.clone();
                        Ok(Val { code: format!("{}.{}", base.code, fname), ty })
                    }
                    o => Err(format!("field access .{} at type {:?}", fname, o)),
                }
            }
            Expr::Struct(s) => {
                let name = path_last(&s.path);
                let name = if name == "Self" { self.self_ty.clone().ok_or("Self")? } else { name };
                let sd = self.m.structs.get(&name).cloned().ok_or(format!("struct literal of unknown type {}", name))?;
                if s.rest.is_some() {
                    return Err("struct update syntax is not supported".into());
                }
                let mut parts = vec![];
                for (fname, fty) in &sd.fields {
                    let fv = s
                        .fields
                        .iter()
                        .find(|f| matches!(&f.member, syn::Member::Named(i) if i == fname))
                        .ok_or(format!("struct literal {}: field {} missing", name, fname))?;
                    let v = self.expr_mode(&fv.expr, Some(fty), true)?;
                    self.inf.unify(fty, &v.ty).map_err(|e| format!("field {}: {}", fname, e))?;
                    parts.push(format!("{} := {}", fname, v.code));
                }
                let code = if parts.is_empty() { format!("({}.mk)", sd.lean) } else { format!("({{ {} }} : {})", parts.join(", "), sd.lean) };
                Ok(Val { code, ty: Ty::Named(name) })
            }
            Expr::Tuple(t) => {
                if t.elems.is_empty() {
                    return Ok(Val::unit());
                }
                let exps: Vec<Option<Ty>> = match exp.map(|x| self.inf.shallow(x)) {
                    Some(Ty::Tuple(ts)) if ts.len() == t.elems.len() => ts.into_iter().map(Some).collect(),
                    _ => vec![None; t.elems.len()],
                };
                let mut codes = vec![];
                let mut tys = vec![];
                for (x, ex) in t.elems.iter().zip(exps.iter()) {
                    let v = self.expr(x, ex.as_ref())?;
                    codes.push(v.code);
                    tys.push(v.ty);
                }
                Ok(Val { code: format!("({})", codes.join(", ")), ty: Ty::Tuple(tys) })
            }
            Expr::Call(c) => self.call(c, exp),
            Expr::MethodCall(mc) => self.method_call(mc, exp),
            Expr::Try(t) => {
                let v = self.expr(&t.expr, None)?;
                match self.inf.shallow(&v.ty) {
                    Ty::Res(a, e) => {
                        if let Ty::Res(_, re) = self.ret_ty.clone() {
                            self.inf.unify(&e, &re).map_err(|x| format!("`?`: {}", x))?;
                        } else {
                            return Err("`?` in a function that does not return Result".into());
                        }
                        let tmp = self.tmp();
                        let lt = self.lty(&a);
                        let r = self.ret_tuple("(Except.error e_)");
                        self.emit(format!("let {} : {} ← match {} with", tmp, lt, v.code));
                        self.emit("  | Except.ok v_ => pure v_".to_string());
                        self.emit(format!("  | Except.error e_ => return {}", r));
                        Ok(Val { code: tmp, ty: *a })
                    }
                    o => Err(format!("`?` at type {:?}", o)),
                }
            }
            _ => Err(format!("unsupported expression: {}", short(e))),
        }
    }

    fn lit_type(&mut self, suffix: &str, exp: Option<&Ty>) -> R<Ty> {
        if !suffix.is_empty() {
            return int_ty(suffix).ok_or(format!("literal suffix {}", suffix));
        }
        Ok(match exp.map(|t| self.inf.shallow(t)) {
            Some(t @ Ty::Int { .. }) => t,
            Some(t @ Ty::Var(_)) => {
                let v = self.inf.fresh(true);
                self.inf.unify(&v, &t)?;
                v
            }
            _ => self.inf.fresh(true),
        })
    }

    fn literal(&mut self, l: &syn::Lit, exp: Option<&Ty>) -> R<Val> {
        match l {
            syn::Lit::Int(i) => {
                let v = i.base10_parse::<i128>().map_err(|e| e.to_string())?;
                let ty = self.lit_type(i.suffix(), exp)?;
                let code = self.defer(Deferred::Lit(v, ty.clone()));
                Ok(Val { code, ty })
            }
            syn::Lit::Byte(b) => Ok(Val { code: format!("({} : Nat)", b.value()), ty: Ty::Int { signed: false, bits: 8 } }),
            syn::Lit::Bool(b) => Ok(Val { code: format!("{}", b.value), ty: Ty::Bool }),
            _ => Err("unsupported literal".into()),
        }
    }

    fn path_expr(&mut self, p: &syn::Path, exp: Option<&Ty>) -> R<Val> {
        if let Some(id) = p.get_ident() {
            let name = id.to_string();
            if let Some(l) = self.lookup(&name) {
                return Ok(Val { code: l.lean, ty: l.ty });
            }
        }
        let last = path_last(p);
        if let Some(v) = int_assoc_const(p) {
            let ty = int_ty(&p.segments[0].ident.to_string()).unwrap();
            let code = self.defer(Deferred::Lit(v, ty.clone()));
            return Ok(Val { code, ty });
        }
        if last == "None" {
            let inner = match exp.map(|t| self.inf.shallow(t)) {
                Some(Ty::Opt(a)) => *a,
                _ => self.inf.fresh(false),
            };
            return Ok(Val { code: "none".into(), ty: Ty::Opt(Box::new(inner)) });
        }
        // enum variant `Enum::Variant` (or imported variant)
        if p.segments.len() >= 2 {
            let en = p.segments[p.segments.len() - 2].ident.to_string();
            let en = if en == "Self" { self.self_ty.clone().unwrap_or(en) } else { en };
            if let Some(e) = self.m.enums.get(&en) {
                if e.variants.iter().any(|v| *v == last) {
                    return Ok(Val { code: self.m.variant_lean(e, &last), ty: Ty::Named(en) });
                }
                return Err(format!("{} is not a variant of {}", last, en));
            }
            if en == "Ordering" {
                let c = match last.as_str() {
                    "Less" => "Ordering.lt",
                    "Equal" => "Ordering.eq",
                    "Greater" => "Ordering.gt",
                    _ => return Err(format!("unknown Ordering::{}", last)),
                };
                return Ok(Val { code: c.into(), ty: Ty::Ordering });
            }
        }
        // unit struct
        if let Some(sd) = self.m.structs.get(&last) {
            if sd.fields.is_empty() {
                return Ok(Val { code: format!("({}.mk)", sd.lean), ty: Ty::Named(last) });
            }
        }
        // named constant, resolved by the translator
        if let Some((v, ty)) = self.m.const_value(&last)? {
            let code = self.defer(Deferred::Lit(v, ty.clone()));
            return Ok(Val { code, ty });
        }
        Err(format!("unknown name {}", path_str(p)))
    }

    fn binary(&mut self, b: &syn::ExprBinary, exp: Option<&Ty>) -> R<Val> {
        use BinOp::*;
        // compound assignment
        let comp = match b.op {
            AddAssign(_) => Some("add"),
            SubAssign(_) => Some("sub"),
            MulAssign(_) => Some("mul"),
            DivAssign(_) => Some("div"),
            RemAssign(_) => Some("rem"),
            BitAndAssign(_) => Some("and"),
            BitOrAssign(_) => Some("or"),
            BitXorAssign(_) => Some("xor"),
            ShlAssign(_) => Some("shl"),
            ShrAssign(_) => Some("shr"),
            _ => None,
        };
        if let Some(op) = comp {
            let l = self.expr(&b.left, None)?;
            let v = self.arith(op, l, &b.right)?;
            self.assign(&b.left, v.code)?;
            return Ok(Val::unit());
        }
        match b.op {
            And(_) | Or(_) => {
                let is_and = matches!(b.op, And(_));
                let l = self.expr(&b.left, Some(&Ty::Bool))?;
                self.inf.unify(&l.ty, &Ty::Bool)?;
                let (ls, r) = self.sub(|c| c.expr(&b.right, Some(&Ty::Bool)))?;
                self.inf.unify(&r.ty, &Ty::Bool)?;
                if ls.is_empty() {
                    return Ok(Val { code: format!("({} {} {})", l.code, if is_and { "&&" } else { "||" }, r.code), ty: Ty::Bool });
                }
                // short circuit: the right operand has effects (it may panic)
                let t = self.tmp();
                self.emit(format!("let {} : Bool ← if {} then", t, if is_and { l.code.clone() } else { format!("!{}", l.code) }));
                self.indent += 1;
                let mut body: Vec<(usize, String)> = ls.into_iter().map(|(i, s)| (i + 1, s)).collect();
                body.push((self.indent + 1, format!("pure {}", r.code)));
                self.splice(body);
                self.emit("else".into());
                self.emit(format!("  pure {}", if is_and { "false" } else { "true" }));
                self.indent -= 1;
                Ok(Val { code: t, ty: Ty::Bool })
            }
            Eq(_) | Ne(_) | Lt(_) | Le(_) | Gt(_) | Ge(_) => {
                let op = match b.op {
                    Eq(_) => "eq",
                    Ne(_) => "ne",
                    Lt(_) => "lt",
                    Le(_) => "le",
                    Gt(_) => "gt",
                    _ => "ge",
                };
                let l = self.expr(&b.left, None)?;
                let r = self.expr(&b.right, Some(&l.ty))?;
                self.inf.unify(&l.ty, &r.ty).map_err(|e| format!("comparison: {}", e))?;
                let code = self.defer(Deferred::Bin { op, ty: l.ty, a: l.code, b: r.code });
                Ok(Val { code, ty: Ty::Bool })
            }
            Add(_) | Sub(_) | Mul(_) | Div(_) | Rem(_) | BitAnd(_) | BitOr(_) | BitXor(_) | Shl(_) | Shr(_) => {
                let op = match b.op {
                    Add(_) => "add",
                    Sub(_) => "sub",
                    Mul(_) => "mul",
                    Div(_) => "div",
                    Rem(_) => "rem",
                    BitAnd(_) => "and",
                    BitOr(_) => "or",
                    BitXor(_) => "xor",
                    Shl(_) => "shl",
                    _ => "shr",
                };
                let l = self.expr(&b.left, exp)?;
                self.arith(op, l, &b.right)
            }
            _ => Err("unsupported binary operator".into()),
        }
    }

    /// `l <op> right` for arithmetic / bit operators (also used by compound assignment)
    fn arith(&mut self, op: &'static str, l: Val, right: &Expr) -> R<Val> {
        let shift = op == "shl" || op == "shr";
        if shift {
            let r = self.expr(right, None)?;
            let amt_act = self.defer(Deferred::ShAmt { ty: r.ty.clone(), a: r.code });
            let amt = self.bind(amt_act, usize_t());
            let act = self.defer(Deferred::Bin { op, ty: l.ty.clone(), a: l.code, b: amt.code });
            return Ok(self.bind(act, l.ty));
        }
        let r = self.expr(right, Some(&l.ty))?;
        self.inf.unify(&l.ty, &r.ty).map_err(|e| format!("operator {}: {}", op, e))?;
        let code = self.defer(Deferred::Bin { op, ty: l.ty.clone(), a: l.code, b: r.code });
        if matches!(op, "and" | "or" | "xor") {
            Ok(Val { code, ty: l.ty })
        } else {
            Ok(self.bind(code, l.ty))
        }
    }

    fn place_type(&mut self, place: &Expr) -> R<Ty> {
        match place {
            Expr::Paren(p) => self.place_type(&p.expr),
            Expr::Unary(u) if matches!(u.op, UnOp::Deref(_)) => self.place_type(&u.expr),
            Expr::Path(p) => {
                let name = p.path.get_ident().ok_or("assignment to a path")?.to_string();
                Ok(self.lookup(&name).ok_or(format!("assignment to unknown variable {}", name))?.ty)
            }
            Expr::Field(_) => Ok(self.expr(place, None)?.ty),
            _ => Err("unsupported assignment target".into()),
        }
    }

    /// `place = code`
    pub fn assign(&mut self, place: &Expr, code: String) -> R<()> {
        match place {
            Expr::Paren(p) => self.assign(&p.expr, code),
            Expr::Unary(u) if matches!(u.op, UnOp::Deref(_)) => self.assign(&u.expr, code),
            Expr::Path(p) => {
                let name = p.path.get_ident().ok_or("assignment to a path")?.to_string();
                let l = self.lookup(&name).ok_or(format!("assignment to unknown variable {}", name))?;
                if !l.mutable {
                    return Err(format!("assignment to immutable {}", name));
                }
                self.emit(format!("{} := {}", l.lean, code));
                Ok(())
            }
            Expr::Field(f) => {
                let fname = match &f.member {
                    syn::Member::Named(i) => i.to_string(),
                    _ => return Err("assignment to a tuple field".into()),
                };
                let base = self.expr(&f.base, None)?;
                self.assign(&f.base, format!("{{ {} with {} := {} }}", base.code, fname, code))
            }
            _ => Err("unsupported assignment target".into()),
        }
    }

    pub fn macro_call(&mut self, mac: &syn::Macro, exp: Option<&Ty>) -> R<Val> {
        let name = path_last(&mac.path);
        let args: Vec<Expr> = mac
            .parse_body_with(syn::punctuated::Punctuated::<Expr, syn::Token![,]>::parse_terminated)
            .map(|p| p.into_iter().collect())
            .unwrap_or_default();
        match name.as_str() {
            "assert" | "debug_assert" => {
                let c = args.first().ok_or("assert! without a condition")?;
                let v = self.expr(c, Some(&Ty::Bool))?;
                self.inf.unify(&v.ty, &Ty::Bool)?;
                let site = self.site("assertion failed");
                self.emit(format!("RsSem.assert {} {}", v.code, site));
                Ok(Val::unit())
            }
            "assert_eq" | "debug_assert_eq" | "assert_ne" | "debug_assert_ne" => {
                if args.len() < 2 {
                    return Err("assert_eq! needs two arguments".into());
                }
                let l = self.expr(&args[0], None)?;
                let r = self.expr(&args[1], Some(&l.ty))?;
                self.inf.unify(&l.ty, &r.ty)?;
                let op = if name.ends_with("_eq") { "eq" } else { "ne" };
                let c = self.defer(Deferred::Bin { op, ty: l.ty, a: l.code, b: r.code });
                let site = self.site("assertion failed");
                self.emit(format!("RsSem.assert {} {}", c, site));
                Ok(Val::unit())
            }
            "unreachable" | "panic" | "unimplemented" | "todo" => {
                let site = self.site(&format!("{}!", name));
                self.emit(format!("RsSem.panic {}", site));
                Ok(Val::never())
            }
            "unwrap_or_return" => {
                // libtw2_common: `match $e { Some(e) => e, None => return $r }` (`$r` defaults to `None`)
                let e = args.first().ok_or("unwrap_or_return! without arguments")?;
                let o = self.expr(e, None)?;
                let inner = match self.inf.shallow(&o.ty) {
                    Ty::Opt(a) => *a,
                    t => return Err(format!("unwrap_or_return! on {:?}", t)),
                };
                let rt = self.ret_ty.clone();
                let (ls, r) = self.sub(|c| match args.get(1) {
                    Some(r) => c.expr(r, Some(&rt)),
                    None => Ok(Val { code: "none".into(), ty: rt.clone() }),
                })?;
                self.inf.unify(&rt, &r.ty).map_err(|e| format!("unwrap_or_return!: {}", e))?;
                let t = self.tmp();
                let lt = self.lty(&inner);
                let _ = exp;
                self.emit(format!("let {} : {} ← match {} with", t, lt, o.code));
                self.indent += 1;
                self.emit("| some x_ => pure x_".into());
                self.emit("| none =>".into());
                let mut body: Vec<(usize, String)> = ls.into_iter().map(|(i, s)| (i + 1, s)).collect();
                body.push((self.indent + 1, format!("return {}", self.ret_tuple(&r.code))));
                self.splice(body);
                self.indent -= 1;
                Ok(Val { code: t, ty: inner })
            }
            _ => Err(format!("macro {}! is not in the supported subset", name)),
        }
    }

    /// Passes arguments to a translated function; writes back its in-out results.
    fn call_translated(&mut self, key: (Option<String>, String), recv: Option<&Expr>, args: &[&Expr]) -> R<Val> {
        let sig = self.m.fns.get(&key).cloned().ok_or_else(|| {
            format!("call to {}{} which is not (yet) translated — list it earlier in the target table", key.0.clone().map(|s| s + "::").unwrap_or_default(), key.1)
        })?;
        let mut all: Vec<&Expr> = vec![];
        if let Some(r) = recv {
            all.push(r);
        }
        all.extend(args.iter().cloned());
        if all.len() != sig.params.len() {
            return Err(format!("call to {}: {} arguments for {} parameters", sig.lean, all.len(), sig.params.len()));
        }
        // generic parameters of the callee are instantiated by unification with fresh variables
        let mut inst: std::collections::HashMap<String, Ty> = std::collections::HashMap::new();
        for tp in &sig.type_params {
            let v = self.inf.fresh(false);
            inst.insert(tp.clone(), v);
        }
        let mut codes = vec![];
        let mut writeback: Vec<&Expr> = vec![];
        for (a, p) in all.iter().zip(sig.params.iter()) {
            let pty = subst(&p.ty, &inst);
            let v = self.expr(a, Some(&pty))?;
            self.inf.unify(&pty, &v.ty).map_err(|e| format!("call to {}, argument {}: {}", sig.lean, p.name, e))?;
            codes.push(v.code);
            if p.inout {
                writeback.push(a);
            }
        }
        let ret = subst(&sig.ret, &inst);
        let action = format!("{} {}", sig.lean, codes.join(" "));
        if writeback.is_empty() {
            return Ok(self.bind(action, ret));
        }
        let t = self.tmp();
        let outs: Vec<String> = (0..writeback.len()).map(|i| format!("{}_o{}", t, i)).collect();
        self.emit(format!("let ({}, {}) ← {}", t, outs.join(", "), action));
        for (place, o) in writeback.iter().zip(outs.iter()) {
            self.assign(strip_ref(place), o.clone())?;
        }
        Ok(Val { code: t, ty: ret })
    }

    fn call(&mut self, c: &syn::ExprCall, exp: Option<&Ty>) -> R<Val> {
        let args: Vec<&Expr> = c.args.iter().collect();
        let p = match &*c.func {
            Expr::Path(p) => &p.path,
            _ => return Err("call of a non-path expression".into()),
        };
        let last = path_last(p);
        // call of a local: the byte sink closure
        if let Some(id) = p.get_ident() {
            if let Some(l) = self.lookup(&id.to_string()) {
                if let Ty::ByteSink(e) = self.inf.shallow(&l.ty) {
                    if args.len() != 1 {
                        return Err("sink call arity".into());
                    }
                    let v = self.expr(args[0], Some(&Ty::Bytes(None)))?;
                    self.inf.unify(&v.ty, &Ty::Bytes(None))?;
                    self.emit(format!("{} := {} ++ {}", l.lean, l.lean, v.code));
                    return Ok(Val { code: "(Except.ok ())".into(), ty: Ty::Res(Box::new(Ty::Unit), e) });
                }
                return Err(format!("call of local {}", id));
            }
        }
        match last.as_str() {
            "Some" if args.len() == 1 => {
                let inner_exp = match exp.map(|t| self.inf.shallow(t)) {
                    Some(Ty::Opt(a)) => Some(*a),
                    _ => None,
                };
                let v = self.expr(args[0], inner_exp.as_ref())?;
                return Ok(Val { code: format!("(some {})", v.code), ty: Ty::Opt(Box::new(v.ty)) });
            }
            "Ok" | "Err" if args.len() == 1 => {
                let (ea, ee) = match exp.map(|t| self.inf.shallow(t)) {
                    Some(Ty::Res(a, e)) => (*a, *e),
                    _ => (self.inf.fresh(false), self.inf.fresh(false)),
                };
                let is_ok = last == "Ok";
                let v = self.expr(args[0], Some(if is_ok { &ea } else { &ee }))?;
                self.inf.unify(if is_ok { &ea } else { &ee }, &v.ty)?;
                let code = format!("(Except.{} {})", if is_ok { "ok" } else { "error" }, v.code);
                return Ok(Val { code, ty: Ty::Res(Box::new(ea), Box::new(ee)) });
            }
            "default" if args.is_empty() => {
                let t = exp.cloned().ok_or("Default::default() without a known type")?;
                if let Ty::Named(n) = self.inf.shallow(&t) {
                    if let Some(sd) = self.m.structs.get(&n) {
                        if !sd.has_default {
                            return Err(format!("{} does not derive Default", n));
                        }
                    }
                }
                let code = self.defer(Deferred::DefaultVal(t.clone()));
                return Ok(Val { code, ty: t });
            }
            "new" if args.is_empty() && p.segments.len() >= 2 => {
                let tn = p.segments[p.segments.len() - 2].ident.to_string();
                if tn == "ArrayVec" || tn == "Vec" {
                    let t = match exp.map(|t| self.inf.shallow(t)) {
                        Some(t @ Ty::Bytes(_)) => t,
                        _ => return Err(format!("{}::new() needs a type annotation", tn)),
                    };
                    return Ok(Val { code: "([] : List UInt8)".into(), ty: t });
                }
            }
            _ => {}
        }
        // translated function: `f(..)`, `module::f(..)`, `Type::f(..)`, `Self::f(..)`
        let key = if p.segments.len() >= 2 {
            let q = p.segments[p.segments.len() - 2].ident.to_string();
            let q = if q == "Self" { self.self_ty.clone().unwrap_or(q) } else { q };
            if self.m.structs.contains_key(&q) || self.m.enums.contains_key(&q) {
                (Some(q), last.clone())
            } else {
                (None, last.clone())
            }
        } else {
            (None, last.clone())
        };
        self.call_translated(key, None, &args)
    }

    fn method_call(&mut self, mc: &syn::ExprMethodCall, exp: Option<&Ty>) -> R<Val> {
        let name = mc.method.to_string();
        let args: Vec<&Expr> = mc.args.iter().collect();
        let recv = self.expr(&mc.receiver, None)?;
        let rty = self.inf.shallow(&recv.ty);
        match (&rty, name.as_str()) {
            (Ty::ByteIter, "next") if args.is_empty() => {
                let t = self.tmp();
                let it = format!("{}_it", t);
                self.emit(format!("let ({}, {}) := RsSem.iterNext {}", t, it, recv.code));
                self.assign(strip_ref(&mc.receiver), it)?;
                Ok(Val { code: t, ty: Ty::Opt(Box::new(Ty::Int { signed: false, bits: 8 })) })
            }
            (Ty::WarnSink(w), "warn") if args.len() == 1 => {
                let v = self.expr(args[0], Some(w))?;
                self.inf.unify(w, &v.ty)?;
                self.assign(strip_ref(&mc.receiver), format!("{} ++ [{}]", recv.code, v.code))?;
                Ok(Val::unit())
            }
            (Ty::Bytes(cap), "push") if args.len() == 1 => {
                let u8t = Ty::Int { signed: false, bits: 8 };
                let v = self.expr(args[0], Some(&u8t))?;
                self.inf.unify(&u8t, &v.ty)?;
                match cap {
                    Some(c) => {
                        let site = self.site("ArrayVec::push: capacity");
                        let r = self.bind(format!("RsSem.arrayPush {} {} {} {}", c, recv.code, v.code, site), rty.clone());
                        self.assign(strip_ref(&mc.receiver), r.code)?;
                    }
                    None => self.assign(strip_ref(&mc.receiver), format!("RsSem.vecPush {} {}", recv.code, v.code))?,
                }
                Ok(Val::unit())
            }
            (Ty::Bytes(_), "len") if args.is_empty() => Ok(Val { code: format!("{}.length", recv.code), ty: usize_t() }),
            (Ty::Bytes(_), "is_empty") if args.is_empty() => Ok(Val { code: format!("{}.isEmpty", recv.code), ty: Ty::Bool }),
            (Ty::Opt(a), "unwrap") | (Ty::Opt(a), "expect") => {
                let site = self.site("unwrap on None");
                Ok(self.bind(format!("RsSem.unwrapOpt {} {}", recv.code, site), (**a).clone()))
            }
            (Ty::Res(a, _), "unwrap") | (Ty::Res(a, _), "expect") => {
                let site = self.site("unwrap on Err");
                Ok(self.bind(format!("RsSem.unwrapRes {} {}", recv.code, site), (**a).clone()))
            }
            (Ty::Opt(_), "is_some") => Ok(Val { code: format!("{}.isSome", recv.code), ty: Ty::Bool }),
            (Ty::Opt(_), "is_none") => Ok(Val { code: format!("{}.isNone", recv.code), ty: Ty::Bool }),
            (Ty::Int { .. } | Ty::Var(_), "cmp") if args.len() == 1 => {
                let r = self.expr(args[0], Some(&recv.ty))?;
                self.inf.unify(&recv.ty, &r.ty)?;
                let code = self.defer(Deferred::IntMethod { name, ty: recv.ty, a: recv.code, b: r.code });
                Ok(Val { code, ty: Ty::Ordering })
            }
            (Ty::Int { .. }, "min" | "max" | "wrapping_add" | "wrapping_sub" | "wrapping_mul" | "saturating_add" | "saturating_sub" | "saturating_mul")
                if args.len() == 1 =>
            {
                let r = self.expr(args[0], Some(&recv.ty))?;
                self.inf.unify(&recv.ty, &r.ty)?;
                let code = self.defer(Deferred::IntMethod { name, ty: recv.ty.clone(), a: recv.code, b: r.code });
                Ok(Val { code, ty: recv.ty })
            }
            (Ty::Int { .. }, "checked_add" | "checked_sub" | "checked_mul") if args.len() == 1 => {
                let r = self.expr(args[0], Some(&recv.ty))?;
                self.inf.unify(&recv.ty, &r.ty)?;
                let code = self.defer(Deferred::IntMethod { name, ty: recv.ty.clone(), a: recv.code, b: r.code });
                Ok(Val { code, ty: Ty::Opt(Box::new(recv.ty)) })
            }
            (Ty::Int { .. } | Ty::Bool | Ty::Named(_), "clone") if args.is_empty() => Ok(recv),
            (Ty::Named(n), _) => {
                let _ = exp;
                self.call_translated((Some(n.clone()), name), Some(&mc.receiver), &args)
            }
            (t, _) => Err(format!("method .{}() at type {:?} is not in the supported subset", name, t)),
        }
    }
}

fn strip_ref(e: &Expr) -> &Expr {
    match e {
        Expr::Reference(r) => strip_ref(&r.expr),
        Expr::Paren(p) => strip_ref(&p.expr),
        o => o,
    }
}

fn tuple_proj(base: &str, k: usize, n: usize) -> String {
    // Lean tuples are right-nested pairs
    let mut s = base.to_string();
    for _ in 0..k {
        s = format!("{}.2", s);
    }
    if k + 1 < n {
        s = format!("{}.1", s);
    }
    s
}

fn subst(t: &Ty, inst: &std::collections::HashMap<String, Ty>) -> Ty {
    match t {
        Ty::Param(p) => inst.get(p).cloned().unwrap_or_else(|| t.clone()),
        Ty::Opt(a) => Ty::Opt(Box::new(subst(a, inst))),
        Ty::Res(a, b) => Ty::Res(Box::new(subst(a, inst)), Box::new(subst(b, inst))),
        Ty::Tuple(v) => Ty::Tuple(v.iter().map(|x| subst(x, inst)).collect()),
        Ty::WarnSink(a) => Ty::WarnSink(Box::new(subst(a, inst))),
        Ty::ByteSink(a) => Ty::ByteSink(Box::new(subst(a, inst))),
        o => o.clone(),
    }
}

fn short(e: &Expr) -> String {
    let s = quote::ToTokens::to_token_stream(e).to_string();
    s.chars().take(60).collect()
}
