//! Module level: source files, item lookup, type declarations, constants, function signatures,
//! deferred (type-dependent) rendering.  Statement / expression rules live in `expr.rs`.

use crate::config::{FnTarget, Module};
use crate::types::{int_ty, Infer, Ty};
use std::collections::HashMap;
use syn::{Expr, Item};

#[path = "expr.rs"]
mod expr;

pub type R<T> = Result<T, String>;

pub struct SrcFile {
    pub rel: String,
    pub ast: syn::File,
}

#[derive(Clone, Debug)]
pub struct StructDef {
    pub lean: String,
    pub fields: Vec<(String, Ty)>,
    pub has_default: bool,
}

#[derive(Clone, Debug)]
pub struct EnumDef {
    pub lean: String,
    pub variants: Vec<String>,
    pub lower: bool,
}

#[derive(Clone, Debug)]
pub struct Param {
    pub name: String,
    pub ty: Ty,
    pub inout: bool,
}

#[derive(Clone, Debug)]
pub struct FnSig {
    pub lean: String,
    pub params: Vec<Param>,
    pub ret: Ty,
    pub type_params: Vec<String>,
    pub has_self: bool,
}

pub struct ModCtx<'a> {
    pub conf: &'a Module,
    pub files: Vec<SrcFile>,
    pub structs: HashMap<String, StructDef>,
    pub enums: HashMap<String, EnumDef>,
    /// translated functions so far: (self type, name) -> signature
    pub fns: HashMap<(Option<String>, String), FnSig>,
}

fn lower_camel(s: &str) -> String {
    let mut c = s.chars();
    match c.next() {
        Some(f) => f.to_lowercase().collect::<String>() + c.as_str(),
        None => String::new(),
    }
}

pub fn path_last(p: &syn::Path) -> String {
    p.segments.last().map(|s| s.ident.to_string()).unwrap_or_default()
}

pub fn path_str(p: &syn::Path) -> String {
    p.segments.iter().map(|s| s.ident.to_string()).collect::<Vec<_>>().join("::")
}

impl<'a> ModCtx<'a> {
    pub fn variant_lean(&self, e: &EnumDef, v: &str) -> String {
        format!("{}.{}", e.lean, if e.lower { lower_camel(v) } else { v.to_string() })
    }

    /// `const NAME: T = <expr>;` anywhere in the module's files, evaluated by the translator.
    pub fn const_value(&self, name: &str) -> R<Option<(i128, Ty)>> {
        let mut found: Option<(i128, Ty)> = None;
        for f in &self.files {
            for it in &f.ast.items {
                if let Item::Const(c) = it {
                    if c.ident == name {
                        let ty = match &*c.ty {
                            syn::Type::Path(tp) => int_ty(&path_last(&tp.path)),
                            _ => None,
                        };
                        let ty = match ty {
                            Some(t) => t,
                            None => continue,
                        };
                        let v = self.const_eval(&c.expr).map_err(|e| format!("const {} in {}: {}", name, f.rel, e))?;
                        check_range(v, &ty).map_err(|e| format!("const {}: {}", name, e))?;
                        if let Some((w, _)) = &found {
                            if *w != v {
                                return Err(format!("const {} has different values in the module's files", name));
                            }
                        }
                        found = Some((v, ty));
                    }
                }
            }
        }
        Ok(found)
    }

    pub fn const_eval(&self, e: &Expr) -> R<i128> {
        use syn::BinOp::*;
        Ok(match e {
            Expr::Lit(l) => match &l.lit {
                syn::Lit::Int(i) => i.base10_parse::<i128>().map_err(|e| e.to_string())?,
                syn::Lit::Byte(b) => b.value() as i128,
                _ => return Err("unsupported literal in constant".into()),
            },
            Expr::Paren(p) => self.const_eval(&p.expr)?,
            Expr::Group(p) => self.const_eval(&p.expr)?,
            Expr::Cast(c) => {
                let v = self.const_eval(&c.expr)?;
                let t = match &*c.ty {
                    syn::Type::Path(tp) => int_ty(&path_last(&tp.path)),
                    _ => None,
                }
                .ok_or("cast to a non-integer type in constant")?;
                wrap_to(v, &t)
            }
            Expr::Path(p) => {
                if let Some(v) = int_assoc_const(&p.path) {
                    v
                } else {
                    match self.const_value(&path_last(&p.path))? {
                        Some((v, _)) => v,
                        None => return Err(format!("unknown constant {}", path_str(&p.path))),
                    }
                }
            }
            Expr::Unary(u) => match u.op {
                syn::UnOp::Neg(_) => -self.const_eval(&u.expr)?,
                _ => return Err("unsupported unary operator in constant".into()),
            },
            Expr::Binary(b) => {
                let x = self.const_eval(&b.left)?;
                let y = self.const_eval(&b.right)?;
                match b.op {
                    Add(_) => x + y,
                    Sub(_) => x - y,
                    Mul(_) => x * y,
                    Div(_) if y != 0 => x / y,
                    Rem(_) if y != 0 => x % y,
                    Shl(_) if (0..64).contains(&y) => x << y,
                    Shr(_) if (0..64).contains(&y) => x >> y,
                    BitAnd(_) => x & y,
                    BitOr(_) => x | y,
                    BitXor(_) => x ^ y,
                    _ => return Err("unsupported operator in constant".into()),
                }
            }
            _ => return Err("unsupported constant expression".into()),
        })
    }

    pub fn find_fn(&self, t: &FnTarget) -> R<(String, Option<syn::ItemImpl>, syn::Signature, syn::Block)> {
        let mut hits = vec![];
        for f in &self.files {
            if let Some(only) = &t.file {
                if &f.rel != only {
                    continue;
                }
            }
            for it in &f.ast.items {
                match (it, &t.self_ty) {
                    (Item::Fn(fun), None) if fun.sig.ident == t.name => {
                        hits.push((f.rel.clone(), None, fun.sig.clone(), (*fun.block).clone()));
                    }
                    (Item::Impl(im), Some(st)) if im.trait_.is_none() => {
                        let is = match &*im.self_ty {
                            syn::Type::Path(tp) => path_last(&tp.path) == *st,
                            _ => false,
                        };
                        if !is {
                            continue;
                        }
                        for ii in &im.items {
                            if let syn::ImplItem::Fn(m) = ii {
                                if m.sig.ident == t.name {
                                    let mut shell = im.clone();
                                    shell.items.clear();
                                    hits.push((f.rel.clone(), Some(shell), m.sig.clone(), m.block.clone()));
                                }
                            }
                        }
                    }
                    _ => {}
                }
            }
        }
        let what = match &t.self_ty {
            Some(s) => format!("{}::{}", s, t.name),
            None => t.name.clone(),
        };
        match hits.len() {
            0 => Err(format!("function {} not found in {}", what, self.conf.files.join(", "))),
            1 => Ok(hits.pop().unwrap()),
            n => Err(format!("function {} found {} times (use file=)", what, n)),
        }
    }
}

pub fn int_assoc_const(p: &syn::Path) -> Option<i128> {
    if p.segments.len() != 2 {
        return None;
    }
    let t = int_ty(&p.segments[0].ident.to_string())?;
    let (lo, hi) = int_range(&t);
    match p.segments[1].ident.to_string().as_str() {
        "MAX" => Some(hi),
        "MIN" => Some(lo),
        _ => None,
    }
}

pub fn int_range(t: &Ty) -> (i128, i128) {
    match t {
        Ty::Int { signed: false, bits } => (0, (1i128 << bits) - 1),
        Ty::Int { signed: true, bits } => (-(1i128 << (bits - 1)), (1i128 << (bits - 1)) - 1),
        _ => (0, 0),
    }
}

pub fn check_range(v: i128, t: &Ty) -> R<()> {
    let (lo, hi) = int_range(t);
    if v < lo || v > hi {
        return Err(format!("value {} does not fit {:?}", v, t));
    }
    Ok(())
}

fn wrap_to(v: i128, t: &Ty) -> i128 {
    if let Ty::Int { signed, bits } = t {
        let m = 1i128 << bits;
        let u = v.rem_euclid(m);
        if *signed && u >= m / 2 {
            u - m
        } else {
            u
        }
    } else {
        v
    }
}

// ------------------------------------------------------------------------------------------
// deferred rendering: text whose shape depends on a type that is only known after inference

pub enum Deferred {
    /// Lean type of a Rust type
    LeanTy(Ty),
    /// integer literal at a type: `(5 : Nat)` / `(5 : Int)`
    Lit(i128, Ty),
    /// binary operator on integers/bools of type `ty` (for shifts: the type of the left operand)
    Bin { op: &'static str, ty: Ty, a: String, b: String },
    /// shift amount of type `ty` converted to `Nat` (checked: negative amounts panic)
    ShAmt { ty: Ty, a: String },
    Un { op: &'static str, ty: Ty, a: String },
    Cast { from: Ty, to: Ty, a: String },
    /// method on an integer: wrapping_add, checked_sub, saturating_mul, min, max, ...
    IntMethod { name: String, ty: Ty, a: String, b: String },
    /// `for` range of element type `ty`
    Range { ty: Ty, a: String, b: String },
    /// default value (deferred initialisation `let x;`, `Default::default()`)
    DefaultVal(Ty),
}

pub fn marker(i: usize) -> String {
    format!("\u{1}{}\u{2}", i)
}

pub fn lean_ty(m: &ModCtx, t: &Ty) -> R<String> {
    Ok(match t {
        Ty::Int { signed: false, .. } => "Nat".into(),
        Ty::Int { signed: true, .. } => "Int".into(),
        Ty::Bool => "Bool".into(),
        Ty::Unit => "Unit".into(),
        Ty::Named(n) => {
            if let Some(s) = m.structs.get(n) {
                s.lean.clone()
            } else if let Some(e) = m.enums.get(n) {
                e.lean.clone()
            } else {
                return Err(format!("unknown type {}", n));
            }
        }
        Ty::Param(p) => p.clone(),
        Ty::Ordering => "Ordering".into(),
        Ty::Opt(a) => format!("(Option {})", lean_ty(m, a)?),
        Ty::Res(a, e) => format!("(Except {} {})", lean_ty(m, e)?, lean_ty(m, a)?),
        Ty::Tuple(v) => {
            if v.is_empty() {
                "Unit".into()
            } else {
                format!("({})", v.iter().map(|x| lean_ty(m, x)).collect::<R<Vec<_>>>()?.join(" × "))
            }
        }
        Ty::Bytes(_) | Ty::ByteIter | Ty::ByteSink(_) => "(List UInt8)".into(),
        Ty::WarnSink(a) => format!("(List {})", lean_ty(m, a)?),
        Ty::Var(_) => return Err("unresolved type".into()),
        Ty::Never => "Unit".into(),
    })
}

fn default_val(m: &ModCtx, t: &Ty) -> R<String> {
    Ok(match t {
        Ty::Int { signed: false, .. } => "(0 : Nat)".into(),
        Ty::Int { signed: true, .. } => "(0 : Int)".into(),
        Ty::Bool => "false".into(),
        Ty::Unit => "()".into(),
        Ty::Named(n) => match m.structs.get(n) {
            Some(s) => {
                let fs = s.fields.iter().map(|(f, t)| Ok(format!("{} := {}", f, default_val(m, t)?))).collect::<R<Vec<_>>>()?;
                format!("({{ {} }} : {})", fs.join(", "), s.lean)
            }
            None => return Err(format!("no default value for {}", n)),
        },
        Ty::Opt(_) => "none".into(),
        Ty::Bytes(_) => "([] : List UInt8)".into(),
        o => return Err(format!("no default value for {:?}", o)),
    })
}

pub fn render(m: &ModCtx, inf: &Infer, d: &Deferred) -> R<String> {
    let res = |t: &Ty| inf.resolve(t, true);
    let sw = |t: &Ty| -> R<(bool, u32)> {
        match res(t)? {
            Ty::Int { signed, bits } => Ok((signed, bits)),
            o => Err(format!("integer operation at non-integer type {:?}", o)),
        }
    };
    Ok(match d {
        Deferred::LeanTy(t) => lean_ty(m, &res(t)?)?,
        Deferred::DefaultVal(t) => default_val(m, &res(t)?)?,
        Deferred::Lit(v, t) => {
            let t = res(t)?;
            check_range(*v, &t)?;
            match t {
                Ty::Int { signed: false, .. } => format!("({} : Nat)", v),
                Ty::Int { signed: true, .. } => format!("({} : Int)", v),
                o => return Err(format!("integer literal at type {:?}", o)),
            }
        }
        Deferred::ShAmt { ty, a } => {
            let (s, _) = sw(ty)?;
            if s {
                format!("RsSem.shamtI {}", a)
            } else {
                format!("RsSem.shamtU {}", a)
            }
        }
        Deferred::Bin { op, ty, a, b } => {
            let t = res(ty)?;
            if t == Ty::Bool {
                return Ok(match *op {
                    "and" => format!("({} && {})", a, b),
                    "or" => format!("({} || {})", a, b),
                    "xor" => format!("(RsSem.bxor {} {})", a, b),
                    "eq" => format!("({} == {})", a, b),
                    "ne" => format!("({} != {})", a, b),
                    o => return Err(format!("operator {} on bool", o)),
                });
            }
            if !matches!(t, Ty::Int { .. }) {
                return Ok(match *op {
                    "eq" => format!("({} == {})", a, b),
                    "ne" => format!("({} != {})", a, b),
                    o => return Err(format!("operator {} at type {:?}", o, t)),
                });
            }
            let (s, w) = sw(ty)?;
            let p = if s { "i" } else { "u" };
            match *op {
                "eq" => format!("({} == {})", a, b),
                "ne" => format!("({} != {})", a, b),
                "lt" => format!("(decide ({} < {}))", a, b),
                "le" => format!("(decide ({} ≤ {}))", a, b),
                "gt" => format!("(decide ({} > {}))", a, b),
                "ge" => format!("(decide ({} ≥ {}))", a, b),
                "and" | "or" | "xor" => {
                    if s {
                        format!("(RsSem.i{} {} {} {})", op, w, a, b)
                    } else {
                        let sym = match *op {
                            "and" => "&&&",
                            "or" => "|||",
                            _ => "^^^",
                        };
                        format!("({} {} {})", a, sym, b)
                    }
                }
                // fallible: rendered as a monadic action (no parentheses: used as `let t ← …`)
                "add" | "sub" | "mul" | "div" | "rem" | "shl" | "shr" => format!("RsSem.{}{} {} {} {}", p, op, w, a, b),
                o => return Err(format!("operator {}", o)),
            }
        }
        Deferred::Un { op, ty, a } => {
            let t = res(ty)?;
            match (*op, &t) {
                ("not", Ty::Bool) => format!("(!{})", a),
                ("not", Ty::Int { signed, bits }) => format!("(RsSem.{}not {} {})", if *signed { "i" } else { "u" }, bits, a),
                ("neg", Ty::Int { signed: true, bits }) => format!("RsSem.ineg {} {}", bits, a),
                _ => return Err(format!("operator {} at type {:?}", op, t)),
            }
        }
        Deferred::Cast { from, to, a } => {
            let f = res(from)?;
            let t = res(to)?;
            match (&f, &t) {
                (Ty::Bool, Ty::Int { signed, .. }) => format!("(RsSem.castBool{} {})", if *signed { "I" } else { "U" }, a),
                (Ty::Int { signed: sf, .. }, Ty::Int { signed: st, bits }) => {
                    format!("(RsSem.cast{}{} {} {})", if *sf { "I" } else { "U" }, if *st { "I" } else { "U" }, bits, a)
                }
                _ => return Err(format!("cast from {:?} to {:?}", f, t)),
            }
        }
        Deferred::IntMethod { name, ty, a, b } => {
            let (s, w) = sw(ty)?;
            let p = if s { "i" } else { "u" };
            match name.as_str() {
                "min" => format!("(Min.min {} {})", a, b),
                "max" => format!("(Max.max {} {})", a, b),
                "wrapping_add" | "wrapping_sub" | "wrapping_mul" | "checked_add" | "checked_sub" | "checked_mul"
                | "saturating_add" | "saturating_sub" | "saturating_mul" => format!("(RsSem.{}_{} {} {} {})", p, name, w, a, b),
                "cmp" => format!("(Ord.compare {} {})", a, b),
                o => return Err(format!("integer method {}", o)),
            }
        }
        Deferred::Range { ty, a, b } => {
            let (s, _) = sw(ty)?;
            format!("RsSem.{}range {} {}", if s { "i" } else { "u" }, a, b)
        }
    })
}

// ------------------------------------------------------------------------------------------

fn load_types(m: &mut ModCtx) -> R<String> {
    let mut out = String::new();
    for mt in &m.conf.maptypes {
        // mapped enum: variants are read from the Rust source
        let mut done = false;
        for f in &m.files {
            for it in &f.ast.items {
                if let Item::Enum(e) = it {
                    if e.ident == mt.rust {
                        let mut vs = vec![];
                        for v in &e.variants {
                            if !matches!(v.fields, syn::Fields::Unit) {
                                return Err(format!("enum {}: variant {} has fields", mt.rust, v.ident));
                            }
                            vs.push(v.ident.to_string());
                        }
                        m.enums.insert(mt.rust.clone(), EnumDef { lean: mt.lean.clone(), variants: vs, lower: mt.lower });
                        done = true;
                    }
                }
            }
        }
        if !done {
            return Err(format!("maptype {}: enum not found in the module's files", mt.rust));
        }
    }
    for g in &m.conf.gentypes {
        let mut done = false;
        let nfiles = m.files.len();
        for fi in 0..nfiles {
            let items: Vec<Item> = m.files[fi].ast.items.clone();
            for it in &items {
                match it {
                    Item::Struct(s) if s.ident == *g => {
                        if done {
                            return Err(format!("type {} defined twice", g));
                        }
                        let has_default = derives(&s.attrs, "Default");
                        let mut fields = vec![];
                        match &s.fields {
                            syn::Fields::Named(n) => {
                                for f in &n.named {
                                    let fname = f.ident.as_ref().unwrap().to_string();
                                    let ty = expr::convert_type(m, &f.ty, &HashMap::new(), None)
                                        .map_err(|e| format!("struct {} field {}: {}", g, fname, e))?;
                                    fields.push((fname, ty));
                                }
                            }
                            syn::Fields::Unit => {}
                            _ => return Err(format!("struct {}: tuple structs are not supported", g)),
                        }
                        out += &format!("/-- `struct {}` of {} -/\nstructure {} where\n", g, m.files[fi].rel, g);
                        if fields.is_empty() {
                            out += "  mk ::\n";
                        }
                        for (n, t) in &fields {
                            out += &format!("  {} : {}\n", n, lean_ty(m, t)?);
                        }
                        out += "  deriving DecidableEq, Repr, Inhabited\n\n";
                        m.structs.insert(g.clone(), StructDef { lean: g.clone(), fields, has_default });
                        done = true;
                    }
                    Item::Enum(e) if e.ident == *g => {
                        if done {
                            return Err(format!("type {} defined twice", g));
                        }
                        let mut vs = vec![];
                        for v in &e.variants {
                            if !matches!(v.fields, syn::Fields::Unit) {
                                return Err(format!("enum {}: variant {} has fields", g, v.ident));
                            }
                            vs.push(v.ident.to_string());
                        }
                        out += &format!("/-- `enum {}` of {} -/\ninductive {} where\n", g, m.files[fi].rel, g);
                        for v in &vs {
                            out += &format!("  | {}\n", v);
                        }
                        out += "  deriving DecidableEq, Repr, Inhabited\n\n";
                        m.enums.insert(g.clone(), EnumDef { lean: g.clone(), variants: vs, lower: false });
                        done = true;
                    }
                    _ => {}
                }
            }
        }
        if !done {
            return Err(format!("gentype {}: struct/enum not found in the module's files", g));
        }
    }
    Ok(out)
}

fn derives(attrs: &[syn::Attribute], what: &str) -> bool {
    for a in attrs {
        if a.path().is_ident("derive") {
            let mut hit = false;
            let _ = a.parse_nested_meta(|meta| {
                if meta.path.is_ident(what) {
                    hit = true;
                }
                Ok(())
            });
            if hit {
                return true;
            }
        }
    }
    false
}

pub fn translate_module(repo: &str, conf: &Module) -> R<String> {
    let mut files = vec![];
    for rel in &conf.files {
        let p = std::path::Path::new(repo).join(rel);
        let src = std::fs::read_to_string(&p).map_err(|e| format!("missing source file {}: {}", rel, e))?;
        let ast = syn::parse_file(&src).map_err(|e| format!("{}: parse error: {}", rel, e))?;
        files.push(SrcFile { rel: rel.clone(), ast });
    }
    let mut m = ModCtx { conf, files, structs: HashMap::new(), enums: HashMap::new(), fns: HashMap::new() };
    let mut out = String::new();
    out += "-- GENERATED by tools/rs2lean (via tools/extract.d/rs2lean.py) from the repository sources on every check run — do not edit\n";
    out += "import Tw.Model.RsSem\n";
    for i in &conf.imports {
        out += &format!("import {}\n", i);
    }
    out += &format!("\n/-! Lean translation of selected functions of {} (see notes/rs2lean.md). -/\n", conf.files.join(", "));
    out += &format!("namespace Tw.Gen.{}\nopen Tw Tw.RsSem\n\n", conf.name);
    out += &load_types(&mut m)?;
    for t in &conf.fns {
        let what = match &t.self_ty {
            Some(s) => format!("{}::{}", s, t.name),
            None => t.name.clone(),
        };
        let text = expr::translate_fn(&mut m, t).map_err(|e| format!("fn {}: {}", what, e))?;
        out += &text;
        out += "\n";
    }
    out += &format!("end Tw.Gen.{}\n", conf.name);
    Ok(out)
}
