//! rs2lean: translates a configured list of small, pure Rust functions of the repository under
//! test into Lean 4 definitions (do-notation in the `Tw.RsSem.Rs` panic monad).
//!
//! usage: rs2lean <repo-root> <targets.conf>
//! output (stdout): for every `module` of the configuration a block
//!     `=== <Module>.lean` followed by the file content.
//! Any construct outside the supported subset aborts with exit code 1 and a message naming the
//! item (never an approximate translation).
//!
//! Layout: `config` (target table), `types` (type language + inference), `trans` (one place per
//! construct: statements, expressions, method calls, macros).

mod config;
mod trans;
mod types;

use std::process::exit;

fn main() {
    let args: Vec<String> = std::env::args().collect();
    if args.len() != 3 {
        eprintln!("usage: rs2lean <repo-root> <targets.conf>");
        exit(2);
    }
    let conf = match std::fs::read_to_string(&args[2]) {
        Ok(s) => s,
        Err(e) => {
            eprintln!("rs2lean: cannot read {}: {}", args[2], e);
            exit(2);
        }
    };
    let modules = match config::parse(&conf) {
        Ok(m) => m,
        Err(e) => {
            eprintln!("rs2lean: {}: {}", args[2], e);
            exit(2);
        }
    };
    let mut failed = false;
    for m in &modules {
        match trans::translate_module(&args[1], m) {
            Ok(text) => {
                println!("=== {}.lean", m.name);
                print!("{}", text);
            }
            Err(e) => {
                eprintln!("rs2lean: module {}: {}", m.name, e);
                failed = true;
            }
        }
    }
    if failed {
        exit(1);
    }
}
