//! The target table (`targets.conf`), a line format:
//!
//! ```text
//! module RsPacker                      # -> lean/Tw/Gen/RsPacker.lean, namespace Tw.Gen.RsPacker
//!   file packer/src/lib.rs             # source file(s) searched for the items, in order
//!   import Tw.Model.Packer             # extra Lean imports of the generated file
//!   maptype Warning Tw.Packer.Warning lower   # Rust type -> existing Lean type (variants lowerCamel | same)
//!   gentype UnexpectedEnd              # struct / field-less enum translated from the source
//!   fn to_bit                          # free function
//!   fn Sequence::next                  # method of `impl Sequence`
//!   fn write_int fuel=5 hint=x:u32     # options: fuel for `while`/`loop`, type hints for locals
//! ```
//! Functions must be listed after the functions they call.

#[derive(Debug, Clone)]
pub struct MapType {
    pub rust: String,
    pub lean: String,
    pub lower: bool,
}

#[derive(Debug, Clone)]
pub struct FnTarget {
    pub self_ty: Option<String>,
    pub name: String,
    pub fuel: Option<u64>,
    pub hints: Vec<(String, String)>,
    /// restrict the lookup to this file (two files of a module may define the same item)
    pub file: Option<String>,
    pub lean_name: Option<String>,
}

#[derive(Debug, Clone)]
pub struct Module {
    pub name: String,
    pub files: Vec<String>,
    pub imports: Vec<String>,
    pub maptypes: Vec<MapType>,
    pub gentypes: Vec<String>,
    pub fns: Vec<FnTarget>,
}

pub fn parse(text: &str) -> Result<Vec<Module>, String> {
    let mut out: Vec<Module> = Vec::new();
    for (no, raw) in text.lines().enumerate() {
        let line = raw.split('#').next().unwrap().trim();
        if line.is_empty() {
            continue;
        }
        let w: Vec<&str> = line.split_whitespace().collect();
        let err = |m: &str| format!("line {}: {}", no + 1, m);
        if w[0] == "module" {
            if w.len() != 2 {
                return Err(err("module <Name>"));
            }
            out.push(Module {
                name: w[1].to_string(),
                files: vec![],
                imports: vec![],
                maptypes: vec![],
                gentypes: vec![],
                fns: vec![],
            });
            continue;
        }
        let m = out.last_mut().ok_or_else(|| err("entry before the first `module`"))?;
        match w[0] {
            "file" if w.len() == 2 => m.files.push(w[1].to_string()),
            "import" if w.len() == 2 => m.imports.push(w[1].to_string()),
            "maptype" if w.len() == 4 && (w[3] == "lower" || w[3] == "same") => m.maptypes.push(MapType {
                rust: w[1].to_string(),
                lean: w[2].to_string(),
                lower: w[3] == "lower",
            }),
            "gentype" if w.len() == 2 => m.gentypes.push(w[1].to_string()),
            "fn" if w.len() >= 2 => {
                let (self_ty, name) = match w[1].rsplit_once("::") {
                    Some((t, n)) => (Some(t.to_string()), n.to_string()),
                    None => (None, w[1].to_string()),
                };
                let mut t = FnTarget { self_ty, name, fuel: None, hints: vec![], file: None, lean_name: None };
                for o in &w[2..] {
                    if let Some(v) = o.strip_prefix("fuel=") {
                        t.fuel = Some(v.parse().map_err(|_| err("fuel=<n>"))?);
                    } else if let Some(v) = o.strip_prefix("hint=") {
                        let (a, b) = v.split_once(':').ok_or_else(|| err("hint=<local>:<type>"))?;
                        t.hints.push((a.to_string(), b.to_string()));
                    } else if let Some(v) = o.strip_prefix("file=") {
                        t.file = Some(v.to_string());
                    } else if let Some(v) = o.strip_prefix("as=") {
                        t.lean_name = Some(v.to_string());
                    } else {
                        return Err(err(&format!("unknown option {}", o)));
                    }
                }
                m.fns.push(t);
            }
            _ => return Err(err(&format!("cannot parse `{}`", line))),
        }
    }
    Ok(out)
}
