#!/bin/sh
# usage: tools/merge_dom.sh <name>   — merge branch dom-<name>, resolving generated files
cd /verif
n=$1
git merge --no-commit --no-ff dom-$n >/dev/null 2>&1
for f in $(git diff --name-only --diff-filter=U); do
  case "$f" in
    lean/Driver.lean|MANIFEST.json|evidence/C08.json|lean/Tw/Gen/Packer.lean|lean/Tw/Gen/Huffman.lean)
      git checkout --ours -- "$f" 2>/dev/null; git add "$f";;
    evidence/*)
      git checkout --theirs -- "$f" 2>/dev/null; git add "$f";;
  esac
done
python3 -c "
import sys; sys.path.insert(0,'tools'); import vlib; vlib.gen_sources()"
git add lean/Driver.lean
# generated model data is always regenerated from /repo (a builder may have committed a copy
# generated from its own checkout)
python3 tools/extract.py /repo lean/Tw/Gen >/dev/null 2>&1
git add lean/Tw/Gen
left=$(git diff --name-only --diff-filter=U)
if [ -n "$left" ]; then echo "UNRESOLVED in dom-$n: $left"; exit 1; fi
git commit -qm "Merge branch 'dom-$n'" 2>/dev/null && echo "merged dom-$n" || echo "dom-$n: nothing to merge"
