#!/usr/bin/env python3
"""Mutation hardening of the quick tier: each edit must produce an oracle failure (concrete replay)."""
import subprocess, sys, os, collections
REPO='/tmp/rw/teehist'; V='/tmp/vw/teehist'; F=REPO+'/teehistorian/src/raw.rs'
MUTS = {
 'input_new_not_replaced': [("let _ = self.inputs.insert(cid, i.new);",
      "if self.inputs.get(&cid).is_none() { let _ = self.inputs.insert(cid, i.new); }")],
 'prev_cmp_gt': [("self.prev_player_cid.map(|p| p >= cid)", "self.prev_player_cid.map(|p| p > cid)")],
 'tickend_after_tickstart': [("""                self.tick = old_tick.checked_add(1).ok_or(format::Error::TickOverflow)?;
                self.prev_player_cid = None;
                self.next_item_kind = Some(item_kind);
                self.in_tick = false;
                return Ok(Some(Item::TickEnd(old_tick)));""",
 """                self.tick = old_tick.checked_add(1).ok_or(format::Error::TickOverflow)?;
                self.prev_player_cid = None;
                self.next_item_kind = Some(item_kind);
                self.pending_end = Some(old_tick);
                return Ok(Some(Item::TickStart(self.tick)));"""),
   ("    in_tick: bool,\n}", "    in_tick: bool,\n    pending_end: Option<i32>,\n}"),
   ("            in_tick: false,\n        }", "            in_tick: false,\n            pending_end: None,\n        }"),
   ("        let item_kind = if let Some(ik) = self.next_item_kind.take() {",
    "        if let Some(t) = self.pending_end.take() {\n            return Ok(Some(Item::TickEnd(t)));\n        }\n        let item_kind = if let Some(ik) = self.next_item_kind.take() {")],
 'pos_saturating': [("x: self.x.wrapping_add(other.x),", "x: self.x.saturating_add(other.x),")],
 'pos_checked': [("y: self.y.wrapping_add(other.y),", "y: self.y.checked_add(other.y).unwrap_or(self.y),")],
 'maxcid_not_input_join': [("""        if let Some(cid) = item.cid() {
            self.max_cid = cmp::max(self.max_cid, cid);
        }""", """        if let Some(cid) = item.cid() {
            if !matches!(item, format::Item::InputNew(_) | format::Item::Join(_)) {
                self.max_cid = cmp::max(self.max_cid, cid);
            }
        }""")],
 'compaction_drops_byte_at_end': [("""                self.buffer.drain(0..self.offset);
                self.offset = 0;""", """                if self.offset == self.buffer.len() {
                    self.buffer.clear();
                    self.buffer.push(0);
                    self.buffer.clear();
                    self.offset = 0;
                    let mut one = [0u8; 1];
                    let _ = cb.read_at_most(&mut one);
                } else {
                    self.buffer.drain(0..self.offset);
                    self.offset = 0;
                }""")],
 'compaction_keeps_byte_at_end': [("""                self.buffer.drain(0..self.offset);
                self.offset = 0;""", """                if self.offset == self.buffer.len() {
                    self.buffer.drain(0..self.offset - 1);
                } else {
                    self.buffer.drain(0..self.offset);
                }
                self.offset = 0;""")],
 'read_kind_commits_early': [("""                maybe_item_kind = item::Kind::decode(&mut p, version);
                num_bytes_read = p.num_bytes_read();
            }""", """                maybe_item_kind = item::Kind::decode(&mut p, version);
                num_bytes_read = p.num_bytes_read();
            }
            if let Err(MaybeEnd::UnexpectedEnd) = maybe_item_kind {
                self.offset += num_bytes_read;
            }"""),
   ("""                Ok(x) => {
                    self.offset += num_bytes_read;
                    return Ok(x);
                }""", """                Ok(x) => {
                    self.offset += num_bytes_read;
                    return Ok(x);
                }""")],
 'input_diff_not_stored': [("""                for (i, d) in zip_eq(input.iter_mut(), i.diff.iter()) {
                    *i = i.wrapping_add(*d);
                }""", """                let mut tmp = *input;
                for (i, d) in zip_eq(tmp.iter_mut(), i.diff.iter()) {
                    *i = i.wrapping_add(*d);
                }
                let input = &mut tmp;""")],
 'player_old_keeps_entry': [(""".remove(&cid)
                    .ok_or(format::Error::PlayerOldWithoutNew)?;""", """.get(&cid).cloned()
                    .ok_or(format::Error::PlayerOldWithoutNew)?;""")],
 'growth_drops_last_byte': [("""                self.buffer
                    .reserve(if len < BUFFER_SIZE { BUFFER_SIZE } else { len });""", """                self.buffer
                    .reserve(if len < BUFFER_SIZE { BUFFER_SIZE } else { len });
                if len >= BUFFER_SIZE { self.buffer.truncate(len - 1); }""")],
 'growth_swaps_bytes': [("""                self.buffer
                    .reserve(if len < BUFFER_SIZE { BUFFER_SIZE } else { len });""", """                self.buffer
                    .reserve(if len < BUFFER_SIZE { BUFFER_SIZE } else { len });
                if len >= BUFFER_SIZE { self.buffer.swap(len - 1, len - 2); }""")],
 'header_magic_not_checked': [("FILE:format/mod.rs", ""), ("    if magic != UUID {\n        return Err(WrongMagic.into());\n    }", "    let _ = magic;")],
 'header_offset_not_advanced': [("                    buffer.offset += read;\n                    return Ok(header);", "                    let _ = read;\n                    return Ok(header);")],
 'some0_is_eof': [("            if cb.read_buffer(&mut self.buffer).wrap()?.is_some() {", "            if cb.read_buffer(&mut self.buffer).wrap()?.map(|b| !b.is_empty()).unwrap_or(false) {")],
 'unknown_version_accepted': [("            _ => return Err(format::Error::UnknownVersion),", "            _ => Reader::empty(format::Version::V2),")],
 'tickskip_keeps_prev (D11)': [("                self.prev_player_cid = None;\n                if self.in_tick {", "                if self.in_tick {")],
 'cids_plain_add (D25)': [("0..self.max_cid.saturating_add(1)", "0..self.max_cid + 1")],
}
def sh(cmd, cwd=None):
    return subprocess.run(cmd, cwd=cwd, shell=True, stdout=subprocess.PIPE, stderr=subprocess.STDOUT, text=True)
which = sys.argv[1:] or list(MUTS)
orig = open(F).read()
# request file: corpus + quick
req = V+'/run/mut.req'
lines = []
for p in sorted(os.listdir(V+'/corpus/teehist')):
    lines += [l.rstrip('\n') for l in open(V+'/corpus/teehist/'+p) if l.strip() and not l.startswith('#')]
lines += sh(V+'/harness/target/debug/tw-harness gen teehist quick 1').stdout.split('\n')
open(req,'w').write('\n'.join(l for l in lines if l.strip())+'\n')
try:
    for name in which:
        s = orig
        ok = True
        edits = MUTS[name]
        other = None
        if edits and edits[0][0].startswith('FILE:'):
            other = REPO + '/teehistorian/src/' + edits[0][0][5:]
            edits = edits[1:]
            oorig = open(other).read()
            s = oorig
        for a, b in edits:
            if a not in s:
                print(name, 'PATTERN NOT FOUND:', a[:60].replace('\n',' ')); ok = False; break
            s = s.replace(a, b, 1)
        if not ok: continue
        open(other or F,'w').write(s)
        r = sh('cargo build --offline --quiet -j 6 --features gamenet_typed', cwd=V+'/harness')
        if r.returncode != 0:
            print(name, 'DOES NOT COMPILE\n', r.stdout[-1500:]); continue
        r = sh('TW_HANG_SECS=120 %s/harness/target/debug/tw-harness run teehist %s %s/run/mut.impl %s/run/mut.orc' % (V, req, V, V))
        tags = collections.Counter()
        first = {}
        if os.path.exists(V+'/run/mut.orc'):
            for l in open(V+'/run/mut.orc'):
                parts = l.split(' ', 3)
                tags[parts[2]] += 1
                first.setdefault(parts[2], (parts[1], parts[3][:160].strip()))
        print('== %-30s exit=%d  %s' % (name, r.returncode, dict(tags) if tags else 'NOT CAUGHT'))
        for t,(ln,msg) in list(first.items())[:2]:
            print('     first %s: request line %s: %s' % (t, ln, msg))
        if other:
            open(other,'w').write(oorig)
        open(F,'w').write(orig)
finally:
    open(F,'w').write(orig)
    sh('cargo build --offline --quiet -j 6 --features gamenet_typed', cwd=V+'/harness')
