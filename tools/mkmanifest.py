#!/usr/bin/env python3
"""Regenerates /verif/MANIFEST.json from props/C*.json (one file per claimed property)."""
import json
import os
import sys

sys.path.insert(0, os.path.dirname(os.path.abspath(__file__)))
import vlib  # noqa: E402

NA_PATH = os.path.join(vlib.VERIF, "props", "not_applicable.json")


def main():
    checks = []
    nr_path = os.path.join(vlib.VERIF, "props", "not_ready.json")
    not_ready = json.load(open(nr_path)) if os.path.exists(nr_path) else []
    for p in vlib.all_props():
        if p in not_ready:
            continue
        c = vlib.load_prop(p)
        checks.append({
            "property_id": p,
            "quick_cmd": "./check %s quick" % p,
            "thorough_cmd": "./check %s thorough" % p,
            "evidence_file": "evidence/%s.json" % p,
            "replay_cmd_template": "./check %s --replay {path}" % p,
            "engine": "lean4-model+correspondence",
            "level_claimed": {"category": "proof", "text": c["level_text"], "design_ref": c.get("design_ref", "DESIGN.md")},
            "level_note": c["level_note"],
            "technique": c["technique"],
        })
    na = []
    if os.path.exists(NA_PATH):
        with open(NA_PATH) as f:
            na = json.load(f)
    claimed = {c["property_id"] for c in checks}
    with open(os.path.join(vlib.VERIF, "properties.jsonl")) as f:
        ids = [json.loads(l)["id"] for l in f if l.strip()]
    listed = {x["property_id"] for x in na}
    for i in ids:
        if i not in claimed and i not in listed:
            na.append({"property_id": i, "reason": "check not built yet (work in progress; see DESIGN.md section 9) — not a judgement that the technique cannot apply"})
    na = [x for x in na if x["property_id"] not in claimed]
    m = {
        "version": 1,
        "setup_cmd": "./setup.sh",
        "hooks": {
            "guard": "cargo feature libtw2_verif",
            "enable": "harness/Cargo.toml.in enables the cargo feature libtw2_verif on the path dependencies libtw2-net and libtw2-teehistorian (the only crates with hooks); every check builds the harness against /repo's working tree with it",
            "baseline_off_cmd": "cd /repo && cargo test --workspace --no-fail-fast --offline",
            "source_commits": json.load(open(os.path.join(vlib.VERIF, "props", "hooks.json")))["source_commits"] if os.path.exists(os.path.join(vlib.VERIF, "props", "hooks.json")) else [],
            "add_only": True,
        },
        "engines": [{
            "name": "lean4-model+correspondence",
            "path": "check",
            "serves_properties": sorted(claimed),
            "kind_free_text": "Lean 4 theorems (lake project lean/) about a model regenerated/tied to /repo on every run: translator tools/extract.py for constants and tables, compiled model driver lean/Driver.lean vs. Rust harness harness/ for the algorithms; property oracle and failing-input search on the implementation",
        }],
        "checks": checks,
        "notes": "See DESIGN.md. known findings: known_findings.json. Seeded breaking changes used to test the checks: seeded/.",
        "not_applicable": na,
    }
    with open(os.path.join(vlib.VERIF, "MANIFEST.json"), "w") as f:
        json.dump(m, f, indent=1)
        f.write("\n")


if __name__ == "__main__":
    main()
