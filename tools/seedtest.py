#!/usr/bin/env python3
"""seedtest.py <seed-dir> [--no-confirm] [--tier quick] [--props C08,C05]

Confirms a seeded breaking change and runs the checks against it, in a scratch git worktree of
/repo (never in /repo itself):
  1. demo passes on the unchanged tree, fails with patch.diff applied;
  2. the touched crates' existing tests still pass with the patch;
  3. ./check <prop> <tier> with VERIF_REPO pointing at the patched worktree -> expected VIOLATION.
Writes <seed-dir>/result.json and removes the worktree (with its build output) afterwards."""
import json
import os
import re
import shutil
import subprocess
import sys
import time

MAIN_VERIF = os.path.dirname(os.path.dirname(os.path.abspath(__file__)))
# Checks against a seeded change run from a dedicated worktree of /verif (committed HEAD), so that
# they never race with checks running in /verif itself and never touch its evidence/Gen files.
VERIF = os.environ.get("SEED_VERIF", "/tmp/vw/_seed")


def sh(cmd, cwd=None, timeout=3600, env=None):
    p = subprocess.run(cmd, cwd=cwd, shell=isinstance(cmd, str), stdout=subprocess.PIPE, stderr=subprocess.STDOUT,
                       text=True, timeout=timeout, env=env)
    return p.returncode, p.stdout


def main():
    args = sys.argv[1:]
    sd = os.path.abspath(args[0])
    if not os.path.exists(VERIF):
        sh(["git", "-C", MAIN_VERIF, "worktree", "add", "--detach", VERIF, "HEAD"])
    sh(["git", "-C", VERIF, "reset", "--hard", "-q"])
    sh(["git", "-C", VERIF, "checkout", "-q", "--detach", subprocess.run(["git", "-C", MAIN_VERIF, "rev-parse", "HEAD"], stdout=subprocess.PIPE, text=True).stdout.strip()])
    sh(["git", "-C", VERIF, "reset", "--hard", "-q"])
    confirm = "--no-confirm" not in args
    tier = args[args.index("--tier") + 1] if "--tier" in args else "quick"
    meta = json.load(open(os.path.join(sd, "meta.json")))
    props = args[args.index("--props") + 1].split(",") if "--props" in args else [meta["property"]]
    meta.setdefault("property", ",".join(props))
    name = os.path.basename(sd)
    wt = "/tmp/mut/" + name
    env = dict(os.environ, CARGO_NET_OFFLINE="true", CARGO_TARGET_DIR="/tmp/mut/target-" + name)
    os.makedirs("/tmp/mut", exist_ok=True)
    sh(["git", "-C", "/repo", "worktree", "remove", "--force", wt])
    rc, out = sh(["git", "-C", "/repo", "worktree", "add", "--detach", wt, "HEAD"])
    if rc != 0:
        print(out)
        return 2
    res = {"seed": name, "property": meta["property"], "ran": [], "history": []}
    # earlier runs (against earlier versions of the checks) are kept, oldest first
    if os.path.exists(os.path.join(sd, "result.json")):
        try:
            old0 = json.load(open(os.path.join(sd, "result.json")))
            res["history"] = old0.get("history", []) + [{"verif_commit": old0.get("verif_commit", "?"), "detected": old0.get("detected"), "checks": {k: v.get("line", "")[:200] for k, v in old0.get("checks", {}).items()}}]
        except Exception:
            pass
    res["verif_commit"] = subprocess.run(["git", "-C", MAIN_VERIF, "rev-parse", "--short", "HEAD"], stdout=subprocess.PIPE, text=True).stdout.strip()
    if not confirm and os.path.exists(os.path.join(sd, "result.json")):
        old = json.load(open(os.path.join(sd, "result.json")))
        for k in ("demo_without_patch", "demo_with_patch", "existing_tests_with_patch"):
            if k in old:
                res[k] = old[k]
        res["ran"] = [r for r in old.get("ran", []) if "./check" not in r]
    try:
        patch = os.path.join(sd, "patch.diff")
        if confirm:
            demo_src = os.path.join(sd, meta.get("demo_file", "demo_test.rs"))
            demo_dst = os.path.join(wt, meta["demo_path"])
            cmd = re.sub(r"cd\s+/tmp/seed/\S+\s*&&\s*", "", meta["demo_cmd"])
            os.makedirs(os.path.dirname(demo_dst), exist_ok=True)
            shutil.copy(demo_src, demo_dst)
            rc0, o0 = sh(cmd, cwd=wt, env=env)
            res["demo_without_patch"] = "pass" if rc0 == 0 else "FAIL"
            res["ran"].append("unpatched: " + cmd)
            rc, out = sh(["git", "apply", patch], cwd=wt)
            if rc != 0:
                res["apply"] = out
                print(json.dumps(res, indent=1))
                return 2
            rc1, o1 = sh(cmd, cwd=wt, env=env)
            res["demo_with_patch"] = "fail" if rc1 != 0 else "PASS(unexpected)"
            res["ran"].append("patched: " + cmd)
            os.remove(demo_dst)
            # existing tests of the touched crates
            rc, files = sh(["git", "diff", "--name-only"], cwd=wt)
            crates = sorted({f.split("/src/")[0] for f in files.split() if "/src/" in f})
            pk = []
            for c in crates:
                m = re.search(r'^name\s*=\s*"([^"]+)"', open(os.path.join(wt, c, "Cargo.toml")).read(), re.M)
                if m:
                    pk += ["-p", m.group(1)]
            tcmd = ["cargo", "test", "--offline", "--no-fail-fast"] + (pk or ["--workspace"])
            rc2, o2 = sh(tcmd, cwd=wt, env=env)
            res["existing_tests_with_patch"] = "pass" if rc2 == 0 else "FAIL"
            res["ran"].append("patched: " + " ".join(tcmd))
            if rc2 != 0:
                res["existing_tests_log"] = o2[-1500:]
        else:
            rc, out = sh(["git", "apply", patch], cwd=wt)
            if rc != 0:
                print(out)
                return 2
        # checks
        res["checks"] = {}
        for p in props:
            t0 = time.time()
            rc, out = sh([os.path.join(VERIF, "check"), p, tier], cwd=VERIF, env=dict(os.environ, VERIF_REPO=wt), timeout=7200)
            vl = [l for l in out.splitlines() if l.startswith("VIOLATION") or l.startswith("OK ")]
            detail = ""
            m = re.search(r"replay=(\S+)", " ".join(vl))
            if m and os.path.exists(m.group(1)):
                detail = open(m.group(1)).read()[:1200]
            res["checks"][p] = {"exit": rc, "line": vl[-1] if vl else out[-300:], "wall_s": round(time.time() - t0, 1), "replay_head": detail}
            res["ran"].append("VERIF_REPO=%s ./check %s %s" % (wt, p, tier))
        res["detected"] = any(c["exit"] == 1 and c["line"].startswith("VIOLATION") for c in res["checks"].values())
    finally:
        sh(["git", "-C", "/repo", "worktree", "remove", "--force", wt])
        shutil.rmtree("/tmp/mut/target-" + name, ignore_errors=True)
    with open(os.path.join(sd, "result.json"), "w") as f:
        json.dump(res, f, indent=1)
        f.write("\n")
    print(json.dumps({k: v for k, v in res.items() if k != "ran"}, indent=1)[:3000])
    return 0


if __name__ == "__main__":
    sys.exit(main())
