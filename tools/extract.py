#!/usr/bin/env python3
"""Translator: regenerates lean/Tw/Gen/*.lean from the repository's working tree.

usage: extract.py <repo> <outdir>

Each plug-in tools/extract.d/NAME.py defines `run(repo) -> {filename: content}`.  Files are
rewritten only when their content changes (so lake rebuilds exactly the dependants).  If an
expected item cannot be found the translator fails, naming the item: the tie between model and
source is then broken and ./check says so."""
import glob
import importlib.util
import os
import sys

sys.path.insert(0, os.path.dirname(os.path.abspath(__file__)))
import exlib  # noqa: E402


def main():
    repo, outdir = sys.argv[1], sys.argv[2]
    os.makedirs(outdir, exist_ok=True)
    rc = 0
    for p in sorted(glob.glob(os.path.join(os.path.dirname(os.path.abspath(__file__)), "extract.d", "*.py"))):
        spec = importlib.util.spec_from_file_location("ex_" + os.path.basename(p)[:-3], p)
        mod = importlib.util.module_from_spec(spec)
        spec.loader.exec_module(mod)
        try:
            files = mod.run(repo)
        except exlib.ExtractError as e:
            print("extract %s: %s" % (os.path.basename(p), e))
            rc = 1
            continue
        for name, content in files.items():
            path = os.path.join(outdir, name)
            old = None
            if os.path.exists(path):
                with open(path) as f:
                    old = f.read()
            if old != content:
                with open(path, "w") as f:
                    f.write(content)
                print("updated", name)
    return rc


if __name__ == "__main__":
    sys.exit(main())
