#!/usr/bin/env python3
"""Tie sensitivity for C05/C06: each genuine literal change (a number of a reader/writer function, a mask, a size
bound +-1) applied to the scratch checkout /tmp/rw/packet must make `lake build Tw.Props.C05 Tw.Props.C06` fail after
regenerating lean/Tw/Gen; the edit is reverted and Gen regenerated afterwards.  Counterpart: the behaviour-preserving
refactoring controls/R1-4/patch.diff must leave Gen/Packet6.lean unchanged (see notes/packet.md)."""
import subprocess, os, shutil
REPO='/tmp/rw/packet'; V='/tmp/vw/packet'
edits=[
 ("heuristic len==4 -> 5","net/src/protocol.rs","if payload.len() == 4 && (nul != 3","if payload.len() == 5 && (nul != 3"),
 ("padding 0xff -> 0xfe","net/src/protocol.rs","if !padding.iter().all(|&b| b == 0xff)","if !padding.iter().all(|&b| b == 0xfe)"),
 ("reason length 127 -> 128","net/src/protocol7.rs","pub const CTRLMSG_CLOSE_REASON_LENGTH: usize = 127;","pub const CTRLMSG_CLOSE_REASON_LENGTH: usize = 128;"),
 ("chunk pack mask","net/src/protocol.rs","padding_size: (size & 0b00_0000_1111) as u8,","padding_size: (size & 0b00_0001_1111) as u8,"),
 ("read limit -1","net/src/protocol7.rs","        if payload.len() > MAX_PACKETSIZE - HEADER_SIZE {\n            return Err(Compression);","        if payload.len() > MAX_PACKETSIZE - HEADER_SIZE - 1 {\n            return Err(Compression);"),
 ("token request size 519 -> 520","net/src/protocol7.rs","pub const TOKEN_REQUEST_PACKET_SIZE: usize = 519;","pub const TOKEN_REQUEST_PACKET_SIZE: usize = 520;"),
 ("compression buffer 2048 -> 2047","net/src/protocol7.rs","let mut compression_buffer: ArrayVec<[u8; 2048]>","let mut compression_buffer: ArrayVec<[u8; 2047]>"),
]
gen=os.path.join(V,'lean/Tw/Gen')
for name,rel,old,new in edits:
    p=os.path.join(REPO,rel); src=open(p).read()
    assert src.count(old)==1,(name)
    open(p,'w').write(src.replace(old,new,1))
    try:
        subprocess.run(['python3',os.path.join(V,'tools/extract.py'),REPO,gen],stdout=subprocess.DEVNULL)
        r=subprocess.run(['lake','build','Tw.Props.C05','Tw.Props.C06'],cwd=os.path.join(V,'lean'),stdout=subprocess.PIPE,stderr=subprocess.STDOUT,text=True)
        errs=[l for l in r.stdout.splitlines() if l.startswith('error: Tw/')][:2]
        print("%-34s build %s  %s"%(name,'FAILS' if r.returncode else 'passes', [e[7:60] for e in errs]))
    finally:
        open(p,'w').write(src)
subprocess.run(['python3',os.path.join(V,'tools/extract.py'),REPO,gen],stdout=subprocess.DEVNULL)
r=subprocess.run(['lake','build','Tw.Props.C05','Tw.Props.C06'],cwd=os.path.join(V,'lean'),stdout=subprocess.PIPE,stderr=subprocess.STDOUT,text=True)
print('clean:', 'ok' if r.returncode==0 else 'BROKEN')
